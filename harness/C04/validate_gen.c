/* Generates extra validation inputs for validate_refdec.sh: one message per RR type written by the library's own
 * writer (so every RDATA layout the reference decodes is exercised at least once), plus single-byte corruptions and
 * truncations of each (exercising the reject paths of both decoders).  usage: validate_gen <outdir> */
#include <stdio.h>
#include <stdlib.h>
#include <string.h>
#include "ares.h"
#include "ares_dns_record.h"

static int         g_n;
static const char *g_dir;
static void        emit(const unsigned char *m, size_t l)
{
  char  p[512];
  FILE *f;
  snprintf(p, sizeof(p), "%s/gen_%04d", g_dir, g_n++);
  f = fopen(p, "wb");
  fwrite(m, 1, l, f);
  fclose(f);
}

static void finish(ares_dns_record_t *rec)
{
  unsigned char *m = NULL;
  size_t         l = 0, i;
  if (ares_dns_write(rec, &m, &l) == ARES_SUCCESS) {
    emit(m, l);
    for (i = 0; i < l; i++) { /* truncations */
      if (i >= 12)
        emit(m, i);
    }
    for (i = 2; i < l; i++) { /* single-octet corruptions: +1, xor 0x80, set to 0xC0 */
      unsigned char save = m[i];
      m[i] = (unsigned char)(save + 1); emit(m, l);
      m[i] = (unsigned char)(save ^ 0x80); emit(m, l);
      m[i] = 0xC0; emit(m, l);
      m[i] = 0; emit(m, l);
      m[i] = save;
    }
  }
  ares_free_string(m);
  ares_dns_record_destroy(rec);
}

static ares_dns_rr_t *start(ares_dns_record_t **rec, ares_dns_rec_type_t t, ares_dns_section_t s, const char *owner)
{
  ares_dns_rr_t *rr = NULL;
  ares_dns_record_create(rec, 0x1234, ARES_FLAG_QR | ARES_FLAG_RD | ARES_FLAG_AD, ARES_OPCODE_QUERY, ARES_RCODE_NOERROR);
  ares_dns_record_query_add(*rec, "a.example", t == ARES_REC_TYPE_OPT ? ARES_REC_TYPE_A : t, ARES_CLASS_IN);
  ares_dns_record_rr_add(&rr, *rec, s, owner, t, ARES_CLASS_IN, 0x01020304);
  return rr;
}

int main(int argc, char **argv)
{
  ares_dns_record_t   *rec;
  ares_dns_rr_t       *rr;
  struct in_addr       a4;
  struct ares_in6_addr a6;
  static const unsigned char bin[] = { 1, 2, 3, 0, 255, 'x' };
  if (argc < 2)
    return 2;
  g_dir = argv[1];
  ares_library_init(ARES_LIB_INIT_ALL);
  memcpy(&a4, "\x0a\x0b\x0c\x0d", 4);
  memcpy(&a6, "\x20\x01\x0d\xb8\x00\x00\x00\x00\x00\x00\x00\x00\x00\x00\x00\x01", 16);

  rr = start(&rec, ARES_REC_TYPE_A, ARES_SECTION_ANSWER, "a.example"); ares_dns_rr_set_addr(rr, ARES_RR_A_ADDR, &a4); finish(rec);
  rr = start(&rec, ARES_REC_TYPE_AAAA, ARES_SECTION_ANSWER, "a.example"); ares_dns_rr_set_addr6(rr, ARES_RR_AAAA_ADDR, &a6); finish(rec);
  rr = start(&rec, ARES_REC_TYPE_NS, ARES_SECTION_AUTHORITY, "example"); ares_dns_rr_set_str(rr, ARES_RR_NS_NSDNAME, "ns.a.example"); finish(rec);
  rr = start(&rec, ARES_REC_TYPE_CNAME, ARES_SECTION_ANSWER, "a.example"); ares_dns_rr_set_str(rr, ARES_RR_CNAME_CNAME, "b\\.c.example"); finish(rec);
  rr = start(&rec, ARES_REC_TYPE_PTR, ARES_SECTION_ANSWER, "a.example"); ares_dns_rr_set_str(rr, ARES_RR_PTR_DNAME, "p\\000q.example"); finish(rec);
  rr = start(&rec, ARES_REC_TYPE_MX, ARES_SECTION_ANSWER, "a.example"); ares_dns_rr_set_u16(rr, ARES_RR_MX_PREFERENCE, 0x0102); ares_dns_rr_set_str(rr, ARES_RR_MX_EXCHANGE, "mx.a.example"); finish(rec);
  rr = start(&rec, ARES_REC_TYPE_SOA, ARES_SECTION_AUTHORITY, "example");
  ares_dns_rr_set_str(rr, ARES_RR_SOA_MNAME, "ns.example"); ares_dns_rr_set_str(rr, ARES_RR_SOA_RNAME, "root.example");
  ares_dns_rr_set_u32(rr, ARES_RR_SOA_SERIAL, 0x01020304); ares_dns_rr_set_u32(rr, ARES_RR_SOA_REFRESH, 0x05060708);
  ares_dns_rr_set_u32(rr, ARES_RR_SOA_RETRY, 0x090a0b0c); ares_dns_rr_set_u32(rr, ARES_RR_SOA_EXPIRE, 0x0d0e0f10);
  ares_dns_rr_set_u32(rr, ARES_RR_SOA_MINIMUM, 0x11121314); finish(rec);
  rr = start(&rec, ARES_REC_TYPE_SRV, ARES_SECTION_ANSWER, "_s._t.example"); ares_dns_rr_set_u16(rr, ARES_RR_SRV_PRIORITY, 0x0102);
  ares_dns_rr_set_u16(rr, ARES_RR_SRV_WEIGHT, 0x0304); ares_dns_rr_set_u16(rr, ARES_RR_SRV_PORT, 0x0506); ares_dns_rr_set_str(rr, ARES_RR_SRV_TARGET, "h.example"); finish(rec);
  rr = start(&rec, ARES_REC_TYPE_TXT, ARES_SECTION_ANSWER, "a.example"); ares_dns_rr_add_abin(rr, ARES_RR_TXT_DATA, bin, 6);
  ares_dns_rr_add_abin(rr, ARES_RR_TXT_DATA, bin, 0); ares_dns_rr_add_abin(rr, ARES_RR_TXT_DATA, (const unsigned char *)"hello", 5); finish(rec);
  rr = start(&rec, ARES_REC_TYPE_HINFO, ARES_SECTION_ANSWER, "a.example"); ares_dns_rr_set_str(rr, ARES_RR_HINFO_CPU, "cpu x"); ares_dns_rr_set_str(rr, ARES_RR_HINFO_OS, ""); finish(rec);
  rr = start(&rec, ARES_REC_TYPE_NAPTR, ARES_SECTION_ANSWER, "a.example"); ares_dns_rr_set_u16(rr, ARES_RR_NAPTR_ORDER, 0x0102); ares_dns_rr_set_u16(rr, ARES_RR_NAPTR_PREFERENCE, 0x0304);
  ares_dns_rr_set_str(rr, ARES_RR_NAPTR_FLAGS, "u"); ares_dns_rr_set_str(rr, ARES_RR_NAPTR_SERVICES, "E2U+sip"); ares_dns_rr_set_str(rr, ARES_RR_NAPTR_REGEXP, "!^.*$!sip:a@b!"); ares_dns_rr_set_str(rr, ARES_RR_NAPTR_REPLACEMENT, ""); finish(rec);
  rr = start(&rec, ARES_REC_TYPE_CAA, ARES_SECTION_ANSWER, "a.example"); ares_dns_rr_set_u8(rr, ARES_RR_CAA_CRITICAL, 128); ares_dns_rr_set_str(rr, ARES_RR_CAA_TAG, "issue"); ares_dns_rr_set_bin(rr, ARES_RR_CAA_VALUE, bin, 6); finish(rec);
  rr = start(&rec, ARES_REC_TYPE_URI, ARES_SECTION_ANSWER, "a.example"); ares_dns_rr_set_u16(rr, ARES_RR_URI_PRIORITY, 0x0102); ares_dns_rr_set_u16(rr, ARES_RR_URI_WEIGHT, 0x0304); ares_dns_rr_set_str(rr, ARES_RR_URI_TARGET, "https://x/"); finish(rec);
  rr = start(&rec, ARES_REC_TYPE_TLSA, ARES_SECTION_ANSWER, "_443._tcp.example"); ares_dns_rr_set_u8(rr, ARES_RR_TLSA_CERT_USAGE, 3); ares_dns_rr_set_u8(rr, ARES_RR_TLSA_SELECTOR, 1); ares_dns_rr_set_u8(rr, ARES_RR_TLSA_MATCH, 2); ares_dns_rr_set_bin(rr, ARES_RR_TLSA_DATA, bin, 6); finish(rec);
  rr = start(&rec, ARES_REC_TYPE_SVCB, ARES_SECTION_ANSWER, "a.example"); ares_dns_rr_set_u16(rr, ARES_RR_SVCB_PRIORITY, 0x0102); ares_dns_rr_set_str(rr, ARES_RR_SVCB_TARGET, "svc.example");
  ares_dns_rr_set_opt(rr, ARES_RR_SVCB_PARAMS, 1, (const unsigned char *)"\x02h2", 3); ares_dns_rr_set_opt(rr, ARES_RR_SVCB_PARAMS, 3, (const unsigned char *)"\x01\xbb", 2); ares_dns_rr_set_opt(rr, ARES_RR_SVCB_PARAMS, 2, NULL, 0); finish(rec);
  rr = start(&rec, ARES_REC_TYPE_HTTPS, ARES_SECTION_ANSWER, "a.example"); ares_dns_rr_set_u16(rr, ARES_RR_HTTPS_PRIORITY, 0); ares_dns_rr_set_str(rr, ARES_RR_HTTPS_TARGET, ""); finish(rec);
  rr = start(&rec, ARES_REC_TYPE_SIG, ARES_SECTION_ADDITIONAL, "a.example"); ares_dns_rr_set_u16(rr, ARES_RR_SIG_TYPE_COVERED, 1); ares_dns_rr_set_u8(rr, ARES_RR_SIG_ALGORITHM, 5); ares_dns_rr_set_u8(rr, ARES_RR_SIG_LABELS, 2);
  ares_dns_rr_set_u32(rr, ARES_RR_SIG_ORIGINAL_TTL, 0x01020304); ares_dns_rr_set_u32(rr, ARES_RR_SIG_EXPIRATION, 0x05060708); ares_dns_rr_set_u32(rr, ARES_RR_SIG_INCEPTION, 0x090a0b0c);
  ares_dns_rr_set_u16(rr, ARES_RR_SIG_KEY_TAG, 0x0d0e); ares_dns_rr_set_str(rr, ARES_RR_SIG_SIGNERS_NAME, "example"); ares_dns_rr_set_bin(rr, ARES_RR_SIG_SIGNATURE, bin, 6); finish(rec);
  rr = start(&rec, ARES_REC_TYPE_RAW_RR, ARES_SECTION_ANSWER, "a.example"); ares_dns_rr_set_u16(rr, ARES_RR_RAW_RR_TYPE, 99); ares_dns_rr_set_bin(rr, ARES_RR_RAW_RR_DATA, bin, 6); finish(rec);
  /* OPT with options and an extended rcode */
  ares_dns_record_create(&rec, 0x4321, ARES_FLAG_QR, ARES_OPCODE_QUERY, ARES_RCODE_BADCOOKIE);
  ares_dns_record_query_add(rec, "a.example", ARES_REC_TYPE_A, ARES_CLASS_IN);
  ares_dns_record_rr_add(&rr, rec, ARES_SECTION_ADDITIONAL, "", ARES_REC_TYPE_OPT, ARES_CLASS_IN, 0);
  ares_dns_rr_set_u16(rr, ARES_RR_OPT_UDP_SIZE, 1232); ares_dns_rr_set_u8(rr, ARES_RR_OPT_VERSION, 0); ares_dns_rr_set_u16(rr, ARES_RR_OPT_FLAGS, 0x8000);
  ares_dns_rr_set_opt(rr, ARES_RR_OPT_OPTIONS, 10, bin, 6); ares_dns_rr_set_opt(rr, ARES_RR_OPT_OPTIONS, 3, NULL, 0); finish(rec);
  printf("%d generated inputs\n", g_n);
  return 0;
}
