/* C04 shared oracle: field-by-field agreement between what the library reports through its PUBLIC getters for a parsed
 * message and what the independent reference decoder (refdec.c) extracted from the same bytes.  Used by the CBMC
 * harness (C04_CHECK = VP_ASSERT) and by the native corpus validator (C04_CHECK counts/prints). */
#ifndef C04_COMPARE_H
#define C04_COMPARE_H
#include "ares.h"
#include "ares_dns_record.h"
#include "refdec.h"

#ifndef C04_MAXTEXT
#  define C04_MAXTEXT RD_MAXTEXT
#endif

static int c04_streq(const char *a, const char *b)
{
  size_t i;
  if (a == NULL || b == NULL)
    return 0;
  for (i = 0; i < C04_MAXTEXT; i++) {
    if (a[i] != b[i])
      return 0;
    if (a[i] == 0)
      return 1;
  }
  return 0;
}

static int c04_name_is(const char *libtext, const rd_name_t *n)
{
  char text[C04_MAXTEXT + 4];
  rd_name_text(n, text);
  return c04_streq(libtext, text);
}

/* library string == the octets of a span (and NUL terminated right after) */
static int c04_str_is(const char *s, const unsigned char *msg, rd_span_t sp)
{
  size_t i;
  if (s == NULL)
    return 0;
  for (i = 0; i < sp.len; i++)
    if ((unsigned char)s[i] != msg[sp.off + i])
      return 0;
  return s[sp.len] == 0;
}

static int c04_bin_is(const unsigned char *p, size_t len, const unsigned char *msg, rd_span_t sp)
{
  size_t i;
  if (len != sp.len)
    return 0;
  if (len != 0 && p == NULL)
    return 0;
  for (i = 0; i < len; i++)
    if (p[i] != msg[sp.off + i])
      return 0;
  return 1;
}

static void c04_cmp_opts(const ares_dns_rr_t *rr, ares_dns_rr_key_t key, const unsigned char *msg, const rd_rr_t *r)
{
  size_t j;
#ifndef KF_opt_duplicate_merged
  C04_CHECK(ares_dns_rr_get_opt_cnt(rr, key) == r->nitem,
            "FINDING opt_duplicate_merged: as many options/params reported as the RDATA carries");
#endif
  if (ares_dns_rr_get_opt_cnt(rr, key) != r->nitem)
    return;
  for (j = 0; j < r->nitem; j++) {
    const unsigned char *v  = NULL;
    size_t               vl = 0;
    unsigned short       code = ares_dns_rr_get_opt(rr, key, j, &v, &vl);
    C04_CHECK(code == r->opt[j].code, "option/param code, in wire order");
    C04_CHECK(c04_bin_is(v, vl, msg, r->opt[j].val), "option/param length and value");
  }
}

static void c04_cmp_rr(const ares_dns_rr_t *rr, const unsigned char *msg, const rd_rr_t *r)
{
  ares_dns_rec_type_t t = ares_dns_rr_get_type(rr);
  size_t              j, bl = 0;
  const unsigned char *b;

  C04_CHECK(rr != NULL, "RR present");
  C04_CHECK(c04_name_is(ares_dns_rr_get_name(rr), &r->owner), "RR owner name");
  if (r->kind == RD_K_RAW) {
    C04_CHECK(t == ARES_REC_TYPE_RAW_RR, "undecoded type reported as RAW_RR");
    C04_CHECK(ares_dns_rr_get_u16(rr, ARES_RR_RAW_RR_TYPE) == r->type, "RAW_RR carries the wire type");
    b = ares_dns_rr_get_bin(rr, ARES_RR_RAW_RR_DATA, &bl);
    C04_CHECK(c04_bin_is(b, bl, msg, r->bin), "RAW_RR carries the RDATA octets");
    C04_CHECK((unsigned)ares_dns_rr_get_class(rr) == r->klass && ares_dns_rr_get_ttl(rr) == r->ttl, "class and TTL");
    return;
  }
  C04_CHECK((unsigned)t == r->type, "RR type");
  if (r->kind != RD_K_OPT)
    C04_CHECK((unsigned)ares_dns_rr_get_class(rr) == r->klass && ares_dns_rr_get_ttl(rr) == r->ttl, "class and TTL");
  switch (r->kind) {
    case RD_K_A:
      {
        const struct in_addr *a = ares_dns_rr_get_addr(rr, ARES_RR_A_ADDR);
        C04_CHECK(a != NULL, "A address present");
        for (j = 0; a != NULL && j < 4; j++)
          C04_CHECK(((const unsigned char *)a)[j] == r->addr[j], "A address octets in network order");
      }
      break;
    case RD_K_AAAA:
      {
        const struct ares_in6_addr *a = ares_dns_rr_get_addr6(rr, ARES_RR_AAAA_ADDR);
        C04_CHECK(a != NULL, "AAAA address present");
        for (j = 0; a != NULL && j < 16; j++)
          C04_CHECK(((const unsigned char *)a)[j] == r->addr[j], "AAAA address octets in network order");
      }
      break;
    case RD_K_NAME:
      {
        ares_dns_rr_key_t k = (r->type == 2) ? ARES_RR_NS_NSDNAME : (r->type == 5) ? ARES_RR_CNAME_CNAME : ARES_RR_PTR_DNAME;
        C04_CHECK(c04_name_is(ares_dns_rr_get_str(rr, k), &r->n1), "NS/CNAME/PTR target name");
      }
      break;
    case RD_K_MX:
      C04_CHECK(ares_dns_rr_get_u16(rr, ARES_RR_MX_PREFERENCE) == r->u16[0], "MX preference (big endian)");
      C04_CHECK(c04_name_is(ares_dns_rr_get_str(rr, ARES_RR_MX_EXCHANGE), &r->n1), "MX exchange");
      break;
    case RD_K_SOA:
      C04_CHECK(c04_name_is(ares_dns_rr_get_str(rr, ARES_RR_SOA_MNAME), &r->n1), "SOA MNAME");
      C04_CHECK(c04_name_is(ares_dns_rr_get_str(rr, ARES_RR_SOA_RNAME), &r->n2), "SOA RNAME");
      C04_CHECK(ares_dns_rr_get_u32(rr, ARES_RR_SOA_SERIAL) == r->u32[0], "SOA SERIAL");
      C04_CHECK(ares_dns_rr_get_u32(rr, ARES_RR_SOA_REFRESH) == r->u32[1], "SOA REFRESH");
      C04_CHECK(ares_dns_rr_get_u32(rr, ARES_RR_SOA_RETRY) == r->u32[2], "SOA RETRY");
      C04_CHECK(ares_dns_rr_get_u32(rr, ARES_RR_SOA_EXPIRE) == r->u32[3], "SOA EXPIRE");
      C04_CHECK(ares_dns_rr_get_u32(rr, ARES_RR_SOA_MINIMUM) == r->u32[4], "SOA MINIMUM");
      break;
    case RD_K_SRV:
      C04_CHECK(ares_dns_rr_get_u16(rr, ARES_RR_SRV_PRIORITY) == r->u16[0], "SRV priority");
      C04_CHECK(ares_dns_rr_get_u16(rr, ARES_RR_SRV_WEIGHT) == r->u16[1], "SRV weight");
      C04_CHECK(ares_dns_rr_get_u16(rr, ARES_RR_SRV_PORT) == r->u16[2], "SRV port");
      C04_CHECK(c04_name_is(ares_dns_rr_get_str(rr, ARES_RR_SRV_TARGET), &r->n1), "SRV target");
      break;
    case RD_K_TXT:
      C04_CHECK(ares_dns_rr_get_abin_cnt(rr, ARES_RR_TXT_DATA) == r->nitem, "TXT: number of character-strings");
      for (j = 0; j < r->nitem && j < ares_dns_rr_get_abin_cnt(rr, ARES_RR_TXT_DATA); j++) {
        b = ares_dns_rr_get_abin(rr, ARES_RR_TXT_DATA, j, &bl);
        C04_CHECK(b != NULL && c04_bin_is(b, bl, msg, r->item[j]), "TXT character-string length and octets");
      }
      break;
    case RD_K_HINFO:
      C04_CHECK(c04_str_is(ares_dns_rr_get_str(rr, ARES_RR_HINFO_CPU), msg, r->item[0]), "HINFO CPU");
      C04_CHECK(c04_str_is(ares_dns_rr_get_str(rr, ARES_RR_HINFO_OS), msg, r->item[1]), "HINFO OS");
      break;
    case RD_K_NAPTR:
      C04_CHECK(ares_dns_rr_get_u16(rr, ARES_RR_NAPTR_ORDER) == r->u16[0], "NAPTR order");
      C04_CHECK(ares_dns_rr_get_u16(rr, ARES_RR_NAPTR_PREFERENCE) == r->u16[1], "NAPTR preference");
      C04_CHECK(c04_str_is(ares_dns_rr_get_str(rr, ARES_RR_NAPTR_FLAGS), msg, r->item[0]), "NAPTR flags");
      C04_CHECK(c04_str_is(ares_dns_rr_get_str(rr, ARES_RR_NAPTR_SERVICES), msg, r->item[1]), "NAPTR services");
      C04_CHECK(c04_str_is(ares_dns_rr_get_str(rr, ARES_RR_NAPTR_REGEXP), msg, r->item[2]), "NAPTR regexp");
      C04_CHECK(c04_name_is(ares_dns_rr_get_str(rr, ARES_RR_NAPTR_REPLACEMENT), &r->n1), "NAPTR replacement");
      break;
    case RD_K_CAA:
      C04_CHECK(ares_dns_rr_get_u8(rr, ARES_RR_CAA_CRITICAL) == r->u8[0], "CAA flags octet");
      C04_CHECK(c04_str_is(ares_dns_rr_get_str(rr, ARES_RR_CAA_TAG), msg, r->item[0]), "CAA tag");
      b = ares_dns_rr_get_bin(rr, ARES_RR_CAA_VALUE, &bl);
      C04_CHECK(c04_bin_is(b, bl, msg, r->bin), "CAA value = rest of RDATA");
      break;
    case RD_K_URI:
      C04_CHECK(ares_dns_rr_get_u16(rr, ARES_RR_URI_PRIORITY) == r->u16[0], "URI priority");
      C04_CHECK(ares_dns_rr_get_u16(rr, ARES_RR_URI_WEIGHT) == r->u16[1], "URI weight");
      C04_CHECK(c04_str_is(ares_dns_rr_get_str(rr, ARES_RR_URI_TARGET), msg, r->bin), "URI target = rest of RDATA");
      break;
    case RD_K_TLSA:
      C04_CHECK(ares_dns_rr_get_u8(rr, ARES_RR_TLSA_CERT_USAGE) == r->u8[0], "TLSA certificate usage");
      C04_CHECK(ares_dns_rr_get_u8(rr, ARES_RR_TLSA_SELECTOR) == r->u8[1], "TLSA selector");
      C04_CHECK(ares_dns_rr_get_u8(rr, ARES_RR_TLSA_MATCH) == r->u8[2], "TLSA matching type");
      b = ares_dns_rr_get_bin(rr, ARES_RR_TLSA_DATA, &bl);
      C04_CHECK(c04_bin_is(b, bl, msg, r->bin), "TLSA certificate association data = rest of RDATA");
      break;
    case RD_K_SVCB:
      if (r->type == 64) {
        C04_CHECK(ares_dns_rr_get_u16(rr, ARES_RR_SVCB_PRIORITY) == r->u16[0], "SVCB priority");
        C04_CHECK(c04_name_is(ares_dns_rr_get_str(rr, ARES_RR_SVCB_TARGET), &r->n1), "SVCB target");
        c04_cmp_opts(rr, ARES_RR_SVCB_PARAMS, msg, r);
      } else {
        C04_CHECK(ares_dns_rr_get_u16(rr, ARES_RR_HTTPS_PRIORITY) == r->u16[0], "HTTPS priority");
        C04_CHECK(c04_name_is(ares_dns_rr_get_str(rr, ARES_RR_HTTPS_TARGET), &r->n1), "HTTPS target");
        c04_cmp_opts(rr, ARES_RR_HTTPS_PARAMS, msg, r);
      }
      break;
    case RD_K_OPT:
      C04_CHECK(ares_dns_rr_get_u16(rr, ARES_RR_OPT_UDP_SIZE) == r->u16[0], "OPT: CLASS field is the UDP payload size");
      C04_CHECK(ares_dns_rr_get_u8(rr, ARES_RR_OPT_VERSION) == r->u8[1], "OPT: EDNS version = TTL bits 16-23");
      C04_CHECK(ares_dns_rr_get_u16(rr, ARES_RR_OPT_FLAGS) == r->u16[1], "OPT: flags = low 16 TTL bits");
      c04_cmp_opts(rr, ARES_RR_OPT_OPTIONS, msg, r);
      break;
    case RD_K_SIG:
      C04_CHECK(ares_dns_rr_get_u16(rr, ARES_RR_SIG_TYPE_COVERED) == r->u16[0], "SIG type covered");
      C04_CHECK(ares_dns_rr_get_u8(rr, ARES_RR_SIG_ALGORITHM) == r->u8[0], "SIG algorithm");
      C04_CHECK(ares_dns_rr_get_u8(rr, ARES_RR_SIG_LABELS) == r->u8[1], "SIG labels");
      C04_CHECK(ares_dns_rr_get_u32(rr, ARES_RR_SIG_ORIGINAL_TTL) == r->u32[0], "SIG original TTL");
      C04_CHECK(ares_dns_rr_get_u32(rr, ARES_RR_SIG_EXPIRATION) == r->u32[1], "SIG expiration");
      C04_CHECK(ares_dns_rr_get_u32(rr, ARES_RR_SIG_INCEPTION) == r->u32[2], "SIG inception");
      C04_CHECK(ares_dns_rr_get_u16(rr, ARES_RR_SIG_KEY_TAG) == r->u16[1], "SIG key tag");
      C04_CHECK(c04_name_is(ares_dns_rr_get_str(rr, ARES_RR_SIG_SIGNERS_NAME), &r->n1), "SIG signer's name");
      b = ares_dns_rr_get_bin(rr, ARES_RR_SIG_SIGNATURE, &bl);
      C04_CHECK(c04_bin_is(b, bl, msg, r->bin), "SIG signature = rest of RDATA");
      break;
    default:
      C04_CHECK(0, "reference decoder produced an unknown kind");
  }
}

/* rec: the library's record for msg (accepted); ref: reference decoding of the same bytes (ref->decoded) */
static void c04_compare(const ares_dns_record_t *rec, const unsigned char *msg, const rd_msg_t *ref)
{
  unsigned short      fl = ares_dns_record_get_flags(rec);
  const char         *qn = NULL;
  ares_dns_rec_type_t qt;
  ares_dns_class_t    qc;
  size_t              i, idx[4] = { 0, 0, 0, 0 };

  C04_CHECK(ares_dns_record_get_id(rec) == ref->id, "header ID");
  C04_CHECK(!!(fl & ARES_FLAG_QR) == ref->qr, "QR = bit 15 of the flags word");
  C04_CHECK((unsigned)ares_dns_record_get_opcode(rec) == ref->opcode, "OPCODE = bits 11-14");
  C04_CHECK(!!(fl & ARES_FLAG_AA) == ref->aa, "AA = bit 10");
  C04_CHECK(!!(fl & ARES_FLAG_TC) == ref->tc, "TC = bit 9");
  C04_CHECK(!!(fl & ARES_FLAG_RD) == ref->rd, "RD = bit 8");
  C04_CHECK(!!(fl & ARES_FLAG_RA) == ref->ra, "RA = bit 7");
  C04_CHECK(!!(fl & ARES_FLAG_AD) == ref->ad, "AD = bit 5");
  C04_CHECK(!!(fl & ARES_FLAG_CD) == ref->cd, "CD = bit 4");
  C04_CHECK((fl & ~(ARES_FLAG_QR | ARES_FLAG_AA | ARES_FLAG_TC | ARES_FLAG_RD | ARES_FLAG_RA | ARES_FLAG_AD | ARES_FLAG_CD)) == 0,
            "no other flag reported");
  if (ref->has_opt <= 1) {
    /* full response code: 4 header bits, extended by the OPT RR's upper 8 bits (RFC 6891 6.1.3).  The library documents
     * that a code it has no name for is reported as SERVFAIL. */
    unsigned want = rd_rcode_assigned(ref->rcode12) ? ref->rcode12 : 2u;
    C04_CHECK((unsigned)ares_dns_record_get_rcode(rec) == want, "response code (12 bits with OPT; unassigned codes -> SERVFAIL)");
  }
  C04_CHECK(ares_dns_record_query_cnt(rec) == ref->qdcount, "question count");
  if (ares_dns_record_query_cnt(rec) >= 1 && ares_dns_record_query_get(rec, 0, &qn, &qt, &qc) == ARES_SUCCESS) {
    C04_CHECK(c04_name_is(qn, &ref->qname), "question name");
    C04_CHECK((unsigned)qt == ref->qtype && (unsigned)qc == ref->qclass, "question type and class");
  }
  C04_CHECK(ares_dns_record_rr_cnt(rec, ARES_SECTION_ANSWER) == ref->ancount, "ANCOUNT records in the answer section");
  C04_CHECK(ares_dns_record_rr_cnt(rec, ARES_SECTION_AUTHORITY) == ref->nscount, "NSCOUNT records in the authority section");
  C04_CHECK(ares_dns_record_rr_cnt(rec, ARES_SECTION_ADDITIONAL) == ref->arcount, "ARCOUNT records in the additional section");
  for (i = 0; i < ref->nrr; i++) {
    const rd_rr_t       *r  = &ref->rr[i];
    const ares_dns_rr_t *rr = ares_dns_record_rr_get_const(rec, (ares_dns_section_t)r->section, idx[r->section]++);
    if (rr == NULL) {
      C04_CHECK(0, "RR missing from its section");
      continue;
    }
    c04_cmp_rr(rr, msg, r);
  }
}

#endif
