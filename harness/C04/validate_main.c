/* Native validation of the reference decoder against the repo's fuzz corpus (and any other files given):
 * for each file run the real ares_dns_parse() and rd_decode() on the same bytes and report
 *   - acceptance disagreements: ref wellformed but parser rejects (MUST-ACCEPT), parser accepts but ref cannot decode
 *   - field disagreements through c04_compare()
 * exit 0 iff no disagreement.  Messages with more RRs/items than the reference's fixed capacity are counted as skipped. */
#include <stdio.h>
#include <stdlib.h>
#include <string.h>
static const char *g_file;
static int         g_fail, g_checks, g_known;
/* disagreements whose message starts with "FINDING " are registered known findings: reported, not counted as failures */
#define C04_CHECK(c, msg)                                      \
  do {                                                         \
    g_checks++;                                                \
    if (!(c)) {                                                \
      if (strncmp(msg, "FINDING ", 8) == 0)                    \
        g_known++;                                             \
      else                                                     \
        g_fail++;                                              \
      printf("  DISAGREE %s: %s\n", g_file, msg);              \
    }                                                          \
  } while (0)
#include "c04_compare.h"

int main(int argc, char **argv)
{
  int i, files = 0, both = 0, rejected_both = 0, skipped = 0, lenient = 0, bad = 0, wf = 0;
  static unsigned char buf[70000];
  static rd_msg_t      ref;
  ares_library_init(ARES_LIB_INIT_ALL);
  for (i = 1; i < argc; i++) {
    FILE              *f = fopen(argv[i], "rb");
    size_t             n;
    ares_dns_record_t *rec = NULL;
    ares_status_t      st;
    int                before = g_fail;
    if (f == NULL)
      continue;
    n = fread(buf, 1, sizeof(buf), f);
    fclose(f);
    files++;
    g_file = argv[i];
    st     = (n == 0) ? ARES_EFORMERR : ares_dns_parse(buf, n, 0, &rec);
    rd_decode(buf, n, &ref);
    if (ref.overflow) {
      skipped++;
    } else {
      if (ref.wellformed)
        wf++;
      if (ref.wellformed && st != ARES_SUCCESS) {
        g_fail++;
        printf("  DISAGREE %s: reference finds the message well-formed, parser rejects it (%s)\n", argv[i], ares_strerror((int)st));
      }
      if (st == ARES_SUCCESS && !ref.decoded) {
        g_fail++;
        printf("  DISAGREE %s: parser accepts a message the reference cannot decode\n", argv[i]);
      }
      if (st == ARES_SUCCESS && ref.decoded) {
        both++;
        if (!ref.wellformed)
          lenient++;
        c04_compare(rec, buf, &ref);
      }
      if (st != ARES_SUCCESS && !ref.decoded)
        rejected_both++;
    }
    if (g_fail != before)
      bad++;
    ares_dns_record_destroy(rec);
  }
  printf("refdec validation: %d files, %d accepted by both (of which %d outside the strict subset), %d well-formed per "
         "reference, %d rejected by both, %d skipped (capacity), %d field checks, %d disagreements in %d files, %d known-finding "
         "disagreements\n",
         files, both, lenient, wf, rejected_both, skipped, g_checks, g_fail, bad, g_known);
  return g_fail ? 1 : 0;
}
