/* C04 decoded records say what the wire bytes say (S2, differential against refdec.c).
 * Message (exact-size heap object of ML bytes; every byte not listed as concrete is SYMBOLIC):
 *   ID(2,sym) FLAGS(2: QR opcode AA TC RD RA Z AD CD rcode) QDCOUNT=1 counts: one RR in section SECT (NRR=0: none)
 *   question: 01 'a' 01 'b' 00 (name "a.b" at offset 12)  QTYPE(2)  QCLASS(2)
 *   The flags word, QTYPE and QCLASS are CONCRETE per message: they are validated by the record constructors
 *   (ares_dns_record_create / ares_dns_record_query_add return an error in the middle of the parse), a symbolic value
 *   makes everything the parser does afterwards symbolic and no job closes.  -DHDRS={flags,qtype,qclass},... lists
 *   the header variants driven one after the other (jobs.py enumerates every single flag bit, opcode and rcode).
 *   RR: owner = OWNER cells (default C0 0C: pointer to the question name), TYPE=RTYPE, CLASS=RCLASS (or symbolic with
 *       -DRCLASS_ANY: OPT carries the UDP size there), TTL(4,sym), RDLENGTH=RDLEN, then NB RDATA bytes = cells RD
 *   cells {1,v} concrete octet v (length octets, names, pointers), {0,0} arbitrary octet
 * The real ares_dns_parse(flags 0) and the independent reference decoder rd_decode() run on the SAME bytes:
 *   (1) reference says well-formed (supported subset, refdec.h)  =>  the parser accepts
 *   (2) the parser accepts  =>  the reference could decode, and EVERY header field, the question and every field of the
 *       RR read through the public getters equals the reference's field (c04_compare.h)
 * Record destroyed, nothing leaked, no access outside the exact-size message. */
#include "vp.h"
#define C04_CHECK(c, msg) VP_ASSERT(c, msg)
#define C04_MAXTEXT 24
#include "c04_compare.h"

#ifndef NRR
#  define NRR 1
#endif
#ifndef RTYPE
#  define RTYPE 1
#endif
#ifndef RCLASS
#  define RCLASS 1
#endif
#ifndef SECT
#  define SECT 1
#endif
#ifndef OWNER
#  define OWNER { 1, 0xC0 }, { 1, 12 }
#  define NOWN  2
#endif
#ifndef NB
#  define NB 4
#  define RD { 0, 0 }, { 0, 0 }, { 0, 0 }, { 0, 0 }
#  define RDLEN 4
#endif
#ifndef HDRS
#  define HDRS { 0x8180, 1, 1 }
#endif
#define QEND 21 /* 12 header + 5 name + 4 */
#if NRR
#  define F (QEND + NOWN + 10 + NB)
#else
#  define F QEND
#endif
#ifndef ML
#  define ML F
#endif

typedef struct {
  unsigned char kind, val;
} cell_t;

static rd_msg_t g_ref;
#define C04_MUSTACCEPT_MSG "the parser accepts every message the reference decoder finds well-formed (supported subset)"

typedef struct {
  unsigned fw, qtype, qclass;
} hdr_t;

static void one(const hdr_t *h)
{
#if NRR
  static const cell_t own[NOWN + 1] = { OWNER };
  static const cell_t rd[NB + 1]    = { RD };
  unsigned short      rclass;
  size_t              p;
#endif
  unsigned char       full[F + 1];
  unsigned char      *msg;
  ares_dns_record_t  *rec = NULL;
  ares_status_t       st;
  size_t              i;

  full[0] = vp_u8();
  full[1] = vp_u8();
  full[2] = (unsigned char)(h->fw >> 8);
  full[3] = (unsigned char)(h->fw & 0xFF);
  for (i = 4; i < 12; i++)
    full[i] = 0;
  full[5] = 1;
#if NRR
  full[5 + 2 * SECT] = 1;
#endif
  full[12] = 1;
  full[13] = 'a';
  full[14] = 1;
  full[15] = 'b';
  full[16] = 0;
  full[17] = (unsigned char)(h->qtype >> 8);
  full[18] = (unsigned char)(h->qtype & 0xFF);
  full[19] = (unsigned char)(h->qclass >> 8);
  full[20] = (unsigned char)(h->qclass & 0xFF);
#if NRR
  p = QEND;
  for (i = 0; i < NOWN; i++)
    full[p++] = own[i].kind ? own[i].val : vp_u8();
  full[p++] = (unsigned char)(RTYPE >> 8);
  full[p++] = (unsigned char)(RTYPE & 0xFF);
#  ifdef RCLASS_ANY
  rclass = vp_u16();
#  else
  rclass = RCLASS;
#  endif
  full[p++] = (unsigned char)(rclass >> 8);
  full[p++] = (unsigned char)(rclass & 0xFF);
  full[p++] = vp_u8();
  full[p++] = vp_u8();
  full[p++] = vp_u8();
  full[p++] = vp_u8();
  full[p++] = (unsigned char)(RDLEN >> 8);
  full[p++] = (unsigned char)(RDLEN & 0xFF);
  for (i = 0; i < NB; i++)
    full[p++] = rd[i].kind ? rd[i].val : vp_u8();
#endif
  msg = vp_malloc(ML ? ML : 1);
  for (i = 0; i < ML; i++)
    msg[i] = full[i];

  st = ares_dns_parse(msg, ML, 0, &rec);
  rd_decode(msg, ML, &g_ref);
  VP_ASSERT(!g_ref.overflow, "shape within the reference decoder's capacity");

  if (g_ref.wellformed) {
    VP_ASSERT(st == ARES_SUCCESS, C04_MUSTACCEPT_MSG);
    VP_WITNESS("wellformed");
  }
  if (st == ARES_SUCCESS) {
    VP_ASSERT(rec != NULL, "success returns a record");
    VP_ASSERT(g_ref.decoded, "a message the parser accepts can be decoded by the reference (all fields inside the message and RDLENGTH)");
    if (g_ref.decoded)
      c04_compare(rec, msg, &g_ref);
    VP_WITNESS("accepted");
  } else {
    VP_ASSERT(rec == NULL, "an error returns no record");
    VP_WITNESS("rejected");
  }
  ares_dns_record_destroy(rec);
  vp_free(msg);
}

void harness(void)
{
  static const hdr_t hdrs[] = { HDRS };
  size_t             i;
  vp_alloc_install();
  for (i = 0; i < sizeof(hdrs) / sizeof(*hdrs); i++)
    one(&hdrs[i]);
  VP_WITNESS("end");
}
