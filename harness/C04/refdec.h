/* Independent reference decoder for DNS messages (C04 oracle).
 * Written from the RFCs only - no c-ares header is included and no c-ares code is called:
 *   RFC 1035 4.1 (header, question, RR, name compression), 3.3/3.4 (A NS CNAME SOA PTR HINFO MX TXT), 5.1 (presentation
 *   escapes), RFC 2065/2535 (AD CD bits, SIG), RFC 3596 (AAAA), RFC 2782 (SRV), RFC 3403 (NAPTR), RFC 6891 (OPT),
 *   RFC 6698 (TLSA), RFC 7553 (URI), RFC 8659 (CAA), RFC 9460 (SVCB/HTTPS), RFC 3597 (unknown types: opaque RDATA).
 * Fixed-capacity output, no allocation.  Two verdicts per message:
 *   decoded    - every field could be extracted (all bytes the layouts need are inside the message / inside RDLENGTH)
 *   wellformed - decoded AND the message is strictly well-formed within the SUPPORTED SUBSET below
 * Supported subset (what the library documents it handles; anything outside is "no obligation", never "must reject"):
 *   exactly one question; opcode one of QUERY IQUERY STATUS NOTIFY UPDATE; RR class IN CH HS NONE (ANY only for SIG);
 *   RR type ANY(255) is not an RR type; fixed layouts fill RDLENGTH exactly; <character-string> fields of HINFO, NAPTR,
 *   CAA tag and the URI target are printable ASCII; CAA tag and CAA value non-empty (RFC 8659 allows an empty value,
 *   the library deliberately does not); TLSA data, SIG signature and URI target non-empty; names <= 255 octets,
 *   labels <= 63, compression pointers strictly backwards; SVCB/HTTPS parameter keys strictly ascending. */
#ifndef REFDEC_H
#define REFDEC_H
#include <stddef.h>
#include <stdint.h>

#define RD_MAXNAME 256 /* uncompressed wire form incl. the terminating zero octet */
#define RD_MAXTEXT 1025
#ifndef RD_MAXRR
#  define RD_MAXRR 4
#endif
#ifndef RD_MAXITEM
#  define RD_MAXITEM 8 /* TXT strings / options / params per RR */
#endif

typedef struct {
  uint8_t wire[RD_MAXNAME]; /* length octet + label octets ..., terminating 0 */
  size_t  len;              /* octets used in wire[] */
} rd_name_t;

typedef struct {
  size_t off; /* offset of the first value octet in the message */
  size_t len;
} rd_span_t;

typedef struct {
  uint16_t  code;
  rd_span_t val;
} rd_opt_t;

/* layout kinds */
enum {
  RD_K_RAW = 0, /* opaque RDATA (unknown type) */
  RD_K_A,
  RD_K_AAAA,
  RD_K_NAME,  /* NS CNAME PTR: n1 */
  RD_K_MX,    /* u16[0] preference, n1 exchange */
  RD_K_SOA,   /* n1 mname, n2 rname, u32[0..4] serial refresh retry expire minimum */
  RD_K_SRV,   /* u16[0..2] priority weight port, n1 target */
  RD_K_TXT,   /* item[0..nitem) character-strings */
  RD_K_HINFO, /* item[0] cpu, item[1] os */
  RD_K_NAPTR, /* u16[0] order u16[1] preference, item[0..2] flags services regexp, n1 replacement */
  RD_K_CAA,   /* u8[0] flags, item[0] tag, bin value */
  RD_K_URI,   /* u16[0] priority u16[1] weight, bin target */
  RD_K_TLSA,  /* u8[0..2] usage selector matching-type, bin data */
  RD_K_SVCB,  /* u16[0] priority, n1 target, opt[0..nitem) params (also HTTPS) */
  RD_K_OPT,   /* u16[0] udp size (CLASS), u8[0] extended rcode, u8[1] version, u16[1] flags (TTL), opt[] options */
  RD_K_SIG    /* u16[0] type covered, u8[0] algorithm, u8[1] labels, u32[0..2] original ttl, expiration, inception,
                 u16[1] key tag, n1 signer, bin signature */
};

typedef struct {
  int       section; /* 1 answer, 2 authority, 3 additional */
  rd_name_t owner;
  uint16_t  type, klass;
  uint32_t  ttl;
  uint16_t  rdlength;
  size_t    rdata_off;
  int       kind;
  uint8_t   addr[16];
  rd_name_t n1, n2;
  uint32_t  u32[5];
  uint16_t  u16[3];
  uint8_t   u8[3];
  rd_span_t item[RD_MAXITEM];
  rd_opt_t  opt[RD_MAXITEM];
  size_t    nitem;
  rd_span_t bin;
  int       strict; /* this RR is strictly well-formed within the supported subset */
} rd_rr_t;

typedef struct {
  /* header, RFC 1035 4.1.1 + RFC 2535 6.1 */
  uint16_t id;
  uint8_t  qr, opcode, aa, tc, rd, ra, z, ad, cd, rcode4;
  uint16_t qdcount, ancount, nscount, arcount;
  /* first question */
  rd_name_t qname;
  uint16_t  qtype, qclass;
  /* resource records in message order */
  rd_rr_t rr[RD_MAXRR];
  size_t  nrr;
  /* RFC 6891 6.1.3: full response code = extended (upper 8 bits) << 4 | header RCODE, when an OPT RR is present */
  int      has_opt; /* number of OPT RRs seen (RFC 6891 6.1.1: at most one; more => not well-formed) */
  uint16_t rcode12; /* taken from the first OPT RR */
  int      decoded;
  int      wellformed;
  int      overflow; /* message has more RRs/items than the fixed capacity: no verdict */
} rd_msg_t;

/* returns out->decoded */
int rd_decode(const uint8_t *msg, size_t len, rd_msg_t *out);

/* RFC 1035 5.1 presentation form of a decoded name: labels joined by '.', no trailing dot, root = "";
 * octets outside 0x21..0x7E -> "\DDD" (space is printable here: 0x20..0x7E literal), the characters " . ; \ ( ) @ $
 * -> backslash + character.  Returns the text length; text must hold RD_MAXTEXT bytes. */
size_t rd_name_text(const rd_name_t *n, char *text);

/* assigned response codes (IANA DNS RCODEs registry as of RFC 8945/7873): 0-11, 16-23 */
int rd_rcode_assigned(unsigned rc);

#endif
