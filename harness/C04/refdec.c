/* Independent reference decoder for DNS messages - see refdec.h.  No c-ares headers, no allocation. */
#include "refdec.h"

/* ---- primitives ------------------------------------------------------------------------------------------------ */
static int have(size_t pos, size_t n, size_t end)
{
  return pos <= end && n <= end - pos;
}

static uint16_t be16(const uint8_t *m, size_t pos)
{
  return (uint16_t)(((unsigned)m[pos] << 8) | m[pos + 1]);
}

static uint32_t be32(const uint8_t *m, size_t pos)
{
  return ((uint32_t)m[pos] << 24) | ((uint32_t)m[pos + 1] << 16) | ((uint32_t)m[pos + 2] << 8) | m[pos + 3];
}

static int printable(const uint8_t *m, size_t off, size_t n)
{
  size_t i;
  for (i = 0; i < n; i++)
    if (m[off + i] < 0x20 || m[off + i] > 0x7E)
      return 0;
  return 1;
}

/* RFC 1035 4.1.4.  Decodes the name starting at *pos; on success *pos is the offset just after the name as it appears
 * in place (after the first pointer, or after the zero octet).  A pointer must lead to a PRIOR occurrence: strictly
 * before the start of the label sequence it belongs to (this also rules out loops).  *compressed is set when a pointer
 * was followed. */
static int rd_name(const uint8_t *m, size_t len, size_t *pos, rd_name_t *out, int *compressed)
{
  size_t p = *pos, limit = *pos, after = 0, steps;
  int    jumped = 0;

  out->len    = 0;
  *compressed = 0;
  for (steps = 0; steps < 2 * RD_MAXNAME; steps++) {
    uint8_t c;
    if (p >= len)
      return 0;
    c = m[p];
    if ((c & 0xC0) == 0xC0) {
      size_t target;
      if (p + 1 >= len)
        return 0;
      target = ((size_t)(c & 0x3F) << 8) | m[p + 1];
      if (target >= limit)
        return 0;
      if (!jumped) {
        after  = p + 2;
        jumped = 1;
      }
      *compressed = 1;
      p           = target;
      limit       = target;
      continue;
    }
    if ((c & 0xC0) != 0)
      return 0; /* 01 / 10 label types are reserved */
    if (c == 0) {
      if (out->len + 1 > RD_MAXNAME)
        return 0;
      out->wire[out->len++] = 0;
      if (!jumped)
        after = p + 1;
      *pos = after;
      return 1;
    }
    /* ordinary label of c octets */
    if (!have(p + 1, c, len))
      return 0;
    if (out->len + 1 + (size_t)c + 1 > RD_MAXNAME)
      return 0; /* names are limited to 255 octets (RFC 1035 2.3.4) */
    {
      size_t k;
      out->wire[out->len++] = c;
      for (k = 0; k < c; k++)
        out->wire[out->len++] = m[p + 1 + k];
    }
    p += 1 + (size_t)c;
  }
  return 0;
}

size_t rd_name_text(const rd_name_t *n, char *text)
{
  size_t i = 0, t = 0;
  while (i < n->len && n->wire[i] != 0) {
    size_t l = n->wire[i++], k;
    if (t != 0)
      text[t++] = '.';
    for (k = 0; k < l; k++) {
      uint8_t c = n->wire[i++];
      if (c < 0x20 || c > 0x7E) {
        text[t++] = '\\';
        text[t++] = (char)('0' + c / 100);
        text[t++] = (char)('0' + (c / 10) % 10);
        text[t++] = (char)('0' + c % 10);
      } else {
        if (c == '"' || c == '.' || c == ';' || c == '\\' || c == '(' || c == ')' || c == '@' || c == '$')
          text[t++] = '\\';
        text[t++] = (char)c;
      }
    }
  }
  text[t] = 0;
  return t;
}

int rd_rcode_assigned(unsigned rc)
{
  return rc <= 11 || (rc >= 16 && rc <= 23);
}

/* ---- RDATA layouts --------------------------------------------------------------------------------------------- */
/* <character-string>: one length octet + that many octets, inside [*pos, end) */
static int rd_charstr(const uint8_t *m, size_t *pos, size_t end, rd_span_t *out)
{
  size_t l;
  if (!have(*pos, 1, end))
    return 0;
  l = m[*pos];
  if (!have(*pos + 1, l, end))
    return 0;
  out->off = *pos + 1;
  out->len = l;
  *pos += 1 + l;
  return 1;
}

/* {code u16, length u16, value} lists of OPT (RFC 6891 6.1.2) and SVCB (RFC 9460 2.2) */
static int rd_tlvs(const uint8_t *m, size_t *pos, size_t end, rd_rr_t *rr, int *overflow, int *ascending)
{
  int first = 1;
  *ascending = 1;
  rr->nitem  = 0;
  while (*pos < end) {
    uint16_t code, l;
    if (!have(*pos, 4, end))
      return 0;
    code = be16(m, *pos);
    l    = be16(m, *pos + 2);
    if (!have(*pos + 4, l, end))
      return 0;
    if (rr->nitem >= RD_MAXITEM) {
      *overflow = 1;
      return 0;
    }
    if (!first && code <= rr->opt[rr->nitem - 1].code)
      *ascending = 0;
    first                      = 0;
    rr->opt[rr->nitem].code    = code;
    rr->opt[rr->nitem].val.off = *pos + 4;
    rr->opt[rr->nitem].val.len = l;
    rr->nitem++;
    *pos += 4 + (size_t)l;
  }
  return 1;
}

static int class_supported(uint16_t klass, uint16_t type)
{
  if (klass == 1 || klass == 3 || klass == 4 || klass == 254)
    return 1;
  if (klass == 255 && type == 24)
    return 1;
  return 0;
}

/* decodes the RDATA of rr (window [rr->rdata_off, +rdlength)); returns 0 when a field does not fit */
static int rd_rdata(const uint8_t *m, size_t len, rd_rr_t *rr, int *overflow)
{
  size_t pos = rr->rdata_off, end = rr->rdata_off + rr->rdlength;
  int    comp = 0, comp2 = 0, asc = 1, extra_ok = 1; /* extra_ok: strictness conditions beyond "fills RDLENGTH exactly" */
  size_t i;

  rr->nitem   = 0;
  rr->bin.off = end;
  rr->bin.len = 0;
  switch (rr->type) {
    case 1: /* A: 32 bit address */
      rr->kind = RD_K_A;
      if (!have(pos, 4, end))
        return 0;
      for (i = 0; i < 4; i++)
        rr->addr[i] = m[pos + i];
      pos += 4;
      break;
    case 28: /* AAAA: 128 bit address */
      rr->kind = RD_K_AAAA;
      if (!have(pos, 16, end))
        return 0;
      for (i = 0; i < 16; i++)
        rr->addr[i] = m[pos + i];
      pos += 16;
      break;
    case 2:  /* NS */
    case 5:  /* CNAME */
    case 12: /* PTR */
      rr->kind = RD_K_NAME;
      if (!rd_name(m, len, &pos, &rr->n1, &comp) || pos > end)
        return 0;
      break;
    case 15: /* MX: preference, exchange */
      rr->kind = RD_K_MX;
      if (!have(pos, 2, end))
        return 0;
      rr->u16[0] = be16(m, pos);
      pos += 2;
      if (!rd_name(m, len, &pos, &rr->n1, &comp) || pos > end)
        return 0;
      break;
    case 6: /* SOA: mname rname serial refresh retry expire minimum */
      rr->kind = RD_K_SOA;
      if (!rd_name(m, len, &pos, &rr->n1, &comp) || pos > end)
        return 0;
      if (!rd_name(m, len, &pos, &rr->n2, &comp2) || pos > end)
        return 0;
      if (!have(pos, 20, end))
        return 0;
      for (i = 0; i < 5; i++)
        rr->u32[i] = be32(m, pos + 4 * i);
      pos += 20;
      break;
    case 33: /* SRV (RFC 2782): priority weight port target */
      rr->kind = RD_K_SRV;
      if (!have(pos, 6, end))
        return 0;
      for (i = 0; i < 3; i++)
        rr->u16[i] = be16(m, pos + 2 * i);
      pos += 6;
      if (!rd_name(m, len, &pos, &rr->n1, &comp) || pos > end)
        return 0;
      break;
    case 16: /* TXT: one or more <character-string> */
      rr->kind = RD_K_TXT;
      if (pos >= end)
        return 0;
      while (pos < end) {
        if (rr->nitem >= RD_MAXITEM) {
          *overflow = 1;
          return 0;
        }
        if (!rd_charstr(m, &pos, end, &rr->item[rr->nitem]))
          return 0;
        rr->nitem++;
      }
      break;
    case 13: /* HINFO: CPU OS */
      rr->kind = RD_K_HINFO;
      if (!rd_charstr(m, &pos, end, &rr->item[0]) || !rd_charstr(m, &pos, end, &rr->item[1]))
        return 0;
      rr->nitem = 2;
      extra_ok  = printable(m, rr->item[0].off, rr->item[0].len) && printable(m, rr->item[1].off, rr->item[1].len);
      break;
    case 35: /* NAPTR (RFC 3403 4.1): order preference flags services regexp replacement */
      rr->kind = RD_K_NAPTR;
      if (!have(pos, 4, end))
        return 0;
      rr->u16[0] = be16(m, pos);
      rr->u16[1] = be16(m, pos + 2);
      pos += 4;
      for (i = 0; i < 3; i++)
        if (!rd_charstr(m, &pos, end, &rr->item[i]))
          return 0;
      rr->nitem = 3;
      if (!rd_name(m, len, &pos, &rr->n1, &comp) || pos > end)
        return 0;
      extra_ok = printable(m, rr->item[0].off, rr->item[0].len) && printable(m, rr->item[1].off, rr->item[1].len) &&
                 printable(m, rr->item[2].off, rr->item[2].len);
      break;
    case 257: /* CAA (RFC 8659 4.1): flags, tag length, tag, value = rest */
      rr->kind = RD_K_CAA;
      if (!have(pos, 1, end))
        return 0;
      rr->u8[0] = m[pos++];
      if (!rd_charstr(m, &pos, end, &rr->item[0]))
        return 0;
      rr->nitem   = 1;
      rr->bin.off = pos;
      rr->bin.len = end - pos;
      pos         = end;
      /* RFC 8659 lets the value be empty; the library deliberately requires a non-empty one (parser and writer), so an
       * empty value is outside the supported subset */
      extra_ok    = rr->item[0].len >= 1 && printable(m, rr->item[0].off, rr->item[0].len) && rr->bin.len >= 1;
      break;
    case 256: /* URI (RFC 7553 4.5): priority weight target = rest, not length prefixed */
      rr->kind = RD_K_URI;
      if (!have(pos, 4, end))
        return 0;
      rr->u16[0]  = be16(m, pos);
      rr->u16[1]  = be16(m, pos + 2);
      pos        += 4;
      rr->bin.off = pos;
      rr->bin.len = end - pos;
      pos         = end;
      extra_ok    = rr->bin.len >= 1 && printable(m, rr->bin.off, rr->bin.len);
      break;
    case 52: /* TLSA (RFC 6698 2.1): usage selector matching-type data = rest */
      rr->kind = RD_K_TLSA;
      if (!have(pos, 3, end))
        return 0;
      for (i = 0; i < 3; i++)
        rr->u8[i] = m[pos + i];
      pos        += 3;
      rr->bin.off = pos;
      rr->bin.len = end - pos;
      pos         = end;
      extra_ok    = rr->bin.len >= 1;
      break;
    case 64: /* SVCB */
    case 65: /* HTTPS (RFC 9460 2.2): priority, target (uncompressed), params in strictly ascending key order */
      rr->kind = RD_K_SVCB;
      if (!have(pos, 2, end))
        return 0;
      rr->u16[0] = be16(m, pos);
      pos += 2;
      if (!rd_name(m, len, &pos, &rr->n1, &comp) || pos > end)
        return 0;
      if (!rd_tlvs(m, &pos, end, rr, overflow, &asc))
        return 0;
      extra_ok = asc && !comp;
      break;
    case 41: /* OPT (RFC 6891 6.1.2): CLASS = UDP payload size, TTL = ext-rcode | version | DO Z, options */
      rr->kind   = RD_K_OPT;
      rr->u16[0] = rr->klass;
      rr->u8[0]  = (uint8_t)(rr->ttl >> 24);
      rr->u8[1]  = (uint8_t)((rr->ttl >> 16) & 0xFF);
      rr->u16[1] = (uint16_t)(rr->ttl & 0xFFFF);
      if (!rd_tlvs(m, &pos, end, rr, overflow, &asc))
        return 0;
      break;
    case 24: /* SIG (RFC 2535 4.1) */
      rr->kind = RD_K_SIG;
      if (!have(pos, 18, end))
        return 0;
      rr->u16[0] = be16(m, pos);
      rr->u8[0]  = m[pos + 2];
      rr->u8[1]  = m[pos + 3];
      rr->u32[0] = be32(m, pos + 4);
      rr->u32[1] = be32(m, pos + 8);
      rr->u32[2] = be32(m, pos + 12);
      rr->u16[1] = be16(m, pos + 16);
      pos += 18;
      if (!rd_name(m, len, &pos, &rr->n1, &comp) || pos > end)
        return 0;
      rr->bin.off = pos;
      rr->bin.len = end - pos;
      pos         = end;
      extra_ok    = rr->bin.len >= 1;
      break;
    default: /* RFC 3597: opaque */
      rr->kind    = RD_K_RAW;
      rr->bin.off = pos;
      rr->bin.len = end - pos;
      pos         = end;
      /* QTYPE-only codes are not RR types */
      extra_ok = !(rr->type >= 252 && rr->type <= 255);
      break;
  }
  (void)comp2;
  rr->strict = (pos == end) && extra_ok;
  if (rr->kind != RD_K_RAW && rr->kind != RD_K_OPT && !class_supported(rr->klass, rr->type))
    rr->strict = 0;
  return 1;
}

/* ---- message ---------------------------------------------------------------------------------------------------- */
int rd_decode(const uint8_t *m, size_t len, rd_msg_t *o)
{
  size_t   pos, total, i;
  uint16_t w;
  int      comp = 0, strict = 1;
  rd_name_t skip;

  o->decoded = o->wellformed = o->overflow = 0;
  o->nrr = 0;
  o->has_opt = 0;
  if (len < 12 || len > 65535)
    return 0;
  o->id      = be16(m, 0);
  w          = be16(m, 2);
  o->qr      = (uint8_t)((w >> 15) & 1);
  o->opcode  = (uint8_t)((w >> 11) & 0xF);
  o->aa      = (uint8_t)((w >> 10) & 1);
  o->tc      = (uint8_t)((w >> 9) & 1);
  o->rd      = (uint8_t)((w >> 8) & 1);
  o->ra      = (uint8_t)((w >> 7) & 1);
  o->z       = (uint8_t)((w >> 6) & 1);
  o->ad      = (uint8_t)((w >> 5) & 1);
  o->cd      = (uint8_t)((w >> 4) & 1);
  o->rcode4  = (uint8_t)(w & 0xF);
  o->qdcount = be16(m, 4);
  o->ancount = be16(m, 6);
  o->nscount = be16(m, 8);
  o->arcount = be16(m, 10);
  o->rcode12 = o->rcode4;
  pos        = 12;

  if (!(o->opcode == 0 || o->opcode == 1 || o->opcode == 2 || o->opcode == 4 || o->opcode == 5))
    strict = 0;
  if (o->qdcount != 1)
    strict = 0;
  /* questions: the first one is reported, further ones are only walked */
  for (i = 0; i < o->qdcount; i++) {
    rd_name_t *dst = (i == 0) ? &o->qname : &skip;
    if (!rd_name(m, len, &pos, dst, &comp))
      return 0;
    if (!have(pos, 4, len))
      return 0;
    if (i == 0) {
      o->qtype  = be16(m, pos);
      o->qclass = be16(m, pos + 2);
      if (!(o->qclass == 1 || o->qclass == 3 || o->qclass == 4 || o->qclass == 254 || o->qclass == 255))
        strict = 0;
    }
    pos += 4;
    if (i >= 1) {
      strict = 0;
    }
  }
  total = (size_t)o->ancount + o->nscount + o->arcount;
  for (i = 0; i < total; i++) {
    rd_rr_t *rr;
    if (o->nrr >= RD_MAXRR) {
      o->overflow = 1;
      return 0;
    }
    rr          = &o->rr[o->nrr];
    rr->section = (i < o->ancount) ? 1 : (i < (size_t)o->ancount + o->nscount) ? 2 : 3;
    if (!rd_name(m, len, &pos, &rr->owner, &comp))
      return 0;
    if (!have(pos, 10, len))
      return 0;
    rr->type     = be16(m, pos);
    rr->klass    = be16(m, pos + 2);
    rr->ttl      = be32(m, pos + 4);
    rr->rdlength = be16(m, pos + 8);
    pos += 10;
    if (!have(pos, rr->rdlength, len))
      return 0;
    rr->rdata_off = pos;
    if (!rd_rdata(m, len, rr, &o->overflow))
      return 0;
    if (!rr->strict)
      strict = 0;
    if (rr->type == 41) {
      /* RFC 6891 6.1.3: upper 8 bits of the 12-bit RCODE */
      if (o->has_opt == 0)
        o->rcode12 = (uint16_t)(((unsigned)rr->u8[0] << 4) | o->rcode4);
      else
        strict = 0;
      o->has_opt++;
    }
    pos += rr->rdlength;
    o->nrr++;
  }
  o->decoded    = 1;
  o->wellformed = strict;
  return 1;
}
