import os
OUTSIDE = ("messages with more than one resource record or question; names other than the stated concrete ones (their "
           "octets decide every length); RDATA sizes beyond the stated shapes; the presentation-escaping of arbitrary label "
           "octets beyond the stated escapes_* texts (C02 name_shape_*); CAA records with an empty value (legal per RFC 8659, deliberately refused "
           "by the library's parser and writer: outside the supported subset)")
ASSUMPTIONS = [
    "the oracle is harness/C04/refdec.c, an independent decoder written from RFC 1035/2535/2782/3403/3596/3597/6698/6891/"
    "7553/8659/9460 (no c-ares code); it is validated natively against the real parser over test/fuzzinput and ~4900 "
    "generated inputs by harness/C04/validate_refdec.sh",
    "'well-formed' means well-formed within the supported subset stated in refdec.h (one question, the five opcodes and "
    "four classes the library names, printable character-strings, strictly ascending SVCB keys, exact RDLENGTH); outside "
    "it the parser may accept or reject, but whatever it accepts must agree field by field",
    "a response code the library has no name for is reported as SERVFAIL (documented in ares_dns_parse_buf)",
]

REC = ["src/lib/record/ares_dns_mapping.c", "src/lib/record/ares_dns_multistring.c", "src/lib/record/ares_dns_name.c",
       "src/lib/record/ares_dns_parse.c", "src/lib/record/ares_dns_record.c", "src/lib/record/ares_dns_write.c"]
BASE = ["src/lib/str/ares_buf.c", "src/lib/str/ares_str.c", "src/lib/dsa/ares_array.c", "src/lib/dsa/ares_llist.c",
        "src/lib/util/ares_math.c", "src/lib/ares_library_init.c", "src/lib/ares_free_string.c"]
LIB = REC + BASE
SUP = ["vp_rt.c", "valloc.c", "memloops.c", "../C03/c03_mem.c", "refdec.c"]

A = "A"
PTRQ = [0xC0, 12]            # pointer to the question name a.b
NAME_C = [1, ord("c")] + PTRQ  # c.a.b
NAME_X = [1, ord("x"), 0]      # x


def S(text):
    return [len(text)] + [ord(c) for c in text]


# (shape name, wire type, class (None = symbolic), section, RDATA tokens, must-accept?, tier)
SHAPES = [
    ("A", 1, 1, 1, [A] * 4, True, "quick"),
    ("AAAA", 28, 1, 1, [A] * 16, True, "quick"),
    ("NS", 2, 1, 2, NAME_C, True, "quick"),
    ("CNAME", 5, 1, 1, PTRQ, True, "quick"),
    # compression pointers that are not strictly backwards: to itself, to the start of its own name, forwards
    ("NS_selfptr", 2, 1, 1, [0xC0, 33], False, "quick"),
    ("NS_ownstart", 2, 1, 1, [1, ord("x"), 0xC0, 33], False, "quick"),
    ("NS_fwdptr", 2, 1, 1, [0xC0, 35, 0], False, "quick"),
    ("PTR", 12, 1, 1, NAME_X, True, "quick"),
    ("MX", 15, 1, 1, [A, A] + NAME_C, True, "quick"),
    ("SOA", 6, 1, 2, NAME_C + NAME_X + [A] * 20, True, "quick"),
    ("SRV", 33, 1, 3, [A] * 6 + NAME_X, True, "quick"),
    ("TXT1", 16, 1, 1, [3, A, A, A], True, "quick"),
    ("TXT3", 16, 3, 1, [0, 1, A, 2, A, A], True, "quick"),
    # one symbolic character-string per shape: two make the job 40x slower (188 s), see C02's note on NAPTR
    ("HINFO", 13, 1, 1, [2, ord("p"), ord("c"), 1, A], True, "quick"),
    ("HINFO_cpu", 13, 1, 1, [2, A, A, 0], True, "thorough"),
    ("HINFO_both", 13, 1, 1, [2, A, A, 1, A], True, "thorough"),
    ("NAPTR", 35, 1, 1, [A, A, A, A] + S("u") + S("sv") + [0] + NAME_X, True, "quick"),
    ("CAA", 257, 1, 1, [A, 2, A, A, A, A, A], True, "quick"),
    ("CAA_novalue", 257, 1, 1, [A, 2, A, A], False, "quick"),  # empty value: outside the supported subset, parser refuses
    ("URI", 256, 1, 1, [A] * 4 + [A] * 3, True, "quick"),
    ("TLSA", 52, 1, 1, [A] * 3 + [A] * 4, True, "quick"),
    ("SIG", 24, 255, 3, [A] * 18 + NAME_X + [A] * 3, True, "quick"),
    ("SVCB0", 64, 1, 1, [A, A, 0], True, "quick"),
    ("SVCB1", 64, 1, 1, [A, A] + NAME_X + [A, A, 0, 2, A, A], True, "quick"),
    ("HTTPS2", 65, 1, 1, [A, A] + NAME_X + [A, A, 0, 1, A, A, A, 0, 0], True, "quick"),
    ("OPT0", 41, None, 3, [], True, "quick"),
    ("OPT1", 41, None, 3, [A, A, 0, 2, A, A], True, "quick"),
    ("OPT2", 41, None, 3, [A, A, 0, 0, A, A, 0, 1, A], True, "quick"),
    ("UNK99", 99, 1, 1, [A] * 3, True, "quick"),
    ("UNK99_empty", 99, 7, 2, [], True, "quick"),
    ("UNK65280_empty", 65280, 1, 3, [], True, "quick"),
    ("ANY", 255, 1, 1, [A] * 2, False, "thorough"),
    ("A_classany", 1, 255, 1, [A] * 4, False, "thorough"),
    ("A_class2", 1, 2, 1, [A] * 4, False, "thorough"),
]


def cells(toks):
    return ",".join("{%d,%d}" % ((1, t) if isinstance(t, int) else (0, 0)) for t in toks)


def rr_jobs(tier):
    J = []
    for nm, rtype, rclass, sect, toks, must, t in SHAPES:
        if tier == "quick" and t != "quick":
            continue
        E = len(toks)
        variants = [("", E, E, None)]
        if tier != "quick" or nm in ("A", "MX", "TXT1", "OPT1", "SVCB1", "CAA", "NS"):
            variants += [("_rdlen+1", E + 1, E + 1, None), ("_rdlen-1", max(E - 1, 0), E, None), ("_trunc1", E, E, -1)]
        for suf, rdlen, nb, mlrel in variants:
            # the octet after a TXT RDATA would be read as the next string's length: keep it concrete (an empty string)
            tk = (toks + [0 if rtype == 16 else A])[:nb]
            fw = (0x8180, 0x8583, 0x0100, 0x85B0)[len(J) % 4]
            d = ["-DRTYPE=%d" % rtype, "-DSECT=%d" % sect, "-DRDLEN=%d" % rdlen, "-DNB=%d" % nb,
                 "-DHDRS={%d,%d,1}" % (fw, rtype if rtype != 41 else 1)]
            if nb:
                d.append("-DRD=" + cells(tk))
            else:
                d.append("-DRD={0,0}")
            d += ["-DRCLASS_ANY"] if rclass is None else ["-DRCLASS=%d" % rclass]
            if mlrel is not None:
                d.append("-DML=%d" % (21 + 2 + 10 + nb + mlrel))
            wit = ["end"]
            if suf == "" and must:
                wit += ["accepted", "wellformed"]
            if suf == "_trunc1" or nm in ("NS_selfptr", "NS_ownstart", "NS_fwdptr"):
                wit += ["rejected"]
            kfg = "wire_agree_optdup" if (nm in ("OPT2", "HTTPS2") and suf == "") else "wire_agree"
            J.append(dict(name="wire_agree_%s%s" % (nm, suf), harness="wire_agree.c", kf_group=kfg, defines=d + ["-DRD_MAXRR=1", "-DRD_MAXITEM=4"],
                          real=LIB, support=SUP, unwind=140, leak=True, witnesses=wit,
                          bound="[id symbolic, flags word concrete | qd=1 | a.b qtype=type IN | owner C0 0C, type %d, class %s, ttl symbolic, "
                                "RDLENGTH %d | %d RDATA bytes: %s]%s in section %d: parser vs reference decoder" %
                                (rtype, "symbolic" if rclass is None else rclass, rdlen, nb, " ".join(str(x) for x in tk),
                                 " truncated by one byte" if mlrel else "", sect)))
    return J


def chunks(L, n):
    return [L[i:i + n] for i in range(0, len(L), n)]


def hdr_jobs(tier):
    J = []
    # every single bit of the flags word (incl. Z), every opcode, every 4-bit rcode, a few combinations
    fws = [0] + [1 << b for b in range(16)] + [(o << 11) for o in range(16)] + [0x8000 | r for r in range(16)] + \
          [0xFFFF, 0x85B0, 0x0100, 0x8583, 0x7A4F]
    fws = sorted(set(fws))
    hd = [(fw, 1, 1) for fw in fws]
    # question type / class variants (header word of a plain response)
    hd += [(0x8180, qt, 1) for qt in (0, 2, 28, 41, 255, 256, 65280, 65535)]
    hd += [(0x8180, 1, qc) for qc in (0, 2, 3, 4, 254, 255, 256, 65535)]
    for k, c in enumerate(chunks(hd, 6)):
        J.append(dict(name="wire_agree_header_%02d" % k, harness="wire_agree.c",
                      defines=["-DNRR=0", "-DHDRS=" + ",".join("{%d,%d,%d}" % x for x in c), "-DRD_MAXRR=1", "-DRD_MAXITEM=4"],
                      real=LIB, support=SUP, unwind=140, leak=True, witnesses=["end"],
                      bound="header + question only, id symbolic, (flags word, qtype, qclass) in %s" %
                            ", ".join("(0x%04x,%d,%d)" % x for x in c)))
    for ml in (20, 12, 11):
        J.append(dict(name="wire_agree_header_ml%d" % ml, harness="wire_agree.c",
                      defines=["-DNRR=0", "-DML=%d" % ml, "-DRD_MAXRR=1", "-DRD_MAXITEM=4"], real=LIB, support=SUP, unwind=140,
                      leak=True, witnesses=["end", "rejected"],
                      bound="header + question truncated to %d bytes: both decoders refuse" % ml))
    return J


def escape_roundtrip_jobs(tier):
    """The statement's last sentence (presentation-format names round-trip through escaping without changing the label
    bytes) is decided by C03's escapes_* harness (reference escaper / un-escaper written from RFC 1035 5.1 / RFC 4343 2.1 vs
    the real ares_dns_name_write / ares_dns_name_parse): run it here as well so that this check is self-contained."""
    import importlib.util
    p = os.path.join(os.path.dirname(os.path.abspath(__file__)), "..", "C03", "jobs.py")
    spec = importlib.util.spec_from_file_location("jobs_C03_reuse", p)
    m = importlib.util.module_from_spec(spec); spec.loader.exec_module(m)
    out = []
    for j in m.esc_jobs(tier):
        j = dict(j); j["harness"] = "../C03/" + j["harness"]
        j["support"] = [("../C03/" + x if x == "c03_mem.c" else x) for x in j.get("support", [])]
        out.append(j)
    return out


def name_oom_jobs(tier):
    J = []
    shapes = [("at_first", [1, ord("@"), 0]), ("dot_in_label", [3, ord("a"), ord("."), ord("b"), 1, ord("c"), 0]),
              ("grow32", [32] + [ord("a")] * 30 + [ord("@"), ord("x"), 0]), ("bin_first", [2, 7, ord("\\"), 0])]
    for nm, w in shapes:
        for k in (0, 1, 2, 3, 4):
            if tier == "quick" and nm in ("dot_in_label", "bin_first") and k in (0, 4):
                continue
            J.append(dict(name="name_oom_%s_k%d" % (nm, k), harness="name_oom.c",
                          defines=["-DWIRE=" + ",".join(str(b) for b in w), "-DK=%d" % k],
                          real=BASE + ["src/lib/record/ares_dns_name.c"], support=["vp_rt.c", "valloc.c", "memloops.c"],
                          unwind=max(40, len(w) * 4 + 8), witnesses=["end"] + (["parsed"] if k == 0 else []) + (["out of memory"] if (nm == "at_first" and k in (1, 2)) else []),
                          bound="ares_dns_name_parse of the concrete wire name %s with allocation number %d of the call failing "
                                "(0 = none): ENOMEM and no name, or exactly the escaped name" % (w if len(w) < 12 else nm, k)))
    return J


def jobs(tier, seed):
    J = hdr_jobs(tier) + rr_jobs(tier) + escape_roundtrip_jobs(tier) + name_oom_jobs(tier)
    for j in J:
        j.setdefault("mem_gb", 6)
    return J
