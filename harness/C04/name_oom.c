/* C04 "presentation-format names ... without changing the underlying label bytes" when memory runs short: ONE real
 * ares_dns_name_parse() of a concrete wire name whose labels contain octets that must be escaped, with allocation
 * number K of the call failing (K concrete per job; K beyond the call's allocations = no failure).
 * Either the call reports ARES_ENOMEM and returns no name, or the name it returns is EXACTLY the escaped form of the
 * label octets (an independent escaper, RFC 1035 5.1 / RFC 4343 2.1: reserved punctuation -> backslash + char,
 * non-printable -> backslash + three decimal digits) - never a name with an escape silently missing, which would stand
 * for different label octets.
 *   -DWIRE=<bytes>  the wire name (length octets included, root terminated), -DK=<n> */
#include "vp.h"
#include "ares_private.h"

#ifndef K
#  define K 0
#endif

static int is_reserved(unsigned char c)
{
  return c == '.' || c == '"' || c == '$' || c == '(' || c == ')' || c == ';' || c == '@' || c == '\\';
}
static size_t ref_escape(const unsigned char *w, size_t wl, char *out)
{
  size_t i = 0, o = 0;
  while (i < wl && w[i] != 0) {
    size_t l = w[i++], k;
    if (o != 0) out[o++] = '.';
    for (k = 0; k < l; k++) {
      unsigned char c = w[i++];
      if (c < 0x21 || c > 0x7e) {
        out[o++] = '\\';
        out[o++] = (char)('0' + c / 100);
        out[o++] = (char)('0' + (c / 10) % 10);
        out[o++] = (char)('0' + c % 10);
      } else {
        if (is_reserved(c)) out[o++] = '\\';
        out[o++] = (char)c;
      }
    }
  }
  out[o] = 0;
  return o;
}

void harness(void)
{
  static const unsigned char wire[] = { WIRE };
  static char                expect[4 * sizeof(wire) + 2];
  ares_buf_t                *buf;
  char                      *name = NULL;
  ares_status_t              st;
  size_t                     el, i;

  vp_alloc_install();
  el  = ref_escape(wire, sizeof(wire), expect);
  buf = ares_buf_create_const(wire, sizeof(wire));
  VP_ASSUME(buf != NULL);

  vp_alloc_calls   = 0;
  vp_alloc_fail_at = K;
  st = ares_dns_name_parse(buf, &name, ARES_FALSE);
  vp_alloc_fail_at = 0;

  if (st == ARES_SUCCESS) {
    VP_ASSERT(name != NULL, "success returns a name");
    for (i = 0; i <= el; i++)
      VP_ASSERT(name[i] == expect[i], "the returned name is exactly the escaped form of the label octets (no escape lost when an allocation failed)");
    VP_WITNESS("parsed");
  } else {
    VP_ASSERT(st == ARES_ENOMEM, "a well-formed name is refused only for lack of memory");
    VP_ASSERT(name == NULL, "no name is returned with a failure");
    VP_WITNESS("out of memory");
  }
  ares_free(name);
  ares_buf_destroy(buf);
  VP_ASSERT(vp_alloc_live == 0, "nothing leaks");
  VP_WITNESS("end");
}
