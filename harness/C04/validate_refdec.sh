#!/bin/sh
# Validates the reference decoder (refdec.c) natively against the real parser built from the CURRENT sources of the repo,
# over the repo's fuzz corpus test/fuzzinput/* (plus any extra files given as arguments).
# usage: harness/C04/validate_refdec.sh [extra files...]      env: VP_REPO (default /repo)
HERE=$(cd "$(dirname "$0")" && pwd)
REPO=${VP_REPO:-/repo}
CFG=$HERE/../../.work/cfg
[ -f "$CFG/ares_config.h" ] || CFG=$REPO/_build
OUT=$(mktemp -d /tmp/c04v_XXXXXX)
SRC="record/ares_dns_mapping.c record/ares_dns_multistring.c record/ares_dns_name.c record/ares_dns_parse.c record/ares_dns_record.c record/ares_dns_write.c str/ares_buf.c str/ares_str.c dsa/ares_array.c dsa/ares_llist.c util/ares_math.c ares_library_init.c ares_free_string.c ares_strerror.c"
FILES=""
for f in $SRC; do FILES="$FILES $REPO/src/lib/$f"; done
gcc -std=gnu99 -O1 -g -w -fsanitize=address,undefined -DCARES_BUILDING_LIBRARY -DHAVE_CONFIG_H=1 -D_GNU_SOURCE -DNDEBUG \
  -DRD_MAXRR=64 -DRD_MAXITEM=64 \
  -I"$CFG" -I"$REPO" -I"$REPO/include" -I"$REPO/src/lib" -I"$REPO/src/lib/include" -I"$HERE" \
  "$HERE/validate_main.c" "$HERE/refdec.c" $FILES "$HERE/validate_stubs.c" -o "$OUT/validate" 2>"$OUT/build.log" || { cat "$OUT/build.log"; exit 2; }
echo "== repo fuzz corpus (test/fuzzinput)"
RC=0
"$OUT/validate" "$REPO"/test/fuzzinput/* "$@" || RC=1
# generated inputs: every RR type written by the library's writer, plus truncations and single-octet corruptions
gcc -std=gnu99 -O1 -g -w -fsanitize=address,undefined -DCARES_BUILDING_LIBRARY -DHAVE_CONFIG_H=1 -D_GNU_SOURCE -DNDEBUG \
  -I"$CFG" -I"$REPO" -I"$REPO/include" -I"$REPO/src/lib" -I"$REPO/src/lib/include" -I"$HERE" \
  "$HERE/validate_gen.c" $FILES "$HERE/validate_stubs.c" -o "$OUT/gen" 2>"$OUT/build2.log" || { cat "$OUT/build2.log"; exit 2; }
mkdir -p "$OUT/gen.d"
"$OUT/gen" "$OUT/gen.d"
echo "== generated corpus (all RR types, truncations, single-octet corruptions)"
find "$OUT/gen.d" -type f | sort | xargs "$OUT/validate" > "$OUT/gen.out" || RC=1
grep -v "^  DISAGREE" "$OUT/gen.out"
grep "^  DISAGREE" "$OUT/gen.out" | sed 's|.*gen_[0-9]*: ||' | sort | uniq -c | sort -rn | head -40
rm -rf "$OUT"
exit $RC
