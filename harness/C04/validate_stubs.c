/* functions referenced by the linked TUs but never reached by ares_dns_parse()/getters */
#include <stdlib.h>
#include <stdio.h>
#define STUB(n) void n(void) { fprintf(stderr, "unlinked function %s reached\n", #n); abort(); }
STUB(ares_is_onion_domain)
