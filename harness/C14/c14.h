/* C14 common vocabulary: ONE failing allocation whose position is a solver variable.
 *   c14_arm(K)     choose f in 0..K (0 = no failure) and make the f-th allocation FROM NOW ON return NULL
 *   c14_injected() the chosen allocation was actually requested (and therefore returned NULL)
 *   c14_disarm(K)  stop injecting; BOUND: an unfailed run made at most K allocations, i.e. every allocation of the
 *                  operation is one of the positions the solver could choose (otherwise: inconclusive, not "held") */
#ifndef C14_H
#define C14_H
#include "vp.h"

static unsigned long c14_f, c14_base;

static void c14_arm_range(unsigned long lo, unsigned long hi)
{
  c14_f            = (unsigned long)vp_range(lo, hi);
  c14_base         = vp_alloc_calls;
  vp_alloc_fail_at = c14_f ? c14_base + c14_f : 0;
}
static void c14_arm(unsigned long kmax) { c14_arm_range(0, kmax); }
static int  c14_injected(void)
{
  return c14_f != 0 && vp_alloc_calls >= c14_base + c14_f;
}
static void c14_disarm(unsigned long kmax)
{
  vp_alloc_fail_at = 0;
  VP_BOUND(c14_injected() || vp_alloc_calls - c14_base <= kmax, "operation allocates more often than the failure positions covered");
}
#endif
