/* C14 common vocabulary: ONE failing allocation whose position is a solver variable.
 *   c14_arm(K)     choose f in 0..K (0 = no failure) and make the f-th allocation FROM NOW ON return NULL
 *   c14_injected() the chosen allocation was actually requested (and therefore returned NULL)
 *   c14_disarm(K)  stop injecting; BOUND: an unfailed run made at most K allocations, i.e. every allocation of the
 *                  operation is one of the positions the solver could choose (otherwise: inconclusive, not "held") */
#ifndef C14_H
#define C14_H
#include "vp.h"
#if defined(VP_NATIVE) && defined(C14_PRINT)
#  include <stdio.h>
#endif

static unsigned long c14_f, c14_base;

#if defined(VP_NATIVE) && defined(C14_PRINT)
/* development aid (sweep.py): force the failing position from the environment */
#  include <stdlib.h>
static unsigned long c14_native_pick(unsigned long v)
{
  const char *e = getenv("C14_F");
  return e ? strtoul(e, NULL, 10) : v;
}
#  define C14_NATIVE_PICK(v) c14_native_pick(v)
#  define C14_NALLOC_CHECK(n) ((void)0)
#else
#  define C14_NATIVE_PICK(v) (v)
/* the slices in jobs.py are derived from the allocation count of the unfailed call: it must be exact */
#  define C14_NALLOC_CHECK(n) \
    VP_BOUND(c14_f != 0 || vp_alloc_calls - c14_base == (n), "NALLOC must equal the number of allocations of the unfailed call")
#endif

/* Choose the failing position as a solver variable and CASE-SPLIT on it: `call` is symbolically executed once per
 * position with c14_f a constant (so pointer NULL-ness, lengths and counters stay constants inside each case - with a
 * symbolic vp_alloc_fail_at every allocation result is an ite(NULL, object) and nothing closes: measured), every case
 * ends the path (return), and the solver picks the case.  One query still covers every allocation site. */
#define C14_SPLIT(K, call) C14_SPLIT_RANGE(0, K, call)
/* a job may cover only the slice LO..HI of the positions (jobs.py enumerates the slices) */
#define C14_SPLIT_RANGE(LO, K, call)                        \
  do {                                                      \
    unsigned long c14_i, c14_pick = C14_NATIVE_PICK((unsigned long)vp_range((LO), (K))); \
    for (c14_i = (LO); c14_i <= (unsigned long)(K); c14_i++) \
      if (c14_pick == c14_i) {                              \
        c14_f = c14_i;                                      \
        call;                                               \
        return;                                             \
      }                                                     \
  } while (0)

/* from now on the c14_f-th allocation fails (c14_f chosen by C14_SPLIT; 0 = none) */
static void c14_arm(unsigned long kmax)
{
  (void)kmax;
  c14_base         = vp_alloc_calls;
  vp_alloc_fail_at = c14_f ? c14_base + c14_f : 0;
}
/* fully symbolic variant (no case split) for scenarios that are cheap enough */
static void c14_arm_symbolic(unsigned long kmax)
{
  c14_f = (unsigned long)vp_range(0, kmax);
  c14_arm(kmax);
}
static int c14_injected(void)
{
  return c14_f != 0 && vp_alloc_calls >= c14_base + c14_f;
}
static void c14_disarm(unsigned long kmax)
{
  vp_alloc_fail_at = 0;
#if defined(VP_NATIVE) && defined(C14_PRINT)
  fprintf(stderr, "C14: call made %lu allocations (f=%lu)\n", vp_alloc_calls - c14_base, c14_f);
#endif
  VP_BOUND(c14_injected() || vp_alloc_calls - c14_base <= kmax, "operation allocates more often than the failure positions covered");
}
#endif
