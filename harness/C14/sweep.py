#!/usr/bin/env python3
"""development aid: sweep.py <job-name-substring> [extra -D...]
Builds the job's harness natively (gcc + ASan, as the replay does) with -DC14_PRINT, runs it once without failure to
count the allocations of the armed call, then once per failing position (C14_F=n; every other choice 0) and prints the
outcome of each position.  Used to derive NALLOC and the KFLO/KFHI regions in jobs.py."""
import os, re, subprocess, sys, tempfile
sys.path.insert(0, os.path.join(os.path.dirname(os.path.abspath(__file__)), "..", "..", "vp"))
import run

def build(j, extra):
    h, real, sup = run.src_paths(j, "C14")
    d = tempfile.mkdtemp()
    exe = os.path.join(d, "a.out")
    defs = [x for x in j.get("defines", []) if not re.match(r"-D(FLO|FHI|NALLOC|KFLO|KFHI|KFPOS2)=", x)]
    cmd = ["gcc", "-std=gnu99", "-g", "-O0", "-w", "-fsanitize=address,undefined", "-DVP_NATIVE", "-DC14_PRINT", "-DFLO=0",
           "-DFHI=500", "-DNALLOC=500"] + \
        run.BASE_DEFS + run.include_flags("C14") + defs + extra + ["-Dharness=vp_harness_entry", h] + real + sup + \
        [os.path.join(run.COMMON, "native_main.c"), "-o", exe, "-lm", "-lpthread"]
    r = subprocess.run(cmd, capture_output=True, text=True)
    if r.returncode != 0:
        syms = sorted(set(re.findall(r"undefined reference to `([A-Za-z_][A-Za-z0-9_]*)'", r.stderr)))
        uf = os.path.join(d, "u.c")
        open(uf, "w").write("void vp_native_unlinked(const char *);\n" + "".join('void %s(void){vp_native_unlinked("%s");}\n' % (s, s) for s in syms))
        r = subprocess.run(cmd + [uf], capture_output=True, text=True)
        if r.returncode != 0:
            raise SystemExit("build failed: " + r.stderr[-800:])
    return exe

def main():
    mod = run.load_jobs("C14", "thorough", 0)
    seen = set()
    for j in mod.jobs("thorough", 0):
        base = re.sub(r"_f\d+_\d+$", "", j["name"])
        if sys.argv[1] not in j["name"] or base in seen:
            continue
        seen.add(base)
        exe = build(j, sys.argv[2:])
        env = dict(os.environ, ASAN_OPTIONS="detect_leaks=0")
        r = subprocess.run([exe], capture_output=True, text=True, env=dict(env, C14_F="0"))
        m = re.findall(r"call made (\d+) allocations", r.stderr)
        n = int(m[0]) if m else -1
        print("%s: unfailed call makes %d allocations (exit %d)" % (base, n, r.returncode))
        bad = []
        for f in range(1, n + 1):
            r = subprocess.run([exe], capture_output=True, text=True, env=dict(env, C14_F=str(f)))
            if r.returncode != 0:
                msg = [l for l in r.stderr.splitlines() if "ASSERTION" in l or "ERROR" in l]
                bad.append(f)
                print("   f=%d exit %d %s" % (f, r.returncode, (msg[0] if msg else r.stderr.strip()[-160:])[:200]))
        print("   failing positions:", bad)

main()
