/* reference key table of C08 */
#include "../C08/strvp_ref.c"
