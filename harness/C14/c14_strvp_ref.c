/* reference key table of C08 (harness/C08/strvp_ref.c) with an insert whose FAILURE behaviour is that of the real
 * ares_htable_strvp_insert(): all or nothing.  The shared reference checks only its first allocation (it is used
 * without failure injection in C08); here both of its allocations are requested up front and the reference insert then
 * runs with injection suspended and the allocation counter restored (two allocations in total, as the reference makes). */
#define ares_htable_strvp_insert c08ref_strvp_insert
#include "../C08/strvp_ref.c"
#undef ares_htable_strvp_insert

ares_bool_t ares_htable_strvp_insert(ares_htable_strvp_t *h, const char *key, void *val)
{
  void         *a, *b;
  unsigned long fa, calls;
  ares_bool_t   r;
  a = vp_malloc(8);
  if (a == NULL)
    return ARES_FALSE;
  b = vp_malloc(8);
  if (b == NULL) {
    vp_free(a);
    return ARES_FALSE;
  }
  vp_free(a);
  vp_free(b);
  fa               = vp_alloc_fail_at;
  calls            = vp_alloc_calls;
  vp_alloc_fail_at = 0;
  r                = c08ref_strvp_insert(h, key, val);
  vp_alloc_calls   = calls;
  vp_alloc_fail_at = fa;
  return r;
}
