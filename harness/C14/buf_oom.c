/* C14 / ares_buf: ONE operation from an arbitrary valid buffer (pre-states, snapshot and view oracles of
 * harness/C19/buf_step.c are reused) in which ANY ONE allocation the operation makes may fail - the failing position is
 * a solver variable (c14_arm).  Real: whole src/lib/str/ares_buf.c, dsa/ares_array.c (split family), str/ares_str.c,
 * util/ares_math.c, ares_library_init.c.
 * Oracle: when the chosen allocation is requested the call reports ARES_ENOMEM / NULL (never success with a NULL
 * result), the buffer's unread bytes and tagged span are what they were (single-step appends) or are extended by a
 * strict prefix of the intended bytes (multi-step appends be16/be32/num/hexdump, documented below), outputs are
 * NULL/untouched, the buffer is usable afterwards (the same call repeated without failure gives the full result),
 * destroyable, and the allocator ledger returns to zero.  Without failure: the full functional result. */
#include "vp.h"
#ifdef harness /* native replay builds with -Dharness=vp_harness_entry */
#  undef harness
#endif
#define harness c19_buf_step_entry_unused
#include "../C19/buf_step.c"
#undef harness
#ifdef VP_NATIVE
#  define harness vp_harness_entry
#endif
#include "c14.h"

#ifndef OP
#  error "buf_oom.c needs -DOP=n"
#endif
#ifndef K
#  define K 5
#endif
#ifndef LEN
#  define LEN 3
#endif
#ifndef NFAIL
#  define NFAIL 12
#endif

/* view after a failed multi-step append: old unread bytes + the first j (< k) intended bytes */
static size_t expect_partial(const unsigned char *want, size_t k)
{
  size_t j = ares_buf_len(B) - (S_len - S_off);
  VP_ASSERT(ares_buf_len(B) >= S_len - S_off && j < k, "failed multi-step append added a strict prefix of the intended bytes");
  expect_views(want, j);
  return j;
}

static void fail_wit(void) { VP_WITNESS("allocation failure reported"); }
static void ok_wit(void) { VP_WITNESS("no failure"); }

static void scenario(void)
{
  ares_status_t st;
  unsigned char x[KMAX + 4];
  unsigned char want[160];
  size_t        rem0, n, i, k = 0;
  int           destroyed = 0, kf_region = 0;

  rem0 = S_len - S_off;
  vp_bytes(x, sizeof(x));
  (void)rem0; (void)n; (void)i; (void)want;

#if OP == 0 /* create / create_const */
  {
    ares_buf_t *c;
    c14_arm(1);
    c = ares_buf_create();
    if (c14_injected()) { VP_ASSERT(c == NULL, "create reports the failed allocation"); fail_wit(); }
    else { VP_ASSERT(c != NULL && inv(c) && c->alloc_buf == NULL && c->tag_offset == UNSET, "create yields a valid empty buffer"); ok_wit(); }
    c14_disarm(1);
    ares_buf_destroy(c);
    c14_arm(1);
    c = ares_buf_create_const(x, 5);
    if (c14_injected()) VP_ASSERT(c == NULL, "create_const reports the failed allocation");
    else VP_ASSERT(c != NULL && inv(c) && c->data == x && c->data_len == 5, "create_const yields a valid const buffer");
    c14_disarm(1);
    ares_buf_destroy(c);
    expect_unchanged();
  }
#elif OP == 1 || OP == 2 || OP == 7 /* single-step appends: append K bytes / append_byte / append_str */
  {
#  if OP == 1
    k = K;
#    define CALL() ares_buf_append(B, x, K)
#  elif OP == 2
    k = 1;
#    define CALL() ares_buf_append_byte(B, x[0])
#  else
    static const char text[] = "hello";
    k = 5;
    for (i = 0; i < 5; i++) x[i] = (unsigned char)text[i];
#    define CALL() ares_buf_append_str(B, text)
#  endif
    c14_arm(1);
    st = CALL();
    if (c14_injected()) {
      VP_ASSERT(st == ARES_ENOMEM, "append reports the failed allocation as ENOMEM");
      VP_ASSERT(B->alloc_buf_len == S_alloc, "failed growth keeps the old allocation size");
      expect_views(x, 0);
      c14_disarm(1);
      st = CALL();
      VP_ASSERT(st == ARES_SUCCESS, "the same append succeeds afterwards (buffer still usable)");
      expect_views(x, k);
      fail_wit();
    } else {
      c14_disarm(1);
      VP_ASSERT(st == ARES_SUCCESS, "append succeeds when no allocation fails");
      expect_views(x, k);
      ok_wit();
    }
#  undef CALL
  }
#elif OP == 3 || OP == 4 || OP == 5 || OP == 6 || OP == 9 /* multi-step appends */
  {
#  if OP == 3
    unsigned short v = vp_u16();
    k       = 2;
    want[0] = (unsigned char)(v >> 8);
    want[1] = (unsigned char)(v & 0xff);
#    define CALL() ares_buf_append_be16(B, v)
#    define NF 1
#  elif OP == 4
    unsigned int v = vp_u32();
    k       = 4;
    want[0] = (unsigned char)(v >> 24);
    want[1] = (unsigned char)((v >> 16) & 0xff);
    want[2] = (unsigned char)((v >> 8) & 0xff);
    want[3] = (unsigned char)(v & 0xff);
#    define CALL() ares_buf_append_be32(B, v)
#    define NF 1
#  elif OP == 5
    size_t v = vp_range(0, 99999);
    k       = 3; /* fixed width 3: the low three decimal digits */
    want[0] = (unsigned char)('0' + (v / 100) % 10);
    want[1] = (unsigned char)('0' + (v / 10) % 10);
    want[2] = (unsigned char)('0' + v % 10);
#    define CALL() ares_buf_append_num_dec(B, v, 3)
#    define NF 1
#  elif OP == 6
    static const unsigned char hx[] = "0123456789ABCDEF";
    size_t v = vp_range(0, 0xFFFFF);
    k       = 3;
    want[0] = hx[(v >> 8) & 0xF];
    want[1] = hx[(v >> 4) & 0xF];
    want[2] = hx[v & 0xF];
#    define CALL() ares_buf_append_num_hex(B, v, 3)
#    define NF 1
#  else /* hexdump of 2 bytes: one 62-byte line; from a fresh buffer the storage grows 32 -> 64 */
    static const unsigned char hx[] = "0123456789ABCDEF";
    static const char          pre[] = "000000 | ";
    k = 0;
    for (i = 0; i < 9; i++) want[k++] = (unsigned char)pre[i];
    for (i = 0; i < 16; i++) {
      if (i < 2) { want[k++] = hx[x[i] >> 4]; want[k++] = hx[x[i] & 0xF]; }
      else { want[k++] = ' '; want[k++] = ' '; }
      want[k++] = ' ';
    }
    want[k++] = ' '; want[k++] = '|'; want[k++] = ' ';
    for (i = 0; i < 2; i++) want[k++] = (x[i] >= 0x20 && x[i] <= 0x7E) ? x[i] : '.';
    want[k++] = '\n';
#    define CALL() ares_buf_hexdump(B, x, 2)
#    define NF 3
#  endif
    c14_arm(NF);
    st = CALL();
    if (c14_injected()) {
      size_t j;
      VP_ASSERT(st == ARES_ENOMEM, "multi-step append reports the failed allocation as ENOMEM");
      j = expect_partial(want, k);
      c14_disarm(NF);
      st = ares_buf_append(B, want + j, k - j);
      VP_ASSERT(st == ARES_SUCCESS, "the buffer takes the remaining bytes afterwards (still usable)");
      VP_ASSERT(ares_buf_len(B) == rem0 + k, "completed length");
      fail_wit();
    } else {
      c14_disarm(NF);
      VP_ASSERT(st == ARES_SUCCESS, "append succeeds when no allocation fails");
      expect_views(want, k);
      ok_wit();
    }
#  undef CALL
  }
#elif OP == 8 /* ensure_space (static) / append_start */
  {
    size_t         len = K;
    unsigned char *p;
    c14_arm(1);
    st = ares_buf_ensure_space(B, K);
    if (c14_injected()) {
      VP_ASSERT(st == ARES_ENOMEM, "ensure_space reports the failed allocation");
      VP_ASSERT(B->alloc_buf_len == S_alloc, "failed growth keeps the old allocation size");
      expect_views(x, 0);
      fail_wit();
    } else {
      VP_ASSERT(st == ARES_SUCCESS && B->alloc_buf_len - B->data_len >= K + 1, "space plus NUL reserve available");
      expect_views(x, 0);
      ok_wit();
    }
    c14_disarm(1);
    c14_arm(1);
    p = ares_buf_append_start(B, &len);
    if (c14_injected()) {
      VP_ASSERT(p == NULL, "append_start reports the failed allocation");
      VP_ASSERT(len == K, "requested length not overwritten on failure");
      expect_views(x, 0);
      VP_WITNESS("append_start failed");
    } else {
      VP_ASSERT(p != NULL && p == B->alloc_buf + B->data_len && len >= K && len == B->alloc_buf_len - B->data_len - 1, "append_start offers the space");
      ares_buf_append_finish(B, 0);
      expect_views(x, 0);
    }
    c14_disarm(1);
  }
#elif OP == 10 || OP == 11 /* finish_bin / finish_str (a never-allocated buffer allocates here) */
  {
    size_t         p0 = (S_tag != UNSET && S_tag < S_off) ? S_tag : S_off;
    unsigned char *r;
    n = 99;
    c14_arm(1);
    r = (OP == 10) ? ares_buf_finish_bin(B, &n) : (unsigned char *)ares_buf_finish_str(B, &n);
    if (c14_injected()) {
      VP_ASSERT(r == NULL, "finish reports the failed allocation as NULL");
      VP_ASSERT(n == 99, "length output untouched on failure");
      expect_unchanged(); /* the caller still owns the buffer */
      fail_wit();
    } else {
      VP_ASSERT(r != NULL && n == S_len - p0, "finish returns the storage and the unprocessed length");
      i = vp_size();
      if (i < n) VP_ASSERT(r[i] == S_bytes[p0 + i], "finish returns the unprocessed bytes");
      if (OP == 11) VP_ASSERT(r[n] == 0, "finish_str terminates inside the allocation");
      ares_free(r);
      destroyed = 1;
      ok_wit();
    }
    c14_disarm(1);
  }
#elif OP == 12 /* fetch_bytes_dup */
  {
    unsigned char *d  = NULL;
    int            nt = vp_bool();
    n                 = vp_range(1, 7);
    VP_ASSUME(n <= rem0);
    c14_arm(1);
    st = ares_buf_fetch_bytes_dup(B, n, nt ? ARES_TRUE : ARES_FALSE, &d);
    if (c14_injected()) {
      VP_ASSERT(st == ARES_ENOMEM && d == NULL, "fetch_bytes_dup reports ENOMEM and no output");
      expect_unchanged();
      fail_wit();
    } else {
      VP_ASSERT(st == ARES_SUCCESS && d != NULL, "fetch_bytes_dup succeeds");
      i = vp_size();
      if (i < n) VP_ASSERT(d[i] == S_bytes[S_off + i], "duplicate equals the next bytes");
      if (nt) VP_ASSERT(d[n] == 0, "terminated when asked");
      ares_free(d);
      expect_exact(0, S_len, S_off + n, S_tag);
      ok_wit();
    }
    c14_disarm(1);
  }
#elif OP == 13 /* fetch_str_dup */
  {
    char *s = NULL;
    n       = vp_range(1, 7);
    VP_ASSUME(n <= rem0);
    for (i = 0; i < 7; i++)
      if (i < n) VP_ASSUME(S_bytes[S_off + i] >= 0x20 && S_bytes[S_off + i] <= 0x7E);
    c14_arm(1);
    st = ares_buf_fetch_str_dup(B, n, &s);
    if (c14_injected()) {
      VP_ASSERT(st == ARES_ENOMEM && s == NULL, "fetch_str_dup reports ENOMEM and no output");
      expect_unchanged();
      fail_wit();
    } else {
      VP_ASSERT(st == ARES_SUCCESS && s != NULL && s[n] == 0, "fetch_str_dup succeeds");
      i = vp_size();
      if (i < n) VP_ASSERT((unsigned char)s[i] == S_bytes[S_off + i], "duplicate equals the next bytes");
      ares_free(s);
      expect_exact(0, S_len, S_off + n, S_tag);
      ok_wit();
    }
    c14_disarm(1);
  }
#elif OP == 14 /* tag_fetch_strdup */
  {
    char *s = NULL;
    VP_ASSUME(S_tag != UNSET && S_off - S_tag <= 7);
    n = S_off - S_tag;
    for (i = 0; i < 7; i++)
      if (i < n) VP_ASSUME(S_bytes[S_tag + i] >= 0x20 && S_bytes[S_tag + i] <= 0x7E);
    c14_arm(1);
    st = ares_buf_tag_fetch_strdup(B, &s);
    if (c14_injected()) {
      VP_ASSERT(st == ARES_ENOMEM && s == NULL, "tag_fetch_strdup reports ENOMEM and no output");
      fail_wit();
    } else {
      VP_ASSERT(st == ARES_SUCCESS && s != NULL && s[n] == 0, "tag_fetch_strdup succeeds");
      i = vp_size();
      if (i < n) VP_ASSERT((unsigned char)s[i] == S_bytes[S_tag + i], "duplicate equals the tagged bytes");
      ares_free(s);
      ok_wit();
    }
    c14_disarm(1);
    expect_unchanged();
  }
#elif OP == 15 /* tag_fetch_constbuf */
  {
    ares_buf_t *nb = NULL;
    VP_ASSUME(S_tag != UNSET && S_off != S_tag);
    c14_arm(1);
    st = ares_buf_tag_fetch_constbuf(B, &nb);
    if (c14_injected()) {
      VP_ASSERT(st == ARES_ENOMEM && nb == NULL, "tag_fetch_constbuf reports ENOMEM and no output");
      fail_wit();
    } else {
      VP_ASSERT(st == ARES_SUCCESS && nb != NULL && inv(nb) && nb->data == B->data + S_tag && nb->data_len == S_off - S_tag,
                "tag_fetch_constbuf views the tagged span");
      ares_buf_destroy(nb);
      ok_wit();
    }
    c14_disarm(1);
    expect_unchanged();
  }
#elif OP == 16 /* fetch_bytes_into_buf: destination never allocated, so its first growth may fail */
  {
    ares_buf_t *dest = ares_buf_create();
    n                = vp_range(1, 7);
    VP_ASSUME(n <= rem0);
    c14_arm(1);
    st = ares_buf_fetch_bytes_into_buf(B, dest, n);
    if (c14_injected()) {
      VP_ASSERT(st == ARES_ENOMEM, "fetch_bytes_into_buf reports ENOMEM");
      VP_ASSERT(ares_buf_len(dest) == 0 && inv(dest), "destination untouched");
      expect_unchanged();
      fail_wit();
    } else {
      size_t               dn = 0;
      const unsigned char *dp = NULL;
      VP_ASSERT(st == ARES_SUCCESS, "fetch_bytes_into_buf succeeds");
      dp = ares_buf_peek(dest, &dn);
      VP_ASSERT(dn == n && inv(dest), "destination holds n bytes");
      i = vp_size();
      if (i < n) VP_ASSERT(dp[i] == S_bytes[S_off + i], "destination holds the next bytes");
      expect_exact(0, S_len, S_off + n, S_tag);
      ok_wit();
    }
    c14_disarm(1);
    ares_buf_destroy(dest);
  }
#elif OP == 17 || OP == 18 /* parse_dns_binstr / parse_dns_str: <len><len bytes>, LEN concrete per job (-DLEN) */
  {
    unsigned char *bin  = NULL;
    size_t         blen = 77;
    /* the const pre-state (AL=-1) has CL symbolic bytes; the string starts at offset 0 (concrete cursor) */
    B->offset     = 0;
    S_off         = 0;
    B->tag_offset = UNSET;
    S_tag         = UNSET;
    store[0]      = LEN;
    S_bytes[0]    = LEN;
#  if OP == 18
    for (i = 0; i < LEN; i++) VP_ASSUME(S_bytes[1 + i] >= 0x20 && S_bytes[1 + i] <= 0x7E);
#  endif
    c14_arm(3);
    /* region of the known finding: empty string, the result allocation (2nd of the call) fails */
#  define KF_REGION (LEN == 0 && c14_f == 2)
#  ifdef KF_binstr_empty_oom
    VP_ASSUME(!KF_REGION);
#  endif
#  ifdef KFONLY_binstr_empty_oom
    VP_ASSUME(KF_REGION);
#  endif
    kf_region = KF_REGION;
#  if OP == 17
    st = ares_buf_parse_dns_binstr(B, CL, &bin, &blen);
#  else
    st = ares_buf_parse_dns_str(B, CL, (char **)&bin);
#  endif
    if (c14_injected()) {
      if (kf_region)
        VP_ASSERT(st == ARES_ENOMEM && bin == NULL, "FINDING binstr_empty_oom: parsing an EMPTY <character-string> whose result allocation fails returns ARES_SUCCESS with a NULL string (and leaks the scratch buffer)");
      else
        VP_ASSERT(st == ARES_ENOMEM && bin == NULL, "parse_dns_[bin]str reports ENOMEM and no output");
      VP_ASSERT(B->offset >= S_off && B->offset <= S_off + 1, "at most the length octet consumed on failure");
      expect_exact(0, S_len, B->offset, S_tag);
      fail_wit();
    } else {
      VP_ASSERT(st == ARES_SUCCESS && bin != NULL, "parse succeeds");
      if (OP == 17) VP_ASSERT(blen == LEN, "reported length");
      VP_ASSERT(bin[LEN] == 0, "result is NUL-terminated");
      i = vp_size();
      if (i < LEN) VP_ASSERT(bin[i] == S_bytes[1 + i], "result equals the string bytes");
      expect_exact(0, S_len, S_off + 1 + LEN, S_tag);
      ok_wit();
    }
    c14_disarm(3);
    ares_free(bin);
  }
#elif OP == 19 || OP == 20 || OP == 21 /* split / split_str_array / split_str of the concrete text "ab cd e" */
  {
    static const unsigned char text[]  = "ab cd e";
    static const char *const   parts[] = { "ab", "cd", "e" };
    static const unsigned char delim[] = " ";
    ares_array_t              *arr     = (ares_array_t *)&destroyed; /* poison: must be overwritten */
    ares_buf_t                *src;
    char                     **strs  = (char **)&destroyed;
    size_t                     nstrs = 55;
    (void)parts;
    src = ares_buf_create_const(text, 7);
    VP_ASSERT(src != NULL, "source buffer");
    c14_arm(NFAIL);
#  if OP == 19
    st = ares_buf_split(src, delim, 1, ARES_BUF_SPLIT_TRIM, 0, &arr);
#  elif OP == 20
    st = ares_buf_split_str_array(src, delim, 1, ARES_BUF_SPLIT_TRIM, 0, &arr);
#  else
    st = ares_buf_split_str(src, delim, 1, ARES_BUF_SPLIT_TRIM, 0, &strs, &nstrs);
#  endif
    if (c14_injected()) {
      VP_ASSERT(st == ARES_ENOMEM, "split reports the failed allocation as ENOMEM");
#  if OP == 21
      VP_ASSERT(strs == NULL && nstrs == 0, "no output on failure");
#  else
      VP_ASSERT(arr == NULL, "no output on failure");
#  endif
      fail_wit();
    } else {
      VP_ASSERT(st == ARES_SUCCESS, "split succeeds when no allocation fails");
#  if OP == 19
      VP_ASSERT(ares_array_len(arr) == 3, "three sections");
      for (i = 0; i < 3; i++) {
        ares_buf_t **bp = ares_array_at(arr, i);
        size_t       l  = 0;
        const unsigned char *p = ares_buf_peek(*bp, &l);
        VP_ASSERT(l == strlen(parts[i]) && p[0] == (unsigned char)parts[i][0], "section text");
      }
      ares_array_destroy(arr);
#  elif OP == 20
      VP_ASSERT(ares_array_len(arr) == 3, "three strings");
      for (i = 0; i < 3; i++) {
        char **sp = ares_array_at(arr, i);
        VP_ASSERT(strcmp(*sp, parts[i]) == 0, "string text");
      }
      ares_array_destroy(arr);
#  else
      VP_ASSERT(nstrs == 3 && strs != NULL, "three strings");
      for (i = 0; i < 3; i++) {
        VP_ASSERT(strcmp(strs[i], parts[i]) == 0, "string text");
        ares_free(strs[i]);
      }
      ares_free(strs);
#  endif
      ok_wit();
    }
    c14_disarm(NFAIL);
    ares_buf_destroy(src);
    expect_unchanged();
  }
#else
#  error "unknown OP"
#endif

  VP_WITNESS("end");
  if (!destroyed)
    ares_buf_destroy(B);
#if AL < 0
  vp_free(store);
#endif
  if (kf_region)
    VP_ASSERT(vp_alloc_live == 0, "FINDING binstr_empty_oom: scratch buffer leaked (allocator ledger)");
  else
    VP_ASSERT(vp_alloc_live == 0, "nothing leaked, nothing freed twice (allocator ledger)");
}

/* positions the job's operation can reach (BOUND-checked by c14_disarm) */
#if OP == 9
#  define NPOS 3
#elif OP == 17 || OP == 18
#  define NPOS 3
#elif OP == 19 || OP == 20 || OP == 21
#  define NPOS NFAIL
#else
#  define NPOS 1
#endif

void harness(void)
{
  vp_alloc_install();
  arbitrary_buf();
#if defined(DLO) && DLO != DHI && defined(SPLIT_DL)
  { /* case-split the data_len slice as well (multi-step appends only close on concrete lengths) */
    size_t dl;
    for (dl = DLO; dl <= DHI; dl++)
      if (B->data_len == dl) {
        B->data_len = dl;
        S_len       = dl;
        C14_SPLIT(NPOS, scenario());
      }
    return;
  }
#else
  C14_SPLIT(NPOS, scenario());
#endif
}
