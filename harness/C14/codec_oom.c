/* C14 / wire codec with ONE failing allocation (position = solver variable, case split, sliced over jobs).
 * The record (1 question + 1 RR of concrete type, names/lengths concrete, every value symbolic: builder of
 * harness/C03/c03_build.h) is built WITHOUT failure.
 *   -DDIR=0  ares_dns_write(rec) with the failure armed.  Oracle: ARES_ENOMEM with no buffer, or - where the library
 *            absorbs the failure (a compression target that could not be recorded) - ARES_SUCCESS with a message that
 *            parses back to the SAME record.
 *   -DDIR=1  the message is produced without failure, then ares_dns_parse(msg) runs with the failure armed.  Oracle:
 *            ARES_ENOMEM and *dnsrec == NULL; without failure the parsed record equals the original.
 * Both: the source record is untouched, everything is released (allocator ledger back to its entry value).
 * -DKFLO/-DKFHI: failing positions that belong to a known finding (derived natively by harness/C14/sweep.py):
 *   opt_val_leak_on_oom          (DIR=1, OPT/SVCB/HTTPS with a non-empty value)
 *   nameoffset_strdup_unchecked  (DIR=0, -DTRAILDOT: a later name written with a trailing dot) */
#define MAXSTR 24
#include "../C03/c03_build.h"
#include "ares_private.h"
#include "c14.h"

#ifndef DIR
#  define DIR 1
#endif
#ifndef NALLOC
#  define NALLOC 60
#endif
#ifndef FLO
#  define FLO 0
#  define FHI NALLOC
#endif
#ifndef KFLO
#  define KFLO 1
#  define KFHI 0 /* empty region */
#endif
#ifdef KFPOS2 /* second, non-adjacent position of the same finding */
#  define IN_KF (((c14_f >= KFLO) && (c14_f <= KFHI)) || c14_f == KFPOS2)
#else
#  define IN_KF ((c14_f >= KFLO) && (c14_f <= KFHI))
#endif

static ares_dns_record_t *REC;
static unsigned char     *M1;
static size_t             L1;
static long               live0;

/* -DTRAILDOT: N1 is written with a trailing dot; on the wire (and after parsing) it is EXPECT_N1 */
static void compare(const ares_dns_record_t *a, const ares_dns_record_t *b, int kf)
{
#ifdef TRAILDOT
  const ares_dns_rr_t *rr = ares_dns_record_rr_get_const(b, (ares_dns_section_t)SECT, 0);
  (void)a;
  VP_ASSERT(rr != NULL && ares_dns_rr_get_type(rr) == ARES_REC_TYPE_MX, "MX RR parsed back");
  if (kf)
    VP_ASSERT(c03_streq(ares_dns_rr_get_str(rr, ARES_RR_MX_EXCHANGE), EXPECT_N1),
              "FINDING nameoffset_strdup_unchecked: unchecked ares_strdup() in ares_nameoffset_create() leaves a NULL-named "
              "compression target that a later name ending in '.' matches: the written name gets a bogus suffix");
  else
    VP_ASSERT(c03_streq(ares_dns_rr_get_str(rr, ARES_RR_MX_EXCHANGE), EXPECT_N1), "domain-name field survives the round trip");
  VP_ASSERT(c03_streq(ares_dns_rr_get_name(rr), OWNER), "owner name survives the round trip");
#else
  (void)kf;
  c03_cmp_record(a, b);
#endif
}

static void scenario(void)
{
  ares_status_t      st;
  ares_dns_record_t *rec2 = NULL;
  int                kf   = IN_KF;
#if defined(KF_opt_val_leak_on_oom) || defined(KF_nameoffset_strdup_unchecked)
  VP_ASSUME(!kf);
#endif
#if defined(KFONLY_opt_val_leak_on_oom) || defined(KFONLY_nameoffset_strdup_unchecked)
  VP_ASSUME(kf);
#endif

#if DIR == 0
  {
    unsigned char *m = (unsigned char *)&live0; /* poison */
    size_t         l = 7;
    c14_arm(NALLOC);
    st = ares_dns_write(REC, &m, &l);
    if (c14_injected()) {
      if (st == ARES_SUCCESS) {
        c14_disarm(NALLOC);
        VP_ASSERT(m != NULL && l >= 12, "absorbed failure still yields a message");
        VP_ASSERT(ares_dns_parse(m, l, 0, &rec2) == ARES_SUCCESS && rec2 != NULL, "the message written despite the failure parses");
        compare(REC, rec2, kf);
        VP_WITNESS("failure absorbed, result correct");
      } else {
        c14_disarm(NALLOC);
        VP_ASSERT(st == ARES_ENOMEM && m == NULL, "write reports ENOMEM and hands out no buffer");
        VP_WITNESS("allocation failure reported");
      }
    } else {
      VP_ASSERT(st == ARES_SUCCESS && m != NULL && l >= 12, "write succeeds when no allocation fails");
      C14_NALLOC_CHECK(NALLOC);
      c14_disarm(NALLOC);
      VP_ASSERT(ares_dns_parse(m, l, 0, &rec2) == ARES_SUCCESS && rec2 != NULL, "the message parses back");
      compare(REC, rec2, 0);
      VP_WITNESS("no failure");
    }
    ares_free_string(m);
  }
#else
  {
    rec2 = NULL; /* ares_dns_parse leaves *dnsrec alone when it fails before creating a record: callers pass NULL */
    c14_arm(NALLOC);
    st = ares_dns_parse(M1, L1, 0, &rec2);
    if (c14_injected()) {
      VP_ASSERT(st == ARES_ENOMEM && rec2 == NULL, "parse reports ENOMEM and hands out no record");
      VP_WITNESS("allocation failure reported");
    } else {
      VP_ASSERT(st == ARES_SUCCESS && rec2 != NULL, "parse succeeds when no allocation fails");
      C14_NALLOC_CHECK(NALLOC);
      compare(REC, rec2, 0);
      VP_WITNESS("no failure");
    }
    c14_disarm(NALLOC);
  }
#endif
  VP_ASSERT(ares_dns_record_query_cnt(REC) == 1 && ares_dns_record_rr_cnt(REC, (ares_dns_section_t)SECT) == 1, "source record untouched");
  VP_WITNESS("end");
  ares_dns_record_destroy(rec2);
  ares_dns_record_destroy(REC);
  ares_free_string(M1);
  if (kf && DIR == 1)
    VP_ASSERT(vp_alloc_live == live0,
              "FINDING opt_val_leak_on_oom: the OPT/SVCB/HTTPS parser leaks the option value when ares_dns_rr_set_opt_own() fails");
  else
    VP_ASSERT(vp_alloc_live == live0, "everything released (allocator ledger)");
}

void harness(void)
{
  vp_alloc_install();
  live0 = vp_alloc_live;
  REC   = c03_build_record(NULL);
#if DIR == 1
  VP_ASSERT(ares_dns_write(REC, &M1, &L1) == ARES_SUCCESS && M1 != NULL, "message written (no failure armed)");
#endif
  C14_SPLIT_RANGE(FLO, FHI, scenario());
}
