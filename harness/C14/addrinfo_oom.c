/* C14 / ares_addrinfo and hostent builders with ONE failing allocation (position = solver variable, case split).
 * The DNS record (question a.b A; answers: CNAME a.b -> c.b, A c.b <addr>, ttl symbolic) is built through the public
 * record API without failure.
 *   OP=0  ares_append_addrinfo_node / ares_append_addrinfo_cname on lists of 0 or 1 elements
 *   OP=1  ares_parse_into_addrinfo(record) into an empty ares_addrinfo
 *   OP=2  ares_addrinfo2hostent(ai built without failure), then ares_addrinfo2addrttl (allocation-free: same result)
 * Oracle: an injected failure is reported (NULL / ARES_ENOMEM, *host == NULL), the target list / ares_addrinfo holds no
 * half-built element that the matching free function cannot release; without failure the content is checked;
 * ares_freeaddrinfo / ares_free_hostent release everything (allocator ledger).
 * Real: ares_parse_into_addrinfo.c, ares_getaddrinfo.c (append/cat helpers only are reached), ares_addrinfo_localhost.c
 * (ares_append_ai_node), ares_addrinfo2hostent.c, ares_freeaddrinfo.c, ares_free_hostent.c, record/ *, ares_buf.c ... */
#define MAXSTR 24
#include "../C03/c03_common.h"
#include "ares_private.h"
#include "c14.h"
#include <string.h>
#include <netdb.h>

#ifndef OP
#  error "addrinfo_oom.c needs -DOP=n"
#endif
#if OP == 0
#  define NPOS 1
#elif OP == 1
#  define NPOS 7
#else
#  define NPOS 8
#endif

static ares_dns_record_t    *REC;
static struct ares_addrinfo *AI;
static struct in_addr        ADDR;
static long                  live0;

#define MUST(e) VP_ASSERT((e) == ARES_SUCCESS, "pre-state built without failure: " #e)

static void check_ai_content(const struct ares_addrinfo *ai)
{
  VP_ASSERT(ai->nodes != NULL && ai->nodes->ai_next == NULL && ai->nodes->ai_family == AF_INET && ai->nodes->ai_addr != NULL,
            "one IPv4 node");
  VP_ASSERT(c03_memeq((const unsigned char *)&((const struct sockaddr_in *)(const void *)ai->nodes->ai_addr)->sin_addr,
                      (const unsigned char *)&ADDR, 4), "node carries the record's address");
  VP_ASSERT(ai->cnames != NULL && ai->cnames->next == NULL && c03_streq(ai->cnames->alias, "a.b") && c03_streq(ai->cnames->name, "c.b"),
            "one alias a.b -> c.b");
  VP_ASSERT(c03_streq(ai->name, "c.b"), "canonical name stored");
}

static void scenario(void)
{
  ares_status_t st;
  (void)st;
#if OP == 0
  {
    struct ares_addrinfo_node  *nodes = NULL, *n0 = NULL, *n;
    struct ares_addrinfo_cname *cn = NULL, *c0 = NULL, *c;
    if (vp_bool()) { n0 = ares_append_addrinfo_node(&nodes); c0 = ares_append_addrinfo_cname(&cn); VP_ASSUME(n0 != NULL && c0 != NULL); }
    c14_arm(1);
    n = ares_append_addrinfo_node(&nodes);
    if (c14_injected()) {
      VP_ASSERT(n == NULL && nodes == n0 && (n0 == NULL || n0->ai_next == NULL), "failed append leaves the node list as it was");
      VP_WITNESS("allocation failure reported");
    } else {
      VP_ASSERT(n != NULL && (n0 == NULL ? nodes == n : (nodes == n0 && n0->ai_next == n)) && n->ai_next == NULL, "node appended at the tail");
      VP_WITNESS("no failure");
    }
    c14_disarm(1);
    c14_arm(1);
    c = ares_append_addrinfo_cname(&cn);
    if (c14_injected())
      VP_ASSERT(c == NULL && cn == c0 && (c0 == NULL || c0->next == NULL), "failed append leaves the cname list as it was");
    else
      VP_ASSERT(c != NULL && (c0 == NULL ? cn == c : (cn == c0 && c0->next == c)) && c->next == NULL, "cname appended at the tail");
    c14_disarm(1);
    ares_freeaddrinfo_nodes(nodes);
    ares_freeaddrinfo_cnames(cn);
  }
#elif OP == 1
  c14_arm(NPOS);
  st = ares_parse_into_addrinfo(REC, ARES_FALSE, 53, AI);
  if (c14_injected()) {
    VP_ASSERT(st == ARES_ENOMEM, "parse_into_addrinfo reports ENOMEM");
    VP_ASSERT(AI->nodes == NULL && AI->cnames == NULL, "nothing half-built is attached to the caller's ares_addrinfo");
    VP_WITNESS("allocation failure reported");
  } else {
    VP_ASSERT(st == ARES_SUCCESS, "parse_into_addrinfo succeeds");
    check_ai_content(AI);
    VP_ASSERT(((const struct sockaddr_in *)(const void *)AI->nodes->ai_addr)->sin_port == htons(53), "port stored in network order");
    VP_WITNESS("no failure");
  }
  c14_disarm(NPOS);
#else
  {
    struct hostent     *host = NULL;
    struct ares_addrttl ttls[2];
    size_t              nttl = 9;
    MUST(ares_parse_into_addrinfo(REC, ARES_FALSE, 0, AI));
    c14_arm(NPOS);
    st = ares_addrinfo2hostent(AI, AF_INET, &host);
    if (c14_injected()) {
      VP_ASSERT(st == ARES_ENOMEM && host == NULL, "addrinfo2hostent reports ENOMEM and hands out no hostent");
      VP_WITNESS("allocation failure reported");
    } else {
      VP_ASSERT(st == ARES_SUCCESS && host != NULL, "addrinfo2hostent succeeds");
      VP_ASSERT(c03_streq(host->h_name, "c.b") && host->h_addrtype == AF_INET && host->h_length == 4, "official name, family, length");
      VP_ASSERT(host->h_aliases != NULL && c03_streq(host->h_aliases[0], "a.b") && host->h_aliases[1] == NULL, "alias list");
      VP_ASSERT(host->h_addr_list != NULL && host->h_addr_list[0] != NULL && host->h_addr_list[1] == NULL &&
                  c03_memeq((const unsigned char *)host->h_addr_list[0], (const unsigned char *)&ADDR, 4), "address list");
      VP_WITNESS("no failure");
    }
    c14_disarm(NPOS);
    check_ai_content(AI); /* the source is never touched */
    c14_arm(NPOS);
    st = ares_addrinfo2addrttl(AI, AF_INET, 2, ttls, NULL, &nttl);
    VP_ASSERT(!c14_injected(), "addrinfo2addrttl does not allocate");
    VP_ASSERT(st == ARES_SUCCESS && nttl == 1 && c03_memeq((const unsigned char *)&ttls[0].ipaddr, (const unsigned char *)&ADDR, 4),
              "addrinfo2addrttl fills the caller's array");
    c14_disarm(NPOS);
    ares_free_hostent(host);
  }
#endif
  VP_WITNESS("end");
  ares_freeaddrinfo(AI);
  ares_dns_record_destroy(REC);
  VP_ASSERT(vp_alloc_live == live0, "everything released (allocator ledger)");
}

void harness(void)
{
  ares_dns_rr_t *rr = NULL;
  vp_alloc_install();
  live0 = vp_alloc_live;
  vp_bytes((unsigned char *)&ADDR, 4);
  MUST(ares_dns_record_create(&REC, vp_u16(), ARES_FLAG_QR | ARES_FLAG_RD | ARES_FLAG_RA, ARES_OPCODE_QUERY, ARES_RCODE_NOERROR));
  MUST(ares_dns_record_query_add(REC, "a.b", ARES_REC_TYPE_A, ARES_CLASS_IN));
  MUST(ares_dns_record_rr_add(&rr, REC, ARES_SECTION_ANSWER, "a.b", ARES_REC_TYPE_CNAME, ARES_CLASS_IN, vp_u32()));
  MUST(ares_dns_rr_set_str(rr, ARES_RR_CNAME_CNAME, "c.b"));
  MUST(ares_dns_record_rr_add(&rr, REC, ARES_SECTION_ANSWER, "c.b", ARES_REC_TYPE_A, ARES_CLASS_IN, vp_u32()));
  MUST(ares_dns_rr_set_addr(rr, ARES_RR_A_ADDR, &ADDR));
  AI = ares_malloc_zero(sizeof(*AI));
  VP_ASSERT(AI != NULL, "ares_addrinfo allocated");
  C14_SPLIT(NPOS, scenario());
}
