/* pointer-word memset (keeps union pointers concrete), shared with C03 */
#include "../C03/c03_mem.c"
