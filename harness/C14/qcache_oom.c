/* C14 / ares_qcache_insert + ares_qcache_fetch with ONE failing allocation (position = solver variable, case split):
 * entry, key building (real ares_qcache_calc_key on ares_buf), key-table insertion and expiry-list insertion (reference
 * containers of C08 / stubs, whose own allocations fail through the same allocator and are reported as the real
 * containers report them).  Abstract record interface, request and helpers of harness/C08/qcache_step.c are reused by
 * inclusion.  Oracle: a failed insert returns ARES_ENOMEM, caches nothing (expiry list and key table as before), leaves
 * the response with the caller and releases every allocation it made; a failed fetch returns ARES_ENOMEM and hands out
 * nothing; without failure the response is cached and replayed; ares_qcache_destroy releases everything. */
#define OP 0
#define NOFETCH
#include "vp.h"
#ifdef harness
#  undef harness
#endif
#define harness c08_qcache_step_entry_unused
#include "../C08/qcache_step.c"
#undef harness
#ifdef VP_NATIVE
#  define harness vp_harness_entry
#endif
#include "c14.h"

#ifndef NPOS
#  define NPOS 8
#endif
#ifndef PART
#  define PART 0 /* 0: failure during insert (then an unfailed fetch); 1: unfailed insert, failure during fetch */
#endif
#ifndef FLO
#  define FLO 0
#  define FHI NPOS
#endif
/* known finding: positions of the key-building allocations (entry already allocated) */
#define KF_REGION (PART == 0 && (c14_f == 2 || c14_f == 3))

static arec_t        *RESP;
static ares_timeval_t NOW;
static long           live0;

static void scenario(void)
{
  ares_status_t            st, fst;
  const ares_dns_record_t *out = (const ares_dns_record_t *)&live0;
  size_t                   pre_len = ares_slist_len(qc->expire);
  long                     live1   = vp_alloc_live;
  int                      kf      = KF_REGION;
#ifdef KF_qcache_insert_entry_leak
  VP_ASSUME(!kf);
#endif
#ifdef KFONLY_qcache_insert_entry_leak
  VP_ASSUME(kf);
#endif

#if PART == 1
  st = ares_qcache_insert(&ch, &NOW, &q, RESP->h); /* not armed: this job checks the fetch */
  VP_ASSUME(st == ARES_SUCCESS);
  (void)live1; (void)pre_len;
#else
  c14_arm(NPOS);
  st = ares_qcache_insert(&ch, &NOW, &q, RESP->h);
  if (c14_injected()) {
    VP_ASSERT(st == ARES_ENOMEM, "insert reports the failed allocation as ENOMEM");
    VP_ASSERT(ares_slist_len(qc->expire) == pre_len, "failed insert: nothing on the expiry list");
    VP_ASSERT(vp_strvp_peek(qc->cache, KEY_SAME) == NULL && ares_htable_strvp_num_keys(qc->cache) == 0, "failed insert: nothing in the key table");
    VP_ASSERT(!RESP->destroyed, "failed insert: the response still belongs to the caller");
    if (kf)
      VP_ASSERT(vp_alloc_live == live1, "FINDING qcache_insert_entry_leak: ares_qcache_insert_int() leaks the entry when ares_qcache_calc_key() fails");
    else
      VP_ASSERT(vp_alloc_live == live1, "failed insert releases every allocation it made");
    VP_WITNESS("allocation failure reported");
  } else {
    VP_ASSERT(st == ARES_SUCCESS, "insert succeeds when no allocation fails");
    VP_ASSERT(ares_slist_len(qc->expire) == pre_len + 1 && vp_strvp_peek(qc->cache, KEY_SAME) != NULL, "response cached and indexed");
    VP_WITNESS("no failure");
  }
  c14_disarm(NPOS);
#endif

#if PART == 1
  c14_arm(NPOS);
#endif
  fst = ares_qcache_fetch(&ch, &NOW, req->h, &out);
#if PART == 1
  if (c14_injected()) {
    VP_ASSERT(fst == ARES_ENOMEM, "fetch reports the failed allocation as ENOMEM");
    VP_ASSERT(out == (const ares_dns_record_t *)&live0, "failed fetch hands out nothing");
    VP_WITNESS("allocation failure reported");
  } else
#endif
  if (st == ARES_SUCCESS) {
#if PART == 1
    VP_WITNESS("no failure");
#endif
    VP_ASSERT(fst == ARES_SUCCESS && out == RESP->h && RESP->dec_calls == 1 && RESP->dec == 0, "cached response replayed");
  } else {
    VP_ASSERT(fst == ARES_ENOTFOUND, "nothing cached: miss");
  }
#if PART == 1
  c14_disarm(NPOS);
#endif

  VP_WITNESS("end");
  ares_qcache_destroy(qc);
  if (st == ARES_SUCCESS)
    VP_ASSERT(RESP->destroyed, "cache destroy releases the cached response");
  else
    ares_dns_record_destroy(RESP->h);
  if (kf)
    VP_ASSERT(vp_alloc_live == live0 - 1, "FINDING qcache_insert_entry_leak: entry leaked (allocator ledger)");
  else
    VP_ASSERT(vp_alloc_live == live0 - 1, "everything released (allocator ledger)");
}

void harness(void)
{
#if PART == 1
  /* concrete lifetimes: the (unarmed) insert must take ONE path, otherwise the allocation counter the fetch is armed
   * against is a merge of several paths (symbolic) and every allocation of the fetch becomes a candidate */
  unsigned int max_ttl = 3600;
#else
  unsigned int max_ttl = vp_u32();
#endif
  vp_alloc_install();
  VP_ASSUME(max_ttl >= 1);
  mk_request();
  NOW.sec  = (ares_int64_t)vp_range(0, SEC_MAX);
  NOW.usec = 0;
  RESP         = arec_new();
  RESP->rcode  = ARES_RCODE_NOERROR;
  RESP->flags  = ARES_FLAG_QR | ARES_FLAG_RD | ARES_FLAG_RA;
  RESP->opcode = ARES_OPCODE_QUERY;
  RESP->nq     = 1;
  RESP->qname  = REQ_NAME;
  RESP->qtype  = ARES_REC_TYPE_A;
  RESP->qclass = ARES_CLASS_IN;
  RESP->nrr    = 1;
  RESP->rr[0].sect = ARES_SECTION_ANSWER;
  RESP->rr[0].type = ARES_REC_TYPE_A;
#if PART == 1
  RESP->rr[0].ttl  = 300;
#else
  RESP->rr[0].ttl  = (unsigned int)vp_range(1, 100000);
#endif
  arec_commit(RESP);
  live0 = vp_alloc_live;
  VP_ASSUME(ares_qcache_create(NULL, max_ttl, &qc) == ARES_SUCCESS);
  ch.qcache = qc;
  C14_SPLIT_RANGE(FLO, FHI, scenario());
}
