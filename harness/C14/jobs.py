"""C14: any single allocation failure is survived cleanly.  The failing allocation index is a solver variable
(harness/C14/c14.h: c14_arm(K) picks f in 0..K, 0 = no failure), one query covers every allocation site of a scenario."""
import importlib.util
import os

HERE = os.path.dirname(os.path.abspath(__file__))
HARN = os.path.dirname(HERE)

OUTSIDE = ("whole ares_init_options / ares_reinit and the end-to-end ares_getaddrinfo / ares_gethostbyname flows (too large for "
           "one query; their allocation-bearing building blocks are covered separately); MORE than one failing allocation "
           "in one call; ares_buf_load_file (file I/O); ares_buf_replace (computes the match offset as pointer minus "
           "integer-cast pointer, which leaves every later length symbolic for CBMC: SAT out of memory at 6 GB on a 30-byte "
           "buffer); ares_array_set_size from a non-full array of 8-byte members (out of memory at 6 GB; 1- and 4-byte members "
           "covered); the rest of the system-configuration readers (resolv.conf lines, sortlist, nameserver: C15 runs them on a "
           "reference ares_array without failure injection - only ares_sysconfig_set_options is covered here, on one concrete "
           "two-option text); ares_sortaddrinfo, ares_addrinfo_localhost, hosts file; search continuation after the first "
           "candidate (search_callback -> ares_search_next) with allocation failure (the start is covered); sizes beyond the "
           "stated shapes (buffers > 32 bytes allocated, arrays > 8 slots, 1 question + 1 RR messages, 4 pre-existing RRs / "
           "options / strings)")
ASSUMPTIONS = [
    "failing position = solver variable, CASE-SPLIT (harness/C14/c14.h C14_SPLIT): the operation is symbolically executed "
    "once per position with the position a constant and the solver picks the case; a fully symbolic vp_alloc_fail_at turns "
    "every allocation result into ite(NULL, object) and nothing closes (measured: 236 s -> 0.7 s on ares_buf_append_be32). "
    "Long scenarios are sliced over several jobs (positions lo..hi per job); the allocation count the slices are derived from "
    "is measured natively (harness/C14/sweep.py) and BOUND-checked in the harness, so a drift is inconclusive, never a silent gap",
    "a multi-step append (be16/be32/num_dec/num_hex/hexdump) that fails midway leaves a strict PREFIX of the intended bytes "
    "appended (no caller relies on atomicity; ares_dns_write_buf truncates back): asserted as such, not as 'unchanged'",
    "ares_buf_parse_dns_[bin]str may have consumed the length octet when it fails; ares_dns_rr_set_bin on a TXT key is 'clear, "
    "then add' (a failure while adding leaves the valid empty list); ares_dns_parse leaves *dnsrec untouched when it fails "
    "before creating a record (callers pass NULL); ares_dns_write may ABSORB the failure of recording a compression target "
    "(message longer, still correct: asserted by parsing it back)",
    "pre-states, invariants, reference models and stubs of C19 (buf_step.c, array_step.c, llist/slist/htable_step.c, "
    "htable_wrap.c), C03 (c03_build.h, c03_common.h, c03_mem.c word-wise memset), C08 (qcache_step.c, abstract records, "
    "reference key table / expiry list), C01 (search.c: contract stub ares_send_nolock, abstract records), C10 (open_conn.c, "
    "vsock/world) and harness/machine/send_early.c are reused by inclusion: their assumptions apply",
    "reused C19 / C10 / machine harnesses carry their own witness names ('insert failed', 'expand failed', 'unfailed run', "
    "'open failed', 'open ok', 'failed', 'pending' ...) in the role of 'allocation failure reported' / 'no failure'",
    "search_start_*: the two ALLOCATING functions of the abstract record stub (ares_dns_record_duplicate, "
    "ares_dns_record_query_set_name) are replaced by all-or-nothing versions (c14_absrec_faithful.c; the shared stub is not "
    "failure-faithful) - not natively replayable (goto-instrument body replacement)",
    "qcache_*: reference key-table insert wrapped to be all-or-nothing like the real ares_htable_strvp_insert "
    "(c14_strvp_ref.c); the real hash table / skip list under allocation failure are the htable_* / wrap_* / slist_* jobs",
    "array inserts are checked from FULL arrays (the only pre-state in which an insert allocates); rec_rr_add_*_n4 / "
    "rec_rr_prealloc_n4 use valloc's array-level realloc copy (-DVP_REALLOC_ARRAYCOPY)",
    "sysconfig_options_*: strtoul/memchr are the loop models of harness/C15/libc_extra.c; memchr/memmem for ares_buf those of "
    "harness/C19/c19_libc.c",
]

LIB = ["src/lib/ares_library_init.c", "src/lib/util/ares_math.c"]


def _load(rel, name):
    spec = importlib.util.spec_from_file_location(name, os.path.join(HARN, rel))
    m = importlib.util.module_from_spec(spec)
    spec.loader.exec_module(m)
    return m


FAILW = "allocation failure reported"
OKW = "no failure"

# ---------------------------------------------------------------------------------------------- 1. ares_buf
BUF_REAL = LIB + ["src/lib/str/ares_str.c", "src/lib/dsa/ares_array.c"]
BUF_SUP = ["vp_rt.c", "valloc.c", "memloops.c", "c14_libc.c"]
BUF_SHAPES = {
    "fresh": (["-DAL=0", "-DCL=12"], "freshly created ares_buf (nothing allocated yet, tag unset or 0)"),
    "al32": (["-DAL=32", "-DCL=12"], "allocated ares_buf: alloc_buf_len=32 (exact-size storage), symbolic contents, any data_len "
                                     "0..31, any offset <= data_len, tag unset or any value <= offset"),
    "al32_c0": (["-DAL=32", "-DCL=12", "-DOFF=0", "-DTAG=SIZE_MAX"], "allocated ares_buf (32 bytes), nothing consumed, no tag, any "
                                                                    "data_len 0..31"),
    "al32_c5t2": (["-DAL=32", "-DCL=12", "-DOFF=5", "-DTAG=2"], "allocated ares_buf (32 bytes), offset 5, tag 2 (2 bytes "
                                                                "reclaimable), any data_len 5..31"),
    "al32_cend": (["-DAL=32", "-DCL=12", "-DOFF_END", "-DTAG=SIZE_MAX"], "allocated ares_buf (32 bytes), everything consumed "
                                                                        "(offset == data_len, reclaim empties it), any data_len"),
    "const12": (["-DAL=-1", "-DCL=12"], "const ares_buf over exactly 12 symbolic bytes, any offset, tag unset or <= offset"),
}


def buf_job(name, shape, defs, what, nf, sizes=(), wit=(FAILW, OKW), extra="", **kw):
    sd, st = BUF_SHAPES[shape]
    allsz = sorted(set([48, 32, 64, 128] + list(sizes) + ([12] if shape == "const12" else [])))
    d = dict(name="buf_%s_%s" % (name, shape), harness="buf_oom.c",
             defines=sd + defs + ["-DVP_SIZES=%s" % ",".join(str(x) for x in allsz)],
             real=BUF_REAL, support=BUF_SUP, unwind=46, unwindset=["vp_realloc.0:66"], mem_gb=6,
             witnesses=["end"] + list(wit),
             bound=st + extra + "; ONE " + what + " in which any one of its allocations (position 0..%d, solver-chosen; 0 = "
                   "none) fails" % nf)
    d.update(kw)
    return d


def buf_jobs(tier):
    J = []
    small = list(range(1, 9))
    J.append(buf_job("create", "fresh", ["-DOP=0"], "ares_buf_create / ares_buf_create_const", 1))
    # (shape, can a 1-byte append need growth, can a 5-byte append need growth): after reclaim c5t2 regains 2 bytes and
    # cend is empty, so only the longer appends reach the allocator there
    growers = [("fresh", 1, 1), ("al32_c0", 1, 1), ("al32_c5t2", 0, 1), ("al32_cend", 0, 0)]
    for sh, g1, g5 in growers:
        if g5:
            J.append(buf_job("append5", sh, ["-DOP=1", "-DK=5"], "ares_buf_append of 5 bytes", 1))
            J.append(buf_job("ensure_space5", sh, ["-DOP=8", "-DK=5"], "ares_buf_ensure_space(5) then ares_buf_append_start(5)", 1,
                             wit=(FAILW, OKW, "append_start failed")))
        if sh != "al32_c0" or tier != "quick":
            J.append(buf_job("append36", sh, ["-DOP=1", "-DK=36"], "ares_buf_append of 36 bytes (two doublings)", 1))
        if g1:
            J.append(buf_job("append_byte", sh, ["-DOP=2"], "ares_buf_append_byte", 1))
    J.append(buf_job("append_str", "fresh", ["-DOP=7"], "ares_buf_append_str(\"hello\")", 1))
    J.append(buf_job("append_str", "al32_c0", ["-DOP=7"], "ares_buf_append_str(\"hello\")", 1))
    # multi-step appends: on allocated buffers only near the end of the allocation (where a later step must grow)
    tail = ["-DDLO=27", "-DDHI=31", "-DSPLIT_DL"]
    for op, nm, what in ((3, "append_be16", "ares_buf_append_be16"), (4, "append_be32", "ares_buf_append_be32"),
                         (5, "append_num_dec", "ares_buf_append_num_dec(n, 3)"), (6, "append_num_hex", "ares_buf_append_num_hex(n, 3)")):
        J.append(buf_job(nm, "fresh", ["-DOP=%d" % op], what, 1))
        for sh in ("al32_c0", "al32_c5t2"):
            if op == 3 and sh == "al32_c5t2":
                continue  # two bytes always fit after reclaiming the two bytes below the tag
            J.append(buf_job(nm + "_tail", sh, ["-DOP=%d" % op] + tail, what, 1, extra=" - slice: data_len 27..31 (case split)"))
    J.append(buf_job("hexdump2", "fresh", ["-DOP=9"], "ares_buf_hexdump of 2 symbolic bytes (62 output bytes, storage grows twice)", 3,
                     unwind=70))
    J.append(buf_job("finish_bin", "fresh", ["-DOP=10"], "ares_buf_finish_bin", 1))
    J.append(buf_job("finish_str", "fresh", ["-DOP=11"], "ares_buf_finish_str", 1))
    for sh in ("al32", "const12"):
        J.append(buf_job("fetch_bytes_dup", sh, ["-DOP=12"], "ares_buf_fetch_bytes_dup of 1..7 bytes", 1, small))
        J.append(buf_job("fetch_str_dup", sh, ["-DOP=13"], "ares_buf_fetch_str_dup of 1..7 printable bytes", 1, small))
        J.append(buf_job("tag_fetch_strdup", sh, ["-DOP=14"], "ares_buf_tag_fetch_strdup of a 0..7-byte tagged span", 1, small))
        J.append(buf_job("tag_fetch_constbuf", sh, ["-DOP=15"], "ares_buf_tag_fetch_constbuf", 1))
        J.append(buf_job("fetch_bytes_into_buf", sh, ["-DOP=16"], "ares_buf_fetch_bytes_into_buf of 1..7 bytes into a fresh buffer", 1))
    for op, nm in ((17, "parse_dns_binstr"), (18, "parse_dns_str")):
        for ln in (0, 3):
            J.append(buf_job("%s_len%d" % (nm, ln), "const12", ["-DOP=%d" % op, "-DLEN=%d" % ln],
                             "ares_buf_%s of a %d-byte <character-string>" % (nm, ln), 3,
                             **({"kf_group": "buf_parse_dns_str_empty"} if ln == 0 else {})))
    for op, nm, nf in ((19, "split", 6), (20, "split_str_array", 11), (21, "split_str", 11)):
        J.append(buf_job(nm, "fresh", ["-DOP=%d" % op, "-DNFAIL=%d" % nf],
                         "ares_buf_%s of the text \"ab cd e\" on blanks (3 sections)" % nm, nf, small))
    return J


# ---------------------------------------------------------------------------------------------- 2. containers
ARRAY_OPS = {0: "insert_at", 1: "insertdata_at", 2: "insertdata_first", 3: "insertdata_last", 4: "insert_first",
             5: "insert_last", 10: "set_size", 13: "create"}


def array_jobs(tier):
    J = []
    for ms in ((4,) if tier == "quick" else (1, 4, 8)):
        for ac in (0, 4, 8):
            for op, nm in sorted(ARRAY_OPS.items()):
                if op == 13 and ac != 0:
                    continue
                if op == 10 and ms == 8 and ac != 0:
                    continue  # set_size from the arbitrary (not full) state with 8-byte members: solver out of memory at 6 GB
                J.append(dict(name="array_%s_ms%d_ac%d" % (nm, ms, ac), harness="array_oom.c",
                              defines=["-DMS=%d" % ms, "-DOP=%d" % op, "-DAC=%d" % ac, "-DVP_MEMSET_LOOP",
                                       "-DVP_SIZES=%s,48" % ",".join(str(k * ms) for k in (4, 8, 16))],
                              real=LIB, unwind=max(16 * ms + 2, 50), witnesses=["end", FAILW, OKW],
                              bound="arbitrary valid ares_array: alloc_cnt=%d, symbolic contents, member_size=%d, FULL when an insert is "
                                    "checked (the only pre-state in which an insert allocates), any offset/cnt for set_size; "
                                    "ONE %s (any valid index / any size 1..9) whose storage allocation (position 0..1, "
                                    "solver-chosen) fails" % (ac, ms, nm)))
    return J


def c19_reuse_jobs(tier, seed):
    """C19's container harnesses already contain single-allocation-failure slices (llist OP=13, slist OP=7, htable
    OP=7/8, wrapper scenarios re-run for every failing position): run those harness files as C14 jobs."""
    c19 = _load("C19/jobs.py", "c19_jobs_for_c14")
    src = c19.llist_jobs("thorough") + c19.slist_jobs(tier, seed) + c19.htable_jobs(tier) + c19.wrap_jobs("thorough")
    J = []
    for j in src:
        n = j["name"]
        if n.startswith("wrap_"):
            if tier == "quick" and "_p012_" not in n:
                continue  # quick: all failing positions on the collision-free pattern; thorough: every pattern
        elif "oom" not in n:
            continue
        if tier == "quick" and n.startswith("htable_") and "_e3_" in n and not (n.endswith("_p0000") or n.endswith("_p0123") or
                                                                              n.endswith("_p0012") or "_p0001_o0" in n or
                                                                              "_p0123_o0" in n or "_p0112_o4" in n):
            continue
        j = dict(j)
        j["harness"] = "../C19/" + j["harness"]
        if "support" in j:
            j["support"] = [("c14_libc.c" if x == "c19_libc.c" else x) for x in j["support"]]
        j["bound"] = j.get("bound", "") + " [harness of C19 reused: its witnesses 'insert failed' / 'expand failed' / 'unfailed run' play the role of 'allocation failure reported' / 'no failure'; the llist/slist slices assert the NULL result directly]"
        J.append(j)
    return J


def create_jobs(tier):
    real = LIB + ["src/lib/dsa/ares_llist.c", "src/lib/dsa/ares_slist.c", "src/lib/dsa/ares_htable.c"]
    return [dict(name="create_%s" % nm, harness="create_oom.c", defines=["-DOP=%d" % op], real=real, unwind=20,
                 witnesses=["end", FAILW, OKW],
                 bound="%s with any one of its allocations failing (position 0..2, solver-chosen)" % what)
            for op, nm, what in ((0, "llist", "ares_llist_create"), (1, "slist", "ares_slist_create"),
                                 (2, "htable", "ares_htable_create + ares_htable_all_buckets"))]


# ---------------------------------------------------------------------------------------------- 3. record building
REC = ["src/lib/record/ares_dns_mapping.c", "src/lib/record/ares_dns_multistring.c", "src/lib/record/ares_dns_name.c",
       "src/lib/record/ares_dns_parse.c", "src/lib/record/ares_dns_record.c", "src/lib/record/ares_dns_write.c"]
REC_BASE = ["src/lib/str/ares_buf.c", "src/lib/str/ares_str.c", "src/lib/dsa/ares_array.c", "src/lib/dsa/ares_llist.c",
            "src/lib/util/ares_math.c", "src/lib/ares_library_init.c", "src/lib/ares_free_string.c"]
REC_LIB = REC + REC_BASE
REC_SUP = ["vp_rt.c", "valloc.c", "memloops.c", "c14_mem.c"]


def sliced(mk, nalloc, per, absorbed=False):
    """jobs covering failure positions 0..nalloc (0 = none) in slices of `per`; the harness BOUND-checks that the
    unfailed call makes exactly nalloc allocations (harness/C14/count_allocs.py measures it)"""
    J = []
    lo = 0
    while lo <= nalloc:
        hi = min(lo + per - 1, nalloc)
        wit = ["end"] + ([OKW] if lo == 0 else []) + ([FAILW] if hi > 0 else [])
        J.append(mk("f%d_%d" % (lo, hi), ["-DFLO=%d" % lo, "-DFHI=%d" % hi, "-DNF=%d" % nalloc, "-DNALLOC=%d" % nalloc],
                    "failing position %d..%d of %d" % (lo, hi, nalloc), wit))
        lo = hi + 1
    return J


def rec_job(name, defs, what, **kw):
    d = dict(name="rec_" + name, harness="record_oom.c", defines=defs, real=REC_LIB, support=REC_SUP, unwind=140,
             unwindset=["vp_realloc.0:650"],
             witnesses=["end", FAILW, OKW],
             bound="record built through the public API without failure, then ONE " + what + " in which any one of its "
                   "allocations (solver-chosen position, 0 = none) fails")
    d.update(kw)
    return d


# realloc of an array of 80-byte ares_dns_rr_t: valloc's byte-loop copy makes the moved name pointers symbolic (no verdict
# in 240 s); its array-level copy (__CPROVER_array_replace) keeps them: 13 s
ARRCOPY = ["-DVP_REALLOC_ARRAYCOPY"]


def record_jobs(tier):
    J = [rec_job("create", ["-DOP=0"], "ares_dns_record_create (record + 4 section arrays)")]
    for n in (0, 4):
        J.append(rec_job("query_add_n%d" % n, ["-DOP=1", "-DNPRE=%d" % n], "ares_dns_record_query_add with %d questions present" % n))
    J.append(rec_job("query_set_name", ["-DOP=2"], "ares_dns_record_query_set_name over an existing name"))
    for sect in (1, 2, 3):
        for n in (0, 4):
            if tier == "quick" and sect != 1 and n == 0:
                continue
            J.append(rec_job("rr_add_s%d_n%d" % (sect, n), ["-DOP=3", "-DSECT=%d" % sect, "-DNPRE=%d" % n] + ARRCOPY * (n > 0),
                             "ares_dns_record_rr_add into section %d holding %d RRs (4: storage doubles and moves)" % (sect, n)))
    for n in (0, 4):
        J.append(rec_job("rr_prealloc_n%d" % n, ["-DOP=4", "-DNPRE=%d" % n] + ARRCOPY * (n > 0), "ares_dns_record_rr_prealloc(+3) with %d RRs present" % n))
    for n in (0, 1):
        J.append(rec_job("set_str_old%d" % n, ["-DOP=5", "-DNPRE=%d" % n], "ares_dns_rr_set_str (NS name, HINFO OS)%s" % (" over an old value" * n)))
        J.append(rec_job("set_bin_old%d" % n, ["-DOP=6", "-DNPRE=%d" % n], "ares_dns_rr_set_bin (CAA value, TLSA data)%s" % (" over an old value" * n)))
    for n in (0, 1, 4):
        J.append(rec_job("txt_set_bin_n%d" % n, ["-DOP=7", "-DNPRE=%d" % n], "ares_dns_rr_set_bin on TXT holding %d strings" % n))
        J.append(rec_job("txt_add_abin_n%d" % n, ["-DOP=8", "-DNPRE=%d" % n], "ares_dns_rr_add_abin on TXT holding %d strings" % n))
    for rt, rn in ((41, "opt"), (64, "svcb")):
        for n in (0, 1, 4):
            if tier == "quick" and rt == 64 and n == 1:
                continue
            J.append(rec_job("set_opt_%s_n%d" % (rn, n), ["-DOP=9", "-DRTYPE=%d" % rt, "-DNPRE=%d" % n],
                             "ares_dns_rr_set_opt of a new code on %s holding %d options" % (rn.upper(), n)))
        J.append(rec_job("set_opt_%s_replace" % rn, ["-DOP=9", "-DRTYPE=%d" % rt, "-DNPRE=2", "-DREPL"],
                         "ares_dns_rr_set_opt replacing the value of an existing code on %s" % rn.upper()))
    for n in (0, 4):
        J.append(rec_job("set_opt_own_n%d" % n, ["-DOP=10", "-DRTYPE=41", "-DNPRE=%d" % n],
                         "ares_dns_rr_set_opt_own (caller-allocated value) on OPT holding %d options" % n))
    for nm, n, t0, t1 in (("empty", 1, 0, 0), ("e_e", 2, 0, 0), ("3", 1, 3, 0), ("1_2", 2, 1, 2)):
        J.append(rec_job("txt_get_bin_%s" % nm, ["-DOP=11", "-DNPRE=%d" % n, "-DTL0=%d" % t0, "-DTL1=%d" % t1],
                         "ares_dns_rr_get_bin on TXT (strings of %s bytes): builds the cached concatenation" % ([t0, t1][:n]),
                         **({"kf_group": "rec_txt_get_bin_allempty"} if t0 + t1 == 0 else {})))
    J += sliced(lambda nm, defs, txt, wit: rec_job("duplicate_mx_" + nm, ["-DOP=12"] + defs,
                                                   "ares_dns_record_duplicate of question + MX RR (ares_dns_write + ares_dns_parse "
                                                   "inside), " + txt, witnesses=wit),
                nalloc=41, per=14, absorbed=True)
    return J


# ---------------------------------------------------------------------------------------------- 4. codec
# shape (from harness/C03/jobs.py RR_SHAPES) -> (allocations of the unfailed ares_dns_write, of ares_dns_parse, tier,
# known-finding positions of the parse direction).  Counts and regions are measured natively by harness/C14/sweep.py and
# BOUND-checked by the harness (a drift makes the job inconclusive, never silently incomplete).
CODEC = {
    "A": (16, 14, "quick", None),
    "MX": (25, 16, "quick", None),
    "TXT1": (16, 18, "quick", None),
    "OPT1": (19, 17, "quick", (16, 17)),
    "SVCB1": (24, 19, "quick", (18, 19)),
    "CAA": (16, 17, "quick", None),
    "HTTPS2": (24, 19, "thorough", (18, 19)),
    "NS": (25, 16, "thorough", None),
    "SOA": (34, 18, "thorough", None),
    "HINFO": (16, 18, "thorough", None),
    "NAPTR": (24, 22, "thorough", None),
    "TXT3": (16, 20, "thorough", None),
    "OPT2": (19, 17, "thorough", None),
    "SRV": (26, 16, "thorough", None),
}
CODEC_PER = 12  # failing positions per job
MXDOT = (28, (13,))  # allocations of the unfailed write; position of the question name's ares_strdup() in ares_nameoffset_create


def codec_jobs(tier):
    c03 = _load("C03/jobs.py", "c03_jobs_for_c14")
    shapes = dict((nm, (rtype, sect, extra, txt)) for nm, rtype, sect, extra, t, txt in c03.RR_SHAPES)
    J = []
    for nm, (nw, npz, t, kf) in CODEC.items():
        if tier == "quick" and t != "quick":
            continue
        rtype, sect, extra, txt = shapes[nm]
        base = ["-DRTYPE=%d" % rtype, "-DSECT=%d" % sect] + extra
        for d, n, what in ((0, nw, "ares_dns_write"), (1, npz, "ares_dns_parse")):
            kfd = []
            if d == 1 and kf:
                kfd = ["-DKFLO=%d" % kf[0], "-DKFHI=%d" % kf[1]] + (["-DKFPOS2=%d" % kf[2]] if len(kf) > 2 else [])

            def mk(snm, defs, stxt, wit, d=d, what=what, kfd=kfd):
                if d == 0:
                    wit = [w for w in wit if w != FAILW]  # some positions are absorbed (lost compression target)
                jd = dict(name="codec_%s_%s_%s" % ("write" if d == 0 else "parse", nm, snm), harness="codec_oom.c",
                          defines=base + ["-DDIR=%d" % d] + defs + kfd, real=REC_LIB, support=REC_SUP, unwind=140,
                          unwindset=["vp_realloc.0:650"], witnesses=wit,
                          bound="public-API record (1 question + 1 RR: %s), values symbolic; %s with %s" % (txt, what, stxt))
                lo, hi = [int(x) for x in snm[1:].split("_")]
                if kfd and any(lo <= k <= hi for k in kf):
                    jd["kf_group"] = "codec_parse_optval"
                return jd
            J += sliced(mk, nalloc=n, per=CODEC_PER)
    # a name written with a trailing dot AFTER another name: exposes a compression target recorded without its text
    nw, kf = MXDOT
    base = ["-DRTYPE=15", "-DSECT=1", "-DTRAILDOT", '-DEXPECT_N1="m.c"'] + c03.names(qname="a.b", owner="a.b", n1="m.c.") + \
        c03.hdr(0x19, 0, 0, 15, 1, 1)

    def mkdot(snm, defs, stxt, wit):
        lo, hi = [int(x) for x in snm[1:].split("_")]
        inreg = any(lo <= k <= hi for k in kf)
        return dict(name="codec_write_MXdot_%s" % snm, harness="codec_oom.c",
                    defines=base + ["-DDIR=0"] + defs + ["-DKFLO=%d" % kf[0], "-DKFHI=%d" % kf[0]],
                    real=REC_LIB, support=REC_SUP, unwind=140, unwindset=["vp_realloc.0:650"],
                    witnesses=[w for w in wit if w != FAILW],
                    bound="public-API record: question a.b, MX a.b -> \"m.c.\" (trailing dot); ares_dns_write with " + stxt,
                    **({"kf_group": "codec_write_nameoffset"} if inreg else {}))
    J += sliced(mkdot, nalloc=nw, per=CODEC_PER)
    return J


# ---------------------------------------------------------------------------------------------- 6. send / open (reuse)
def machine_reuse_jobs(tier):
    """ares_send_nolock (harness/machine/send_early.c: any single allocation failure 1st..6th, symbolic) and
    ares_open_connection (harness/C10/open_conn.c: vp_alloc_fail_at symbolic in 0..12) already inject the failing
    allocation as a solver variable: run them as C14 jobs."""
    import sys
    sys.path.insert(0, os.path.join(HARN, "machine"))
    import mjobs
    J = []
    for j in mjobs.send_early_jobs(tier):
        j = dict(j)
        j["mem_gb"] = 6
        J.append(j)
    c10 = _load("C10/jobs.py", "c10_jobs_for_c14")
    for j in c10.jobs(tier, 0):
        if not j["name"].startswith("open_conn_"):
            continue
        if tier == "quick" and j["name"] not in ("open_conn_udp_v4", "open_conn_tcp_v6"):
            continue
        j = dict(j)
        j["harness"] = "../C10/" + j["harness"]
        j["mem_gb"] = 6
        J.append(j)
    reused = list(J)
    J = []
    for j in mjobs.answer_oom_jobs(tier) + mjobs.requeue_oom_jobs(tier) + mjobs.sendquery_oom_jobs(tier):
        j = dict(j)
        J.append(j)
    J, own = reused, J
    for j in J:
        j["bound"] = j.get("bound", "") + " [harness reused: its witnesses 'failed' / 'open failed' and 'completed synchronously' / 'pending' / 'open ok' play the role of 'allocation failure reported' / 'no failure']"
    return J + own


def search_jobs(tier):
    J = []
    real = LIB + ["src/lib/str/ares_str.c", "src/lib/str/ares_strsplit.c", "src/lib/record/ares_dns_mapping.c",
                  "src/lib/str/ares_buf.c", "src/lib/dsa/ares_array.c", "src/lib/dsa/ares_llist.c"]
    for ni, nm in enumerate(["a", "a.b", "a."]):
        for nd, nos in ((2, 0), (0, 0), (2, 1)):
            if tier == "quick" and (nd, nos) != (2, 0) and ni != 0:
                continue
            for lo, hi in ((0, 7), (8, 15), (16, 24)):
                J.append(dict(name="search_start_%s_nd%d_nosearch%d_f%d_%d" % (nm.replace(".", "dot"), nd, nos, lo, hi),
                              harness="search_oom.c",
                              defines=["-DNAME_IDX=%d" % ni, "-DND=%d" % nd, "-DNOSEARCH=%d" % nos, "-DFLO=%d" % lo, "-DFHI=%d" % hi],
                              real=real, support=["vp_rt.c", "valloc.c", "memloops.c", "lock_ghost.c", "dnsrec_abs.c"], unwind=26,
                              replace=["ares_dns_record_query_set_name", "ares_dns_record_duplicate"],
                              replace_with=["c14_absrec_faithful.c"],
                              witnesses=["end"] + ([OKW, FAILW] if lo == 0 else []),  # later slices: positions may exceed the shape's allocation count
                              bound="ares_search_dnsrec from scratch for name '%s', %d search domains of {x, y.z}, ndots 0..2, "
                                    "NOSEARCH=%d, with any one REAL allocation (position %d..%d of at most 24, solver-chosen, 0 = "
                                    "none) failing; ares_send_nolock = contract stub of C01 (sync failure any status / sync "
                                    "answer / pending)" % (nm, nd, nos, lo, hi)))
    return J


# ---------------------------------------------------------------------------------------------- 5. qcache
def qcache_jobs(tier):
    c08 = _load("C08/jobs.py", "c08_jobs_for_c14")
    J = []
    for part, nm, slices in ((0, "insert", ((0, 3), (4, 8))), (1, "fetch", ((0, 3),))):
        for lo, hi in slices:
            J.append(dict(name="qcache_%s_f%d_%d" % (nm, lo, hi), harness="qcache_oom.c",
                          defines=["-DPART=%d" % part, "-DFLO=%d" % lo, "-DFHI=%d" % hi, "-DNPOS=%d" % (8 if part == 0 else 3)],
                          real=c08.KEYREAL, support=["vp_rt.c", "valloc.c", "memloops.c", "slist_ref.c", "c14_strvp_ref.c"],
                          unwind=24, unwindset=c08.uws(2), witnesses=["end"] + ([OKW] if lo == 0 else []) + [FAILW],
                          **({"kf_group": "qcache_insert_keyfail"} if part == 0 and lo <= 3 and hi >= 2 else {}),
                          bound="fresh cache (any max_ttl >= 1), NOERROR response with one A answer (TTL 1..100000) to the request "
                                "A IN a.b; ares_qcache_insert then ares_qcache_fetch, the %s with any one allocation (position "
                                "%d..%d, solver-chosen, 0 = none) failing; then ares_qcache_destroy" % (nm, lo, hi)))
    return J


# ---------------------------------------------------------------------------------------------- 7. addrinfo / hostent
def addrinfo_jobs(tier):
    real = REC_LIB + ["src/lib/ares_parse_into_addrinfo.c", "src/lib/ares_getaddrinfo.c", "src/lib/ares_addrinfo_localhost.c",
                      "src/lib/ares_addrinfo2hostent.c", "src/lib/ares_freeaddrinfo.c", "src/lib/ares_free_hostent.c"]
    return [dict(name="addrinfo_%s" % nm, harness="addrinfo_oom.c", defines=["-DOP=%d" % op], real=real, support=REC_SUP,
                 unwind=140, unwindset=["vp_realloc.0:650"], witnesses=["end", FAILW, OKW],
                 bound="record (question a.b A; CNAME a.b -> c.b; A c.b, address/TTLs symbolic) built without failure; " + what +
                       " with any one of its allocations (solver-chosen position, 0 = none) failing")
            for op, nm, what in ((0, "append", "ares_append_addrinfo_node + ares_append_addrinfo_cname on lists of 0/1 elements"),
                                 (1, "parse_into", "ares_parse_into_addrinfo into an empty ares_addrinfo"),
                                 (2, "to_hostent", "ares_addrinfo2hostent (+ allocation-free ares_addrinfo2addrttl)"))]


# ---------------------------------------------------------------------------------------------- 8. sysconfig options
SYSCONFIG_NALLOC = 19  # measured natively (harness/C14/sweep.py), BOUND-checked by the harness


def sysconfig_jobs(tier):
    real = LIB + ["src/lib/str/ares_buf.c", "src/lib/str/ares_str.c", "src/lib/dsa/ares_array.c", "src/lib/ares_sysconfig_files.c"]

    def mk(snm, defs, stxt, wit):
        return dict(name="sysconfig_options_" + snm, harness="sysconfig_oom.c", defines=defs + ["-DVP_SIZES=1,2,3,4,5,6,7,8,16,32,48,64"], real=real,
                    support=["vp_rt.c", "valloc.c", "memloops.c", "c14_libc_extra.c"], unwind=40, witnesses=wit,
                    bound="ares_sysconfig_set_options(\"ndots:2 rotate\") on an arbitrary pre-state sysconfig with " + stxt)
    return sliced(mk, nalloc=SYSCONFIG_NALLOC, per=10)


def name_oom_jobs(tier):
    c04 = _load("C04/jobs.py", "c04_jobs_for_c14")
    out = []
    for j in c04.name_oom_jobs(tier):
        j = dict(j); j["harness"] = "../C04/" + j["harness"]
        out.append(j)
    return out


def jobs(tier, seed):
    J = []
    J += name_oom_jobs(tier)
    J += machine_reuse_jobs(tier)
    J += sysconfig_jobs(tier)
    J += addrinfo_jobs(tier)
    J += qcache_jobs(tier)
    J += search_jobs(tier)
    J += buf_jobs(tier)
    J += codec_jobs(tier)
    J += record_jobs(tier)
    J += array_jobs(tier)
    J += create_jobs(tier)
    J += c19_reuse_jobs(tier, seed)
    extra = os.environ.get("C14_TEST_DEFS", "").split()  # development aid: e.g. C14_TEST_DEFS=-DKF_binstr_empty_oom
    for j in J:
        j.setdefault("mem_gb", 6)
        if extra:
            j["defines"] = j.get("defines", []) + extra

    def cost(j):  # longest first, so that the pool does not end on a long tail (measured solver times)
        n = j["name"]
        if n.startswith("search_start") and "nd2_nosearch0" in n or n.startswith("open_conn"):
            return 0
        if n.startswith("buf_") and "_al32" in n or n.startswith("array_") and "_ac8" in n or n.startswith("rec_duplicate"):
            return 1
        if n.startswith("search_") or n.startswith("wrap_") or n.startswith("codec_") or n.startswith("array_"):
            return 2
        return 3
    return sorted(J, key=cost)
