/* libc loop models (memchr/memmem) shared with C19 */
#include "../C19/c19_libc.c"
