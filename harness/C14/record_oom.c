/* C14 / DNS record building through the PUBLIC API with ONE failing allocation (position = solver variable, case split).
 * The pre-state (record, question, RRs, earlier field values) is built WITHOUT failure, then exactly one API call runs
 * with the failure armed.  Oracle: an injected failure is reported as ARES_ENOMEM (NULL for ares_dns_record_duplicate),
 * every value that was readable before is still readable and unchanged (counts, names, old field values - exceptions
 * that the API documents/implements as "clear then set" are asserted as what they are), the record stays usable (the
 * same call repeated succeeds) and ares_dns_record_destroy releases everything (allocator ledger back to its entry
 * value).  Without failure: the value is stored and read back through the public getters.
 * Real: record/ares_dns_{record,mapping,multistring,name,parse,write}.c, ares_buf.c, ares_array.c, ares_llist.c, ...
 * -DOP=n and the shape parameters are concrete per job; ids, TTLs, addresses, payload bytes are symbolic. */
#define MAXSTR 24
#include "../C03/c03_common.h"
#include "ares_private.h"
#include "c14.h"
#include <string.h>

#ifndef OP
#  error "record_oom.c needs -DOP=n"
#endif
#ifndef NPRE
#  define NPRE 0 /* RRs / questions / options already present */
#endif
#ifndef SECT
#  define SECT 1
#endif
#ifndef NF
#  define NF 40
#endif
/* failure positions the job's call can reach (BOUND-checked by c14_disarm) */
#if OP == 0
#  define NPOS 5
#elif OP == 1 || OP == 3 || OP == 11
#  define NPOS 2
#elif OP == 2 || OP == 4 || OP == 5 || OP == 6
#  define NPOS 1
#elif OP == 7 || OP == 8
#  define NPOS 4
#elif OP == 9 || OP == 10
#  define NPOS 3
#else
#  define NPOS NF
#endif
#ifndef TL0
#  define TL0 0
#endif
#ifndef TL1
#  define TL1 0
#endif
#ifndef RTYPE
#  define RTYPE 41
#endif
#ifndef NALLOC
#  define NALLOC 0
#endif
#ifndef BL
#  define BL 3
#endif

static ares_dns_record_t *REC;
static long               live0;

#define MUST(e) VP_ASSERT((e) == ARES_SUCCESS, "pre-state built without failure: " #e)
#define FAILW() VP_WITNESS("allocation failure reported")
#define OKW()   VP_WITNESS("no failure")

static void finish(void)
{
  VP_WITNESS("end");
  ares_dns_record_destroy(REC);
  VP_ASSERT(vp_alloc_live == live0, "record destroy releases everything (allocator ledger)");
}

/* NPRE A records "h<i>.b" with symbolic addresses in SECT; checked to be intact afterwards */
static struct in_addr pre_addr[8];
static const char *const pre_name[8] = { "h0.b", "h1.b", "h2.b", "h3.b", "h4.b", "h5.b", "h6.b", "h7.b" };
static void add_pre_rrs(void)
{
  size_t i;
  for (i = 0; i < NPRE; i++) {
    ares_dns_rr_t *rr = NULL;
    vp_bytes((unsigned char *)&pre_addr[i], 4);
    MUST(ares_dns_record_rr_add(&rr, REC, (ares_dns_section_t)SECT, pre_name[i], ARES_REC_TYPE_A, ARES_CLASS_IN, 60));
    MUST(ares_dns_rr_set_addr(rr, ARES_RR_A_ADDR, &pre_addr[i]));
  }
}
static void check_pre_rrs(void)
{
  size_t i;
  for (i = 0; i < NPRE; i++) {
    const ares_dns_rr_t  *rr = ares_dns_record_rr_get_const(REC, (ares_dns_section_t)SECT, i);
    const struct in_addr *a;
    VP_ASSERT(rr != NULL && c03_streq(ares_dns_rr_get_name(rr), pre_name[i]), "earlier RR still there with its name");
    a = ares_dns_rr_get_addr(rr, ARES_RR_A_ADDR);
    VP_ASSERT(a != NULL && c03_memeq((const unsigned char *)a, (const unsigned char *)&pre_addr[i], 4), "earlier RR keeps its address");
  }
}

static void scenario(void)
{
  ares_status_t  st;
  ares_dns_rr_t *rr = NULL;
  size_t         i;
  (void)i; (void)rr; (void)st;

#if OP == 0 /* ares_dns_record_create: record + four section arrays */
  {
    ares_dns_record_t *r  = (ares_dns_record_t *)&live0; /* poison: must be overwritten */
    unsigned short     id = vp_u16();
    c14_arm(5);
    st = ares_dns_record_create(&r, id, ARES_FLAG_RD, ARES_OPCODE_QUERY, ARES_RCODE_NOERROR);
    if (c14_injected()) {
      VP_ASSERT(st == ARES_ENOMEM && r == NULL, "create reports ENOMEM and hands out no record");
      FAILW();
    } else {
      VP_ASSERT(st == ARES_SUCCESS && r != NULL && ares_dns_record_get_id(r) == id && ares_dns_record_query_cnt(r) == 0 &&
                  ares_dns_record_rr_cnt(r, ARES_SECTION_ANSWER) == 0,
                "create yields an empty record");
      OKW();
    }
    c14_disarm(5);
    ares_dns_record_destroy(r);
  }
#elif OP == 1 /* query_add with NPRE questions present */
  {
    static const char *const qn[5] = { "q0.b", "q1.b", "q2.b", "q3.b", "q4.b" };
    for (i = 0; i < NPRE; i++)
      MUST(ares_dns_record_query_add(REC, qn[i], ARES_REC_TYPE_A, ARES_CLASS_IN));
    c14_arm(2);
    st = ares_dns_record_query_add(REC, "new.b", ARES_REC_TYPE_AAAA, ARES_CLASS_IN);
    if (c14_injected()) {
      VP_ASSERT(st == ARES_ENOMEM, "query_add reports ENOMEM");
      VP_ASSERT(ares_dns_record_query_cnt(REC) == NPRE, "question count unchanged");
      c14_disarm(2);
      MUST(ares_dns_record_query_add(REC, "new.b", ARES_REC_TYPE_AAAA, ARES_CLASS_IN));
      FAILW();
    } else {
      c14_disarm(2);
      VP_ASSERT(st == ARES_SUCCESS, "query_add succeeds");
      OKW();
    }
    VP_ASSERT(ares_dns_record_query_cnt(REC) == NPRE + 1, "question appended");
    for (i = 0; i <= NPRE; i++) {
      const char         *n = NULL;
      ares_dns_rec_type_t t;
      ares_dns_class_t    c;
      VP_ASSERT(ares_dns_record_query_get(REC, i, &n, &t, &c) == ARES_SUCCESS && c03_streq(n, i < NPRE ? qn[i] : "new.b") &&
                  t == (i < NPRE ? ARES_REC_TYPE_A : ARES_REC_TYPE_AAAA),
                "every question readable with its own name and type");
    }
  }
#elif OP == 2 /* query_set_name */
  {
    const char *n = NULL;
    MUST(ares_dns_record_query_add(REC, "old.b", ARES_REC_TYPE_A, ARES_CLASS_IN));
    c14_arm(1);
    st = ares_dns_record_query_set_name(REC, 0, "other.name");
    if (c14_injected()) {
      VP_ASSERT(st == ARES_ENOMEM, "query_set_name reports ENOMEM");
      VP_ASSERT(ares_dns_record_query_get(REC, 0, &n, NULL, NULL) == ARES_SUCCESS && c03_streq(n, "old.b"), "old name kept");
      FAILW();
    } else {
      VP_ASSERT(st == ARES_SUCCESS, "query_set_name succeeds");
      VP_ASSERT(ares_dns_record_query_get(REC, 0, &n, NULL, NULL) == ARES_SUCCESS && c03_streq(n, "other.name"), "new name stored");
      OKW();
    }
    c14_disarm(1);
  }
#elif OP == 3 /* rr_add with NPRE RRs present (NPRE == 0: first storage; NPRE == 4: storage doubles and moves) */
  {
    unsigned int ttl = vp_u32();
    add_pre_rrs();
    rr = (ares_dns_rr_t *)&live0;
    c14_arm(2);
    st = ares_dns_record_rr_add(&rr, REC, (ares_dns_section_t)SECT, "new.b", ARES_REC_TYPE_MX, ARES_CLASS_IN, ttl);
    if (c14_injected()) {
      VP_ASSERT(st == ARES_ENOMEM && rr == NULL, "rr_add reports ENOMEM and hands out no RR");
      VP_ASSERT(ares_dns_record_rr_cnt(REC, (ares_dns_section_t)SECT) == NPRE, "RR count unchanged");
      check_pre_rrs();
      c14_disarm(2);
      MUST(ares_dns_record_rr_add(&rr, REC, (ares_dns_section_t)SECT, "new.b", ARES_REC_TYPE_MX, ARES_CLASS_IN, ttl));
      FAILW();
    } else {
      c14_disarm(2);
      VP_ASSERT(st == ARES_SUCCESS && rr != NULL, "rr_add succeeds");
      OKW();
    }
    VP_ASSERT(ares_dns_record_rr_cnt(REC, (ares_dns_section_t)SECT) == NPRE + 1, "RR appended");
    VP_ASSERT(rr == ares_dns_record_rr_get(REC, (ares_dns_section_t)SECT, NPRE) && c03_streq(ares_dns_rr_get_name(rr), "new.b") &&
                ares_dns_rr_get_type(rr) == ARES_REC_TYPE_MX && ares_dns_rr_get_ttl(rr) == ttl,
              "new RR readable");
    check_pre_rrs();
  }
#elif OP == 4 /* rr_prealloc */
  {
    add_pre_rrs();
    c14_arm(1);
    st = ares_dns_record_rr_prealloc(REC, (ares_dns_section_t)SECT, NPRE + 3);
    if (c14_injected()) {
      VP_ASSERT(st == ARES_ENOMEM, "rr_prealloc reports ENOMEM");
      FAILW();
    } else {
      VP_ASSERT(st == ARES_SUCCESS, "rr_prealloc succeeds");
      OKW();
    }
    c14_disarm(1);
    VP_ASSERT(ares_dns_record_rr_cnt(REC, (ares_dns_section_t)SECT) == NPRE, "RR count unchanged by prealloc");
    check_pre_rrs();
  }
#elif OP == 5 /* set_str: NAME key (NS) and STR key at a non-zero union offset (HINFO OS), over an old value */
  {
    ares_dns_rr_t *h = NULL;
    MUST(ares_dns_record_rr_add(&rr, REC, ARES_SECTION_ANSWER, "a.b", ARES_REC_TYPE_NS, ARES_CLASS_IN, 1));
    MUST(ares_dns_record_rr_add(&h, REC, ARES_SECTION_ANSWER, "a.b", ARES_REC_TYPE_HINFO, ARES_CLASS_IN, 1));
    rr = ares_dns_record_rr_get(REC, ARES_SECTION_ANSWER, 0);
#  if NPRE > 0
    MUST(ares_dns_rr_set_str(rr, ARES_RR_NS_NSDNAME, "old.b"));
    MUST(ares_dns_rr_set_str(h, ARES_RR_HINFO_OS, "oldos"));
#  endif
    c14_arm(1);
    st = ares_dns_rr_set_str(rr, ARES_RR_NS_NSDNAME, "ns.new.b");
    if (c14_injected()) {
      VP_ASSERT(st == ARES_ENOMEM, "set_str reports ENOMEM");
      VP_ASSERT(NPRE > 0 ? c03_streq(ares_dns_rr_get_str(rr, ARES_RR_NS_NSDNAME), "old.b") : ares_dns_rr_get_str(rr, ARES_RR_NS_NSDNAME) == NULL,
                "old value kept");
      FAILW();
    } else {
      VP_ASSERT(st == ARES_SUCCESS && c03_streq(ares_dns_rr_get_str(rr, ARES_RR_NS_NSDNAME), "ns.new.b"), "new value stored");
      OKW();
    }
    c14_disarm(1);
    c14_arm(1);
    st = ares_dns_rr_set_str(h, ARES_RR_HINFO_OS, "os2");
    if (c14_injected()) {
      VP_ASSERT(st == ARES_ENOMEM, "set_str reports ENOMEM");
      VP_ASSERT(NPRE > 0 ? c03_streq(ares_dns_rr_get_str(h, ARES_RR_HINFO_OS), "oldos") : ares_dns_rr_get_str(h, ARES_RR_HINFO_OS) == NULL,
                "old value kept");
    } else {
      VP_ASSERT(st == ARES_SUCCESS && c03_streq(ares_dns_rr_get_str(h, ARES_RR_HINFO_OS), "os2"), "new value stored");
    }
    c14_disarm(1);
  }
#elif OP == 6 /* set_bin: BINP key (CAA value) and BIN key (TLSA data), over an old value */
  {
    ares_dns_rr_t       *t = NULL;
    unsigned char        oldv[2], newv[BL + 1];
    const unsigned char *g;
    size_t               gl = 77;
    vp_bytes(oldv, 2);
    vp_bytes(newv, BL);
    MUST(ares_dns_record_rr_add(&rr, REC, ARES_SECTION_ANSWER, "a.b", ARES_REC_TYPE_CAA, ARES_CLASS_IN, 1));
    MUST(ares_dns_record_rr_add(&t, REC, ARES_SECTION_ANSWER, "a.b", ARES_REC_TYPE_TLSA, ARES_CLASS_IN, 1));
    rr = ares_dns_record_rr_get(REC, ARES_SECTION_ANSWER, 0);
#  if NPRE > 0
    MUST(ares_dns_rr_set_bin(rr, ARES_RR_CAA_VALUE, oldv, 2));
    MUST(ares_dns_rr_set_bin(t, ARES_RR_TLSA_DATA, oldv, 2));
#  endif
    c14_arm(1);
    st = ares_dns_rr_set_bin(rr, ARES_RR_CAA_VALUE, newv, BL);
    g  = ares_dns_rr_get_bin(rr, ARES_RR_CAA_VALUE, &gl);
    if (c14_injected()) {
      VP_ASSERT(st == ARES_ENOMEM, "set_bin reports ENOMEM");
      VP_ASSERT(NPRE > 0 ? (g != NULL && gl == 2 && c03_memeq(g, oldv, 2)) : (g == NULL && gl == 0), "old value kept");
      FAILW();
    } else {
      VP_ASSERT(st == ARES_SUCCESS && g != NULL && gl == BL && c03_memeq(g, newv, BL) && g[BL] == 0, "new value stored (NUL-terminated copy)");
      OKW();
    }
    c14_disarm(1);
    c14_arm(1);
    st = ares_dns_rr_set_bin(t, ARES_RR_TLSA_DATA, newv, BL);
    g  = ares_dns_rr_get_bin(t, ARES_RR_TLSA_DATA, &gl);
    if (c14_injected()) {
      VP_ASSERT(st == ARES_ENOMEM, "set_bin reports ENOMEM");
      VP_ASSERT(NPRE > 0 ? (g != NULL && gl == 2 && c03_memeq(g, oldv, 2)) : (g == NULL && gl == 0), "old value kept");
    } else {
      VP_ASSERT(st == ARES_SUCCESS && g != NULL && gl == BL && c03_memeq(g, newv, BL), "new value stored");
    }
    c14_disarm(1);
  }
#elif OP == 7 || OP == 8 /* TXT: set_bin (replace all by one string) / add_abin (append one string); NPRE strings present */
  {
    unsigned char        oldv[2], newv[BL + 1];
    const unsigned char *g;
    size_t               gl = 77, cnt;
    vp_bytes(oldv, 2);
    vp_bytes(newv, BL);
    MUST(ares_dns_record_rr_add(&rr, REC, ARES_SECTION_ANSWER, "a.b", ARES_REC_TYPE_TXT, ARES_CLASS_IN, 1));
    for (i = 0; i < NPRE; i++)
      MUST(ares_dns_rr_add_abin(rr, ARES_RR_TXT_DATA, oldv, 2));
    c14_arm(4);
#  if OP == 7
    st = ares_dns_rr_set_bin(rr, ARES_RR_TXT_DATA, newv, BL);
#  else
    st = ares_dns_rr_add_abin(rr, ARES_RR_TXT_DATA, newv, BL);
#  endif
    cnt = ares_dns_rr_get_abin_cnt(rr, ARES_RR_TXT_DATA);
    if (c14_injected()) {
      VP_ASSERT(st == ARES_ENOMEM, "TXT setter reports ENOMEM");
#  if OP == 7
      /* set_bin on a multi-string key is "clear, then add": a failure of the copy keeps the old strings, a failure
       * while adding leaves the (valid) empty list */
      VP_ASSERT(cnt == NPRE || cnt == 0, "old strings kept, or the list cleared - never a partial entry");
#  else
      VP_ASSERT(cnt == NPRE, "string count unchanged");
#  endif
      for (i = 0; i < NPRE; i++)
        if (i < cnt) {
          g = ares_dns_rr_get_abin(rr, ARES_RR_TXT_DATA, i, &gl);
          VP_ASSERT(g != NULL && gl == 2 && c03_memeq(g, oldv, 2), "old strings intact");
        }
      c14_disarm(4);
      MUST(ares_dns_rr_add_abin(rr, ARES_RR_TXT_DATA, newv, BL));
      FAILW();
    } else {
      c14_disarm(4);
      VP_ASSERT(st == ARES_SUCCESS, "TXT setter succeeds");
      VP_ASSERT(cnt == (OP == 7 ? 1 : NPRE + 1), "string count as documented");
      g = ares_dns_rr_get_abin(rr, ARES_RR_TXT_DATA, cnt - 1, &gl);
      VP_ASSERT(g != NULL && gl == BL && c03_memeq(g, newv, BL), "new string stored last");
      OKW();
    }
  }
#elif OP == 9 || OP == 10 /* set_opt / set_opt_own on OPT (RTYPE 41) or SVCB params: NPRE options present; REPL: replace option 0 */
  {
    static const unsigned short codes[6] = { 10, 3, 7, 12, 9, 15 };
    unsigned char               oldv[2], newv[BL + 1];
    const unsigned char        *g  = NULL;
    size_t                      gl = 77, cnt;
#  ifdef REPL
    unsigned short code = codes[0];
#  else
    unsigned short code = 77;
#  endif
#  if RTYPE == 41
    const ares_dns_rr_key_t key = ARES_RR_OPT_OPTIONS;
    MUST(ares_dns_record_rr_add(&rr, REC, ARES_SECTION_ADDITIONAL, "", ARES_REC_TYPE_OPT, ARES_CLASS_IN, 0));
#  else
    const ares_dns_rr_key_t key = ARES_RR_SVCB_PARAMS;
    MUST(ares_dns_record_rr_add(&rr, REC, ARES_SECTION_ANSWER, "a.b", ARES_REC_TYPE_SVCB, ARES_CLASS_IN, 1));
#  endif
    vp_bytes(oldv, 2);
    vp_bytes(newv, BL);
    for (i = 0; i < NPRE; i++)
      MUST(ares_dns_rr_set_opt(rr, key, codes[i], oldv, 2));
    c14_arm(3);
#  if OP == 9
    st = ares_dns_rr_set_opt(rr, key, code, newv, BL);
#  else
    {
      unsigned char *own = ares_malloc(BL + 1); /* may itself be the failing allocation: then there is nothing to hand over */
      if (own == NULL) {
        st = ARES_ENOMEM;
      } else {
        memcpy(own, newv, BL);
        own[BL] = 0;
        st      = ares_dns_rr_set_opt_own(rr, key, code, own, BL);
        if (st != ARES_SUCCESS)
          ares_free(own); /* ownership stays with the caller on failure */
      }
    }
#  endif
    cnt = ares_dns_rr_get_opt_cnt(rr, key);
    if (c14_injected()) {
      VP_ASSERT(st == ARES_ENOMEM, "set_opt reports ENOMEM");
      VP_ASSERT(cnt == NPRE, "option count unchanged");
      for (i = 0; i < NPRE; i++)
        VP_ASSERT(ares_dns_rr_get_opt_byid(rr, key, codes[i], &g, &gl) == ARES_TRUE && gl == 2 && c03_memeq(g, oldv, 2), "old options intact");
      c14_disarm(3);
      MUST(ares_dns_rr_set_opt(rr, key, code, newv, BL));
      cnt = ares_dns_rr_get_opt_cnt(rr, key);
      FAILW();
    } else {
      c14_disarm(3);
      VP_ASSERT(st == ARES_SUCCESS, "set_opt succeeds");
      OKW();
    }
#  ifdef REPL
    VP_ASSERT(cnt == NPRE, "replacing keeps the option count");
#  else
    VP_ASSERT(cnt == NPRE + 1, "option appended");
#  endif
    VP_ASSERT(ares_dns_rr_get_opt_byid(rr, key, code, &g, &gl) == ARES_TRUE && gl == BL && c03_memeq(g, newv, BL), "new option value stored");
    for (i = 1; i < NPRE; i++)
      VP_ASSERT(ares_dns_rr_get_opt_byid(rr, key, codes[i], &g, &gl) == ARES_TRUE && gl == 2 && c03_memeq(g, oldv, 2), "other options intact");
  }
#elif OP == 11 /* get_bin on a TXT key builds (and caches) the concatenation: a GETTER that allocates */
  {
    static const size_t  tl[2] = { TL0, TL1 };
    unsigned char        v[4];
    const unsigned char *g;
    size_t               gl = 77;
    vp_bytes(v, 4);
    MUST(ares_dns_record_rr_add(&rr, REC, ARES_SECTION_ANSWER, "a.b", ARES_REC_TYPE_TXT, ARES_CLASS_IN, 1));
    for (i = 0; i < NPRE; i++)
      MUST(ares_dns_rr_add_abin(rr, ARES_RR_TXT_DATA, v, tl[i]));
    c14_arm(2);
#  ifdef KF_multistring_combined_oom_leak
    VP_ASSUME(!(TL0 + TL1 == 0 && c14_f == 2));
#  endif
#  ifdef KFONLY_multistring_combined_oom_leak
    VP_ASSUME(TL0 + TL1 == 0 && c14_f == 2);
#  endif
    g = ares_dns_rr_get_bin(rr, ARES_RR_TXT_DATA, &gl);
    if (c14_injected()) {
      VP_ASSERT(g == NULL && gl == 0, "get_bin reports the failure as NULL / length 0");
      c14_disarm(2);
      g = ares_dns_rr_get_bin(rr, ARES_RR_TXT_DATA, &gl);
      FAILW();
    } else {
      c14_disarm(2);
      OKW();
    }
    VP_ASSERT(g != NULL && gl == (NPRE > 0 ? TL0 : 0) + (NPRE > 1 ? TL1 : 0), "concatenation returned");
    if (gl > 0) VP_ASSERT(g[0] == v[0], "first byte");
    VP_ASSERT(ares_dns_rr_get_abin_cnt(rr, ARES_RR_TXT_DATA) == NPRE, "strings untouched");
    VP_WITNESS("end");
    ares_dns_record_destroy(REC);
    if (TL0 + TL1 == 0 && c14_f == 2)
      VP_ASSERT(vp_alloc_live == live0, "FINDING multistring_combined_oom_leak: ares_dns_multistring_combined() leaks its scratch buffer when ares_buf_finish_str() fails (all strings empty)");
    else
      VP_ASSERT(vp_alloc_live == live0, "record destroy releases everything (allocator ledger)");
    return;
  }
#elif OP == 12 /* ares_dns_record_duplicate of question + MX RR (write + parse inside) */
  {
    ares_dns_record_t *d;
    unsigned short     pref = vp_u16();
    MUST(ares_dns_record_query_add(REC, "a.b", ARES_REC_TYPE_MX, ARES_CLASS_IN));
    MUST(ares_dns_record_rr_add(&rr, REC, ARES_SECTION_ANSWER, "a.b", ARES_REC_TYPE_MX, ARES_CLASS_IN, vp_u32()));
    MUST(ares_dns_rr_set_u16(rr, ARES_RR_MX_PREFERENCE, pref));
    MUST(ares_dns_rr_set_str(rr, ARES_RR_MX_EXCHANGE, "m.a.b"));
    c14_arm(NF);
    d = ares_dns_record_duplicate(REC);
    if (c14_injected()) {
      /* reports the failure, or proceeds correctly (a lost compression target only makes the message longer) */
      if (d != NULL) {
        c03_cmp_record(REC, d);
        VP_WITNESS("failure absorbed, result correct");
      } else {
        FAILW();
      }
    } else {
      VP_ASSERT(d != NULL, "duplicate succeeds");
      c03_cmp_record(REC, d);
      OKW();
    }
    c14_disarm(NF);
    C14_NALLOC_CHECK(NALLOC);
    VP_ASSERT(ares_dns_record_rr_cnt(REC, ARES_SECTION_ANSWER) == 1 &&
                ares_dns_rr_get_u16(ares_dns_record_rr_get_const(REC, ARES_SECTION_ANSWER, 0), ARES_RR_MX_PREFERENCE) == pref,
              "source record untouched");
    ares_dns_record_destroy(d);
  }
#else
#  error "unknown OP"
#endif
  finish();
}

void harness(void)
{
  vp_alloc_install();
  live0 = vp_alloc_live;
  {
    ares_status_t st = ares_dns_record_create(&REC, vp_u16(), ARES_FLAG_QR | ARES_FLAG_RD, ARES_OPCODE_QUERY, ARES_RCODE_NOERROR);
    VP_ASSERT(st == ARES_SUCCESS && REC != NULL, "record created");
  }
#ifdef FLO
  C14_SPLIT_RANGE(FLO, FHI, scenario());
#else
  C14_SPLIT(NPOS, scenario());
#endif
}
