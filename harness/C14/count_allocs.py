#!/usr/bin/env python3
"""development aid: count_allocs.py <job-substring> - builds the job's harness natively (as the replay does) with
-DC14_PRINT and runs it with all choices 0 (= no failure): prints how many allocations the armed call makes."""
import os, sys, subprocess, tempfile
sys.path.insert(0, os.path.join(os.path.dirname(os.path.abspath(__file__)), "..", "..", "vp"))
import run
mod = run.load_jobs("C14", "thorough", 0)
for j in mod.jobs("thorough", 0):
    if sys.argv[1] not in j["name"]:
        continue
    h, real, sup = run.src_paths(j, "C14")
    d = tempfile.mkdtemp()
    exe = os.path.join(d, "a.out")
    cmd = ["gcc", "-std=gnu99", "-g", "-O0", "-w", "-DVP_NATIVE", "-DC14_PRINT"] + run.BASE_DEFS + run.include_flags("C14") + \
        j.get("defines", []) + ["-Dharness=vp_harness_entry", h] + real + sup + [os.path.join(run.COMMON, "native_main.c"), "-o", exe, "-lm", "-lpthread"]
    r = subprocess.run(cmd, capture_output=True, text=True)
    if r.returncode != 0:
        import re
        syms = sorted(set(re.findall(r"undefined reference to `([A-Za-z_][A-Za-z0-9_]*)'", r.stderr)))
        uf = os.path.join(d, "u.c")
        open(uf, "w").write("void vp_native_unlinked(const char *);\n" + "".join('void %s(void){vp_native_unlinked("%s");}\n' % (s, s) for s in syms))
        r = subprocess.run(cmd + [uf], capture_output=True, text=True)
        if r.returncode != 0:
            print(j["name"], "build failed", r.stderr[-500:]); continue
    r = subprocess.run([exe], capture_output=True, text=True)
    print(j["name"], r.returncode, r.stderr.strip()[-300:])
