/* strtoul / memchr loop models shared with C15 */
#include "../C15/libc_extra.c"
