/* C14 / container constructors: ares_llist_create, ares_slist_create (list + head array), ares_htable_create (table +
 * bucket array) and ares_htable_all_buckets with any ONE failing allocation (position = solver variable): NULL is
 * returned, nothing is leaked; without failure a usable, destroyable empty container.  Real: dsa/ares_llist.c,
 * dsa/ares_slist.c, dsa/ares_htable.c, ares_library_init.c.  Stub: ares_rand_bytes (not reached by create). */
#include "vp.h"
#include "ares_private.h"
#include "dsa/ares_htable.h"
#include "c14.h"

void ares_rand_bytes(ares_rand_state *state, unsigned char *buf, size_t len)
{
  (void)state;
  vp_bytes(buf, len);
}

static int          cmp(const void *a, const void *b) { return *(const int *)a - *(const int *)b; }
static unsigned int h_hash(const void *key, unsigned int seed) { (void)seed; return (unsigned int)*(const int *)key; }
static const void  *h_key(const void *bucket) { return bucket; }
static void         h_free(void *bucket) { (void)bucket; }
static ares_bool_t  h_eq(const void *a, const void *b) { return *(const int *)a == *(const int *)b ? ARES_TRUE : ARES_FALSE; }
static void         nofree(void *p) { (void)p; }

static void scenario(void)
{
  static int dummy_rand;
  long       live0 = vp_alloc_live;
#if OP == 0
  ares_llist_t *l;
  c14_arm(1);
  l = ares_llist_create(nofree);
  if (c14_injected()) { VP_ASSERT(l == NULL, "llist_create reports the failed allocation"); VP_WITNESS("allocation failure reported"); }
  else { VP_ASSERT(l != NULL && ares_llist_len(l) == 0 && ares_llist_node_first(l) == NULL, "llist_create yields an empty list"); VP_WITNESS("no failure"); }
  c14_disarm(1);
  ares_llist_destroy(l);
#elif OP == 1
  ares_slist_t *s;
  c14_arm(2);
  s = ares_slist_create((ares_rand_state *)&dummy_rand, cmp, nofree);
  if (c14_injected()) { VP_ASSERT(s == NULL, "slist_create reports the failed allocation"); VP_WITNESS("allocation failure reported"); }
  else { VP_ASSERT(s != NULL && ares_slist_len(s) == 0 && ares_slist_node_first(s) == NULL, "slist_create yields an empty list"); VP_WITNESS("no failure"); }
  c14_disarm(2);
  ares_slist_destroy(s);
#else
  ares_htable_t *h;
  int            k = 7;
  c14_arm(2);
  h = ares_htable_create(h_hash, h_key, h_free, h_eq);
  if (c14_injected()) { VP_ASSERT(h == NULL, "htable_create reports the failed allocation"); VP_WITNESS("allocation failure reported"); }
  else { VP_ASSERT(h != NULL && ares_htable_num_keys(h) == 0 && ares_htable_get(h, &k) == NULL, "htable_create yields an empty table"); VP_WITNESS("no failure"); }
  c14_disarm(2);
  if (h != NULL) {
    size_t       n = 9;
    const void **all;
    c14_arm(1);
    all = ares_htable_all_buckets(h, &n);
    if (c14_injected()) VP_ASSERT(all == NULL, "all_buckets reports the failed allocation");
    else VP_ASSERT(all != NULL && n == 0, "all_buckets of an empty table");
    c14_disarm(1);
    ares_free(all);
  }
  ares_htable_destroy(h);
#endif
  VP_ASSERT(vp_alloc_live == live0, "nothing leaked (allocator ledger)");
  VP_WITNESS("end");
}

void harness(void)
{
  vp_alloc_install();
  C14_SPLIT(2, scenario());
}
