/* C14 / ares_search_dnsrec() start with ONE failing REAL allocation (position = solver variable, case split): search
 * state, record duplicate (abstract record: its allocations go through the same ledger), candidate name list
 * (ares_search_name_list: ares_buf / ares_strsplit / ares_strdup real), question rewrite.  Everything else as in
 * harness/C01/search.c (whole real ares_search.c; contract stub ares_send_nolock; abstract records), whose stubs and
 * ghost counters are reused by inclusion.  Oracle: the user callback ran exactly once or exactly one wire request is
 * pending (never both, never neither), an allocation failure before the first send ends the search with the callback
 * (status ENOMEM or the status the search reports) - and everything is released (allocator ledger). */
#define ENTRY 0
#include "vp.h"
#ifdef harness
#  undef harness
#endif
#define harness c01_search_entry_unused
#include "../C01/search.c"
#undef harness
#ifdef VP_NATIVE
#  define harness vp_harness_entry
#endif
#include "c14.h"

#ifndef NPOS
#  define NPOS 24
#endif

static ares_channel_t CH;
static char          *DOM[2];
static char           D0[] = "x", D1[] = "y.z";

static void scenario(void)
{
  static const char *names[] = { "a", "a.b", "a." };
  const char        *name    = names[NAME_IDX];
  ares_dns_record_t *req;
  ares_status_t      rv;
  long               live0 = vp_alloc_live;

  req = vp_absrec_new(1);
  vp_absrec_set_question(req, name, 1, 1);

  c14_arm(NPOS);
  rv = ares_search_dnsrec(&CH, req, user_cb, NULL);
  VP_ASSERT(user_cb_count + pending == 1, "after starting: completed exactly once, or exactly one request pending");
  if (c14_injected()) {
    if (sends == 0) {
      VP_ASSERT(user_cb_count == 1 && rv != ARES_SUCCESS, "a failure before any send ends the search through the callback and is returned");
      VP_ASSERT(user_status == rv, "callback status equals the returned status");
      VP_ASSERT(rv == ARES_ENOMEM, "the failed allocation is reported as ENOMEM");
    }
    VP_WITNESS("allocation failure reported");
  } else {
    VP_WITNESS("no failure");
  }
  c14_disarm(NPOS);
  if (pending)
    squery_free(pending_sq); /* still owned by the search: release for the ledger */
  ares_dns_record_destroy(req);
  VP_ASSERT(vp_alloc_live == live0, "everything released (allocator ledger)");
  VP_WITNESS("end");
}

void harness(void)
{
  vp_alloc_install();
  DOM[0]      = D0;
  DOM[1]      = D1;
  CH.domains  = DOM;
  CH.ndomains = ND;
  CH.ndots    = vp_range(0, 2);
  CH.flags    = ARES_FLAG_NOALIASES | (NOSEARCH ? ARES_FLAG_NOSEARCH : 0);
  vp_absrec_setname_may_fail = 0; /* the REAL allocator is the failure source here */
  vp_absrec_dup_may_fail     = 0;
#ifdef FLO
  C14_SPLIT_RANGE(FLO, FHI, scenario());
#else
  C14_SPLIT(NPOS, scenario());
#endif
}
