/* C14 / ares_array: ONE growing operation from an ARBITRARY valid array (pre-state, invariant and reference model of
 * harness/C19/array_step.c) in which the storage (re)allocation may fail (position = solver variable).
 * Oracle: the failed call returns ARES_ENOMEM, the array is EXACTLY what it was (invariant, capacity, every element
 * against the model), the same call then succeeds, and destroy releases everything (allocator ledger).
 * Real: whole src/lib/dsa/ares_array.c, ares_library_init.c, util/ares_math.c. */
#include "vp.h"
#ifdef harness
#  undef harness
#endif
#define harness c19_array_step_entry_unused
#include "../C19/array_step.c"
#undef harness
#ifdef VP_NATIVE
#  define harness vp_harness_entry
#endif
#include "c14.h"

#ifndef OP
#  error "array_oom.c needs -DOP=n"
#endif

static ares_array_t *A;

static ares_status_t do_op(size_t idx, const elem_t *e, size_t want, void **p)
{
  switch (OP) {
    case 0: return ares_array_insert_at(p, A, idx);
    case 1: return ares_array_insertdata_at(A, idx, e);
    case 2: return ares_array_insertdata_first(A, e);
    case 3: return ares_array_insertdata_last(A, e);
    case 4: return ares_array_insert_first(p, A);
    case 5: return ares_array_insert_last(p, A);
    default: return ares_array_set_size(A, want);
  }
}

static void model_op(size_t idx, const elem_t *e, const elem_t *zero)
{
  switch (OP) {
    case 0: model_insert(idx, zero); break;
    case 1: model_insert(idx, e); break;
    case 2: model_insert(0, e); break;
    case 3: model_insert(mcnt, e); break;
    case 4: model_insert(0, zero); break;
    case 5: model_insert(mcnt, zero); break;
    default: break;
  }
}

static void scenario(void)
{
  size_t        idx  = vp_size(), want = vp_range(1, 9);
  size_t        ac0  = A->alloc_cnt;
  elem_t        e, zero;
  ares_status_t st;
  void         *p = NULL;

  vp_bytes(e.b, MS);
  memset(&zero, 0, sizeof(zero));
  VP_ASSUME(idx <= mcnt);
  VP_ASSUME(want >= mcnt);

#if OP == 13 /* create */
  {
    ares_array_t *n;
    c14_arm(1);
    n = ares_array_create(MS, NULL);
    if (c14_injected()) { VP_ASSERT(n == NULL, "create reports the failed allocation"); VP_WITNESS("allocation failure reported"); }
    else { VP_ASSERT(n != NULL && inv(n) && ares_array_len(n) == 0, "create yields a valid empty array"); VP_WITNESS("no failure"); }
    c14_disarm(1);
    ares_array_destroy(n);
    (void)st; (void)p; (void)ac0;
  }
#else
  c14_arm(1);
  st = do_op(idx, &e, want, &p);
  if (c14_injected()) {
    VP_ASSERT(st == ARES_ENOMEM, "growth failure is reported as ENOMEM");
    VP_ASSERT(p == NULL, "no element pointer handed out on failure");
    VP_ASSERT(inv(A) && A->alloc_cnt == ac0, "invariant and capacity unchanged after the failed growth");
    check_matches_model(A);
    c14_disarm(1);
    st = do_op(idx, &e, want, &p);
    VP_ASSERT(st == ARES_SUCCESS, "the same call succeeds afterwards (array still usable)");
    model_op(idx, &e, &zero);
    VP_WITNESS("allocation failure reported");
  } else {
    c14_disarm(1);
    VP_ASSERT(st == ARES_SUCCESS, "succeeds when no allocation fails");
    model_op(idx, &e, &zero);
    VP_WITNESS("no failure");
  }
  if (OP == 10)
    VP_ASSERT(A->alloc_cnt >= want, "capacity as requested");
#endif
  VP_ASSERT(inv(A), "representation invariant preserved");
  check_matches_model(A);
  VP_WITNESS("end");
  ares_array_destroy(A);
  VP_ASSERT(vp_alloc_live == 0, "nothing leaked, nothing freed twice (allocator ledger)");
}

void harness(void)
{
  vp_alloc_install();
  A = arbitrary_array();
#if defined(AC) && AC > 0 && OP != 10 && OP != 13
  /* inserts reach the allocator only when the array is full (cnt == alloc_cnt, hence offset == 0); every other
   * pre-state is allocation-free and belongs to C19.  Make the full shape concrete for symbolic execution. */
  if (!(A->cnt == AC && A->offset == 0))
    return;
  A->cnt    = AC;
  A->offset = 0;
  mcnt      = AC;
#endif
  C14_SPLIT(1, scenario());
}
