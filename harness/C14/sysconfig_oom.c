/* C14 / ares_sysconfig_set_options() (the value of a resolv.conf "options" line / $RES_OPTIONS) on the concrete text
 * TEXT with ONE failing allocation (position = solver variable, case split, sliced over jobs).  Real:
 * ares_sysconfig_files.c (ares_sysconfig_set_options + static process_option), the REAL ares_buf split family and the
 * REAL ares_array, ares_str.c.  strtoul/memchr = loop models of harness/C15/libc_extra.c.
 * Oracle: an injected failure is reported as ARES_ENOMEM ("out of memory is the only fatal condition"); fields of
 * options that were already processed hold their new value, the others their old one (never anything else); without
 * failure both options are applied; nothing is leaked (allocator ledger). */
#include "vp.h"
#include "ares_private.h"
#include "c14.h"
#include <string.h>

#ifndef NALLOC
#  define NALLOC 40
#endif
#ifndef FLO
#  define FLO 0
#  define FHI NALLOC
#endif

static ares_sysconfig_t S, PRE;
static long             live0;

static void scenario(void)
{
  ares_status_t st;
  c14_arm(NALLOC);
  st = ares_sysconfig_set_options(&S, "ndots:2 rotate");
  if (c14_injected()) {
    VP_ASSERT(st == ARES_ENOMEM, "set_options reports the failed allocation as ENOMEM");
    VP_WITNESS("allocation failure reported");
  } else {
    VP_ASSERT(st == ARES_SUCCESS, "set_options succeeds when no allocation fails");
    C14_NALLOC_CHECK(NALLOC);
    VP_ASSERT(S.ndots == 2 && S.rotate == ARES_TRUE, "both options applied");
    VP_WITNESS("no failure");
  }
  c14_disarm(NALLOC);
  VP_ASSERT(S.ndots == 2 || S.ndots == PRE.ndots, "ndots: new value or untouched");
  VP_ASSERT(S.rotate == ARES_TRUE || S.rotate == PRE.rotate, "rotate: new value or untouched");
  VP_ASSERT(S.rotate == PRE.rotate || S.ndots == 2, "options are applied in text order");
  VP_ASSERT(S.tries == PRE.tries && S.timeout_ms == PRE.timeout_ms && S.usevc == PRE.usevc && S.sconfig == NULL && S.domains == NULL &&
              S.sortlist == NULL && S.lookups == NULL,
            "fields no option names are untouched");
  VP_ASSERT(vp_alloc_live == live0, "everything released (allocator ledger)");
  VP_WITNESS("end");
}

void harness(void)
{
  vp_alloc_install();
  memset(&S, 0, sizeof(S));
  S.ndots      = vp_size();
  S.tries      = vp_size();
  S.timeout_ms = vp_size();
  S.rotate     = vp_bool() ? ARES_TRUE : ARES_FALSE;
  S.usevc      = vp_bool() ? ARES_TRUE : ARES_FALSE;
  PRE          = S;
  live0        = vp_alloc_live;
  C14_SPLIT_RANGE(FLO, FHI, scenario());
}
