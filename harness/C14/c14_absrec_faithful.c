/* C14 / search_oom.c: the two ALLOCATING functions of the abstract record (harness/stubs/dnsrec_abs.c) with the failure
 * behaviour of the real ones - all or nothing.  The shared stub frees the old question before allocating the new one and
 * returns a question-less duplicate when its second allocation fails; that is fine where the stub's own nondeterministic
 * failure switch is used (C01), but not when the REAL allocator injects the failure.  These bodies replace the stub's
 * (job fields replace / replace_with; goto-instrument --remove-function-body). */
#include "ares_private.h"
#include "vp.h"
#include "dnsrec_abs.h"

static size_t c14_len(const char *s)
{
  size_t n = 0;
  while (s[n] != 0)
    n++;
  return n;
}

/* the stub's setter with failure injection suspended and the allocation counter left as it was */
static void c14_set_question_nofail(ares_dns_record_t *r, const char *name, int t, int c)
{
  unsigned long fa = vp_alloc_fail_at, calls = vp_alloc_calls;
  vp_alloc_fail_at = 0;
  vp_absrec_set_question(r, name, t, c);
  vp_alloc_calls   = calls;
  vp_alloc_fail_at = fa;
}

ares_status_t ares_dns_record_query_set_name(ares_dns_record_t *r, size_t idx, const char *name)
{
  const char         *old = NULL;
  ares_dns_rec_type_t t;
  ares_dns_class_t    c;
  void               *probe;
  if (r == NULL || idx != 0 || name == NULL || ares_dns_record_query_get(r, 0, &old, &t, &c) != ARES_SUCCESS)
    return ARES_EFORMERR;
  probe = vp_malloc(c14_len(name) + 1); /* the real one duplicates the new name first (ONE allocation) ... */
  if (probe == NULL)
    return ARES_ENOMEM; /* ... and keeps the old name when that fails */
  vp_free(probe);
  c14_set_question_nofail(r, name, (int)t, (int)c);
  return ARES_SUCCESS;
}

ares_dns_record_t *ares_dns_record_duplicate(const ares_dns_record_t *r)
{
  const char         *qn = NULL;
  ares_dns_rec_type_t t  = 1;
  ares_dns_class_t    c  = 1;
  ares_dns_record_t  *d;
  if (r == NULL)
    return NULL;
  d = vp_absrec_new(r->id); /* allocation 1 */
  if (d == NULL)
    return NULL;
  d->flags  = r->flags;
  d->opcode = r->opcode;
  d->rcode  = r->rcode;
  if (ares_dns_record_query_get(r, 0, &qn, &t, &c) == ARES_SUCCESS) {
    void *probe = vp_malloc(c14_len(qn) + 1); /* allocation 2 */
    if (probe == NULL) {
      ares_dns_record_destroy(d);
      return NULL;
    }
    vp_free(probe);
    c14_set_question_nofail(d, qn, (int)t, (int)c);
  }
  vp_absrec_set_ancount(d, ares_dns_record_rr_cnt(r, ARES_SECTION_ANSWER));
  vp_absrec_set_opt(d, vp_absrec_has_opt(r), 0);
  return d;
}
