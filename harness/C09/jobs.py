import os, sys
sys.path.insert(0, os.path.join(os.path.dirname(os.path.abspath(__file__)), "..", "machine"))
import mjobs
OUTSIDE = ("more than 2 servers in the send step / 3 in the health steps; histories longer than one step from an arbitrary valid "
           "state (the steps re-establish the sortedness invariant: inductive); real skip list (reference list here, C19 for the real one)")
ASSUMPTIONS = mjobs.ASSUMPTIONS

def jobs(tier, seed):
    J = [dict(name="server_order", harness="server_order.c", real=[], support=["vp_rt.c", "world.c", "vsock.c"], unwind=4,
              bound="server_sort_cb and the deadline comparator on three elements with ALL field values symbolic")]
    J += mjobs.health_jobs(tier)
    J += mjobs.requeue_jobs(tier)  # a finished probe releases its server
    sq = mjobs.sendquery_jobs(tier)
    if tier == "quick":  # the other combinations run in C01/C10 and in the thorough tier here
        sq = [j for j in sq if j["name"] in ("sendquery_srv2_vc0_ex0_sib0", "sendquery_srv2_vc1_ex0_sib0", "sendquery_srv1_vc0_ex1_sib0",
                                             "sendquery_srv1_vc0_ex1_sib1", "sendquery_srv1_vc1_ex2_sib1")]
    J += sq
    # "the first such in configuration order" also after the application RE-configures the servers at run time: the
    # priority list the send step walks must be in the new configuration order (ares_servers_update; harness shared with
    # C08 / C16: the list is compared entry by entry, in traversal order, with the requested configuration)
    import importlib.util
    p16 = os.path.join(os.path.dirname(os.path.abspath(__file__)), "..", "C16", "jobs.py")
    spec = importlib.util.spec_from_file_location("jobs_C16_reuse09", p16)
    m16 = importlib.util.module_from_spec(spec); spec.loader.exec_module(m16)
    for j in m16.servers_update_jobs(tier):
        j = dict(j); j["harness"] = "../C16/" + j["harness"]
        J.append(j)
    return J
