import os, sys
sys.path.insert(0, os.path.join(os.path.dirname(os.path.abspath(__file__)), "..", "machine"))
import mjobs
OUTSIDE = "more than 2 servers in the machine harness; histories longer than one step from an arbitrary valid state"
ASSUMPTIONS = mjobs.ASSUMPTIONS

def jobs(tier, seed):
    return mjobs.sendquery_jobs(tier)
