/* C09: the server ordering (server_sort_cb, static in ares_init.c) is a strict weak order on
 * (consecutive failures, configuration index), and equals the transcription used by the machine harnesses
 * (world_server_sort_cmp); same for the timeout-index comparator.  All field values symbolic. */
#include "vp.h"
#include "ares_init.c"
#include "world.h"

static int sgn(int x) { return x < 0 ? -1 : (x > 0 ? 1 : 0); }

void harness(void)
{
  static ares_server_t a, b, c;
  static ares_query_t  p, q, r;
  a.consec_failures = vp_size(); a.idx = vp_size();
  b.consec_failures = vp_size(); b.idx = vp_size();
  c.consec_failures = vp_size(); c.idx = vp_size();
  VP_ASSERT(server_sort_cb(&a, &a) == 0, "irreflexive");
  VP_ASSERT(sgn(server_sort_cb(&a, &b)) == -sgn(server_sort_cb(&b, &a)), "antisymmetric");
  if (server_sort_cb(&a, &b) < 0 && server_sort_cb(&b, &c) < 0) VP_ASSERT(server_sort_cb(&a, &c) < 0, "transitive");
  if (server_sort_cb(&a, &b) == 0 && server_sort_cb(&b, &c) == 0) VP_ASSERT(server_sort_cb(&a, &c) == 0, "equivalence transitive");
  VP_ASSERT((server_sort_cb(&a, &b) < 0) ==
              (a.consec_failures < b.consec_failures || (a.consec_failures == b.consec_failures && a.idx < b.idx)),
            "ordered by fewest consecutive failures, then configuration order");
  VP_ASSERT(sgn(server_sort_cb(&a, &b)) == sgn(world_server_sort_cmp(&a, &b)), "harness transcription equals the real comparator");

  p.timeout.sec = (ares_int64_t)vp_u64(); p.timeout.usec = vp_u32();
  q.timeout.sec = (ares_int64_t)vp_u64(); q.timeout.usec = vp_u32();
  r.timeout.sec = (ares_int64_t)vp_u64(); r.timeout.usec = vp_u32();
  VP_ASSERT(sgn(ares_query_timeout_cmp_cb(&p, &q)) == -sgn(ares_query_timeout_cmp_cb(&q, &p)), "deadline order antisymmetric");
  if (ares_query_timeout_cmp_cb(&p, &q) < 0 && ares_query_timeout_cmp_cb(&q, &r) < 0)
    VP_ASSERT(ares_query_timeout_cmp_cb(&p, &r) < 0, "deadline order transitive");
  VP_ASSERT((ares_query_timeout_cmp_cb(&p, &q) < 0) ==
              (p.timeout.sec < q.timeout.sec || (p.timeout.sec == q.timeout.sec && p.timeout.usec < q.timeout.usec)),
            "timeout index ordered by deadline");
  VP_ASSERT(sgn(ares_query_timeout_cmp_cb(&p, &q)) == sgn(world_query_timeout_cmp(&p, &q)), "harness transcription equals the real comparator");
  VP_WITNESS("end");
}
