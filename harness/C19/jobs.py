OUTSIDE = ("containers with more than the stated element counts (array alloc_cnt > 8, lists > 3+2 nodes, skip list > 3 "
           "(thorough: sampled 4) nodes, hash table > 3 (thorough 4) entries in 16 slots, buffers > 32 (thorough 64) bytes); "
           "skip-list with more than 4 list levels (needs >= 16 elements) and growth of the level array; hash tables growing "
           "through insert (needs 13 entries; ares_htable_expand is exercised directly); ares_buf_split / hexdump / parse_* / "
           "replace / append_num_* / load_file; append-family operations on allocated buffers are covered on slices (cursor "
           "fixed + data_len symbolic, or grid points) - the fully symbolic state only in the thorough tier where it closes; "
           "ares_buf_set_position below an active tag (no library caller does it)")
ASSUMPTIONS = ["representation invariants (inv()/check_*() in harness/C19/*.c) characterise the reachable states: each is "
               "re-established by every operation (inductive step) and holds for the state made by the real constructor "
               "(anchor jobs)",
               "ares_llist / ares_slist / ares_htable have no value-dependent pointer structure beyond key order / hash "
               "slot, and CBMC does not close on symbolic pointer structures (measured), so their SHAPES (node counts, "
               "skip-list level vectors, collision patterns incl. the post-doubling hash bit, in-slot orders, operand node) "
               "are enumerated exhaustively as concrete jobs / concrete loops inside the harness; keys, values, destructor "
               "choice, coin-flip state stay symbolic",
               "hash function stub: arbitrary function of the key given by a table indexed by key identity (generic table: "
               "harness callback; wrappers: ares_htable_hash_FNV1a[_casecmp] replaced at the TU boundary)",
               "ares_rand_bytes stub: arbitrary bytes (level-choice kernel) / the concrete flip pattern selecting the "
               "enumerated level (insert jobs)",
               "typed allocation under CBMC for list/table/skip-list objects (malloc(sizeof(T)) instead of the byte-array "
               "objects of valloc.c), same ledger and failure injection; leak freedom is asserted on the allocator ledger",
               "memchr/memmem: loop models in harness/C19/c19_libc.c (CBMC has none)",
               "ares_buf: tag is unset or <= offset (set_position below an active tag is excluded as caller misuse); "
               "append lengths <= 36; dup/strdup lengths <= 7 (allocation sizes are case-split)"]

LIB = ["src/lib/ares_library_init.c", "src/lib/util/ares_math.c"]
ARRAY_OPS = ["insert_at", "insertdata_at", "insertdata_first", "insertdata_last", "insert_first", "insert_last",
             "remove_at", "remove_first", "remove_last", "claim_at", "set_size", "first_last", "finish"]

LLIST_OPS = ["insert_first", "insert_last", "insert_before", "insert_after", "node_claim", "node_destroy", "node_replace",
             "mvparent_first", "mvparent_last", "clear", "destroy", "replace_destructor", "rejects", "insert_oom"]


def llist_jobs(tier):
    J = []
    for op, opname in enumerate(LLIST_OPS):
        wit = ["end"]
        if opname in ("insert_before", "insert_after"):
            wit.append("inner node")
        if opname.startswith("mvparent"):
            wit.append("moved between lists")
        J.append(dict(name="llist_%s" % opname, harness="llist_step.c", defines=["-DOP=%d" % op], real=LIB, unwind=10,
                      leak=True, witnesses=wit, kf_group="llist_step",
                      bound="two ares_llist lists in any valid state with 0..3 and 0..2 nodes, destructor set or NULL; ONE "
                            "%s on any list/node; forward+backward traversal, len, idx, head/tail, parents, destructor "
                            "calls and leaks checked on both lists" % opname))
    return J


SLIST_N3_QUICK = [(1, 1, 1), (4, 4, 4), (1, 2, 3), (3, 2, 1), (2, 4, 1), (1, 4, 1), (4, 1, 4), (2, 2, 3)]


def slist_vectors(tier, seed):
    import itertools
    import random
    V = [()]
    for n in (1, 2):
        V += list(itertools.product((1, 2, 3, 4), repeat=n))
    if tier == "quick":
        V += SLIST_N3_QUICK
    else:
        V += list(itertools.product((1, 2, 3, 4), repeat=3))
        rnd = random.Random(seed)
        V += sorted(set(tuple(rnd.randint(1, 4) for _ in range(4)) for _ in range(24)))
    return V


def slist_jobs(tier, seed):
    J = []
    real = LIB
    for v in slist_vectors(tier, seed):
        n = len(v)
        tag = "n%d_%s" % (n, "".join(str(x) for x in v) or "e")
        base = ["-DN=%d" % n, "-DLVS=%s" % (",".join(str(x) for x in v) or "1")]
        shape = ("arbitrary valid skip list: %d nodes with levels %s (list levels 4), symbolic keys k0<=k1<=.. in 0..9, "
                 "destructor set or NULL" % (n, list(v)))
        common = dict(harness="slist_step.c", real=real, unwind=10, unwindset=["vp_realloc.0:41"], leak=True)
        for lvl in (1, 2, 3, 4):
            J.append(dict(common, name="slist_insert_%s_new%d" % (tag, lvl),
                          defines=base + ["-DGRP=0", "-DOP=0", "-DNEWLV=%d" % lvl],
                          witnesses=["end"] + (["multi-level insert"] if lvl > 1 else []),
                          bound=shape + "; ONE insert of any key 0..9 whose coin flips give level %d" % lvl))
        for lvl in ((2,) if n <= 2 else ()):  # allocation-failure scenarios are C14's; n >= 3 needs > 6 GB
            J.append(dict(common, name="slist_insert_oom_%s_new%d" % (tag, lvl),
                          defines=base + ["-DGRP=0", "-DOP=7", "-DNEWLV=%d" % lvl],
                          bound=shape + "; ONE insert (level %d) in which the 1st, 2nd or 3rd allocation fails" % lvl))
        if n > 0:
            J.append(dict(common, name="slist_nodeops_%s" % tag, defines=base + ["-DGRP=1"],
                          bound=shape + "; ONE of claim / node_destroy / reinsert-after-any-key-change on each node "
                                        "(each from a fresh state)"))
        J.append(dict(common, name="slist_listops_%s" % tag, defines=base + ["-DGRP=2"],
                      witnesses=["end"] + (["find among duplicates"] if n >= 2 else []),
                      bound=shape + "; ONE of find(any key) / observers / destroy / replace_destructor (each from a "
                                    "fresh state)"))
        if n == 0:
            J.append(dict(common, name="slist_misc", defines=base + ["-DGRP=3"], witnesses=["end", "flips from cache"],
                          bound="rejected arguments; coin-flip/level choice on ARBITRARY rand_bits (0..64) and rand_data; "
                                "create() anchor: the created list satisfies the invariant"))
    return J


def rgs(n):
    """restricted growth strings of length n = set partitions of n keys (block of key k)"""
    out = [[]]
    for _ in range(n):
        out = [r + [b] for r in out for b in range((max(r) + 1 if r else 0) + 1)]
    return out


def htable_ords(part, e):
    """order bit-masks that give distinct states: bit k only matters if an earlier stored key shares k's block"""
    free = [k for k in range(e) if part[k] in part[:k]]
    out = []
    for m in range(1 << len(free)):
        v = 0
        for i, k in enumerate(free):
            if (m >> i) & 1:
                v |= 1 << k
        out.append(v)
    return out


HT_OPS = {0: "insert_new", 1: "insert_replace", 2: "observe", 3: "remove", 4: "expand", 5: "all_buckets", 6: "destroy",
          7: "insert_oom", 8: "expand_oom", 9: "rejects"}
HT_US = ["check_table.1:8", "ares_htable_find.0:8", "ares_llist_clear.0:8", "ares_htable_all_buckets.0:8",
         "ares_htable_expand.1:8", "ares_htable_expand.0:8"]


def htable_jobs(tier):
    J = []
    emax = 3 if tier == "quick" else 4
    for e in range(0, emax + 1):
        stored = rgs(e)                 # partitions of the stored keys; the absent key gets a block of its own
        withnew = rgs(e + 1)            # partitions of stored keys + the key that is inserted / looked up
        for op in sorted(HT_OPS):
            if op == 9 and e != 2:
                continue
            if op == 1 and e == 0:
                continue
            parts = withnew if op in (0, 3, 7) else [r + [(max(r) + 1 if r else 0)] for r in stored]
            if tier == "quick" and e >= 3 and op in (3, 7):
                # quick tier: the absent/new key either shares key 0's slot or has a slot of its own
                parts = [r + [0] for r in stored] + [r + [max(r) + 1] for r in stored]
            for part in parts:
                ords = [None]
                if op in (1, 3, 4, 8) and e >= 3:
                    ords = htable_ords(part, e)  # in-harness case loops grow super-linearly: one order mask per job
                for o in ords:
                    tag = "e%d_p%s%s" % (e, "".join(str(b) for b in part), "" if o is None else "_o%d" % o)
                    wit = ["end"]
                    if op == 3 and e > 0:
                        wit.append("removed")
                    if op == 7:
                        wit.append("insert failed")
                    if op == 8:
                        wit.append("expand failed")
                    J.append(dict(
                        name="htable_%s_%s" % (HT_OPS[op], tag), harness="htable_step.c",
                        defines=["-DOP=%d" % op, "-DE=%d" % e, "-DPART=%s" % ",".join(str(b) for b in part)] +
                                ([] if o is None else ["-DORD=%d" % o]),
                        real=LIB, unwind=34, unwindset=HT_US, witnesses=wit,
                        bound="arbitrary valid 16-slot ares_htable with %d entries whose hash (an arbitrary function of the "
                              "key, here the collision pattern %s = slot-sharing of keys 0..%d, key %d absent) puts them in "
                              "slots; every order inside a slot%s; with/without an emptied slot list; ONE %s%s" %
                              (e, part, e - 1, e, "" if o is None else " (order mask %d)" % o, HT_OPS[op],
                               " for every combination of the post-doubling hash bit" if op == 4 else "")))
    return J


BUF_REAL = LIB + ["src/lib/str/ares_str.c"]
BUF_SUP = ["vp_rt.c", "valloc.c", "memloops.c", "c19_libc.c"]
# op number -> (name, extra witnesses when the buffer holds data)
BUF_OPS = {
    1: ("append_byte", []), 2: ("append_be16", []), 3: ("append_be32", []),
    6: ("set_length", ["set_length ok"]), 7: ("set_position", []), 8: ("tag", []), 9: ("tag_rollback", ["rolled back"]),
    10: ("tag_clear", []), 11: ("tag_fetch", []), 12: ("tag_fetch_bytes", ["fetched"]),
    13: ("tag_fetch_string", ["fetched"]), 14: ("tag_fetch_strdup", ["fetched"]), 15: ("tag_fetch_constbuf", ["fetched"]),
    16: ("consume", []), 17: ("fetch_be16", []), 18: ("fetch_be32", []), 19: ("fetch_bytes", []),
    20: ("fetch_bytes_dup", []), 21: ("fetch_str_dup", []), 22: ("fetch_bytes_into_buf", []), 23: ("peek_len_begins", []),
    24: ("consume_whitespace", ["stopped inside"]), 25: ("consume_nonwhitespace", ["stopped inside"]),
    26: ("consume_line", ["stopped inside"]), 30: ("reclaim", ["reclaimed up to the tag"]), 31: ("finish_bin", []),
    32: ("finish_str", []), 33: ("destroy", []), 34: ("rejects", []), 35: ("create_const", []),
}
BUF_CURSORS_Q = [("c0", ["-DOFF=0", "-DTAG=SIZE_MAX"]), ("c5t2", ["-DOFF=5", "-DTAG=2"]),
                 ("c20", ["-DOFF=20", "-DTAG=SIZE_MAX"]), ("cend", ["-DOFF_END", "-DTAG=SIZE_MAX"])]
BUF_CURSORS_T = BUF_CURSORS_Q + [("c0t0", ["-DOFF=0", "-DTAG=0"]), ("c5", ["-DOFF=5", "-DTAG=SIZE_MAX"]),
                                 ("c5t0", ["-DOFF=5", "-DTAG=0"]), ("c5t5", ["-DOFF=5", "-DTAG=5"]),
                                 ("c20t7", ["-DOFF=20", "-DTAG=7"]), ("cendt0", ["-DOFF_END", "-DTAG=0"])]


def buf_shape_text(al, cl):
    if al == 0:
        return "freshly created ares_buf (nothing allocated, tag unset or 0)"
    if al < 0:
        return ("const ares_buf over exactly %d symbolic bytes, any offset 0..%d, tag unset or any value <= offset" % (cl, cl))
    return ("allocated ares_buf: alloc_buf_len=%d (exact-size storage), symbolic contents, any data_len 0..%d, any offset <= "
            "data_len, tag unset or any value <= offset" % (al, al - 1))


def buf_job(name, al, cl, defs, sizes, what, wit=None, backend=None, extra_bound=""):
    big = max(al, cl if al < 0 else 0, 36)
    d = dict(name=name, harness="buf_step.c",
             defines=["-DAL=%d" % al, "-DCL=%d" % cl] + defs +
                     ["-DVP_SIZES=%s" % ",".join(str(x) for x in sorted(set(sizes)))],
             real=BUF_REAL, support=BUF_SUP, unwind=big + 10, unwindset=["vp_realloc.0:%d" % (max(al, 64) + 2)],
             witnesses=["end"] + (wit or []),
             bound=buf_shape_text(al, cl) + extra_bound + "; ONE " + what)
    if backend:
        d["backend"] = backend
    return d


def buf_jobs(tier):
    J = []
    shapes = [(0, 12), (32, 12), (-1, 12)] + ([(64, 12), (-1, 40)] if tier != "quick" else [])
    for al, cl in shapes:
        tag = "fresh" if al == 0 else ("const%d" % cl if al < 0 else "al%d" % al)
        base = [48, 32, 64, 128] + ([256] if al == 64 else []) + ([cl] if al < 0 else [])
        holds_data = al != 0
        for op, (nm, wit) in sorted(BUF_OPS.items()):
            if op in (1, 2, 3) and al > 0:
                continue  # append family on allocated buffers: sliced below
            if al == 0 and op in (14, 20, 21, 22):
                continue  # nothing to fetch from a fresh buffer: refusal paths are covered by the other shapes
            w = list(wit) if holds_data else [x for x in wit if x in ("rolled back",)]
            if al < 0:
                w = [x for x in w if x not in ("set_length ok", "reclaimed up to the tag")]
            sizes = base + (list(range(1, 9)) if op in (14, 20, 21) else [])
            J.append(buf_job("buf_%s_%s" % (nm, tag), al, cl, ["-DOP=%d" % op], sizes, nm, w))
        # scanners with a symbolic character set: set length concrete, SMT back end (SAT: no verdict in 100 s)
        big_sets = () if tier == "quick" else (3,)
        for op, nm, lens in ((27, "consume_until_charset", (0, 1, 2) + big_sets), (28, "consume_charset", (0, 1, 2) + big_sets),
                             (29, "consume_until_seq", (0, 1, 2))):
            for n in lens:
                J.append(buf_job("buf_%s%d_%s" % (nm, n, tag), al, cl, ["-DOP=%d" % op, "-DCSLEN=%d" % n], base,
                                 "%s with any %d-byte set/sequence, require flag either way" % (nm, n),
                                 ["stopped inside"] if (holds_data and n > 0 and op != 29) else [],
                                 backend="z3" if (holds_data and n > 0) else None))
        # append family
        if al <= 0:
            for op, nm, ks in ((0, "append", (None,)), (4, "append_start_finish", (None,)), (5, "ensure_space", (None,))):
                J.append(buf_job("buf_%s_%s" % (nm, tag), al, cl, ["-DOP=%d" % op], base,
                                 "%s of any length 0..36" % nm))
            continue
        curs = BUF_CURSORS_Q if tier == "quick" else BUF_CURSORS_T
        fam = [(0, "append", 5), (0, "append", 36), (1, "append_byte", None), (4, "append_start_finish", 3),
               (5, "ensure_space", 36)]
        for cn, cd in curs:
            for op, nm, k in fam:
                if tier == "quick" and (op, k) in ((0, 36), (4, 3)) and cn not in ("c5t2", "cend"):
                    continue
                J.append(buf_job("buf_%s%s_%s_%s" % (nm, "" if k is None else str(k), tag, cn), al, cl,
                                 ["-DOP=%d" % op] + ([] if k is None else ["-DK=%d" % k]) + cd, base,
                                 nm + ("" if k is None else " of %d bytes" % k) +
                                 " (may reclaim and/or double the allocation)",
                                 extra_bound=" - slice: cursor fixed at %s, data_len symbolic" % " ".join(cd)))
        # be16/be32 = two/four appends: close only on a concrete grid of data_len x cursor
        for op, nm, dls in ((2, "append_be16", (0, al - 3, al - 2, al - 1)), (3, "append_be32", (0, al - 5, al - 4, al - 3, al - 2, al - 1))):
            for dl in dls:
                for cn, cd, need in (("c0", ["-DOFF=0", "-DTAG=SIZE_MAX"], 0), ("cend", ["-DOFF_END", "-DTAG=SIZE_MAX"], 0),
                                     ("c3t1", ["-DOFF=3", "-DTAG=1"], 3)):
                    if dl < need:
                        continue
                    J.append(buf_job("buf_%s_%s_d%d_%s" % (nm, tag, dl, cn), al, cl,
                                     ["-DOP=%d" % op, "-DDLO=%d" % dl, "-DDHI=%d" % dl] + cd, base, nm,
                                     extra_bound=" - grid point: data_len=%d, cursor %s" % (dl, " ".join(cd))))
        if tier != "quick" and al == 32:
            # boundary data_len with fully symbolic cursor/tag, and the fully symbolic state where it closes
            for op, nm, k in ((0, "append", 5), (1, "append_byte", None), (5, "ensure_space", 36)):
                J.append(buf_job("buf_%s%s_%s_full" % (nm, "" if k is None else str(k), tag), al, cl,
                                 ["-DOP=%d" % op] + ([] if k is None else ["-DK=%d" % k]), base,
                                 nm + " from the fully symbolic state"))
            for dl in (al - 2, al - 1):
                for op, nm, k in ((0, "append", 5), (2, "append_be16", None)):
                    J.append(buf_job("buf_%s%s_%s_d%d_symcur" % (nm, "" if k is None else str(k), tag, dl), al, cl,
                                     ["-DOP=%d" % op, "-DDLO=%d" % dl, "-DDHI=%d" % dl] + ([] if k is None else ["-DK=%d" % k]),
                                     base, nm, extra_bound=" - slice: data_len=%d, cursor and tag symbolic" % dl))
    return J


WRAPPERS = [("szvp", 12), ("asvp", 16), ("vpvp", 12), ("strvp", 14), ("dict", 26), ("vpstr", 14)]


def wrap_jobs(tier):
    J = []
    parts = [(0, 1, 2), (0, 0, 0)] if tier == "quick" else [(0, 1, 2), (0, 0, 0), (0, 0, 1), (0, 1, 0), (0, 1, 1)]
    for w, (nm, nfail) in enumerate(WRAPPERS):
        for part in parts:
            lo = 0
            while lo <= nfail:
                if tier == "quick" and lo > 0:
                    break  # single-allocation-failure slices (C14 territory) only in the thorough tier
                hi = min(lo + 5, nfail)
                J.append(dict(
                    name="wrap_%s_p%s_f%d_%d" % (nm, "".join(str(x) for x in part), lo, hi), harness="htable_wrap.c",
                    defines=["-DW=%d" % w, "-DPART=%s" % ",".join(str(x) for x in part), "-DFLO=%d" % lo, "-DFHI=%d" % hi,
                             "-DNFAIL=%d" % nfail, "-DVP_SIZES=1,2,3,4,5,6,7,8,16,24,32"],
                    real=BUF_REAL, support=BUF_SUP, unwind=20, kf_group="wrap_%s" % nm,
                    witnesses=["end"] + (["unfailed run"] if lo == 0 else []),
                    bound="ares_htable_%s on the real table+list, hash = arbitrary function of the key with collision "
                          "pattern %s of the 3 keys; scenario create/insert/insert/replace/get/get_direct/num_keys/keys/"
                          "claim/remove/destroy with %s" %
                          (nm, list(part), "no allocation failure and " * (lo == 0) +
                           "the single failing allocation at every position %d..%d" % (max(lo, 1), hi))))
                lo = hi + 1
    return J


def jobs(tier, seed):
    J = []
    new = llist_jobs(tier) + wrap_jobs(tier) + buf_jobs(tier) + htable_jobs(tier) + slist_jobs(tier, seed)
    # longest first, so the pool does not end on a long tail
    def cost(j):
        n = j["name"]
        if n.startswith("wrap_dict") or n.startswith("buf_append36") or n.startswith("buf_append_start_finish3"):
            return 0
        if n.startswith("wrap_") or n.startswith("htable_expand_e3") or "_full" in n or "_symcur" in n:
            return 1
        if n.startswith("buf_consume_") or n.startswith("buf_fetch") or n.startswith("buf_finish"):
            return 2
        if n.startswith("array_insert") and "_ms1_" not in n and "_ac0" not in n:
            return 1
        return 3
    J += new
    for ms in ((1, 2) if tier == "quick" else (1, 2, 4)):
        for ac in (0, 4, 8):
            for op, opname in enumerate(ARRAY_OPS):
                if ac == 0 and opname in ("remove_at", "remove_first", "remove_last", "claim_at", "first_last"):
                    continue
                J.append(dict(name="array_%s_ms%d_ac%d" % (opname, ms, ac), harness="array_step.c",
                              defines=["-DMS=%d" % ms, "-DOP=%d" % op, "-DAC=%d" % ac, "-DVP_MEMSET_LOOP",
                                       "-DVP_SIZES=%s,48" % ",".join(str(k * ms) for k in (4, 8, 16))],
                              real=LIB, unwind=16 * ms + 1, kf_group="array_step",
                              bound="arbitrary valid ares_array state: alloc_cnt=%d, any offset/cnt with "
                                    "offset+cnt<=alloc_cnt, symbolic contents, member_size=%d; ONE %s with any "
                                    "index 0..9" % (ac, ms, opname)))
    for j in J:
        if not j["name"].startswith("array_"):
            j.setdefault("mem_gb", 6)
    return sorted(J, key=cost)
