OUTSIDE = ("containers with more than the stated element counts; skip-list levels above the stated cap; "
           "hash tables growing through insert beyond the stated seed sizes (expansion is exercised directly)")
ASSUMPTIONS = ["representation invariants inv_*() in harness/C19/*.c characterise the reachable states "
               "(each is re-established by every operation: inductive step)"]

LIB = ["src/lib/ares_library_init.c", "src/lib/util/ares_math.c"]
ARRAY_OPS = ["insert_at", "insertdata_at", "insertdata_first", "insertdata_last", "insert_first", "insert_last",
             "remove_at", "remove_first", "remove_last", "claim_at", "set_size", "first_last", "finish"]

def jobs(tier, seed):
    J = []
    for ms in ((1, 2) if tier == "quick" else (1, 2, 4)):
        for ac in (0, 4, 8):
            for op, opname in enumerate(ARRAY_OPS):
                if ac == 0 and opname in ("remove_at", "remove_first", "remove_last", "claim_at", "first_last"):
                    continue
                J.append(dict(name="array_%s_ms%d_ac%d" % (opname, ms, ac), harness="array_step.c",
                              defines=["-DMS=%d" % ms, "-DOP=%d" % op, "-DAC=%d" % ac, "-DVP_MEMSET_LOOP",
                                       "-DVP_SIZES=%s,48" % ",".join(str(k * ms) for k in (4, 8, 16))],
                              real=LIB, unwind=16 * ms + 1, kf_group="array_step",
                              bound="arbitrary valid ares_array state: alloc_cnt=%d, any offset/cnt with "
                                    "offset+cnt<=alloc_cnt, symbolic contents, member_size=%d; ONE %s with any "
                                    "index 0..9" % (ac, ms, opname)))
    return J
