OUTSIDE = ("containers with more than the stated element counts; skip-list levels above the stated cap; "
           "hash tables growing through insert beyond the stated seed sizes (expansion is exercised directly)")
ASSUMPTIONS = ["representation invariants inv_*() in harness/C19/*.c characterise the reachable states "
               "(each is re-established by every operation: inductive step)"]

LIB = ["src/lib/ares_library_init.c", "src/lib/util/ares_math.c"]
ARRAY_OPS = ["insert_at", "insertdata_at", "insertdata_first", "insertdata_last", "insert_first", "insert_last",
             "remove_at", "remove_first", "remove_last", "claim_at", "set_size", "first_last", "finish"]

LLIST_OPS = ["insert_first", "insert_last", "insert_before", "insert_after", "node_claim", "node_destroy", "node_replace",
             "mvparent_first", "mvparent_last", "clear", "destroy", "replace_destructor", "rejects", "insert_oom"]


def llist_jobs(tier):
    J = []
    for op, opname in enumerate(LLIST_OPS):
        wit = ["end"]
        if opname in ("insert_before", "insert_after"):
            wit.append("inner node")
        if opname.startswith("mvparent"):
            wit.append("moved between lists")
        J.append(dict(name="llist_%s" % opname, harness="llist_step.c", defines=["-DOP=%d" % op], real=LIB, unwind=10,
                      leak=True, witnesses=wit, kf_group="llist_step",
                      bound="two ares_llist lists in any valid state with 0..3 and 0..2 nodes, destructor set or NULL; ONE "
                            "%s on any list/node; forward+backward traversal, len, idx, head/tail, parents, destructor "
                            "calls and leaks checked on both lists" % opname))
    return J


def jobs(tier, seed):
    J = []
    J += llist_jobs(tier)
    for ms in ((1, 2) if tier == "quick" else (1, 2, 4)):
        for ac in (0, 4, 8):
            for op, opname in enumerate(ARRAY_OPS):
                if ac == 0 and opname in ("remove_at", "remove_first", "remove_last", "claim_at", "first_last"):
                    continue
                J.append(dict(name="array_%s_ms%d_ac%d" % (opname, ms, ac), harness="array_step.c",
                              defines=["-DMS=%d" % ms, "-DOP=%d" % op, "-DAC=%d" % ac, "-DVP_MEMSET_LOOP",
                                       "-DVP_SIZES=%s,48" % ",".join(str(k * ms) for k in (4, 8, 16))],
                              real=LIB, unwind=16 * ms + 1, kf_group="array_step",
                              bound="arbitrary valid ares_array state: alloc_cnt=%d, any offset/cnt with "
                                    "offset+cnt<=alloc_cnt, symbolic contents, member_size=%d; ONE %s with any "
                                    "index 0..9" % (ac, ms, opname)))
    return J
