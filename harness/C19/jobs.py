OUTSIDE = ("containers with more than the stated element counts; skip-list levels above the stated cap; "
           "hash tables growing through insert beyond the stated seed sizes (expansion is exercised directly)")
ASSUMPTIONS = ["representation invariants inv_*() in harness/C19/*.c characterise the reachable states "
               "(each is re-established by every operation: inductive step)"]

LIB = ["src/lib/ares_library_init.c", "src/lib/util/ares_math.c"]
ARRAY_OPS = ["insert_at", "insertdata_at", "insertdata_first", "insertdata_last", "insert_first", "insert_last",
             "remove_at", "remove_first", "remove_last", "claim_at", "set_size", "first_last", "finish"]

LLIST_OPS = ["insert_first", "insert_last", "insert_before", "insert_after", "node_claim", "node_destroy", "node_replace",
             "mvparent_first", "mvparent_last", "clear", "destroy", "replace_destructor", "rejects", "insert_oom"]


def llist_jobs(tier):
    J = []
    for op, opname in enumerate(LLIST_OPS):
        wit = ["end"]
        if opname in ("insert_before", "insert_after"):
            wit.append("inner node")
        if opname.startswith("mvparent"):
            wit.append("moved between lists")
        J.append(dict(name="llist_%s" % opname, harness="llist_step.c", defines=["-DOP=%d" % op], real=LIB, unwind=10,
                      leak=True, witnesses=wit, kf_group="llist_step",
                      bound="two ares_llist lists in any valid state with 0..3 and 0..2 nodes, destructor set or NULL; ONE "
                            "%s on any list/node; forward+backward traversal, len, idx, head/tail, parents, destructor "
                            "calls and leaks checked on both lists" % opname))
    return J


SLIST_N3_QUICK = [(1, 1, 1), (4, 4, 4), (1, 2, 3), (3, 2, 1), (2, 4, 1), (1, 4, 1), (4, 1, 4), (2, 2, 3), (3, 1, 2),
                  (1, 3, 3), (4, 2, 2), (2, 1, 4)]


def slist_vectors(tier, seed):
    import itertools
    import random
    V = [()]
    for n in (1, 2):
        V += list(itertools.product((1, 2, 3, 4), repeat=n))
    if tier == "quick":
        V += SLIST_N3_QUICK
    else:
        V += list(itertools.product((1, 2, 3, 4), repeat=3))
        rnd = random.Random(seed)
        V += sorted(set(tuple(rnd.randint(1, 4) for _ in range(4)) for _ in range(24)))
    return V


def slist_jobs(tier, seed):
    J = []
    real = LIB
    for v in slist_vectors(tier, seed):
        n = len(v)
        tag = "n%d_%s" % (n, "".join(str(x) for x in v) or "e")
        base = ["-DN=%d" % n, "-DLVS=%s" % (",".join(str(x) for x in v) or "1")]
        shape = ("arbitrary valid skip list: %d nodes with levels %s (list levels 4), symbolic keys k0<=k1<=.. in 0..9, "
                 "destructor set or NULL" % (n, list(v)))
        common = dict(harness="slist_step.c", real=real, unwind=10, unwindset=["vp_realloc.0:41"], leak=True)
        for lvl in (1, 2, 3, 4):
            J.append(dict(common, name="slist_insert_%s_new%d" % (tag, lvl),
                          defines=base + ["-DGRP=0", "-DOP=0", "-DNEWLV=%d" % lvl],
                          witnesses=["end"] + (["multi-level insert"] if lvl > 1 else []),
                          bound=shape + "; ONE insert of any key 0..9 whose coin flips give level %d" % lvl))
        for lvl in ((2,) if tier == "quick" else (1, 2, 3, 4)):
            J.append(dict(common, name="slist_insert_oom_%s_new%d" % (tag, lvl),
                          defines=base + ["-DGRP=0", "-DOP=7", "-DNEWLV=%d" % lvl],
                          bound=shape + "; ONE insert (level %d) in which the 1st, 2nd or 3rd allocation fails" % lvl))
        if n > 0:
            J.append(dict(common, name="slist_nodeops_%s" % tag, defines=base + ["-DGRP=1"],
                          bound=shape + "; ONE of claim / node_destroy / reinsert-after-any-key-change on each node "
                                        "(each from a fresh state)"))
        J.append(dict(common, name="slist_listops_%s" % tag, defines=base + ["-DGRP=2"],
                      witnesses=["end"] + (["find among duplicates"] if n >= 2 else []),
                      bound=shape + "; ONE of find(any key) / observers / destroy / replace_destructor (each from a "
                                    "fresh state)"))
        if n == 0:
            J.append(dict(common, name="slist_misc", defines=base + ["-DGRP=3"], witnesses=["end", "flips from cache"],
                          bound="rejected arguments; coin-flip/level choice on ARBITRARY rand_bits (0..64) and rand_data; "
                                "create() anchor: the created list satisfies the invariant"))
    return J


def rgs(n):
    """restricted growth strings of length n = set partitions of n keys (block of key k)"""
    out = [[]]
    for _ in range(n):
        out = [r + [b] for r in out for b in range((max(r) + 1 if r else 0) + 1)]
    return out


def htable_ords(part, e):
    """order bit-masks that give distinct states: bit k only matters if an earlier stored key shares k's block"""
    free = [k for k in range(e) if part[k] in part[:k]]
    out = []
    for m in range(1 << len(free)):
        v = 0
        for i, k in enumerate(free):
            if (m >> i) & 1:
                v |= 1 << k
        out.append(v)
    return out


HT_OPS = {0: "insert_new", 1: "insert_replace", 2: "observe", 3: "remove", 4: "expand", 5: "all_buckets", 6: "destroy",
          7: "insert_oom", 8: "expand_oom", 9: "rejects"}
HT_US = ["check_table.1:8", "ares_htable_find.0:8", "ares_llist_clear.0:8", "ares_htable_all_buckets.0:8",
         "ares_htable_expand.1:8", "ares_htable_expand.0:8"]


def htable_jobs(tier):
    J = []
    emax = 3 if tier == "quick" else 4
    for e in range(0, emax + 1):
        stored = rgs(e)                 # partitions of the stored keys; the absent key gets a block of its own
        withnew = rgs(e + 1)            # partitions of stored keys + the key that is inserted / looked up
        for op in sorted(HT_OPS):
            if op == 9 and e != 2:
                continue
            if op == 1 and e == 0:
                continue
            parts = withnew if op in (0, 3, 7) else [r + [(max(r) + 1 if r else 0)] for r in stored]
            for part in parts:
                ords = [None]
                if op in (4, 8) and e >= 3:
                    ords = htable_ords(part, e)
                for o in ords:
                    tag = "e%d_p%s%s" % (e, "".join(str(b) for b in part), "" if o is None else "_o%d" % o)
                    wit = ["end"]
                    if op == 3 and e > 0:
                        wit.append("removed")
                    if op == 7:
                        wit.append("insert failed")
                    if op == 8:
                        wit.append("expand failed")
                    J.append(dict(
                        name="htable_%s_%s" % (HT_OPS[op], tag), harness="htable_step.c",
                        defines=["-DOP=%d" % op, "-DE=%d" % e, "-DPART=%s" % ",".join(str(b) for b in part)] +
                                ([] if o is None else ["-DORD=%d" % o]),
                        real=LIB, unwind=34, unwindset=HT_US, witnesses=wit,
                        bound="arbitrary valid 16-slot ares_htable with %d entries whose hash (an arbitrary function of the "
                              "key, here the collision pattern %s = slot-sharing of keys 0..%d, key %d absent) puts them in "
                              "slots; every order inside a slot%s; with/without an emptied slot list; ONE %s%s" %
                              (e, part, e - 1, e, "" if o is None else " (order mask %d)" % o, HT_OPS[op],
                               " for every combination of the post-doubling hash bit" if op == 4 else "")))
    return J


def jobs(tier, seed):
    J = []
    J += llist_jobs(tier)
    J += htable_jobs(tier)
    J += slist_jobs(tier, seed)
    for ms in ((1, 2) if tier == "quick" else (1, 2, 4)):
        for ac in (0, 4, 8):
            for op, opname in enumerate(ARRAY_OPS):
                if ac == 0 and opname in ("remove_at", "remove_first", "remove_last", "claim_at", "first_last"):
                    continue
                J.append(dict(name="array_%s_ms%d_ac%d" % (opname, ms, ac), harness="array_step.c",
                              defines=["-DMS=%d" % ms, "-DOP=%d" % op, "-DAC=%d" % ac, "-DVP_MEMSET_LOOP",
                                       "-DVP_SIZES=%s,48" % ",".join(str(k * ms) for k in (4, 8, 16))],
                              real=LIB, unwind=16 * ms + 1, kf_group="array_step",
                              bound="arbitrary valid ares_array state: alloc_cnt=%d, any offset/cnt with "
                                    "offset+cnt<=alloc_cnt, symbolic contents, member_size=%d; ONE %s with any "
                                    "index 0..9" % (ac, ms, opname)))
    return J
