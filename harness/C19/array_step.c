/* C19 / ares_array: one operation from an ARBITRARY valid state (S1), compared
 * with a plain-array reference model.  Real: whole src/lib/dsa/ares_array.c
 * (included so the struct is visible), ares_library_init.c allocator wrappers,
 * util/ares_math.c.  Element = MS bytes (-DMS=1|4). */
#include "vp.h"
#include "dsa/ares_array.c"

#ifndef MS
#  define MS 4
#endif
#define MAXN 9 /* model capacity: up to 8 live + 1 inserted */

typedef struct { unsigned char b[MS]; } elem_t;

static elem_t model[MAXN];
static size_t mcnt;

static int elem_eq(const void *p, const elem_t *e)
{
  size_t i;
  for (i = 0; i < MS; i++)
    if (((const unsigned char *)p)[i] != e->b[i])
      return 0;
  return 1;
}

static int inv(const ares_array_t *a)
{
  if (a->member_size != MS) return 0;
  if (a->alloc_cnt == 0) return a->arr == NULL && a->cnt == 0 && a->offset == 0;
  if (a->arr == NULL) return 0;
  if (a->alloc_cnt != 4 && a->alloc_cnt != 8 && a->alloc_cnt != 16) return 0;
  if (a->offset > a->alloc_cnt || a->cnt > a->alloc_cnt) return 0;
  if (a->offset + a->cnt > a->alloc_cnt) return 0;
  if (a->cnt == 0 && a->offset != 0) return 0; /* an empty array keeps no front gap */
  return 1;
}

static void check_matches_model(ares_array_t *a)
{
  size_t i;
  VP_ASSERT(ares_array_len(a) == mcnt, "array length equals model length");
  for (i = 0; i < mcnt; i++) {
    void *p = ares_array_at(a, i);
    VP_ASSERT(p != NULL, "live index is addressable");
    VP_ASSERT(elem_eq(p, &model[i]), "element equals model element (sequence order kept)");
  }
  VP_ASSERT(ares_array_at(a, mcnt) == NULL, "index past the end is rejected");
}

static ares_array_t *arbitrary_array(void)
{
  ares_array_t *a = vp_malloc(sizeof(*a));
  size_t        ac;
  size_t        i;
  a->destruct    = NULL;
  a->arr         = NULL;
  a->member_size = MS;
  a->cnt         = 0;
  a->offset      = 0;
#ifdef AC
  ac = AC;
#else
  ac = vp_size();
  VP_ASSUME(ac == 0 || ac == 4 || ac == 8);
#endif
  a->alloc_cnt = ac;
  if (ac != 0) {
    a->arr = (ac == 4) ? vp_malloc(4 * MS) : vp_malloc(8 * MS);
    vp_bytes(a->arr, (ac == 4) ? 4 * MS : 8 * MS);
    a->offset = vp_size();
    a->cnt    = vp_size();
    VP_ASSUME(a->offset <= ac && a->cnt <= ac && a->offset + a->cnt <= ac);
  }
  VP_ASSUME(inv(a));
  mcnt = a->cnt;
  for (i = 0; i < mcnt; i++)
    memcpy(model[i].b, (unsigned char *)a->arr + (a->offset + i) * MS, MS);
  return a;
}

static void model_insert(size_t idx, const elem_t *e)
{
  size_t i;
  for (i = mcnt; i > idx; i--)
    model[i] = model[i - 1];
  model[idx] = *e;
  mcnt++;
}

static void model_remove(size_t idx)
{
  size_t i;
  for (i = idx; i + 1 < mcnt; i++)
    model[i] = model[i + 1];
  mcnt--;
}

void harness(void)
{
  ares_array_t *a;
  unsigned      op;
  size_t        idx;
  elem_t        e, zero;
  ares_status_t st;
  void         *p = NULL;

  vp_alloc_install();
  a   = arbitrary_array();
#ifdef OP
  op = OP;
#else
  op  = vp_u8();
#endif
  idx = vp_size();
  vp_bytes(e.b, MS);
  memset(&zero, 0, sizeof(zero));
  VP_ASSUME(idx <= 9);

  switch (op) {
    case 0: /* insert_at: gap is zeroed, others keep order */
      st = ares_array_insert_at(&p, a, idx);
      if (idx <= mcnt) {
        VP_ASSERT(st == ARES_SUCCESS, "insert at a valid index succeeds (allocator does not fail here)");
        VP_ASSERT(p == ares_array_at(a, idx), "insert_at returns the slot at idx");
        model_insert(idx, &zero);
        VP_WITNESS("insert_at ok");
      } else {
        VP_ASSERT(st != ARES_SUCCESS, "insert past the end is rejected");
      }
      break;
    case 1:
      st = ares_array_insertdata_at(a, idx, &e);
      if (idx <= mcnt) {
        VP_ASSERT(st == ARES_SUCCESS, "insertdata_at at a valid index succeeds");
        model_insert(idx, &e);
      } else {
        VP_ASSERT(st != ARES_SUCCESS, "insertdata past the end is rejected");
      }
      break;
    case 2:
      st = ares_array_insertdata_first(a, &e);
      VP_ASSERT(st == ARES_SUCCESS, "insertdata_first succeeds");
      model_insert(0, &e);
      VP_WITNESS("insertdata_first");
      break;
    case 3:
      st = ares_array_insertdata_last(a, &e);
      VP_ASSERT(st == ARES_SUCCESS, "insertdata_last succeeds");
      model_insert(mcnt, &e);
      break;
    case 4:
      st = ares_array_insert_first(&p, a);
      VP_ASSERT(st == ARES_SUCCESS, "insert_first succeeds");
      model_insert(0, &zero);
      break;
    case 5:
      st = ares_array_insert_last(&p, a);
      VP_ASSERT(st == ARES_SUCCESS, "insert_last succeeds");
      model_insert(mcnt, &zero);
      break;
    case 6:
      st = ares_array_remove_at(a, idx);
      if (idx < mcnt) {
        VP_ASSERT(st == ARES_SUCCESS, "remove of a live index succeeds");
        model_remove(idx);
        VP_WITNESS("remove_at ok");
      } else {
        VP_ASSERT(st != ARES_SUCCESS, "remove of a dead index is rejected");
      }
      break;
    case 7:
      st = ares_array_remove_first(a);
      VP_ASSERT((st == ARES_SUCCESS) == (mcnt > 0), "remove_first succeeds iff non-empty");
      if (mcnt > 0) model_remove(0);
      break;
    case 8:
      st = ares_array_remove_last(a);
      VP_ASSERT((st == ARES_SUCCESS) == (mcnt > 0), "remove_last succeeds iff non-empty");
      if (mcnt > 0) model_remove(mcnt - 1);
      break;
    case 9: {
      elem_t out;
      st = ares_array_claim_at(&out, sizeof(out), a, idx);
      if (idx < mcnt) {
        VP_ASSERT(st == ARES_SUCCESS, "claim of a live index succeeds");
        VP_ASSERT(elem_eq(&out, &model[idx]), "claimed value is the element");
        model_remove(idx);
      } else {
        VP_ASSERT(st != ARES_SUCCESS, "claim of a dead index is rejected");
      }
      break;
    }
    case 10: {
      size_t want = vp_range(0, 9);
      st          = ares_array_set_size(a, want);
      if (want != 0 && want >= mcnt) {
        VP_ASSERT(st == ARES_SUCCESS, "set_size succeeds");
        VP_ASSERT(a->alloc_cnt >= want, "capacity grew as requested");
      } else {
        VP_ASSERT(st != ARES_SUCCESS, "set_size below count / zero rejected");
      }
      break;
    }
    case 11: {
      void *f = ares_array_first(a), *l = ares_array_last(a);
      if (mcnt == 0) {
        VP_ASSERT(f == NULL && l == NULL, "first/last of empty are NULL");
      } else {
        VP_ASSERT(f == ares_array_at(a, 0) && l == ares_array_at(a, mcnt - 1), "first/last address ends");
      }
      break;
    }
    case 12: {
      size_t         n   = 99;
      size_t         i;
      unsigned char *raw = ares_array_finish(a, &n);
      VP_ASSERT(n == mcnt, "finish reports the count");
      for (i = 0; i < mcnt; i++)
        VP_ASSERT(elem_eq(raw + i * MS, &model[i]), "finish returns elements from index 0 in order");
      ares_free(raw);
      VP_WITNESS("end");
      return;
    }
    default:
      VP_ASSUME(0);
  }
  VP_ASSERT(inv(a), "representation invariant preserved");
  check_matches_model(a);
  VP_WITNESS("end");
  ares_array_destroy(a);
}
