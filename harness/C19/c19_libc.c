/* libc functions that CBMC 6.11 has no model for, as plain loops (CBMC only;
 * native replays use the real libc).  Reference semantics per ISO C / glibc. */
#ifndef VP_NATIVE
#include <stddef.h>
void *memchr(const void *s, int c, size_t n)
{
  const unsigned char *p = s;
  size_t               i;
  for (i = 0; i < n; i++)
    if (p[i] == (unsigned char)c)
      return (void *)(p + i);
  return NULL;
}
void *memmem(const void *hay, size_t hlen, const void *needle, size_t nlen)
{
  const unsigned char *h = hay, *nd = needle;
  size_t               i, j;
  if (nlen == 0)
    return (void *)h;
  for (i = 0; i + nlen <= hlen; i++) {
    for (j = 0; j < nlen; j++)
      if (h[i + j] != nd[j])
        break;
    if (j == nlen)
      return (void *)(h + i);
  }
  return NULL;
}
#endif
