/* C19 / ares_llist: ONE operation from an ARBITRARY valid state of two lists
 * (S1), compared with a plain-array reference model.  Real: whole
 * src/lib/dsa/ares_llist.c (included so the structs are visible),
 * ares_library_init.c allocator wrappers.
 *
 * Pre-state: list 0 holds 0..3 nodes, list 1 holds 0..2 nodes (every shape,
 * enumerated by concrete loops in harness()), each list has either the
 * recording destructor or none (symbolic).  The list never inspects the data
 * pointers (only NULL is special), so distinct tokens are fully general.
 * Oracle after the operation: forward traversal (first/next) AND backward
 * traversal (last/prev) of BOTH lists equal the model, len/cnt, head/tail,
 * parent pointers, node_idx, destructor calls (exactly once where due, never
 * otherwise), and (job runs with the leak check) nothing leaked. */
#include "vp.h"
#include "dsa/ares_llist.c"

#define NTOK  8
#define MAXL  6

static int      tok[NTOK];           /* data tokens: &tok[i] */
static unsigned destroyed[NTOK];     /* destructor calls per token */

static void dtor(void *p)
{
  size_t i = (size_t)((int *)p - tok);
  VP_ASSERT(i < NTOK, "destructor gets a data pointer that was stored in the list");
  destroyed[i]++;
}

static ares_llist_t      *L[2];
static ares_llist_node_t *nodes[2][MAXL];
static void              *mdl[2][MAXL];
static size_t             mcnt[2];
static unsigned           want_destroyed[NTOK];

static ares_llist_t *mk_list(int which, size_t n, size_t base)
{
  ares_llist_t      *l    = vp_malloc(sizeof(*l));
  ares_llist_node_t *prev = NULL;
  size_t             i;
  l->head     = NULL;
  l->tail     = NULL;
  l->destruct = vp_bool() ? dtor : NULL;
  l->cnt      = n;
  for (i = 0; i < n; i++) {
    ares_llist_node_t *nd = vp_malloc(sizeof(*nd));
    nd->data   = &tok[base + i];
    nd->prev   = prev;
    nd->next   = NULL;
    nd->parent = l;
    if (prev != NULL)
      prev->next = nd;
    else
      l->head = nd;
    prev            = nd;
    nodes[which][i] = nd;
    mdl[which][i]   = nd->data;
  }
  l->tail     = prev;
  mcnt[which] = n;
  return l;
}

static void m_insert(int w, size_t idx, void *v)
{
  size_t i;
  for (i = mcnt[w]; i > idx; i--)
    mdl[w][i] = mdl[w][i - 1];
  mdl[w][idx] = v;
  mcnt[w]++;
}

static void *m_remove(int w, size_t idx)
{
  size_t i;
  void  *v = mdl[w][idx];
  for (i = idx; i + 1 < mcnt[w]; i++)
    mdl[w][i] = mdl[w][i + 1];
  mcnt[w]--;
  return v;
}

static void check_list(int w)
{
  ares_llist_t      *l = L[w];
  ares_llist_node_t *n, *p;
  size_t             i;

  VP_ASSERT(ares_llist_len(l) == mcnt[w], "len equals model length");
  VP_ASSERT(l->cnt == mcnt[w], "cnt field equals model length");

  /* forward */
  p = NULL;
  n = ares_llist_node_first(l);
  for (i = 0; i < mcnt[w]; i++) {
    VP_ASSERT(n != NULL, "forward traversal reaches every model element");
    VP_ASSERT(ares_llist_node_val(n) == mdl[w][i], "forward traversal yields the model order");
    VP_ASSERT(ares_llist_node_parent(n) == l, "node parent is its list");
    VP_ASSERT(ares_llist_node_prev(n) == p, "prev of a node is its forward predecessor");
    VP_ASSERT(ares_llist_node_idx(l, i) == n, "node_idx(i) is the i-th node");
    p = n;
    n = ares_llist_node_next(n);
  }
  VP_ASSERT(n == NULL, "forward traversal ends after the model length");
  VP_ASSERT(ares_llist_node_last(l) == p, "tail is the last node of the forward traversal");
  VP_ASSERT(ares_llist_node_idx(l, mcnt[w]) == NULL, "node_idx past the end is NULL");

  /* backward */
  p = NULL;
  n = ares_llist_node_last(l);
  for (i = mcnt[w]; i > 0; i--) {
    VP_ASSERT(n != NULL, "backward traversal reaches every model element");
    VP_ASSERT(ares_llist_node_val(n) == mdl[w][i - 1], "backward traversal yields the reversed model order");
    VP_ASSERT(ares_llist_node_next(n) == p, "next of a node is its backward predecessor");
    p = n;
    n = ares_llist_node_prev(n);
  }
  VP_ASSERT(n == NULL, "backward traversal ends after the model length");
  VP_ASSERT(ares_llist_node_first(l) == p, "head is the last node of the backward traversal");

  if (mcnt[w] == 0) {
    VP_ASSERT(ares_llist_first_val(l) == NULL && ares_llist_last_val(l) == NULL, "first/last value of empty list are NULL");
  } else {
    VP_ASSERT(ares_llist_first_val(l) == mdl[w][0], "first_val is the model head");
    VP_ASSERT(ares_llist_last_val(l) == mdl[w][mcnt[w] - 1], "last_val is the model tail");
  }
}

static void check_destroyed(void)
{
  size_t i;
  for (i = 0; i < NTOK; i++)
    VP_ASSERT(destroyed[i] == want_destroyed[i], "destructor ran exactly once per destroyed element, never otherwise");
}

/* ONE operation on the concrete shape (n0,n1), acting list a, node index i,
 * target list b.  The data structure has no value-dependent behaviour (data
 * pointers are opaque), so its state space IS the shape: all shapes are
 * enumerated by concrete loops in harness() (symbolic pointer structure does
 * not close: measured 18 s - >240 s per op), the destructor choice, the
 * replacement destructor and the failing-allocation variant stay symbolic. */
static unsigned cases_run;
static void one_case(unsigned op, size_t n0, size_t n1, int a, int b, size_t i, unsigned how)
{
  void              *val = &tok[6];
  ares_llist_node_t *r;
  int                alive[2] = { 1, 1 };
  int                w;
  size_t             k;

  for (k = 0; k < NTOK; k++) {
    destroyed[k]      = 0;
    want_destroyed[k] = 0;
  }
  cases_run++;
  L[0] = mk_list(0, n0, 0);
  L[1] = mk_list(1, n1, 3);

#if defined(KF_llist_insert_before_unlinked) || defined(KFONLY_llist_insert_before_unlinked)
  {
    /* known finding: INSERT_BEFORE a non-head node never sets at->prev->next */
    int hit = (op == 2 && i > 0 && i < mcnt[a]) || (op == 3 && i + 1 < mcnt[a]);
#  ifdef KF_llist_insert_before_unlinked
    if (hit) goto teardown;
#  else
    if (!hit) goto teardown;
#  endif
  }
#endif
  switch (op) {
    case 0: /* insert_first */
      r = ares_llist_insert_first(L[a], val);
      VP_ASSERT(r != NULL && ares_llist_node_val(r) == val, "insert_first returns the new node");
      m_insert(a, 0, val);
      break;
    case 1: /* insert_last */
      r = ares_llist_insert_last(L[a], val);
      VP_ASSERT(r != NULL && ares_llist_node_val(r) == val, "insert_last returns the new node");
      m_insert(a, mcnt[a], val);
      break;
    case 2: /* insert_before node i */
      if (i >= mcnt[a]) goto teardown;
      r = ares_llist_insert_before(nodes[a][i], val);
      VP_ASSERT(r != NULL && ares_llist_node_val(r) == val, "insert_before returns the new node");
      m_insert(a, i, val);
#ifndef KF_llist_insert_before_unlinked
      if (i > 0)
#endif
        VP_WITNESS("inner node");
      break;
    case 3: /* insert_after node i */
      if (i >= mcnt[a]) goto teardown;
      r = ares_llist_insert_after(nodes[a][i], val);
      VP_ASSERT(r != NULL && ares_llist_node_val(r) == val, "insert_after returns the new node");
      m_insert(a, i + 1, val);
#ifndef KF_llist_insert_before_unlinked
      if (i + 1 < mcnt[a] - 1)
#endif
        VP_WITNESS("inner node");
      break;
    case 4: { /* node_claim: returns the data, no destructor */
      void *v;
      if (i >= mcnt[a]) goto teardown;
      v = ares_llist_node_claim(nodes[a][i]);
      VP_ASSERT(v == mdl[a][i], "claim returns the node's data");
      m_remove(a, i);
      break;
    }
    case 5: { /* node_destroy */
      void *v;
      if (i >= mcnt[a]) goto teardown;
      v = m_remove(a, i);
      if (L[a]->destruct != NULL)
        want_destroyed[(int *)v - tok]++;
      ares_llist_node_destroy(nodes[a][i]);
      break;
    }
    case 6: { /* node_replace: old value destructed, new value in the same place */
      if (i >= mcnt[a]) goto teardown;
      if (L[a]->destruct != NULL)
        want_destroyed[(int *)mdl[a][i] - tok]++;
      ares_llist_node_replace(nodes[a][i], val);
      mdl[a][i] = val;
      break;
    }
    case 7: /* mvparent_first: node i of list a to the front of list b (b may be a) */
      if (i >= mcnt[a]) goto teardown;
      ares_llist_node_mvparent_first(nodes[a][i], L[b]);
      m_insert(b, 0, m_remove(a, i));
      if (a != b)
        VP_WITNESS("moved between lists");
      break;
    case 8: /* mvparent_last */
      if (i >= mcnt[a]) goto teardown;
      ares_llist_node_mvparent_last(nodes[a][i], L[b]);
      {
        void *v = m_remove(a, i);
        m_insert(b, mcnt[b], v);
      }
      if (a != b)
        VP_WITNESS("moved between lists");
      break;
    case 9: { /* clear */
      for (k = 0; k < mcnt[a]; k++)
        if (L[a]->destruct != NULL)
          want_destroyed[(int *)mdl[a][k] - tok]++;
      ares_llist_clear(L[a]);
      mcnt[a] = 0;
      break;
    }
    case 10: { /* destroy */
      for (k = 0; k < mcnt[a]; k++)
        if (L[a]->destruct != NULL)
          want_destroyed[(int *)mdl[a][k] - tok]++;
      ares_llist_destroy(L[a]);
      alive[a] = 0;
      break;
    }
    case 11: /* replace_destructor: later destroys use the new one */
      ares_llist_replace_destructor(L[a], vp_bool() ? dtor : NULL);
      break;
    case 12: /* rejected arguments change nothing */
      VP_ASSERT(ares_llist_insert_first(L[a], NULL) == NULL, "NULL value rejected by insert_first");
      VP_ASSERT(ares_llist_insert_last(L[a], NULL) == NULL, "NULL value rejected by insert_last");
      VP_ASSERT(ares_llist_insert_before(NULL, val) == NULL, "NULL node rejected by insert_before");
      VP_ASSERT(ares_llist_insert_after(NULL, val) == NULL, "NULL node rejected by insert_after");
      if (mcnt[a] > 0) {
        VP_ASSERT(ares_llist_insert_before(nodes[a][0], NULL) == NULL, "NULL value rejected by insert_before");
        VP_ASSERT(ares_llist_insert_after(nodes[a][0], NULL) == NULL, "NULL value rejected by insert_after");
      }
      VP_ASSERT(ares_llist_node_claim(NULL) == NULL, "claim(NULL) is NULL");
      ares_llist_node_destroy(NULL);
      ares_llist_node_replace(NULL, val);
      ares_llist_clear(NULL);
      ares_llist_destroy(NULL);
      VP_ASSERT(ares_llist_len(NULL) == 0 && ares_llist_node_first(NULL) == NULL && ares_llist_node_last(NULL) == NULL &&
                  ares_llist_node_idx(NULL, 0) == NULL && ares_llist_node_next(NULL) == NULL &&
                  ares_llist_node_prev(NULL) == NULL && ares_llist_node_val(NULL) == NULL &&
                  ares_llist_node_parent(NULL) == NULL,
                "observers tolerate NULL");
      break;
    case 13: { /* allocation failure during insert: nothing changes */
      if (how >= 2 && i >= mcnt[a]) goto teardown;
      vp_alloc_fail_at = vp_alloc_calls + 1;
      r = (how == 0)   ? ares_llist_insert_first(L[a], val)
          : (how == 1) ? ares_llist_insert_last(L[a], val)
          : (how == 2) ? ares_llist_insert_before(nodes[a][i], val)
                       : ares_llist_insert_after(nodes[a][i], val);
      vp_alloc_fail_at = 0;
      VP_ASSERT(r == NULL, "insert reports the allocation failure");
      break;
    }
    default:
      VP_ASSUME(0);
  }

  for (w = 0; w < 2; w++)
    if (alive[w])
      check_list(w);
  check_destroyed();
  VP_WITNESS("end");

teardown:
  /* tear down through the real destroy (also what makes the leak check meaningful) */
  for (w = 0; w < 2; w++) {
    if (alive[w]) {
      if (L[w]->destruct != NULL)
        for (k = 0; k < mcnt[w]; k++)
          want_destroyed[(int *)mdl[w][k] - tok]++;
      ares_llist_destroy(L[w]);
    }
  }
  check_destroyed(); /* destroy ran the (possibly replaced) destructor exactly once per remaining element */
}

#ifndef OP
#  error "llist_step.c needs -DOP=n"
#endif
#define NODE_OP (OP == 2 || OP == 3 || OP == 4 || OP == 5 || OP == 6 || OP == 7 || OP == 8 || OP == 13)
#define MOVE_OP (OP == 7 || OP == 8)

/* Shape enumeration (concrete, so every pointer in the formula is a constant).
 * The acting list is always list 0 (0..3 nodes): the two lists are the same
 * type, so "acting list = list 1" is the mirror image.  List 1 is the OTHER
 * list: move target (0..2 nodes, all sizes) or bystander that must stay
 * untouched (2 nodes). */
void harness(void)
{
  size_t n0, n1, i, how;
  int    b;
  vp_alloc_install();
  for (n0 = 0; n0 <= 3; n0++)
    for (n1 = (MOVE_OP ? 0 : 2); n1 <= 2; n1++)
      for (b = 0; b <= (MOVE_OP ? 1 : 0); b++)
        for (i = 0; i < (NODE_OP ? 3 : 1); i++)
          for (how = 0; how < (OP == 13 ? 4 : 1); how++) {
            if (NODE_OP && i >= n0 && !(OP == 13 && how < 2 && i == 0))
              continue;
            one_case(OP, n0, n1, 0, b, i, (unsigned)how);
          }
}
