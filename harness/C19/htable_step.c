/* C19 / ares_htable (generic hash table): ONE operation from an ARBITRARY
 * valid table (S1), compared with an association-array model.  Real: whole
 * src/lib/dsa/ares_htable.c and src/lib/dsa/ares_llist.c (both included so the
 * structs and the static ares_htable_expand() are visible),
 * ares_library_init.c (ares_free/ares_malloc wrappers).
 *
 * Hash function = ARBITRARY FUNCTION OF THE KEY: hv[key id], a table of
 * unconstrained 32-bit values chosen by the solver (so every collision
 * pattern, before and after doubling, is covered).  -DHV=a,b,c,.. pins the
 * table to constants (shape enumeration for the sizes where the symbolic
 * table does not close).
 *
 * Pre-state: SZ buckets (-DSZ, 16 = ARES__HTABLE_MIN_BUCKETS), E entries
 * (-DE=0..4) with distinct keys 0..E-1, each in bucket hv[key] & (SZ-1), any
 * order inside a bucket (head or tail insertion chosen freely), up to one
 * extra EMPTY bucket list anywhere (buckets keep their list after the last
 * removal), seed arbitrary, num_keys = E, num_collisions = sum(len-1).
 * Oracle: every key of the model maps to its latest bucket, every other key to
 * NULL; every stored bucket sits in the slot its hash selects; num_keys and
 * num_collisions consistent with the bucket lists; bucket_free runs exactly
 * once for a replaced/removed/destroyed bucket and never otherwise; nothing
 * leaked (allocator ledger). */
#include "vp.h"
#include "ares_private.h"

/* Typed allocation under CBMC: malloc(sizeof(T)) gives an object of type T, so
 * stored pointers stay pointers in the formula (through the size-splitting
 * allocator every object is a byte array and nothing closes: measured on the
 * skip list, 80 s -> 2 s).  Same ledger and failure injection as valloc.c. */
#ifndef VP_NATIVE
#  include <stdlib.h>
static int c19_fail_now(void)
{
  vp_alloc_calls++;
  return vp_alloc_fail_at != 0 && vp_alloc_calls == vp_alloc_fail_at;
}
static void *c19_zeroed(void *p, size_t n)
{
  __CPROVER_assume(p != NULL);
  memset(p, 0, n);
  vp_alloc_live++;
  return p;
}
#  define ares_malloc_zero(n) (c19_fail_now() ? NULL : c19_zeroed(malloc(n), (n)))
#endif
#include "dsa/ares_llist.c"
#include "dsa/ares_htable.c"
#ifndef VP_NATIVE
#  undef ares_malloc_zero
#endif

#ifndef E
#  define E 2
#endif
#ifndef SZ
#  define SZ 16
#endif
#define NK   (E + 1) /* key ids: 0..E-1 in the table, E absent */
#define NENT (E + 2) /* bucket objects: E stored, 1 with the new key, 1 replacement */

typedef struct {
  int key;
  int id;
  int val;
} ent_t;

static ent_t        ents[NENT];
static unsigned     destroyed[NENT], want_destroyed[NENT];
static unsigned int hv[NK];
static unsigned int the_seed;
static ares_htable_t *H;
static ent_t       *cur[NK]; /* model: key -> latest bucket, NULL = absent */

static unsigned int h_hash(const void *key, unsigned int seed)
{
  int k = *(const int *)key;
  VP_ASSERT(k >= 0 && k < NK, "hash called on a key that was handed to the table");
  VP_ASSERT(seed == the_seed, "hash called with the table's seed");
  return hv[k];
}
static const void *h_key(const void *bucket)
{
  return &((const ent_t *)bucket)->key;
}
static void h_free(void *bucket)
{
  size_t i = (size_t)((ent_t *)bucket - ents);
  VP_ASSERT(i < NENT, "bucket_free gets a stored bucket");
  destroyed[i]++;
}
static ares_bool_t h_eq(const void *a, const void *b)
{
  return (*(const int *)a == *(const int *)b) ? ARES_TRUE : ARES_FALSE;
}

#ifdef VP_NATIVE
#  define T_ALLOC(T)     ((T *)vp_malloc(sizeof(T)))
#  define T_ALLOCN(T, n) ((T *)vp_malloc(sizeof(T) * (n)))
#else
#  define T_ALLOC(T)     (vp_alloc_live++, (T *)malloc(sizeof(T)))
#  define T_ALLOCN(T, n) (vp_alloc_live++, (T *)malloc(sizeof(T) * (n)))
#endif

static ares_llist_t *mk_list(void)
{
  ares_llist_t *l = T_ALLOC(ares_llist_t);
  l->head         = NULL;
  l->tail         = NULL;
  l->destruct     = h_free;
  l->cnt          = 0;
  return l;
}

static void mk_node(ares_llist_t *l, void *data, int at_head)
{
  ares_llist_node_t *n = T_ALLOC(ares_llist_node_t);
  n->data              = data;
  n->parent            = l;
  if (l->cnt == 0) {
    n->prev = n->next = NULL;
    l->head = l->tail = n;
  } else if (at_head) {
    n->prev       = NULL;
    n->next       = l->head;
    l->head->prev = n;
    l->head       = n;
  } else {
    n->next       = NULL;
    n->prev       = l->tail;
    l->tail->next = n;
    l->tail       = n;
  }
  l->cnt++;
}

/* shape parameters of the current case (all concrete, see harness()) */
static const unsigned int idxmap[] = { 5, 0, 15, 9, 12, 3 }; /* bucket slot of partition block b (both ends included) */
static const unsigned int part[]   = { PART, 0 };            /* block of key k (k = 0..E), from the job */
static unsigned           p_ord;   /* bit e: entry e was linked at the head (else tail) of its bucket list */
static unsigned           p_hib;   /* bit k: hash of key k has bit log2(SZ) set (decides the slot after doubling) */
static unsigned           p_empty; /* 0 none; 1 an emptied list in an unused slot; 2 an emptied list in the new key's slot */

static void arbitrary_htable(void)
{
  size_t i, e;
  for (i = 0; i < NK; i++) {
    hv[i]  = idxmap[part[i]] | (((p_hib >> i) & 1u) ? SZ : 0u) | 0xA5C3E000u | ((unsigned int)i << 8);
    cur[i] = NULL;
  }
  for (i = 0; i < NENT; i++) {
    ents[i].id  = (int)i;
    ents[i].val = vp_int();
    ents[i].key = (i < E) ? (int)i : E; /* ents[E]: new key; ents[E+1]: replacement, key set by the op */
    destroyed[i] = want_destroyed[i] = 0;
  }
  the_seed          = vp_u32();
  H                 = T_ALLOC(ares_htable_t);
  H->hash           = h_hash;
  H->bucket_key     = h_key;
  H->bucket_free    = h_free;
  H->key_eq         = h_eq;
  H->seed           = the_seed;
  H->size           = SZ;
  H->num_keys       = E;
  H->num_collisions = 0;
  H->buckets        = T_ALLOCN(ares_llist_t *, SZ);
  for (i = 0; i < SZ; i++)
    H->buckets[i] = NULL;
  for (e = 0; e < E; e++) {
    unsigned int idx = hv[e] & (SZ - 1);
    if (H->buckets[idx] == NULL)
      H->buckets[idx] = mk_list();
    mk_node(H->buckets[idx], &ents[e], (int)((p_ord >> e) & 1u));
    if (H->buckets[idx]->cnt > 1)
      H->num_collisions++;
    cur[e] = &ents[e];
  }
  if (p_empty != 0) { /* a bucket that was emptied by removals keeps its (empty) list */
    unsigned int idx = (p_empty == 1) ? 7 : (hv[E] & (SZ - 1));
    if (H->buckets[idx] == NULL)
      H->buckets[idx] = mk_list();
  }
}

static size_t model_count(void)
{
  size_t k, c = 0;
  for (k = 0; k < NK; k++)
    if (cur[k] != NULL)
      c++;
  return c;
}

static void check_table(unsigned int want_size)
{
  size_t i, k, total = 0, coll = 0;
  VP_ASSERT(H->size == want_size, "bucket array size as expected");
  VP_ASSERT(H->seed == the_seed, "seed unchanged");
  VP_ASSERT(H->buckets != NULL, "bucket array present");
  for (i = 0; i < want_size; i++) {
    ares_llist_t      *l = H->buckets[i];
    ares_llist_node_t *n;
    size_t             len = 0;
    if (l == NULL)
      continue;
    VP_ASSERT(l->destruct == h_free, "bucket list destroys entries with bucket_free");
    for (n = ares_llist_node_first(l); n != NULL; n = ares_llist_node_next(n)) {
      const ent_t *en = ares_llist_node_val(n);
      VP_ASSERT(en != NULL, "stored bucket is not NULL");
      VP_ASSERT((hv[en->key] & (want_size - 1)) == i, "entry sits in the slot its hash selects");
      VP_ASSERT(cur[en->key] == en, "stored entry is the model's latest bucket for its key (no stale or duplicate key)");
      VP_ASSERT(ares_llist_node_parent(n) == l, "node parent is the bucket list");
      len++;
      VP_BOUND(len <= NK, "bucket list longer than the number of keys");
    }
    VP_ASSERT(ares_llist_len(l) == len, "bucket list count consistent");
    total += len;
    if (len > 1)
      coll += len - 1;
  }
  VP_ASSERT(total == model_count(), "stored entries = live keys of the model (nothing lost, nothing duplicated)");
  VP_ASSERT(ares_htable_num_keys(H) == total, "num_keys equals the number of stored entries");
  VP_ASSERT(H->num_collisions == coll, "num_collisions equals the sum of (bucket length - 1)");
  for (k = 0; k < NK; k++) {
    int key = (int)k;
    VP_ASSERT(ares_htable_get(H, &key) == (void *)cur[k], "get maps every live key to its latest bucket, others to NULL");
  }
}

static void check_destroyed(void)
{
  size_t i;
  for (i = 0; i < NENT; i++)
    VP_ASSERT(destroyed[i] == want_destroyed[i], "bucket_free ran exactly once per dropped bucket, never otherwise");
}

static void one_case(unsigned op, size_t j, unsigned long failat)
{
  size_t       k;
  unsigned int size_after = SZ;
  int          alive      = 1;
  int          key;

  arbitrary_htable();

  switch (op) {
    case 0: /* insert a new key */
      VP_ASSERT(ares_htable_insert(H, &ents[E]) == ARES_TRUE, "insert of a new key succeeds");
      cur[E] = &ents[E];
      break;
    case 1: /* insert for an existing key: replaces, frees the old bucket */
      if (j >= E) goto teardown_only;
      ents[E + 1].key = (int)j;
      VP_ASSERT(ares_htable_insert(H, &ents[E + 1]) == ARES_TRUE, "insert for an existing key succeeds");
      want_destroyed[j]++;
      cur[j] = &ents[E + 1];
      break;
    case 2: /* observers only */
      break;
    case 3: /* remove any key (live or not) */
      key = (int)j;
      if (j < E) {
        VP_ASSERT(ares_htable_remove(H, &key) == ARES_TRUE, "remove of a live key succeeds");
        want_destroyed[j]++;
        cur[j] = NULL;
        VP_WITNESS("removed");
      } else {
        VP_ASSERT(ares_htable_remove(H, &key) == ARES_FALSE, "remove of an absent key fails");
      }
      break;
    case 4: /* expansion, called directly */
      VP_ASSERT(ares_htable_expand(H) == ARES_TRUE, "expand succeeds (allocator does not fail here)");
      size_after = 2 * SZ;
      break;
    case 5: { /* all_buckets */
      size_t       n   = 99, i;
      const void **all = ares_htable_all_buckets(H, &n);
      VP_ASSERT(all != NULL, "all_buckets returns an array");
      VP_ASSERT(n == E, "all_buckets reports num_keys entries");
      for (k = 0; k < E; k++) {
        unsigned c = 0;
        for (i = 0; i < n; i++)
          if (all[i] == (const void *)&ents[k])
            c++;
        VP_ASSERT(c == 1, "all_buckets lists every stored bucket exactly once");
      }
      ares_free(all);
      break;
    }
    case 6: /* destroy */
      for (k = 0; k < E; k++)
        want_destroyed[k]++;
      ares_htable_destroy(H);
      alive = 0;
      break;
    case 7: { /* allocation failure during insert of a new key: FALSE, mapping unchanged */
      vp_alloc_fail_at = vp_alloc_calls + failat;
      if (ares_htable_insert(H, &ents[E]) == ARES_TRUE) {
        cur[E] = &ents[E]; /* the failing allocation was not needed (bucket list existed) */
      } else {
        VP_WITNESS("insert failed");
      }
      vp_alloc_fail_at = 0;
      break;
    }
    case 8: /* allocation failure during expand: FALSE, table unchanged */
      vp_alloc_fail_at = vp_alloc_calls + failat;
      if (ares_htable_expand(H) == ARES_TRUE)
        size_after = 2 * SZ;
      else
        VP_WITNESS("expand failed");
      vp_alloc_fail_at = 0;
      break;
    case 9: /* rejected arguments */
      key = 0;
      VP_ASSERT(ares_htable_insert(NULL, &ents[E]) == ARES_FALSE && ares_htable_insert(H, NULL) == ARES_FALSE, "insert rejects NULL");
      VP_ASSERT(ares_htable_get(NULL, &key) == NULL && ares_htable_get(H, NULL) == NULL, "get rejects NULL");
      VP_ASSERT(ares_htable_remove(NULL, &key) == ARES_FALSE && ares_htable_remove(H, NULL) == ARES_FALSE, "remove rejects NULL");
      VP_ASSERT(ares_htable_num_keys(NULL) == 0, "num_keys(NULL)");
      VP_ASSERT(ares_htable_create(NULL, h_key, h_free, h_eq) == NULL && ares_htable_create(h_hash, NULL, h_free, h_eq) == NULL &&
                  ares_htable_create(h_hash, h_key, NULL, h_eq) == NULL && ares_htable_create(h_hash, h_key, h_free, NULL) == NULL,
                "create needs all four callbacks");
      ares_htable_destroy(NULL);
      break;
    default:
      VP_ASSUME(0);
  }

  if (alive)
    check_table(size_after);
  check_destroyed();
  VP_WITNESS("end");

teardown_only:
  if (alive) {
    for (k = 0; k < NK; k++)
      if (cur[k] != NULL)
        want_destroyed[cur[k] - ents]++;
    ares_htable_destroy(H);
  }
  check_destroyed();
  VP_ASSERT(vp_alloc_live == 0, "nothing leaked, nothing freed twice (allocator ledger)");
}

#ifndef OP
#  error "htable_step.c needs -DOP=n -DE=n -DPART=.."
#endif
#define EXPAND_OP (OP == 4 || OP == 8)
#define J_OP      (OP == 1 || OP == 3)

/* first_in_block(e): no earlier stored key shares e's block, so head/tail linking is the same thing */
static int first_in_block(size_t e)
{
  size_t i;
  for (i = 0; i < e; i++)
    if (part[i] == part[e])
      return 0;
  return 1;
}

void harness(void)
{
  unsigned      ord, hib, empty;
  size_t        j, e;
  unsigned long failat;
  vp_alloc_install();
  for (ord = 0; ord < (1u << E); ord++) {
    int skip = 0;
#ifdef ORD
    if (ord != (ORD))
      continue;
#endif
    for (e = 0; e < E; e++)
      if (((ord >> e) & 1u) && first_in_block(e))
        skip = 1; /* same state as with the bit cleared */
    if (skip)
      continue;
    for (hib = 0; hib < (OP == 4 ? (1u << E) : 1u); hib++)
      for (empty = 0; empty <= (EXPAND_OP ? 1u : 2u); empty++)
        for (j = 0; j < (J_OP ? (size_t)E + (OP == 3) : 1u); j++)
          for (failat = 1; failat <= (OP == 7 ? 2ul : OP == 8 ? 2ul + E : 1ul); failat++) {
            p_ord   = ord;
            p_hib   = (OP == 4) ? hib : 0x15u;
            p_empty = empty;
            one_case(OP, j, failat);
          }
  }
}
