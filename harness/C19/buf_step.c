/* C19 / ares_buf: ONE operation from an ARBITRARY valid buffer (S1), compared
 * with a snapshot-based reference model.  Real: whole src/lib/str/ares_buf.c
 * (included so the struct and the static ensure_space are visible),
 * ares_library_init.c allocator wrappers, str/ares_str.c, util/ares_math.c.
 *
 * Pre-state (-DAL=n):
 *   AL=0      freshly created buffer (no allocation yet)
 *   AL=32|64  allocated: data == alloc_buf (exactly AL bytes, so any write
 *             outside is an out-of-bounds failure), symbolic contents,
 *             data_len in 0..AL-1 (one byte always reserved for the NUL of
 *             finish_str), offset in 0..data_len, tag unset or in 0..offset
 *   AL=-1     const buffer over exactly CL (-DCL) symbolic bytes, offset in
 *             0..CL, tag unset or in 0..offset
 * Oracle: the unread bytes are exactly (snapshot from offset) + (appended)
 * minus (consumed); the tagged span is unchanged by appends/reclaim;
 * tag/rollback/clear/set_position move exactly the cursor they name; reclaim
 * drops exactly min(tag, offset) bytes; a failed call leaves every field and
 * byte as it was; the NUL reserve and alloc_buf_len bookkeeping hold; nothing
 * is leaked (allocator ledger). */
#include "vp.h"
#include "str/ares_buf.c"

#ifndef AL
#  define AL 32
#endif
#ifndef CL
#  define CL 12
#endif
#if AL < 0
#  define DL CL /* bytes of backing store */
#elif AL == 0
#  define DL 1
#else
#  define DL AL
#endif
#ifndef KMAX
#  define KMAX 36 /* longest append: forces up to two doublings from AL=32 */
#endif
#define OUTMAX (DL + 4)
#define UNSET  SIZE_MAX

static ares_buf_t    *B;
static unsigned char *store; /* the backing bytes of the pre-state (alloc_buf or const data) */

/* snapshot of the pre-state */
static unsigned char S_bytes[DL + 1];
static size_t        S_len, S_off, S_tag, S_alloc;
static int           S_const;

static int inv(const ares_buf_t *b)
{
  if (b->alloc_buf == NULL && b->data != NULL) { /* const */
    return b->alloc_buf_len == 0 && b->data_len > 0 && b->offset <= b->data_len &&
           (b->tag_offset == UNSET || b->tag_offset <= b->offset);
  }
  if (b->alloc_buf == NULL) /* fresh */
    return b->data == NULL && b->data_len == 0 && b->alloc_buf_len == 0 && b->offset == 0 &&
           (b->tag_offset == UNSET || b->tag_offset == 0);
  return b->data == b->alloc_buf && b->alloc_buf_len >= 32 && (b->alloc_buf_len & (b->alloc_buf_len - 1)) == 0 &&
         b->data_len < b->alloc_buf_len && b->offset <= b->data_len &&
         (b->tag_offset == UNSET || b->tag_offset <= b->offset);
}

static void arbitrary_buf(void)
{
  size_t i;
#ifdef VP_NATIVE
  B = vp_malloc(sizeof(*B));
#else
  B = malloc(sizeof(*B)); /* typed object under CBMC */
  vp_alloc_live++;
#endif
  B->data          = NULL;
  B->data_len      = 0;
  B->alloc_buf     = NULL;
  B->alloc_buf_len = 0;
  B->offset        = 0;
  B->tag_offset    = UNSET;
  store            = NULL;
#if AL > 0
  store = vp_malloc(AL);
  vp_bytes(store, AL);
  B->alloc_buf     = store;
  B->alloc_buf_len = AL;
  B->data          = store;
#  if defined(DLO) && DLO == DHI
  B->data_len = DLO; /* grid point */
#  elif defined(DLO)
  B->data_len = vp_range(DLO, DHI); /* job covers this slice of the data_len range */
#  else
  B->data_len = vp_range(0, AL - 1);
#  endif
#  if defined(OFF_END)
  B->offset = B->data_len; /* everything consumed */
#  elif defined(OFF)
  B->offset = OFF;
#  else
  B->offset = vp_range(0, AL - 1);
#  endif
  VP_ASSUME(B->offset <= B->data_len);
#elif AL < 0
  store = vp_malloc(CL); /* not owned by the buffer */
  vp_bytes(store, CL);
  B->data     = store;
  B->data_len = CL;
  B->offset   = vp_range(0, CL);
#endif
#ifdef TAG
  B->tag_offset = TAG;
#else
  if (vp_bool()) {
    B->tag_offset = vp_range(0, DL);
    VP_ASSUME(B->tag_offset <= B->offset);
  }
#endif
  VP_ASSUME(inv(B));
  S_len   = B->data_len;
  S_off   = B->offset;
  S_tag   = B->tag_offset;
  S_alloc = B->alloc_buf_len;
  S_const = (AL < 0);
  for (i = 0; i < S_len; i++)
    S_bytes[i] = B->data[i];
}

/* every field and every byte as in the snapshot, shifted down by `shift`, with
 * data_len = elen, offset = eoff, tag = etag */
static void expect_exact(size_t shift, size_t elen, size_t eoff, size_t etag)
{
  size_t i;
  VP_ASSERT(inv(B), "representation invariant holds");
  VP_ASSERT(B->data_len == elen, "data_len as the model says");
  VP_ASSERT(B->offset == eoff, "offset as the model says");
  VP_ASSERT(B->tag_offset == etag, "tag as the model says");
  VP_ASSERT(B->alloc_buf_len == S_alloc, "allocation size unchanged");
  VP_ASSERT(AL == 0 || B->data == store, "storage not moved");
  /* "for all i" through one arbitrary index (a loop of byte compares does not close) */
  i = vp_size();
  if (i < elen && i + shift < S_len)
    VP_ASSERT(B->data[i] == S_bytes[i + shift], "stored bytes as the model says");
}

static void expect_unchanged(void)
{
  expect_exact(0, S_len, S_off, S_tag);
}

/* after an append-family call (which may reclaim and/or reallocate): the
 * unread bytes are the old unread bytes followed by x[0..k), the tagged span is
 * what it was, bookkeeping consistent */
static void expect_views(const unsigned char *x, size_t k)
{
  size_t               rem0 = S_len - S_off;
  size_t               n    = 99, i;
  const unsigned char *p;
  size_t               dropped;
  VP_ASSERT(inv(B), "representation invariant holds (incl. NUL reserve: data_len < alloc_buf_len)");

  VP_ASSERT(ares_buf_len(B) == rem0 + k, "unread length = old unread + appended");
  p = ares_buf_peek(B, &n);
  VP_ASSERT(n == rem0 + k, "peek length = unread length");
  VP_ASSERT((p != NULL) == (n != 0), "peek pointer iff data");
  /* "for all i" through one arbitrary index (a loop of byte compares does not close) */
  i = vp_size();
  if (i < rem0)
    VP_ASSERT(p[i] == S_bytes[S_off + i], "old unread bytes kept, in order");
  if (i < k)
    VP_ASSERT(p[rem0 + i] == x[i], "appended bytes follow the old unread bytes");
  /* what may have been dropped from the front: nothing, or exactly the reclaimable prefix */
  dropped = S_off - B->offset;
  VP_ASSERT(B->offset <= S_off, "offset never grows on append");
  VP_ASSERT(dropped == 0 || dropped == ((S_tag != UNSET && S_tag < S_off) ? S_tag : S_off),
            "front bytes dropped = none or exactly min(tag, offset)");
  if (S_tag == UNSET) {
    VP_ASSERT(B->tag_offset == UNSET, "tag stays unset");
  } else {
    size_t               tl = 99;
    const unsigned char *t  = ares_buf_tag_fetch(B, &tl);
    VP_ASSERT(B->tag_offset == S_tag - dropped, "tag moved with the data");
    /* a never-allocated buffer has data == NULL, so its (empty) tagged span is reported as NULL */
    VP_ASSERT((t != NULL) == (B->data != NULL), "tagged span present iff the buffer has storage");
    VP_ASSERT(t == NULL || tl == S_off - S_tag, "tagged span length kept");
    if (t != NULL && i < tl)
      VP_ASSERT(t[i] == S_bytes[S_tag + i], "tagged bytes kept (reclaim respects the tag)");
  }
}

static int is_ws(unsigned char c, int lf)
{
  return c == '\r' || c == '\t' || c == ' ' || c == '\v' || c == '\f' || (lf && c == '\n');
}

static int in_set(unsigned char c, const unsigned char *cs, size_t n)
{
  size_t i;
  for (i = 0; i < n; i++)
    if (cs[i] == c)
      return 1;
  return 0;
}

void harness(void)
{
  unsigned       op;
  ares_status_t  st;
  unsigned char  x[KMAX + 4];
  unsigned char  out[OUTMAX + 1];
  size_t         rem0, k, n, i;
  int            destroyed = 0;

  vp_alloc_install();
  arbitrary_buf();
  rem0 = S_len - S_off;
#ifdef OP
  op = OP;
#else
  op = vp_u8();
#endif
  vp_bytes(x, sizeof(x));
  for (i = 0; i < sizeof(out); i++)
    out[i] = 0xEE;

  switch (op) {
    case 0: /* append k bytes */
#ifdef K
      k = K;
#else
      k = vp_range(0, KMAX);
#endif
      st = ares_buf_append(B, x, k);
      if (S_const && k != 0) {
        VP_ASSERT(st == ARES_EFORMERR, "append to a const buffer is refused");
        expect_unchanged();
      } else {
        VP_ASSERT(st == ARES_SUCCESS, "append succeeds (allocator does not fail here)");
        if (S_const) expect_unchanged(); else expect_views(x, k);
        if (B->alloc_buf_len > S_alloc && S_alloc != 0)
          VP_WITNESS("grown");
        if (B->offset < S_off)
          VP_WITNESS("reclaimed");
      }
      break;
    case 1:
      st = ares_buf_append_byte(B, x[0]);
      if (S_const) {
        VP_ASSERT(st == ARES_EFORMERR, "append_byte to a const buffer is refused");
        expect_unchanged();
      } else {
        VP_ASSERT(st == ARES_SUCCESS, "append_byte succeeds");
        expect_views(x, 1);
      }
      break;
    case 2: {
      unsigned short v = vp_u16();
      x[0]             = (unsigned char)(v >> 8);
      x[1]             = (unsigned char)(v & 0xff);
      st               = ares_buf_append_be16(B, v);
      if (S_const) {
        VP_ASSERT(st == ARES_EFORMERR, "append_be16 to a const buffer is refused");
        expect_unchanged();
      } else {
        VP_ASSERT(st == ARES_SUCCESS, "append_be16 succeeds");
        expect_views(x, 2);
      }
      break;
    }
    case 3: {
      unsigned int v = vp_u32();
      x[0]           = (unsigned char)(v >> 24);
      x[1]           = (unsigned char)((v >> 16) & 0xff);
      x[2]           = (unsigned char)((v >> 8) & 0xff);
      x[3]           = (unsigned char)(v & 0xff);
      st             = ares_buf_append_be32(B, v);
      if (S_const) {
        VP_ASSERT(st == ARES_EFORMERR, "append_be32 to a const buffer is refused");
        expect_unchanged();
      } else {
        VP_ASSERT(st == ARES_SUCCESS, "append_be32 succeeds");
        expect_views(x, 4);
      }
      break;
    }
    case 4: { /* append_start / write / append_finish */
#ifdef K
      size_t         want = K;
#else
      size_t         want = vp_range(0, KMAX);
#endif
      size_t         len  = want;
      unsigned char *p    = ares_buf_append_start(B, &len);
      if (S_const || want == 0) {
        VP_ASSERT(p == NULL, "append_start refused on a const buffer / zero length");
        expect_unchanged();
      } else {
        unsigned how = vp_u8() % 3; /* write nothing / what was asked for / everything that was offered */
        size_t   w   = (how == 0) ? 0 : want;
        VP_ASSERT(p != NULL, "append_start succeeds");
        VP_ASSERT(len >= want, "offered space >= requested");
        VP_ASSERT(len == B->alloc_buf_len - B->data_len - 1, "offered space leaves the NUL reserve");
        VP_ASSERT(p == B->alloc_buf + B->data_len, "write position is the end of data");
        if (how == 2) { /* arithmetic of a completely used offer (bytes themselves are not the point here) */
          ares_buf_append_finish(B, len);
          VP_ASSERT(inv(B) && B->data_len == B->alloc_buf_len - 1, "a fully used offer still leaves the NUL reserve");
          VP_ASSERT(ares_buf_len(B) == rem0 + len, "unread length grew by the written count");
          VP_WITNESS("offer fully used");
        } else {
          for (i = 0; i < w; i++)
            p[i] = x[i];
          ares_buf_append_finish(B, w);
          expect_views(x, w);
        }
      }
      break;
    }
    case 5: { /* ensure_space (static) */
#ifdef K
      size_t need = K;
#else
      size_t need = vp_range(0, KMAX);
#endif
      st = ares_buf_ensure_space(B, need);
      if (S_const) {
        VP_ASSERT(st == ARES_EFORMERR, "ensure_space refused on a const buffer");
        expect_unchanged();
      } else {
        VP_ASSERT(st == ARES_SUCCESS, "ensure_space succeeds");
        VP_ASSERT(B->alloc_buf_len - B->data_len >= need + 1, "requested space plus the NUL reserve is available");
        expect_views(x, 0);
      }
      break;
    }
    case 6: { /* set_length */
      size_t len = vp_range(0, 300);
      st         = ares_buf_set_length(B, len);
      if (S_const || S_alloc == 0 || len >= S_alloc - S_off) {
        VP_ASSERT(st != ARES_SUCCESS, "set_length refused (const, unallocated, or beyond the allocation minus NUL reserve)");
        expect_unchanged();
      } else {
        VP_ASSERT(st == ARES_SUCCESS, "set_length within the allocation succeeds");
        expect_exact(0, len + S_off, S_off, S_tag);
        VP_WITNESS("set_length ok");
      }
      break;
    }
    case 7: { /* set_position */
      size_t idx = vp_range(0, 300);
      /* caller contract (no library caller moves the cursor below an active tag) */
      VP_ASSUME(S_tag == UNSET || idx >= S_tag);
      st = ares_buf_set_position(B, idx);
      if (idx > S_len) {
        VP_ASSERT(st != ARES_SUCCESS, "position past the data is refused");
        expect_unchanged();
      } else {
        VP_ASSERT(st == ARES_SUCCESS, "position inside the data is accepted");
        expect_exact(0, S_len, idx, S_tag);
        VP_ASSERT(ares_buf_get_position(B) == idx, "get_position returns it");
      }
      break;
    }
    case 8:
      ares_buf_tag(B);
      expect_exact(0, S_len, S_off, S_off);
      break;
    case 9:
      st = ares_buf_tag_rollback(B);
      if (S_tag == UNSET) {
        VP_ASSERT(st != ARES_SUCCESS, "rollback without a tag is refused");
        expect_unchanged();
      } else {
        VP_ASSERT(st == ARES_SUCCESS, "rollback succeeds");
        expect_exact(0, S_len, S_tag, UNSET);
        VP_WITNESS("rolled back");
      }
      break;
    case 10:
      st = ares_buf_tag_clear(B);
      if (S_tag == UNSET) {
        VP_ASSERT(st != ARES_SUCCESS, "clear without a tag is refused");
        expect_unchanged();
      } else {
        VP_ASSERT(st == ARES_SUCCESS, "clear succeeds");
        expect_exact(0, S_len, S_off, UNSET);
      }
      break;
    case 11: { /* tag_fetch / tag_length */
      const unsigned char *t;
      n = 99;
      t = ares_buf_tag_fetch(B, &n);
      if (S_tag == UNSET || AL == 0) { /* AL == 0: data is NULL, so the empty span is reported as NULL */
        VP_ASSERT(t == NULL, "tag_fetch without a tag is NULL");
        VP_ASSERT(ares_buf_tag_length(B) == 0, "tag_length without a tag is 0");
      } else {
        VP_ASSERT(t == B->data + S_tag && n == S_off - S_tag, "tag_fetch returns the tagged span");
        VP_ASSERT(ares_buf_tag_length(B) == S_off - S_tag, "tag_length is offset - tag");
      }
      expect_unchanged();
      break;
    }
    case 12: { /* tag_fetch_bytes */
      size_t cap = vp_range(0, OUTMAX);
      n          = cap;
      st         = ares_buf_tag_fetch_bytes(B, out, &n);
      if (S_tag == UNSET || AL == 0 || cap < S_off - S_tag) {
        VP_ASSERT(st != ARES_SUCCESS, "tag_fetch_bytes refused (no tag / output too small)");
        for (i = 0; i < OUTMAX; i++)
          VP_ASSERT(out[i] == 0xEE, "output untouched on refusal");
      } else {
        VP_ASSERT(st == ARES_SUCCESS && n == S_off - S_tag, "tag_fetch_bytes returns the span length");
        for (i = 0; i < n; i++)
          VP_ASSERT(out[i] == S_bytes[S_tag + i], "tag_fetch_bytes copies the tagged bytes");
        for (i = n; i < OUTMAX; i++)
          VP_ASSERT(out[i] == 0xEE, "nothing written past the span");
        VP_WITNESS("fetched");
      }
      expect_unchanged();
      break;
    }
    case 13: { /* tag_fetch_string */
      size_t cap = vp_range(0, OUTMAX);
      st         = ares_buf_tag_fetch_string(B, (char *)out, cap);
      if (cap == 0 || S_tag == UNSET || AL == 0 || cap - 1 < S_off - S_tag) {
        VP_ASSERT(st != ARES_SUCCESS, "tag_fetch_string refused (no tag / no room for text + NUL)");
        for (i = 0; i < OUTMAX; i++)
          VP_ASSERT(out[i] == 0xEE, "output untouched on refusal");
      } else {
        int printable = 1;
        n             = S_off - S_tag;
        for (i = 0; i < n; i++) {
          VP_ASSERT(out[i] == S_bytes[S_tag + i], "tag_fetch_string copies the tagged bytes");
          if (S_bytes[S_tag + i] < 0x20 || S_bytes[S_tag + i] > 0x7E)
            printable = 0;
        }
        VP_ASSERT(out[n] == 0, "tag_fetch_string terminates the text");
        for (i = n + 1; i < OUTMAX; i++)
          VP_ASSERT(out[i] == 0xEE, "nothing written past the NUL");
        VP_ASSERT(st == (printable ? ARES_SUCCESS : ARES_EBADSTR), "non-printable text is reported as EBADSTR");
        if (printable && n > 0)
          VP_WITNESS("fetched");
      }
      expect_unchanged();
      break;
    }
    case 14: { /* tag_fetch_strdup (bound: tagged span <= 7 bytes, allocation sizes are case-split) */
      char *s = NULL;
      VP_ASSUME(S_tag == UNSET || S_off - S_tag <= 7);
      st = ares_buf_tag_fetch_strdup(B, &s);
      if (S_tag == UNSET || AL == 0) {
        VP_ASSERT(st != ARES_SUCCESS && s == NULL, "tag_fetch_strdup without a tag is refused");
      } else {
        int printable = 1;
        n             = S_off - S_tag;
        for (i = 0; i < n; i++)
          if (S_bytes[S_tag + i] < 0x20 || S_bytes[S_tag + i] > 0x7E)
            printable = 0;
        if (!printable) {
          VP_ASSERT(st == ARES_EBADSTR && s == NULL, "non-printable text is refused with EBADSTR");
        } else {
          VP_ASSERT(st == ARES_SUCCESS && s != NULL, "tag_fetch_strdup succeeds");
          for (i = 0; i < n; i++)
            VP_ASSERT((unsigned char)s[i] == S_bytes[S_tag + i], "duplicate equals the tagged bytes");
          VP_ASSERT(s[n] == 0, "duplicate is terminated");
          ares_free(s);
          VP_WITNESS("fetched");
        }
      }
      expect_unchanged();
      break;
    }
    case 15: { /* tag_fetch_constbuf */
      ares_buf_t *nb = NULL;
      st             = ares_buf_tag_fetch_constbuf(B, &nb);
      if (S_tag == UNSET || S_off == S_tag) {
        VP_ASSERT(st != ARES_SUCCESS && nb == NULL, "no tag / empty span gives no const buffer");
      } else {
        VP_ASSERT(st == ARES_SUCCESS && nb != NULL, "tag_fetch_constbuf succeeds");
        VP_ASSERT(inv(nb) && nb->alloc_buf == NULL, "result is a valid const buffer");
        VP_ASSERT(nb->data == B->data + S_tag && nb->data_len == S_off - S_tag && nb->offset == 0 && nb->tag_offset == UNSET,
                  "result views exactly the tagged span");
        ares_buf_destroy(nb);
        VP_WITNESS("fetched");
      }
      expect_unchanged();
      break;
    }
    case 16: /* consume */
      n  = vp_range(0, 300);
      st = ares_buf_consume(B, n);
      if (n > rem0) {
        VP_ASSERT(st != ARES_SUCCESS, "consume beyond the data is refused");
        expect_unchanged();
      } else {
        VP_ASSERT(st == ARES_SUCCESS, "consume within the data succeeds");
        expect_exact(0, S_len, S_off + n, S_tag);
      }
      break;
    case 17: {
      unsigned short v = 0x5a5a;
      st               = ares_buf_fetch_be16(B, &v);
      if (rem0 < 2) {
        VP_ASSERT(st != ARES_SUCCESS, "fetch_be16 with < 2 bytes is refused");
        expect_unchanged();
      } else {
        VP_ASSERT(st == ARES_SUCCESS, "fetch_be16 succeeds");
        VP_ASSERT(v == (unsigned short)((S_bytes[S_off] << 8) | S_bytes[S_off + 1]), "fetch_be16 value is big-endian");
        expect_exact(0, S_len, S_off + 2, S_tag);
      }
      break;
    }
    case 18: {
      unsigned int v = 0x5a5a5a5a;
      st             = ares_buf_fetch_be32(B, &v);
      if (rem0 < 4) {
        VP_ASSERT(st != ARES_SUCCESS, "fetch_be32 with < 4 bytes is refused");
        expect_unchanged();
      } else {
        VP_ASSERT(st == ARES_SUCCESS, "fetch_be32 succeeds");
        VP_ASSERT(v == (((unsigned int)S_bytes[S_off] << 24) | ((unsigned int)S_bytes[S_off + 1] << 16) |
                        ((unsigned int)S_bytes[S_off + 2] << 8) | (unsigned int)S_bytes[S_off + 3]),
                  "fetch_be32 value is big-endian");
        expect_exact(0, S_len, S_off + 4, S_tag);
      }
      break;
    }
    case 19: /* fetch_bytes */
      n  = vp_range(0, OUTMAX);
      st = ares_buf_fetch_bytes(B, out, n);
      if (n == 0 || n > rem0) {
        VP_ASSERT(st != ARES_SUCCESS, "fetch_bytes of 0 / beyond the data is refused");
        for (i = 0; i < OUTMAX; i++)
          VP_ASSERT(out[i] == 0xEE, "output untouched on refusal");
        expect_unchanged();
      } else {
        VP_ASSERT(st == ARES_SUCCESS, "fetch_bytes succeeds");
        for (i = 0; i < n; i++)
          VP_ASSERT(out[i] == S_bytes[S_off + i], "fetch_bytes copies the next bytes");
        for (i = n; i < OUTMAX; i++)
          VP_ASSERT(out[i] == 0xEE, "nothing written past the request");
        expect_exact(0, S_len, S_off + n, S_tag);
      }
      break;
    case 20: { /* fetch_bytes_dup (bound: <= 7 bytes) */
      unsigned char *d  = NULL;
      int            nt = vp_bool();
      n                 = vp_range(0, 7);
      st                = ares_buf_fetch_bytes_dup(B, n, nt ? ARES_TRUE : ARES_FALSE, &d);
      if (n == 0 || n > rem0) {
        VP_ASSERT(st != ARES_SUCCESS && d == NULL, "fetch_bytes_dup of 0 / beyond the data is refused");
        expect_unchanged();
      } else {
        VP_ASSERT(st == ARES_SUCCESS && d != NULL, "fetch_bytes_dup succeeds");
        for (i = 0; i < n; i++)
          VP_ASSERT(d[i] == S_bytes[S_off + i], "duplicate equals the next bytes");
        if (nt)
          VP_ASSERT(d[n] == 0, "duplicate is terminated when asked");
        ares_free(d);
        expect_exact(0, S_len, S_off + n, S_tag);
      }
      break;
    }
    case 21: { /* fetch_str_dup (bound: <= 7 bytes) */
      char *s       = NULL;
      int   printable = 1;
      n             = vp_range(0, 7);
      st            = ares_buf_fetch_str_dup(B, n, &s);
      if (n == 0 || n > rem0) {
        VP_ASSERT(st != ARES_SUCCESS && s == NULL, "fetch_str_dup of 0 / beyond the data is refused");
        expect_unchanged();
        break;
      }
      for (i = 0; i < n; i++)
        if (S_bytes[S_off + i] < 0x20 || S_bytes[S_off + i] > 0x7E)
          printable = 0;
      if (!printable) {
        VP_ASSERT(st == ARES_EBADSTR && s == NULL, "non-printable text is refused with EBADSTR");
        expect_unchanged();
      } else {
        VP_ASSERT(st == ARES_SUCCESS && s != NULL, "fetch_str_dup succeeds");
        for (i = 0; i < n; i++)
          VP_ASSERT((unsigned char)s[i] == S_bytes[S_off + i], "duplicate equals the next bytes");
        VP_ASSERT(s[n] == 0, "duplicate is terminated");
        ares_free(s);
        expect_exact(0, S_len, S_off + n, S_tag);
      }
      break;
    }
    case 22: { /* fetch_bytes_into_buf */
      ares_buf_t *dest = ares_buf_create();
      VP_ASSERT(dest != NULL && inv(dest), "created buffer is valid (anchor of the invariant)");
      n  = vp_range(0, 20);
      st = ares_buf_fetch_bytes_into_buf(B, dest, n);
      if (n == 0 || n > rem0) {
        VP_ASSERT(st != ARES_SUCCESS, "fetch_bytes_into_buf of 0 / beyond the data is refused");
        VP_ASSERT(ares_buf_len(dest) == 0, "destination untouched on refusal");
        expect_unchanged();
      } else {
        size_t               dn = 0;
        const unsigned char *dp;
        VP_ASSERT(st == ARES_SUCCESS, "fetch_bytes_into_buf succeeds");
        dp = ares_buf_peek(dest, &dn);
        VP_ASSERT(dn == n && inv(dest), "destination holds n bytes");
        for (i = 0; i < n; i++)
          VP_ASSERT(dp[i] == S_bytes[S_off + i], "destination holds the next bytes");
        expect_exact(0, S_len, S_off + n, S_tag);
      }
      ares_buf_destroy(dest);
      break;
    }
    case 23: { /* peek / peek_byte / len / get_position / begins_with */
      const unsigned char *p;
      unsigned char        b = 0xEE;
      n                      = 99;
      p                      = ares_buf_peek(B, &n);
      VP_ASSERT(n == rem0 && ares_buf_len(B) == rem0, "len and peek report the unread length");
      VP_ASSERT(rem0 == 0 ? p == NULL : p == B->data + S_off, "peek points at the cursor");
      st = ares_buf_peek_byte(B, &b);
      if (rem0 == 0) {
        VP_ASSERT(st != ARES_SUCCESS && b == 0xEE, "peek_byte at the end is refused");
      } else {
        VP_ASSERT(st == ARES_SUCCESS && b == S_bytes[S_off], "peek_byte returns the next byte");
      }
      VP_ASSERT(ares_buf_get_position(B) == S_off, "get_position is the offset");
      k = vp_range(0, 4);
      {
        int eq = (k != 0 && k <= rem0);
        for (i = 0; i < k && eq; i++)
          if (x[i] != S_bytes[S_off + i])
            eq = 0;
        VP_ASSERT((ares_buf_begins_with(B, x, k) == ARES_TRUE) == (eq != 0), "begins_with compares the next k bytes");
      }
      expect_unchanged();
      break;
    }
    case 24:   /* consume_whitespace */
    case 25:   /* consume_nonwhitespace */
    case 26:   /* consume_line */
    case 27:   /* consume_until_charset */
    case 28: { /* consume_charset */
      int    flag = vp_bool();
#ifdef CSLEN
      size_t cl = CSLEN;
#else
      size_t cl = vp_range(0, 3);
#endif
      size_t want = 0, got;
      int    found = 0;
      for (i = 0; i < rem0; i++) {
        unsigned char c = S_bytes[S_off + i];
        int           stop;
        if (op == 24) stop = !is_ws(c, flag);
        else if (op == 25) stop = is_ws(c, 1);
        else if (op == 26) stop = (c == '\n');
        else if (op == 27) stop = in_set(c, x, cl);
        else stop = !in_set(c, x, cl);
        if (stop) {
          found = 1;
          break;
        }
      }
      want = i;
      if (op == 24) got = ares_buf_consume_whitespace(B, flag ? ARES_TRUE : ARES_FALSE);
      else if (op == 25) got = ares_buf_consume_nonwhitespace(B);
      else if (op == 26) {
        got = ares_buf_consume_line(B, flag ? ARES_TRUE : ARES_FALSE);
        if (flag && found)
          want++; /* the line feed itself */
      } else if (op == 27) {
        got = ares_buf_consume_until_charset(B, x, cl, flag ? ARES_TRUE : ARES_FALSE);
        if (cl == 0 || rem0 == 0)
          want = 0;
        else if (flag && !found)
          want = SIZE_MAX;
      } else {
        got = ares_buf_consume_charset(B, x, cl);
        if (cl == 0)
          want = 0;
      }
      VP_ASSERT(got == want, "scanner reports the number of bytes the reference scan finds");
      expect_exact(0, S_len, S_off + (want == SIZE_MAX ? 0 : want), S_tag);
      if (want != 0 && want != SIZE_MAX && want < rem0)
        VP_WITNESS("stopped inside");
      break;
    }
    case 29: { /* consume_until_seq */
      int    req  = vp_bool();
#ifdef CSLEN
      size_t sl = CSLEN;
#else
      size_t sl = vp_range(0, 2);
#endif
      size_t want = rem0, got;
      int    found = 0;
      for (i = 0; sl != 0 && i + sl <= rem0; i++) {
        size_t j;
        int    m = 1;
        for (j = 0; j < sl; j++)
          if (S_bytes[S_off + i + j] != x[j])
            m = 0;
        if (m) {
          found = 1;
          want  = i;
          break;
        }
      }
      got = ares_buf_consume_until_seq(B, x, sl, req ? ARES_TRUE : ARES_FALSE);
      if (sl == 0 || rem0 == 0)
        want = 0;
      else if (req && !found)
        want = SIZE_MAX;
      VP_ASSERT(got == want, "consume_until_seq reports the position of the first occurrence");
      expect_exact(0, S_len, S_off + (want == SIZE_MAX ? 0 : want), S_tag);
      break;
    }
    case 30: { /* reclaim */
      size_t p = (S_tag != UNSET && S_tag < S_off) ? S_tag : S_off;
      ares_buf_reclaim(B);
      if (S_const || S_alloc == 0)
        p = 0;
      expect_exact(p, S_len - p, S_off - p, S_tag == UNSET ? UNSET : S_tag - p);
      if (p != 0 && S_tag != UNSET && S_tag < S_off)
        VP_WITNESS("reclaimed up to the tag");
      break;
    }
    case 31:   /* finish_bin */
    case 32: { /* finish_str */
      size_t         p = (S_tag != UNSET && S_tag < S_off) ? S_tag : S_off;
      unsigned char *r;
      n = 99;
      r = (op == 31) ? ares_buf_finish_bin(B, &n) : (unsigned char *)ares_buf_finish_str(B, &n);
      if (S_const) {
        VP_ASSERT(r == NULL, "finish refused on a const buffer");
        expect_unchanged();
      } else {
        VP_ASSERT(r != NULL, "finish returns the storage (never NULL, even when empty)");
        VP_ASSERT(n == S_len - p, "finish reports the unprocessed length");
        for (i = 0; i < n; i++)
          VP_ASSERT(r[i] == S_bytes[p + i], "finish returns the unprocessed bytes from index 0");
        if (op == 32)
          VP_ASSERT(r[n] == 0, "finish_str terminates the text inside the allocation");
        ares_free(r);
        destroyed = 1; /* the buffer object itself was released by finish */
      }
      break;
    }
    case 33:
      ares_buf_destroy(B);
      destroyed = 1;
      break;
    case 34: { /* rejected arguments */
      size_t         z = 0;
      unsigned short h;
      unsigned int   w;
      unsigned char *d = NULL;
      char          *s = NULL;
      VP_ASSERT(ares_buf_append(B, NULL, 3) == ARES_EFORMERR, "append(NULL, n>0) refused");
      VP_ASSERT(ares_buf_append_start(B, NULL) == NULL && ares_buf_append_start(B, &z) == NULL, "append_start needs a length");
      VP_ASSERT(ares_buf_append(NULL, x, 1) != ARES_SUCCESS && ares_buf_set_length(NULL, 0) != ARES_SUCCESS &&
                  ares_buf_set_position(NULL, 0) != ARES_SUCCESS && ares_buf_tag_rollback(NULL) != ARES_SUCCESS &&
                  ares_buf_tag_clear(NULL) != ARES_SUCCESS,
                "NULL buffer refused by the mutators");
      ares_buf_tag(NULL);
      ares_buf_reclaim(NULL);
      ares_buf_append_finish(NULL, 1);
      ares_buf_destroy(NULL);
      VP_ASSERT(ares_buf_len(NULL) == 0 && ares_buf_get_position(NULL) == 0 && ares_buf_tag_length(NULL) == 0 &&
                  ares_buf_peek(NULL, &z) == NULL && ares_buf_tag_fetch(NULL, &z) == NULL && ares_buf_tag_fetch(B, NULL) == NULL,
                "NULL buffer tolerated by the observers");
      VP_ASSERT(ares_buf_fetch_be16(B, NULL) != ARES_SUCCESS && ares_buf_fetch_be32(B, NULL) != ARES_SUCCESS &&
                  ares_buf_fetch_bytes(B, NULL, 1) != ARES_SUCCESS && ares_buf_fetch_bytes_dup(B, 1, ARES_FALSE, NULL) != ARES_SUCCESS &&
                  ares_buf_fetch_str_dup(B, 1, NULL) != ARES_SUCCESS && ares_buf_fetch_bytes_into_buf(B, NULL, 1) != ARES_SUCCESS &&
                  ares_buf_peek_byte(B, NULL) != ARES_SUCCESS,
                "NULL outputs refused by the fetchers");
      VP_ASSERT(ares_buf_fetch_be16(NULL, &h) != ARES_SUCCESS && ares_buf_fetch_be32(NULL, &w) != ARES_SUCCESS &&
                  ares_buf_fetch_bytes(NULL, out, 1) != ARES_SUCCESS && ares_buf_fetch_bytes_dup(NULL, 1, ARES_FALSE, &d) != ARES_SUCCESS &&
                  ares_buf_fetch_str_dup(NULL, 1, &s) != ARES_SUCCESS && ares_buf_consume(NULL, 1) != ARES_SUCCESS,
                "NULL buffer refused by the fetchers");
      VP_ASSERT(ares_buf_finish_bin(NULL, &z) == NULL && ares_buf_finish_bin(B, NULL) == NULL && ares_buf_finish_str(NULL, &z) == NULL,
                "finish needs buffer and length");
      VP_ASSERT(ares_buf_create_const(NULL, 4) == NULL && ares_buf_create_const(x, 0) == NULL, "create_const needs data");
      VP_ASSERT(ares_buf_tag_fetch_bytes(B, NULL, &z) != ARES_SUCCESS && ares_buf_tag_fetch_bytes(B, out, NULL) != ARES_SUCCESS &&
                  ares_buf_tag_fetch_string(B, NULL, 4) != ARES_SUCCESS && ares_buf_tag_fetch_strdup(B, NULL) != ARES_SUCCESS &&
                  ares_buf_tag_fetch_constbuf(B, NULL) != ARES_SUCCESS,
                "NULL outputs refused by the tag fetchers");
      expect_unchanged();
      break;
    }
    case 35: { /* create / create_const anchors: constructor states are inside the invariant */
      ares_buf_t *c = ares_buf_create_const(x, vp_range(1, KMAX));
      VP_ASSERT(c != NULL && inv(c) && c->alloc_buf == NULL && c->data == x && c->offset == 0 && c->tag_offset == UNSET,
                "create_const yields a valid const buffer");
      ares_buf_destroy(c);
      expect_unchanged();
      break;
    }
    default:
      VP_ASSUME(0);
  }
  VP_WITNESS("end");

  if (!destroyed)
    ares_buf_destroy(B);
#if AL < 0
  vp_free(store);
#endif
  VP_ASSERT(vp_alloc_live == 0, "nothing leaked, nothing freed twice (allocator ledger)");
}
