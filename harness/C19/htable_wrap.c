/* C19 / typed hash-table wrappers (szvp, asvp, vpvp, strvp, dict, vpstr) on
 * top of the real ares_htable + ares_llist.  One job = one wrapper (-DW=n) and
 * one collision pattern of the three keys used (-DPART=a,b,c: which keys share
 * a slot).  The FNV hash is replaced by an ARBITRARY FUNCTION OF THE KEY (a
 * table indexed by key identity; for the string-keyed tables the key identity
 * is case-insensitive, as the real casecmp hash is).
 *
 * Scenario (from the real constructor; the generic table is covered from
 * arbitrary states by htable_step.c): create, insert k0, insert k1, insert k0
 * again (replace), lookups of k0/k1/absent k2 (get and get_direct), num_keys,
 * keys() where the wrapper has one (also on the empty table), claim (strvp),
 * remove k1, remove absent, destroy - and the WHOLE scenario again for every
 * position of a single failing allocation (1st, 2nd, ... until the scenario
 * needs no more): every call must then either succeed or fail cleanly.
 * Oracle: association-array model; value/key destructors run exactly once per
 * value the table owned and dropped, never for a value whose insert failed;
 * allocator ledger is zero at the end of every run (nothing leaked, nothing
 * freed twice). */
#include "vp.h"
#include "ares_private.h"

#ifndef VP_NATIVE
#  include <stdlib.h>
static int c19_fail_now(void)
{
  vp_alloc_calls++;
  return vp_alloc_fail_at != 0 && vp_alloc_calls == vp_alloc_fail_at;
}
static void *c19_fresh(void *p, size_t n, int zero)
{
  __CPROVER_assume(p != NULL);
  if (zero)
    memset(p, 0, n);
  vp_alloc_live++;
  return p;
}
/* typed allocation (see htable_step.c) for the table, list, node and bucket structs */
#  define ares_malloc_zero(n) (c19_fail_now() ? NULL : c19_fresh(malloc(n), (n), 1))
#  define ares_malloc(n)      (c19_fail_now() ? NULL : c19_fresh(malloc(n), (n), 0))
#endif

#define ares_htable_hash_FNV1a         c19_real_FNV1a
#define ares_htable_hash_FNV1a_casecmp c19_real_FNV1a_casecmp
#include "dsa/ares_llist.c"
#include "dsa/ares_htable.c"
#undef ares_htable_hash_FNV1a
#undef ares_htable_hash_FNV1a_casecmp

#ifndef W
#  define W 0
#endif

static const unsigned int idxmap[] = { 5, 0, 15 };
static const unsigned int part[]   = { PART };
static unsigned int       hv_of(int id)
{
  return idxmap[part[id]] | 0x5A00C3E0u | ((unsigned int)id << 16);
}

/* value objects (for the void*-valued tables) and key objects (for the void*-keyed tables) */
static int      vobj[4], kobj[3];
static unsigned vfreed[4], kfreed[3];
static void     val_free(void *v)
{
  size_t i;
  if (v == NULL)
    return; /* strvp's claim hands the (emptied) bucket to the destructor with a NULL value */
  i = (size_t)((int *)v - vobj);
  VP_ASSERT(i < 4, "value destructor gets a value that was stored");
  vfreed[i]++;
}
static void key_free(void *k)
{
  size_t i = (size_t)((int *)k - kobj);
  VP_ASSERT(i < 3, "key destructor gets a key that was stored");
  kfreed[i]++;
}
static const char *const kstr[3]  = { "alpha", "Beta", "gamma" };
static const char *const kstr2[3] = { "ALPHA", "beta", "GAMMA" }; /* same keys, other case */
static const char *const vstr[4]  = { "v0", "v1", "v2", "v3" };

static int str_key_id(const unsigned char *k)
{
  unsigned char c = k[0];
  if (c >= 'A' && c <= 'Z')
    c = (unsigned char)(c - 'A' + 'a');
  return c == 'a' ? 0 : c == 'b' ? 1 : 2;
}

/* the hash stubs: an arbitrary function of the key's identity */
unsigned int ares_htable_hash_FNV1a(const unsigned char *key, size_t key_len, unsigned int seed)
{
  (void)seed;
#if W == 0
  VP_ASSERT(key_len == sizeof(size_t), "szvp hashes the size_t key");
  return hv_of((int)(*(const size_t *)(const void *)key - 100));
#elif W == 1
  VP_ASSERT(key_len == sizeof(ares_socket_t), "asvp hashes the socket key");
  return hv_of((int)(*(const ares_socket_t *)(const void *)key - 10));
#else
  {
    const void *kp = *(const void *const *)(const void *)key;
    VP_ASSERT(key_len == sizeof(void *), "pointer-keyed tables hash the pointer value");
    return hv_of(kp == (const void *)&kobj[0] ? 0 : kp == (const void *)&kobj[1] ? 1 : 2);
  }
#endif
}
unsigned int ares_htable_hash_FNV1a_casecmp(const unsigned char *key, size_t key_len, unsigned int seed)
{
  (void)seed;
  VP_ASSERT(key_len == 5 || key_len == 4, "string-keyed tables hash the whole key text");
  return hv_of(str_key_id(key));
}

#if W == 0
#  include "dsa/ares_htable_szvp.c"
typedef ares_htable_szvp_t T;
#  define CREATE()          ares_htable_szvp_create(val_free)
#  define KEY(i)            ((size_t)(100 + (i)))
#  define KEY2(i)           KEY(i)
#  define INSERT(h, k, v)   ares_htable_szvp_insert(h, KEY(k), &vobj[v])
#  define GET(h, k, o)      ares_htable_szvp_get(h, KEY2(k), o)
#  define GETD(h, k)        ares_htable_szvp_get_direct(h, KEY2(k))
#  define REMOVE(h, k)      ares_htable_szvp_remove(h, KEY2(k))
#  define NUMKEYS(h)        ares_htable_szvp_num_keys(h)
#  define DESTROY(h)        ares_htable_szvp_destroy(h)
#  define VAL_IS(got, v)    ((got) == (void *)&vobj[v])
#  define VP_VALUES 1
#elif W == 1
#  include "dsa/ares_htable_asvp.c"
typedef ares_htable_asvp_t T;
#  define CREATE()          ares_htable_asvp_create(val_free)
#  define KEY(i)            ((ares_socket_t)(10 + (i)))
#  define KEY2(i)           KEY(i)
#  define INSERT(h, k, v)   ares_htable_asvp_insert(h, KEY(k), &vobj[v])
#  define GET(h, k, o)      ares_htable_asvp_get(h, KEY2(k), o)
#  define GETD(h, k)        ares_htable_asvp_get_direct(h, KEY2(k))
#  define REMOVE(h, k)      ares_htable_asvp_remove(h, KEY2(k))
#  define NUMKEYS(h)        ares_htable_asvp_num_keys(h)
#  define DESTROY(h)        ares_htable_asvp_destroy(h)
#  define VAL_IS(got, v)    ((got) == (void *)&vobj[v])
#  define VP_VALUES 1
#  define HAS_KEYS  1
#elif W == 2
#  include "dsa/ares_htable_vpvp.c"
typedef ares_htable_vpvp_t T;
#  define CREATE()          ares_htable_vpvp_create(key_free, val_free)
#  define KEY(i)            ((void *)&kobj[i])
#  define KEY2(i)           KEY(i)
#  define INSERT(h, k, v)   ares_htable_vpvp_insert(h, KEY(k), &vobj[v])
#  define GET(h, k, o)      ares_htable_vpvp_get(h, KEY2(k), o)
#  define GETD(h, k)        ares_htable_vpvp_get_direct(h, KEY2(k))
#  define REMOVE(h, k)      ares_htable_vpvp_remove(h, KEY2(k))
#  define NUMKEYS(h)        ares_htable_vpvp_num_keys(h)
#  define DESTROY(h)        ares_htable_vpvp_destroy(h)
#  define VAL_IS(got, v)    ((got) == (void *)&vobj[v])
#  define VP_VALUES 1
#  define KEYS_OWNED 1
#elif W == 3
#  include "dsa/ares_htable_strvp.c"
typedef ares_htable_strvp_t T;
#  define CREATE()          ares_htable_strvp_create(val_free)
#  define KEY(i)            (kstr[i])
#  define KEY2(i)           (kstr2[i])
#  define INSERT(h, k, v)   ares_htable_strvp_insert(h, KEY(k), &vobj[v])
#  define GET(h, k, o)      ares_htable_strvp_get(h, KEY2(k), o)
#  define GETD(h, k)        ares_htable_strvp_get_direct(h, KEY2(k))
#  define REMOVE(h, k)      ares_htable_strvp_remove(h, KEY2(k))
#  define NUMKEYS(h)        ares_htable_strvp_num_keys(h)
#  define DESTROY(h)        ares_htable_strvp_destroy(h)
#  define VAL_IS(got, v)    ((got) == (void *)&vobj[v])
#  define VP_VALUES 1
#  define HAS_CLAIM 1
#elif W == 4
#  include "dsa/ares_htable_dict.c"
typedef ares_htable_dict_t T;
#  define CREATE()          ares_htable_dict_create()
#  define KEY(i)            (kstr[i])
#  define KEY2(i)           (kstr2[i])
#  define INSERT(h, k, v)   ares_htable_dict_insert(h, KEY(k), vstr[v])
#  define GET(h, k, o)      ares_htable_dict_get(h, KEY2(k), (const char **)(o))
#  define GETD(h, k)        ((void *)ares_htable_dict_get_direct(h, KEY2(k)))
#  define REMOVE(h, k)      ares_htable_dict_remove(h, KEY2(k))
#  define NUMKEYS(h)        ares_htable_dict_num_keys(h)
#  define DESTROY(h)        ares_htable_dict_destroy(h)
#  define VAL_IS(got, v)    ((got) != NULL && ((const char *)(got))[0] == 'v' && ((const char *)(got))[1] == vstr[v][1] && ((const char *)(got))[2] == 0)
#  define HAS_DICT_KEYS 1
#else
#  include "dsa/ares_htable_vpstr.c"
typedef ares_htable_vpstr_t T;
#  define CREATE()          ares_htable_vpstr_create()
#  define KEY(i)            ((void *)&kobj[i])
#  define KEY2(i)           KEY(i)
#  define INSERT(h, k, v)   ares_htable_vpstr_insert(h, KEY(k), vstr[v])
#  define GET(h, k, o)      ares_htable_vpstr_get(h, KEY2(k), (const char **)(o))
#  define GETD(h, k)        ((void *)ares_htable_vpstr_get_direct(h, KEY2(k)))
#  define REMOVE(h, k)      ares_htable_vpstr_remove(h, KEY2(k))
#  define NUMKEYS(h)        ares_htable_vpstr_num_keys(h)
#  define DESTROY(h)        ares_htable_vpstr_destroy(h)
#  define VAL_IS(got, v)    ((got) != NULL && ((const char *)(got))[0] == 'v' && ((const char *)(got))[1] == vstr[v][1] && ((const char *)(got))[2] == 0)
#endif
#ifndef VP_NATIVE
#  undef ares_malloc_zero
#  undef ares_malloc
#endif

static int      cur[3];            /* model: key -> value id, -1 = absent */
static unsigned want_vfreed[4], want_kfreed[3];

static void check_lookups(T *h)
{
  int k;
  size_t n = 0;
  for (k = 0; k < 3; k++) {
    void       *got = (void *)&vobj[3];
    ares_bool_t r   = GET(h, k, &got);
    if (cur[k] < 0) {
      VP_ASSERT(r == ARES_FALSE && got == NULL, "get of an absent key fails and clears the output");
      VP_ASSERT(GETD(h, k) == NULL, "get_direct of an absent key is NULL");
    } else {
      VP_ASSERT(r == ARES_TRUE && VAL_IS(got, cur[k]), "get returns the latest value of a live key");
      VP_ASSERT(VAL_IS(GETD(h, k), cur[k]), "get_direct returns the latest value of a live key");
      VP_ASSERT(GET(h, k, NULL) == ARES_TRUE, "get without an output reports presence");
      n++;
    }
  }
  VP_ASSERT(NUMKEYS(h) == n, "num_keys equals the number of live keys");
}

static void model_drop(int k)
{
  if (cur[k] < 0)
    return;
#ifdef VP_VALUES
  want_vfreed[cur[k]]++;
#endif
#ifdef KEYS_OWNED
  want_kfreed[k]++;
#endif
  cur[k] = -1;
}

static void check_keys(T *h)
{
#if defined(HAS_KEYS)
  size_t         n = 99, i;
  ares_socket_t *ks = ares_htable_asvp_keys(h, &n);
  size_t         live = (size_t)((cur[0] >= 0) + (cur[1] >= 0) + (cur[2] >= 0));
  if (ks == NULL) {
    VP_ASSERT(n == 0, "keys() reports 0 when it returns nothing");
  } else {
    int k;
    VP_ASSERT(n == live && n > 0, "keys() reports every live key");
    for (k = 0; k < 3; k++) {
      unsigned c = 0;
      for (i = 0; i < n; i++)
        if (ks[i] == KEY(k))
          c++;
      VP_ASSERT(c == (cur[k] >= 0 ? 1u : 0u), "keys() lists every live key exactly once");
    }
    ares_free(ks);
  }
#elif defined(HAS_DICT_KEYS)
  size_t n = 99, i;
  char **ks = ares_htable_dict_keys(h, &n);
  size_t live = (size_t)((cur[0] >= 0) + (cur[1] >= 0) + (cur[2] >= 0));
  if (ks == NULL) {
    VP_ASSERT(n == 0, "keys() reports 0 when it returns nothing");
  } else {
    int k;
    VP_ASSERT(n == live && n > 0, "keys() reports every live key");
    for (k = 0; k < 3; k++) {
      unsigned c = 0;
      for (i = 0; i < n; i++)
        if (ks[i] != NULL && str_key_id((const unsigned char *)ks[i]) == k)
          c++;
      VP_ASSERT(c == (cur[k] >= 0 ? 1u : 0u), "keys() lists every live key exactly once");
    }
    for (i = 0; i < n; i++)
      ares_free(ks[i]);
    ares_free(ks);
  }
#else
  (void)h;
#endif
}

static unsigned long allocs_used; /* allocations the unfailed scenario performs */

static void scenario(unsigned long failat)
{
  T            *h;
  int           k;
  unsigned long base = vp_alloc_calls;

  for (k = 0; k < 3; k++) {
    cur[k]         = -1;
    kfreed[k]      = 0;
    want_kfreed[k] = 0;
  }
  for (k = 0; k < 4; k++) {
    vfreed[k]      = 0;
    want_vfreed[k] = 0;
  }
  vp_alloc_fail_at = (failat == 0) ? 0 : base + failat;

  h = CREATE();
  if (h == NULL) {
    VP_ASSERT(failat != 0, "create only fails when an allocation fails");
    goto done;
  }
#ifndef KF_htable_keys_empty_leak
  check_keys(h); /* empty table */
#endif
  check_lookups(h);
#ifdef KFONLY_htable_keys_empty_leak
  DESTROY(h);
  goto done;
#endif

  if (INSERT(h, 0, 0)) cur[0] = 0; else VP_ASSERT(failat != 0, "insert only fails when an allocation fails");
  if (INSERT(h, 1, 1)) cur[1] = 1; else VP_ASSERT(failat != 0, "insert only fails when an allocation fails");
  check_lookups(h);
  {
    /* replace (or, if the first insert failed, a plain insert) */
    int had = cur[0];
    if (INSERT(h, 0, 2)) {
      if (had >= 0) {
        model_drop(0);
#ifdef KEYS_OWNED
        ; /* the old bucket's key (same pointer) was released with it */
#endif
      }
      cur[0] = 2;
    } else {
      VP_ASSERT(failat != 0, "insert only fails when an allocation fails");
    }
  }
  check_lookups(h);
  check_keys(h);
#ifdef HAS_CLAIM
  {
    void *c = ares_htable_strvp_claim(h, KEY2(0));
    if (cur[0] >= 0) {
      VP_ASSERT(VAL_IS(c, cur[0]), "claim returns the value");
      cur[0] = -1; /* ownership moved to the caller: no destructor */
    } else {
      VP_ASSERT(c == NULL, "claim of an absent key is NULL");
    }
    VP_ASSERT(ares_htable_strvp_claim(h, KEY2(2)) == NULL, "claim of an absent key is NULL");
    check_lookups(h);
  }
#endif
  {
    ares_bool_t r = REMOVE(h, 1);
    VP_ASSERT((r == ARES_TRUE) == (cur[1] >= 0), "remove succeeds iff the key is live");
    model_drop(1);
  }
  VP_ASSERT(REMOVE(h, 2) == ARES_FALSE, "remove of an absent key fails");
  check_lookups(h);
  for (k = 0; k < 3; k++)
    model_drop(k);
  DESTROY(h);
done:
  allocs_used      = vp_alloc_calls - base;
  vp_alloc_fail_at = 0;
  for (k = 0; k < 4; k++)
    VP_ASSERT(vfreed[k] == want_vfreed[k], "value destructor ran exactly once per value the table dropped");
  for (k = 0; k < 3; k++)
    VP_ASSERT(kfreed[k] == want_kfreed[k], "key destructor ran exactly once per key the table dropped");
  VP_ASSERT(vp_alloc_live == 0, "nothing leaked, nothing freed twice (allocator ledger)");
}

/* the job covers the failure positions FLO..FHI (0 = no failure); NFAIL = last position any job covers */
#ifndef FLO
#  define FLO 0
#  define FHI 40
#endif
#ifndef NFAIL
#  define NFAIL 40
#endif

void harness(void)
{
  unsigned long f = 0;
  (void)f;
  vp_alloc_install();
#if FLO == 0 && !defined(KFONLY_htable_dict_oom_leak)
  scenario(0);
  VP_BOUND(allocs_used <= NFAIL, "scenario allocates more often than the failure positions enumerated");
#  ifdef C19_PRINT_ALLOCS
  fprintf(stderr, "W=%d allocs_used=%lu\n", W, allocs_used);
#  endif
  VP_WITNESS("unfailed run");
#elif FLO == 0
  VP_WITNESS("unfailed run");
#endif
#if (defined(KF_htable_dict_oom_leak) && W == 4) || defined(KFONLY_htable_keys_empty_leak)
  /* known finding excluded: dict insert/keys leak when an allocation fails */
#else
  for (f = (FLO == 0 ? 1 : FLO); f <= FHI; f++)
    scenario(f);
#endif
  VP_WITNESS("end");
}
