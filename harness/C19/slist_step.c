/* C19 / ares_slist (skip list): ONE operation from an ARBITRARY valid state
 * (S1), compared with a sorted-array reference model.  Real: whole
 * src/lib/dsa/ares_slist.c (included so the structs are visible),
 * ares_library_init.c allocator wrappers, util/ares_math.c.
 * Stub: ares_rand_bytes() = arbitrary bytes (every coin-flip outcome).
 *
 * Pre-state (complete for the stated sizes): N nodes (-DN=0..3), keys
 * k0<=k1<=k2 symbolic, every node's level symbolic in 1..LL where LL =
 * list->levels (-DLL, 4 = ARES__SLIST_START_LEVELS), level i is the sub-chain
 * of the nodes with level > i (that IS the representation invariant: each
 * level a sorted sub-chain of level 0, prev/next symmetric, tail = last node
 * of level 0), rand_bits/rand_data arbitrary.
 * Oracle: level-0 chain sorted, a permutation of the model multiset (nothing
 * lost, nothing duplicated), untouched elements keep their relative order and
 * level, every level i is exactly the sub-chain of nodes with level > i in
 * level-0 order with symmetric prev, head/tail/cnt/parent right, find returns
 * the FIRST equal element, destructor calls exact, nothing leaked. */
#include "vp.h"
#include "dsa/ares_slist.c"

#ifndef N
#  define N 3
#endif
#ifndef LL
#  define LL 4
#endif
#define NI   (N + 2) /* items: N in the list, 1 to insert, 1 probe */
#define NEWI N
#define MAXM (N + 1)

typedef struct {
  int key;
  int id;
} item_t;

static item_t   items[NI];
static unsigned destroyed[NI];
static unsigned want_destroyed[NI];

static void dtor(void *p)
{
  size_t i = (size_t)((item_t *)p - items);
  VP_ASSERT(i < NI, "destructor gets a data pointer that was stored in the list");
  destroyed[i]++;
}

static int cmp(const void *a, const void *b)
{
  int x = ((const item_t *)a)->key;
  int y = ((const item_t *)b)->key;
  return (x < y) ? -1 : (x > y) ? 1 : 0;
}

/* RNG boundary stub: any byte string */
void ares_rand_bytes(ares_rand_state *state, unsigned char *buf, size_t len)
{
  (void)state;
  vp_bytes(buf, len);
}

static ares_slist_t      *sl;
static ares_slist_node_t *nd[N + 1];
static size_t             lv[N + 1];     /* level of pre-state node k */
static item_t            *mdl[MAXM + 1]; /* model: items in list order */
static size_t             mcnt;
static int                dummy_rand;

static void arbitrary_slist(void)
{
  size_t k, lvl;
  sl             = vp_malloc(sizeof(*sl));
  sl->rand_state = (ares_rand_state *)&dummy_rand;
  vp_bytes(sl->rand_data, sizeof(sl->rand_data));
  sl->rand_bits = vp_range(0, 64);
  sl->levels    = LL;
  sl->head      = vp_malloc(sizeof(*sl->head) * LL);
  sl->tail      = NULL;
  sl->cmp       = cmp;
  sl->destruct  = vp_bool() ? dtor : NULL;
  sl->cnt       = N;
  for (k = 0; k < NI; k++) {
    items[k].id  = (int)k;
    items[k].key = (int)vp_range(0, 9);
  }
  for (k = 0; k + 1 < N; k++)
    VP_ASSUME(items[k].key <= items[k + 1].key);
  for (k = 0; k < N; k++) {
#ifdef LVS
    {
      static const size_t lvs[] = { LVS, 1, 1, 1 };
      lv[k]                     = lvs[k];
    }
#else
    lv[k] = vp_range(1, LL);
#endif
    nd[k]         = vp_malloc(sizeof(*nd[k]));
    nd[k]->data   = &items[k];
    nd[k]->levels = lv[k];
    nd[k]->parent = sl;
    nd[k]->next   = vp_malloc(sizeof(*nd[k]->next) * lv[k]);
    nd[k]->prev   = vp_malloc(sizeof(*nd[k]->prev) * lv[k]);
    mdl[k]        = &items[k];
  }
  mcnt = N;
  for (lvl = 0; lvl < LL; lvl++) {
    ares_slist_node_t *prev = NULL;
    sl->head[lvl]           = NULL;
    for (k = 0; k < N; k++) {
      if (lv[k] > lvl) {
        nd[k]->prev[lvl] = prev;
        nd[k]->next[lvl] = NULL;
        if (prev != NULL)
          prev->next[lvl] = nd[k];
        else
          sl->head[lvl] = nd[k];
        prev = nd[k];
      }
    }
    if (lvl == 0)
      sl->tail = prev;
  }
}

static void m_insert_sorted_any(item_t *it)
{
  /* the model only fixes the multiset; the position among equal keys is left
   * to the implementation (checked: sorted + permutation + stability) */
  mdl[mcnt++] = it;
}

static void m_remove(item_t *it)
{
  size_t i, j = 0;
  for (i = 0; i < mcnt; i++)
    if (mdl[i] != it)
      mdl[j++] = mdl[i];
  mcnt = j;
}

/* full representation check against the model; `touched` (may be NULL) is the
 * element whose position the operation was allowed to choose */
static void check_slist(const item_t *touched)
{
  ares_slist_node_t *seq[MAXM + 1];
  ares_slist_node_t *n, *p;
  size_t             i, j, lvl;

  VP_ASSERT(ares_slist_len(sl) == mcnt, "len equals model size");
  VP_ASSERT(sl->levels == LL, "list level count unchanged (no growth below 16 elements)");

  /* level 0, forward */
  p = NULL;
  n = ares_slist_node_first(sl);
  for (i = 0; i < mcnt; i++) {
    VP_ASSERT(n != NULL, "level-0 chain reaches as many nodes as the model has elements (nothing lost)");
    VP_ASSERT(ares_slist_node_prev(n) == p, "prev of a node is its forward predecessor");
    VP_ASSERT(ares_slist_node_parent(n) == sl, "node parent is the list");
    VP_ASSERT(n->levels >= 1 && n->levels <= sl->levels, "node level within the list's level count");
    seq[i] = n;
    p      = n;
    n      = ares_slist_node_next(n);
  }
  VP_ASSERT(n == NULL, "level-0 chain ends after the model size (nothing duplicated)");
  VP_ASSERT(ares_slist_node_last(sl) == p, "tail is the last node of level 0");
  VP_ASSERT(ares_slist_first_val(sl) == (mcnt ? ares_slist_node_val(seq[0]) : NULL), "first_val");
  VP_ASSERT(ares_slist_last_val(sl) == (mcnt ? ares_slist_node_val(seq[mcnt - 1]) : NULL), "last_val");

  /* sorted */
  for (i = 0; i + 1 < mcnt; i++)
    VP_ASSERT(cmp(ares_slist_node_val(seq[i]), ares_slist_node_val(seq[i + 1])) <= 0, "level-0 chain is sorted");

  /* permutation of the model multiset */
  for (j = 0; j < mcnt; j++) {
    unsigned c = 0;
    for (i = 0; i < mcnt; i++)
      if (ares_slist_node_val(seq[i]) == (void *)mdl[j])
        c++;
    VP_ASSERT(c == 1, "every model element is in the list exactly once");
  }

  /* untouched elements keep their relative order (model order) */
  j = 0;
  for (i = 0; i < mcnt; i++) {
    const item_t *it = ares_slist_node_val(seq[i]);
    if (it == touched)
      continue;
    while (j < mcnt && mdl[j] == touched)
      j++;
    VP_ASSERT(j < mcnt && it == mdl[j], "untouched elements keep their relative order");
    j++;
  }

  /* untouched pre-state nodes keep their node object and level */
  for (i = 0; i < mcnt; i++) {
    size_t k = (size_t)((const item_t *)ares_slist_node_val(seq[i]) - items);
    if (k < N) {
      VP_ASSERT(seq[i] == nd[k], "element still lives in its original node");
      VP_ASSERT(seq[i]->levels == lv[k], "node level unchanged");
    }
  }

  /* every level is exactly the sub-chain of the nodes that have that level */
  for (lvl = 0; lvl < LL; lvl++) {
    p = NULL;
    for (i = 0; i < mcnt; i++) {
      if (seq[i]->levels <= lvl)
        continue;
      if (p == NULL)
        VP_ASSERT(sl->head[lvl] == seq[i], "head[level] is the first node having that level");
      else
        VP_ASSERT(p->next[lvl] == seq[i], "next[level] is the next node having that level");
      VP_ASSERT(seq[i]->prev[lvl] == p, "prev[level] is the previous node having that level");
      p = seq[i];
    }
    if (p == NULL)
      VP_ASSERT(sl->head[lvl] == NULL, "head[level] is NULL when no node has that level");
    else
      VP_ASSERT(p->next[lvl] == NULL, "last node of a level has next[level] == NULL");
  }
}

static void check_destroyed(void)
{
  size_t i;
  for (i = 0; i < NI; i++)
    VP_ASSERT(destroyed[i] == want_destroyed[i], "destructor ran exactly once per destroyed element, never otherwise");
}

static ares_slist_node_t *m_find_first(int key)
{
  size_t k;
  for (k = 0; k < N; k++)
    if (items[k].key == key)
      return nd[k];
  return NULL;
}

void harness(void)
{
  unsigned           op;
  size_t             j, k;
  ares_slist_node_t *r;
  const item_t      *touched = NULL;
  int                alive   = 1;

  vp_alloc_install();
  arbitrary_slist();
#ifdef OP
  op = OP;
#else
  op = vp_u8();
#endif
  j = vp_range(0, 3);

  switch (op) {
    case 0: /* insert: any key, any coin flips */
      r = ares_slist_insert(sl, &items[NEWI]);
      VP_ASSERT(r != NULL, "insert succeeds (allocator does not fail here)");
      VP_ASSERT(ares_slist_node_val(r) == &items[NEWI] && ares_slist_node_parent(r) == sl, "insert returns the new node");
      m_insert_sorted_any(&items[NEWI]);
      touched = &items[NEWI];
      if (r->levels > 1)
        VP_WITNESS("multi-level insert");
      break;
    case 1: { /* find: FIRST equal element or NULL */
      item_t probe;
      probe.key = (int)vp_range(0, 9);
      probe.id  = 99;
      r         = ares_slist_node_find(sl, &probe);
      VP_ASSERT(r == m_find_first(probe.key), "find returns the first element with an equal key, NULL if none");
      if (r != NULL && N >= 2 && r == nd[0] && items[1].key == probe.key)
        VP_WITNESS("find among duplicates");
      break;
    }
    case 2: { /* claim */
      void *v;
      VP_ASSUME(j < N);
      v = ares_slist_node_claim(nd[j]);
      VP_ASSERT(v == &items[j], "claim returns the node's data");
      m_remove(&items[j]);
      break;
    }
    case 3: /* node_destroy */
      VP_ASSUME(j < N);
      if (sl->destruct != NULL)
        want_destroyed[j]++;
      ares_slist_node_destroy(nd[j]);
      m_remove(&items[j]);
      break;
    case 4: /* reinsert after the key changed to anything */
      VP_ASSUME(j < N);
      items[j].key = (int)vp_range(0, 9);
      ares_slist_node_reinsert(nd[j]);
      touched = &items[j];
      break;
    case 5: /* observers only: the constructed state passes the full check */
      break;
    case 6: /* destroy */
      if (sl->destruct != NULL)
        for (k = 0; k < N; k++)
          want_destroyed[k]++;
      ares_slist_destroy(sl);
      alive = 0;
      break;
    case 7: { /* allocation failure inside insert: NULL, nothing changed, nothing leaked */
      vp_alloc_fail_at = vp_alloc_calls + vp_range(1, 3);
      r                = ares_slist_insert(sl, &items[NEWI]);
      vp_alloc_fail_at = 0;
      VP_ASSERT(r == NULL, "insert reports the allocation failure");
      break;
    }
    case 8: /* rejected arguments */
      VP_ASSERT(ares_slist_insert(sl, NULL) == NULL, "NULL value rejected");
      VP_ASSERT(ares_slist_insert(NULL, &items[NEWI]) == NULL, "NULL list rejected");
      VP_ASSERT(ares_slist_node_find(sl, NULL) == NULL && ares_slist_node_find(NULL, &items[NEWI]) == NULL,
                "find rejects NULL");
      VP_ASSERT(ares_slist_node_claim(NULL) == NULL, "claim(NULL)");
      ares_slist_node_destroy(NULL);
      ares_slist_node_reinsert(NULL);
      ares_slist_destroy(NULL);
      VP_ASSERT(ares_slist_len(NULL) == 0 && ares_slist_node_first(NULL) == NULL && ares_slist_node_last(NULL) == NULL &&
                  ares_slist_node_next(NULL) == NULL && ares_slist_node_prev(NULL) == NULL &&
                  ares_slist_node_val(NULL) == NULL && ares_slist_node_parent(NULL) == NULL &&
                  ares_slist_first_val(NULL) == NULL && ares_slist_last_val(NULL) == NULL,
                "observers tolerate NULL");
      VP_ASSERT(ares_slist_create(NULL, cmp, dtor) == NULL, "create needs a random state");
      VP_ASSERT(ares_slist_create((ares_rand_state *)&dummy_rand, NULL, dtor) == NULL, "create needs a comparator");
      break;
    case 9: /* replace_destructor */
      ares_slist_replace_destructor(sl, vp_bool() ? dtor : NULL);
      break;
    default:
      VP_ASSUME(0);
  }

  if (alive)
    check_slist(touched);
  check_destroyed();
  VP_WITNESS("end");

  if (alive) {
    if (sl->destruct != NULL)
      for (k = 0; k < mcnt; k++)
        want_destroyed[mdl[k] - items]++;
    ares_slist_destroy(sl);
  }
  check_destroyed();
}
