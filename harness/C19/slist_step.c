/* C19 / ares_slist (skip list): ONE operation from an ARBITRARY valid state
 * (S1), compared with a sorted-array reference model.  Real: whole
 * src/lib/dsa/ares_slist.c (included so the structs are visible),
 * ares_library_init.c allocator wrappers, util/ares_math.c.
 * Stub: ares_rand_bytes() = arbitrary bytes (every coin-flip outcome).
 *
 * Pre-state (complete for the stated sizes): N nodes (-DN=0..3), keys
 * k0<=k1<=k2 symbolic, every node's level symbolic in 1..LL where LL =
 * list->levels (-DLL, 4 = ARES__SLIST_START_LEVELS), level i is the sub-chain
 * of the nodes with level > i (that IS the representation invariant: each
 * level a sorted sub-chain of level 0, prev/next symmetric, tail = last node
 * of level 0), rand_bits/rand_data arbitrary.
 * Oracle: level-0 chain sorted, a permutation of the model multiset (nothing
 * lost, nothing duplicated), untouched elements keep their relative order and
 * level, every level i is exactly the sub-chain of nodes with level > i in
 * level-0 order with symmetric prev, head/tail/cnt/parent right, find returns
 * the FIRST equal element, destructor calls exact, nothing leaked. */
#include "vp.h"
#include "dsa/ares_slist.c"

/* typed allocation: under CBMC malloc(sizeof(T)) yields an object of type T
 * (field-wise tracking keeps stored pointers - above all the comparator -
 * constant); through the size-splitting allocator it would be a byte array */
#ifdef VP_NATIVE
#  define VP_TALLOC(T) ((T *)vp_malloc(sizeof(T)))
#  define VP_TALLOCN(T, n) ((T *)vp_malloc(sizeof(T) * (n)))
#else
#  include <stdlib.h>
#  define VP_TALLOC(T) (vp_alloc_live++, (T *)malloc(sizeof(T)))
#  define VP_TALLOCN(T, n)                                                                                   \
    (vp_alloc_live++, (T *)((n) == 1   ? malloc(sizeof(T) * 1)                                                 \
                            : (n) == 2 ? malloc(sizeof(T) * 2)                                                 \
                            : (n) == 3 ? malloc(sizeof(T) * 3)                                                 \
                            : (n) == 4 ? malloc(sizeof(T) * 4)                                                 \
                                       : malloc(sizeof(T) * 5)))
#endif

/* Allocator entry used by the real code under CBMC: same ledger and failure
 * injection as valloc.c's vp_malloc, but objects are typed by their size (the
 * skip list only ever allocates node structs and arrays of node pointers). */
#ifndef VP_NATIVE
static void *sl_malloc(size_t n)
{
  void *p = NULL;
  vp_alloc_calls++;
  if (vp_alloc_fail_at != 0 && vp_alloc_calls == vp_alloc_fail_at)
    return NULL;
  if (n == sizeof(ares_slist_node_t))
    p = malloc(sizeof(ares_slist_node_t));
  else if (n == sizeof(ares_slist_t))
    p = malloc(sizeof(ares_slist_t));
  else if (n == 1 * sizeof(ares_slist_node_t *))
    p = malloc(sizeof(ares_slist_node_t *) * 1);
  else if (n == 2 * sizeof(ares_slist_node_t *))
    p = malloc(sizeof(ares_slist_node_t *) * 2);
  else if (n == 3 * sizeof(ares_slist_node_t *))
    p = malloc(sizeof(ares_slist_node_t *) * 3);
  else if (n == 4 * sizeof(ares_slist_node_t *))
    p = malloc(sizeof(ares_slist_node_t *) * 4);
  else
    VP_BOUND(0, "allocation size not expected from the skip list at this bound");
  __CPROVER_assume(p != NULL);
  vp_alloc_live++;
  return p;
}
int ares_library_init_mem(int flags, void *(*amalloc)(size_t size), void (*afree)(void *ptr),
                          void *(*arealloc)(void *ptr, size_t size));
#endif

static void install_allocator(void)
{
#ifdef VP_NATIVE
  vp_alloc_install();
#else
  ares_library_init_mem(0, sl_malloc, vp_free, vp_realloc);
#endif
}

#ifndef N
#  define N 3
#endif
#ifndef LL
#  define LL 4
#endif
#define NI   (N + 2) /* items: N in the list, 1 to insert, 1 probe */
#define NEWI N
#define MAXM (N + 1)

typedef struct {
  int key;
  int id;
} item_t;

static item_t   items[NI];
static unsigned destroyed[NI];
static unsigned want_destroyed[NI];

static void dtor(void *p)
{
  size_t i = (size_t)((item_t *)p - items);
  VP_ASSERT(i < NI, "destructor gets a data pointer that was stored in the list");
  destroyed[i]++;
}

static int cmp(const void *a, const void *b)
{
  int x = ((const item_t *)a)->key;
  int y = ((const item_t *)b)->key;
  return (x < y) ? -1 : (x > y) ? 1 : 0;
}

static unsigned newlv; /* 0 = arbitrary random bytes */

/* RNG boundary stub: any byte string */
void ares_rand_bytes(ares_rand_state *state, unsigned char *buf, size_t len)
{
  (void)state;
  if (newlv != 0) {
    /* concrete coin flips: newlv-1 heads then a tail.  The level of the new
     * node is a SHAPE parameter (all of 1..LL are enumerated); the coin-flip /
     * level-choice code itself is checked on ARBITRARY rand state by OP 10. */
    size_t i;
    for (i = 0; i < len; i++)
      buf[i] = 0;
    buf[0] = (unsigned char)((1u << (newlv - 1)) - 1u);
  } else {
    vp_bytes(buf, len);
  }
}

static ares_slist_t      *sl;
static ares_slist_node_t *nd[N + 1];
static size_t             lv[N + 1];     /* level of pre-state node k */
static item_t            *mdl[MAXM + 1]; /* model: items in list order */
static size_t             mcnt;
static int                dummy_rand;

static void arbitrary_slist(void)
{
  size_t k, lvl;
  sl             = VP_TALLOC(ares_slist_t);
  sl->rand_state = (ares_rand_state *)&dummy_rand;
  vp_bytes(sl->rand_data, sizeof(sl->rand_data));
  sl->rand_bits = (newlv != 0) ? 0 : vp_range(0, 64);
  sl->levels    = LL;
  sl->head      = VP_TALLOCN(ares_slist_node_t *, LL);
  sl->tail      = NULL;
  sl->cmp       = cmp;
  sl->destruct  = vp_bool() ? dtor : NULL;
  sl->cnt       = N;
  for (k = 0; k < NI; k++) {
    items[k].id  = (int)k;
    items[k].key = (int)vp_range(0, 9);
  }
  for (k = 0; k + 1 < N; k++)
    VP_ASSUME(items[k].key <= items[k + 1].key);
  for (k = 0; k < N; k++) {
    {
      static const size_t lvs[] = { LVS, 1, 1, 1 };
      lv[k]                     = lvs[k];
    }
    nd[k]         = VP_TALLOC(ares_slist_node_t);
    nd[k]->data   = &items[k];
    nd[k]->levels = lv[k];
    nd[k]->parent = sl;
    nd[k]->next   = VP_TALLOCN(ares_slist_node_t *, lv[k]);
    nd[k]->prev   = VP_TALLOCN(ares_slist_node_t *, lv[k]);
    mdl[k]        = &items[k];
  }
  mcnt = N;
  for (lvl = 0; lvl < LL; lvl++) {
    ares_slist_node_t *prev = NULL;
    sl->head[lvl]           = NULL;
    for (k = 0; k < N; k++) {
      if (lv[k] > lvl) {
        nd[k]->prev[lvl] = prev;
        nd[k]->next[lvl] = NULL;
        if (prev != NULL)
          prev->next[lvl] = nd[k];
        else
          sl->head[lvl] = nd[k];
        prev = nd[k];
      }
    }
    if (lvl == 0)
      sl->tail = prev;
  }
}

static void m_insert_sorted_any(item_t *it)
{
  /* the model only fixes the multiset; the position among equal keys is left
   * to the implementation (checked: sorted + permutation + stability) */
  mdl[mcnt++] = it;
}

static void m_remove(item_t *it)
{
  size_t i, j = 0;
  for (i = 0; i < mcnt; i++)
    if (mdl[i] != it)
      mdl[j++] = mdl[i];
  mcnt = j;
}

/* full representation check against the model; `touched` (may be NULL) is the
 * element whose position the operation was allowed to choose */
static void check_slist(const item_t *touched)
{
  ares_slist_node_t *seq[MAXM + 1];
  ares_slist_node_t *n, *p;
  size_t             i, j, lvl;

  VP_ASSERT(ares_slist_len(sl) == mcnt, "len equals model size");
  VP_ASSERT(sl->levels == LL, "list level count unchanged (no growth below 16 elements)");

  /* level 0, forward */
  p = NULL;
  n = ares_slist_node_first(sl);
  for (i = 0; i < mcnt; i++) {
    VP_ASSERT(n != NULL, "level-0 chain reaches as many nodes as the model has elements (nothing lost)");
    VP_ASSERT(ares_slist_node_prev(n) == p, "prev of a node is its forward predecessor");
    VP_ASSERT(ares_slist_node_parent(n) == sl, "node parent is the list");
    VP_ASSERT(n->levels >= 1 && n->levels <= sl->levels, "node level within the list's level count");
    seq[i] = n;
    p      = n;
    n      = ares_slist_node_next(n);
  }
  VP_ASSERT(n == NULL, "level-0 chain ends after the model size (nothing duplicated)");
  VP_ASSERT(ares_slist_node_last(sl) == p, "tail is the last node of level 0");
  VP_ASSERT(ares_slist_first_val(sl) == (mcnt ? ares_slist_node_val(seq[0]) : NULL), "first_val");
  VP_ASSERT(ares_slist_last_val(sl) == (mcnt ? ares_slist_node_val(seq[mcnt - 1]) : NULL), "last_val");

  /* sorted */
  for (i = 0; i + 1 < mcnt; i++)
    VP_ASSERT(cmp(ares_slist_node_val(seq[i]), ares_slist_node_val(seq[i + 1])) <= 0, "level-0 chain is sorted");

  /* permutation of the model multiset */
  for (j = 0; j < mcnt; j++) {
    unsigned c = 0;
    for (i = 0; i < mcnt; i++)
      if (ares_slist_node_val(seq[i]) == (void *)mdl[j])
        c++;
    VP_ASSERT(c == 1, "every model element is in the list exactly once");
  }

  /* untouched elements keep their relative order (model order) */
  j = 0;
  for (i = 0; i < mcnt; i++) {
    const item_t *it = ares_slist_node_val(seq[i]);
    if (it == touched)
      continue;
    while (j < mcnt && mdl[j] == touched)
      j++;
    VP_ASSERT(j < mcnt && it == mdl[j], "untouched elements keep their relative order");
    j++;
  }

  /* untouched pre-state nodes keep their node object and level */
  for (i = 0; i < mcnt; i++) {
    size_t k = (size_t)((const item_t *)ares_slist_node_val(seq[i]) - items);
    if (k <= N) {
      VP_ASSERT(seq[i] == nd[k], "element still lives in its original node");
      VP_ASSERT(seq[i]->levels == lv[k], "node level unchanged");
    }
  }

  /* every level is exactly the sub-chain of the nodes that have that level */
  for (lvl = 0; lvl < LL; lvl++) {
    p = NULL;
    for (i = 0; i < mcnt; i++) {
      if (seq[i]->levels <= lvl)
        continue;
      if (p == NULL)
        VP_ASSERT(sl->head[lvl] == seq[i], "head[level] is the first node having that level");
      else
        VP_ASSERT(p->next[lvl] == seq[i], "next[level] is the next node having that level");
      VP_ASSERT(seq[i]->prev[lvl] == p, "prev[level] is the previous node having that level");
      p = seq[i];
    }
    if (p == NULL)
      VP_ASSERT(sl->head[lvl] == NULL, "head[level] is NULL when no node has that level");
    else
      VP_ASSERT(p->next[lvl] == NULL, "last node of a level has next[level] == NULL");
  }
}

static void check_destroyed(void)
{
  size_t i;
  for (i = 0; i < NI; i++)
    VP_ASSERT(destroyed[i] == want_destroyed[i], "destructor ran exactly once per destroyed element, never otherwise");
}

static ares_slist_node_t *m_find_first(int key)
{
  size_t k;
  for (k = 0; k < N; k++)
    if (items[k].key == key)
      return nd[k];
  return NULL;
}

/* ONE operation (op) on a fresh arbitrary state of the job's shape; j = node
 * acted upon, nlv = level the coin flips give the inserted node (0: arbitrary
 * random bytes). */
static void one_case(unsigned op, size_t j, unsigned nlv)
{
  size_t             k;
  ares_slist_node_t *r;
  const item_t      *touched = NULL;
  int                alive   = 1;

  newlv = nlv;
  for (k = 0; k < NI; k++) {
    destroyed[k]      = 0;
    want_destroyed[k] = 0;
  }
  for (k = 0; k <= N; k++)
    nd[k] = NULL;
  if (op == 11) { /* anchor: the state made by the real constructor is in the invariant */
    sl   = ares_slist_create((ares_rand_state *)&dummy_rand, cmp, dtor);
    mcnt = 0;
    VP_ASSERT(sl != NULL, "create succeeds");
    VP_ASSERT(sl->rand_bits == 0 && sl->cnt == 0 && sl->tail == NULL && sl->cmp == cmp && sl->destruct == dtor,
              "created list is empty");
  } else {
    arbitrary_slist();
  }

  switch (op) {
    case 0: /* insert: any key, any coin flips */
      r = ares_slist_insert(sl, &items[NEWI]);
      VP_ASSERT(r != NULL, "insert succeeds (allocator does not fail here)");
      VP_ASSERT(ares_slist_node_val(r) == &items[NEWI] && ares_slist_node_parent(r) == sl, "insert returns the new node");
      m_insert_sorted_any(&items[NEWI]);
      touched  = &items[NEWI];
      nd[NEWI] = r;
      lv[NEWI] = r->levels;
      if (r->levels > 1)
        VP_WITNESS("multi-level insert");
      break;
    case 1: { /* find: FIRST equal element or NULL */
      item_t probe;
      probe.key = (int)vp_range(0, 9);
      probe.id  = 99;
      r         = ares_slist_node_find(sl, &probe);
      VP_ASSERT(r == m_find_first(probe.key), "find returns the first element with an equal key, NULL if none");
      if (r != NULL && N >= 2 && r == nd[0] && items[1].key == probe.key)
        VP_WITNESS("find among duplicates");
      break;
    }
    case 2: { /* claim */
      void *v;
      if (j >= N) return;
      v = ares_slist_node_claim(nd[j]);
      VP_ASSERT(v == &items[j], "claim returns the node's data");
      m_remove(&items[j]);
      nd[j] = NULL;
      break;
    }
    case 3: /* node_destroy */
      if (j >= N) return;
      if (sl->destruct != NULL)
        want_destroyed[j]++;
      ares_slist_node_destroy(nd[j]);
      m_remove(&items[j]);
      nd[j] = NULL;
      break;
    case 4: /* reinsert after the key changed to anything */
      if (j >= N) return;
      items[j].key = (int)vp_range(0, 9);
      ares_slist_node_reinsert(nd[j]);
      touched = &items[j];
      break;
    case 5:  /* observers only: the constructed state passes the full check */
    case 11: /* anchor (created above) */
      break;
    case 6: /* destroy */
      if (sl->destruct != NULL)
        for (k = 0; k < N; k++)
          want_destroyed[k]++;
      ares_slist_destroy(sl);
      alive = 0;
      break;
    case 7: { /* allocation failure inside insert: NULL, nothing changed, nothing leaked */
      vp_alloc_fail_at = vp_alloc_calls + vp_range(1, 3);
      r                = ares_slist_insert(sl, &items[NEWI]);
      vp_alloc_fail_at = 0;
      VP_ASSERT(r == NULL, "insert reports the allocation failure");
      break;
    }
    case 8: /* rejected arguments */
      VP_ASSERT(ares_slist_insert(sl, NULL) == NULL, "NULL value rejected");
      VP_ASSERT(ares_slist_insert(NULL, &items[NEWI]) == NULL, "NULL list rejected");
      VP_ASSERT(ares_slist_node_find(sl, NULL) == NULL && ares_slist_node_find(NULL, &items[NEWI]) == NULL,
                "find rejects NULL");
      VP_ASSERT(ares_slist_node_claim(NULL) == NULL, "claim(NULL)");
      ares_slist_node_destroy(NULL);
      ares_slist_node_reinsert(NULL);
      ares_slist_destroy(NULL);
      VP_ASSERT(ares_slist_len(NULL) == 0 && ares_slist_node_first(NULL) == NULL && ares_slist_node_last(NULL) == NULL &&
                  ares_slist_node_next(NULL) == NULL && ares_slist_node_prev(NULL) == NULL &&
                  ares_slist_node_val(NULL) == NULL && ares_slist_node_parent(NULL) == NULL &&
                  ares_slist_first_val(NULL) == NULL && ares_slist_last_val(NULL) == NULL,
                "observers tolerate NULL");
      VP_ASSERT(ares_slist_create(NULL, cmp, dtor) == NULL, "create needs a random state");
      VP_ASSERT(ares_slist_create((ares_rand_state *)&dummy_rand, NULL, dtor) == NULL, "create needs a comparator");
      break;
    case 9: /* replace_destructor */
    {
      ares_slist_destructor_t d = vp_bool() ? dtor : NULL;
      ares_slist_replace_destructor(sl, d);
      VP_ASSERT(sl->destruct == d, "destructor replaced");
      break;
    }
    case 10: { /* coin flips / level choice on ARBITRARY rand state */
      size_t        bits0 = sl->rand_bits;
      unsigned char data0[8];
      size_t        lvl;
      memcpy(data0, sl->rand_data, 8);
      lvl = ares_slist_calc_level(sl);
      VP_ASSERT(lvl >= 1 && lvl <= LL, "chosen level within 1..max_level");
      VP_ASSERT(sl->rand_bits <= 64, "rand_bits stays within the 64 cached bits");
      /* exactly `lvl` flips are made; each consumes one cached bit, a refill happens at 0 */
      VP_ASSERT(sl->rand_bits == (bits0 >= lvl ? bits0 - lvl : 64 - (lvl - bits0)), "one cached bit consumed per flip");
      if (bits0 >= LL) { /* no refill in between: the flips are the next cached bits, in order */
        size_t t, base = 64 - bits0;
        for (t = 0; t + 1 < lvl; t++)
          VP_ASSERT(data0[(base + t) / 8] & (1 << ((base + t) % 8)), "level counts the leading heads of the cached bits");
        if (lvl < LL)
          VP_ASSERT(!(data0[(base + lvl - 1) / 8] & (1 << ((base + lvl - 1) % 8))), "level stops at the first tail");
        VP_WITNESS("flips from cache");
      }
      break;
    }
    default:
      VP_ASSUME(0);
  }

  if (alive)
    check_slist(touched);
  check_destroyed();
  VP_WITNESS("end");

  /* Tear down by hand through the harness's own (constant) pointers: running
   * the real ares_slist_destroy on the symbolic post-state does not close
   * (it is checked as an operation of its own, OP 6).  The allocator ledger
   * shows that nothing else is left allocated. */
  if (alive) {
    for (k = 0; k <= N; k++) {
      if (nd[k] != NULL) {
        vp_free(nd[k]->next);
        vp_free(nd[k]->prev);
        vp_free(nd[k]);
      }
    }
    vp_free(sl->head);
    vp_free(sl);
  }
  VP_ASSERT(vp_alloc_live == 0, "nothing leaked, nothing freed twice (allocator ledger)");
}

#ifndef GRP
#  error "slist_step.c needs -DGRP=n"
#endif

/* GRP 0: insert (every level 1..LL for the new node) and insert under allocation failure
 * GRP 1: node operations on every node j: claim, node_destroy, reinsert after any key change
 * GRP 2: list operations: find, observers, destroy, replace_destructor
 * GRP 3: (N=0 job only) rejected arguments, level choice on arbitrary rand state, create anchor */
void harness(void)
{
  size_t   j;
  unsigned l;
  install_allocator();
#if GRP == 0
#  ifdef NEWLV
  one_case(OP, 0, NEWLV);
#  else
  for (l = 1; l <= LL; l++)
    one_case(OP, 0, l);
#  endif
#elif GRP == 1
  for (j = 0; j < N; j++) {
    one_case(2, j, 0);
    one_case(3, j, 0);
    one_case(4, j, 0);
  }
#elif GRP == 2
  one_case(1, 0, 0);
  one_case(5, 0, 0);
  one_case(6, 0, 0);
  one_case(9, 0, 0);
#else
  one_case(8, 0, 0);
  one_case(10, 0, 0);
  one_case(11, 0, 0);
#endif
  (void)j;
  (void)l;
}
