/* C10 / legacy descriptor reporting: ares_fds() and ares_getsock() report exactly the open sockets that matter
 * (TCP always, UDP iff there are active queries), the write bit iff write interest is recorded, never more than
 * the caller's array holds.  Pre-state: ARBITRARY connection set (<= 2 servers x <= 2 connections, symbolic kinds
 * and interest flags), 0 or 1 active query.  Real: ares_fds.c, ares_getsock.c (linked), ares_llist.c. */
#include "vp.h"
#include "ares_private.h"
#include "world.h"
#include <sys/select.h>

void ares_tvnow(ares_timeval_t *now) { now->sec = 100; now->usec = 0; }

void harness(void)
{
  static ares_channel_t ch;
  ares_server_t        *srv[2];
  ares_conn_t          *conns[8];
  int                   nconn = 0, i, ns, nfds, expected_cnt = 0, numsocks, bitmap;
  int                   active;
  fd_set                rfds, wfds;
  ares_socket_t         socks[ARES_GETSOCK_MAXNUM];

  vp_alloc_install();
  world_init(&ch);
  /* connection-set shape is concrete per job: SHAPE0 / SHAPE1 = connections of server 0 / 1, "u"=UDP "t"=TCP */
  {
    static const char *shape[2] = { SHAPE0, SHAPE1 };
    ns = NS;
    for (i = 0; i < ns; i++) {
      int c;
      srv[i] = world_add_server(&ch, (size_t)i, 0);
      for (c = 0; shape[i][c] != 0; c++) {
        conns[nconn] = world_add_conn(&ch, srv[i], shape[i][c] == 't');
        if (vp_bool()) conns[nconn]->state_flags |= ARES_CONN_STATE_WRITE;
        nconn++;
      }
    }
  }
  active = vp_bool();
  if (active) {
    static int dummy;
    VP_ASSUME(ares_llist_insert_last(ch.all_queries, &dummy) != NULL);
  }

  FD_ZERO(&rfds);
  FD_ZERO(&wfds);
  nfds = ares_fds(&ch, &rfds, &wfds);
  for (i = 0; i < nconn; i++) {
    int matters = active || (conns[i]->flags & ARES_CONN_FLAG_TCP);
    VP_ASSERT((FD_ISSET(conns[i]->fd, &rfds) != 0) == (matters != 0), "ares_fds: read set = open sockets that matter");
    VP_ASSERT((FD_ISSET(conns[i]->fd, &wfds) != 0) == (matters && (conns[i]->state_flags & ARES_CONN_STATE_WRITE)),
              "ares_fds: write set = those with write interest");
    if (matters) { VP_ASSERT(nfds > conns[i]->fd, "ares_fds: nfds above every reported descriptor"); expected_cnt++; }
  }
  for (i = 0; i < VSOCK_MAXFD; i++)
    if (vsock[i].state != 1) VP_ASSERT(!FD_ISSET(i, &rfds) && !FD_ISSET(i, &wfds), "ares_fds: never a descriptor that is not open");
  if (expected_cnt == 0) VP_ASSERT(nfds == 0, "ares_fds: nothing to watch => 0");

  numsocks = (int)vp_range(0, 5);
  for (i = 0; i < ARES_GETSOCK_MAXNUM; i++) socks[i] = -7;
  bitmap = ares_getsock(&ch, socks, numsocks);
  {
    int idx = 0, want = expected_cnt < numsocks ? expected_cnt : numsocks, s, c2 = 0;
    /* expected order: servers in list order, connections in list order */
    for (s = 0; s < ns; s++) {
      ares_llist_node_t *n;
      for (n = ares_llist_node_first(srv[s]->connections); n != NULL; n = ares_llist_node_next(n)) {
        ares_conn_t *c = ares_llist_node_val(n);
        int matters = active || (c->flags & ARES_CONN_FLAG_TCP);
        if (!matters) continue;
        if (idx < want) {
          VP_ASSERT(socks[idx] == c->fd, "ares_getsock: reports the sockets that matter, in order");
          VP_ASSERT(ARES_GETSOCK_READABLE(bitmap, idx), "ares_getsock: read bit for each reported socket");
          VP_ASSERT((ARES_GETSOCK_WRITABLE(bitmap, idx) != 0) == ((c->state_flags & ARES_CONN_STATE_WRITE) != 0),
                    "ares_getsock: write bit iff write interest");
          idx++;
        }
        c2++;
      }
    }
    for (i = want; i < 6; i++) {
      VP_ASSERT(socks[i] == -7, "ares_getsock: never writes past the caller's array / reported count");
      VP_ASSERT(!ARES_GETSOCK_READABLE(bitmap, i) && !ARES_GETSOCK_WRITABLE(bitmap, i), "ares_getsock: no bits beyond the reported sockets");
    }
    if (want >= 2) VP_WITNESS("two sockets reported");
  }
  VP_WITNESS("end");
}
