OUTSIDE = ("kernel socket behaviour (virtual layer behind channel->sock_funcs); more than 2 servers x 2 connections; histories "
           "longer than one API step from an arbitrary valid connection set; ares_sortaddrinfo probe sockets not yet covered")
ASSUMPTIONS = ["virtual socket layer harness/stubs/vsock.c: descriptors never reused, every call asserts 'open'",
               "reference containers slist_ref / szvp_ref / asvp_ref; world.c builds connections as ares_open_connection leaves them"]
LIB = ["src/lib/ares_library_init.c", "src/lib/dsa/ares_llist.c", "src/lib/dsa/ares_array.c", "src/lib/str/ares_buf.c",
       "src/lib/str/ares_str.c", "src/lib/util/ares_math.c", "src/lib/ares_socket.c"]
SUP = ["vp_rt.c", "valloc.c", "memloops.c", "slist_ref.c", "szvp_ref.c", "asvp_ref.c", "lock_ghost.c", "vsock.c", "world.c"]

import os, sys
sys.path.insert(0, os.path.join(os.path.dirname(os.path.abspath(__file__)), "..", "machine"))
import mjobs

def jobs(tier, seed):
    J = []
    for tcp in (0, 1):
        for fam, famname in (("AF_INET", "v4"), ("AF_INET6", "v6"), ("AF_UNSPEC", "badfamily")):
            J.append(dict(name="open_conn_%s_%s" % ("tcp" if tcp else "udp", famname), harness="open_conn.c",
                  defines=["-DIS_TCP=%d" % tcp, "-DFAMILY=%s" % fam],
                  real=LIB + ["src/lib/ares_close_sockets.c"], support=SUP, backend="cadical", timeout=600,
                  unwind=18, witnesses=["end"] + (["open failed", "open ok"] if famname != "badfamily" else ["open failed"])
                                     + (["tfo initial"] if tcp and famname != "badfamily" else []),
                  bound="one ares_open_connection (%s, %s; buffer/bind/callback options symbolic) with every socket-layer "
                        "call failing or not, EINTR/EINPROGRESS on connect, and any single allocation failing; then one "
                        "ares_close_connection" % ("TCP" if tcp else "UDP", famname)))
    for fam, famname in (("AF_INET", "v4"), ("AF_INET6", "v6"), ("AF_UNIX", "other")):
        J.append(dict(name="src_probe_%s" % famname, harness="src_probe.c", defines=["-DFAMILY=%s" % fam],
                      real=LIB, support=SUP, backend="cadical", timeout=600, unwind=18,
                      witnesses=["end"] + (["other family"] if famname == "other" else
                                           ["source found", "connect failed", "getsockname failed", "socket failed"]),
                      bound="one find_src_addr (RFC 6724 source probe of ares_sortaddrinfo) for an %s destination with socket(), "
                            "connect() (incl. EINTR retry / EINPROGRESS) and getsockname() each failing or not" % famname))
    J.append(dict(name="default_asocket", harness="default_funcs.c", defines=["-DENTRY=0"],
                  real=["src/lib/str/ares_str.c", "src/lib/ares_library_init.c"], support=["vp_rt.c", "valloc.c", "memloops.c", "lock_ghost.c"],
                  unwind=10, witnesses=["end", "socket ready", "set-up failed after socket()", "socket() failed"],
                  bound="ONE default_asocket (AF_INET/AF_INET6, UDP/TCP) with socket(), each fcntl() and each setsockopt() "
                        "failing or not; kernel-descriptor ledger"))
    for n in (0, 1, 4, 8):
        J.append(dict(name="default_asetsockopt_len%d" % n, harness="default_funcs.c", defines=["-DENTRY=1", "-DVALSIZE=%d" % n],
                      real=["src/lib/str/ares_str.c", "src/lib/ares_library_init.c"], support=["vp_rt.c", "valloc.c", "memloops.c", "lock_ghost.c"],
                      unwind=12, witnesses=["end"] + (["accepted"] if n in (4, 8) else []),
                      bound="ONE default_asetsockopt, option code 0..5, value = exact-size object of %d arbitrary bytes (no terminator)" % n))
    shapes = [("", None), ("u", None), ("t", None), ("ut", None), ("u", "t"), ("ut", "u")] + ([("uut", "ut")] if tier != "quick" else [])
    for s0, s1 in shapes:
        J.append(dict(name="fds_getsock_%s_%s" % (s0 or "none", s1 if s1 is not None else "x"), harness="fds.c",
                  defines=['-DSHAPE0="%s"' % s0, '-DSHAPE1="%s"' % (s1 or ""), "-DNS=%d" % (2 if s1 is not None else 1)],
                  real=LIB + ["src/lib/ares_conn.c", "src/lib/legacy/ares_fds.c", "src/lib/legacy/ares_getsock.c"],
                  support=SUP, unwind=18, witnesses=["end"],
                  bound="connection set: server0=[%s] server1=[%s] (u=UDP t=TCP), write interest per connection symbolic, "
                        "0/1 active query, numsocks 0..5" % (s0, s1 if s1 is not None else "-")))
    J += mjobs.cleanup_jobs(tier)
    sq = [j for j in mjobs.sendquery_jobs(tier) if "srv1" in j["name"]]
    if tier == "quick":  # ex0 combinations run in C01/C09
        sq = [j for j in sq if "_ex0_" not in j["name"]]
    J += sq
    J += mjobs.close_jobs(tier)
    J += mjobs.destroy_jobs(tier)
    J += mjobs.write_event_jobs(tier)
    return J
