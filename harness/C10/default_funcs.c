/* C10 for the library's OWN socket functions (what every application that does not install its own gets):
 * default_asocket() must never leak the kernel descriptor it obtained when one of its set-up steps fails, and
 * default_asetsockopt() must validate its argument without reading past it.
 * Real: ares_set_socket_functions.c (#included: the default_* functions are static), ares_str.c (ares_strnlen,
 * ares_str_isprint).  The C library is a stub with a kernel-descriptor ledger: socket() returns a fresh descriptor or
 * fails; fcntl(), setsockopt() fail or not (solver's choice, per call); close() marks the descriptor closed and asserts
 * it was open.
 * -DENTRY=0: one default_asocket(domain AF_INET/AF_INET6, type SOCK_DGRAM/SOCK_STREAM).
 *   returns ARES_SOCKET_BAD  => no kernel descriptor is left open (the one obtained, if any, was closed exactly once);
 *   returns a descriptor     => it is the one socket() returned, open, made non-blocking and close-on-exec.
 * -DENTRY=1: one default_asetsockopt with every option code 0..5 and an EXACT-SIZE value object of 0..8 bytes
 *   (arbitrary bytes, no terminator): no read outside the object (pointer checks), wrong sizes refused with -1. */
#include "vp.h"
#include "ares_set_socket_functions.c"

/* CBMC 6.11 ships no strnlen model */
size_t strnlen(const char *s, size_t n)
{
  size_t i;
  for (i = 0; i < n && s[i] != 0; i++)
    ;
  return i;
}

#define KMAX 4
static int k_state[KMAX]; /* 0 never, 1 open, 2 closed */
static int k_closes[KMAX], k_nonblock[KMAX], k_cloexec[KMAX];
static int k_next;

int socket(int domain, int type, int protocol)
{
  (void)domain; (void)type; (void)protocol;
  if (vp_bool()) { errno = EMFILE; return -1; }
  VP_BOUND(k_next < KMAX, "more kernel descriptors than ledger slots");
  k_state[k_next] = 1;
  return k_next++;
}
int close(int fd)
{
  VP_ASSERT(fd >= 0 && fd < KMAX && k_state[fd] == 1, "close() only on an open descriptor, once");
  k_state[fd] = 2;
  k_closes[fd]++;
  return 0;
}
int fcntl(int fd, int cmd, ...)
{
  VP_ASSERT(fd >= 0 && fd < KMAX && k_state[fd] == 1, "fcntl() only on an open descriptor");
  if (cmd == F_GETFL) return vp_bool() ? -1 : 2; /* O_RDWR */
  if (vp_bool()) { errno = EINVAL; return -1; }
  if (cmd == F_SETFL) k_nonblock[fd] = 1; /* the only flag the library ever sets is O_NONBLOCK */
  if (cmd == F_SETFD) k_cloexec[fd] = 1;
  return 0;
}
static int so_calls;
int setsockopt(int fd, int level, int optname, const void *optval, socklen_t optlen)
{
  (void)level; (void)optname;
  VP_ASSERT(fd >= 0 && fd < KMAX && k_state[fd] == 1, "setsockopt() only on an open descriptor");
  VP_ASSERT(optval != NULL || optlen == 0, "option value present");
  so_calls++;
  if (vp_bool()) { errno = ENOPROTOOPT; return -1; }
  return 0;
}

void harness(void)
{
#if ENTRY == 0
  int           domain = vp_bool() ? AF_INET : AF_INET6;
  int           type   = vp_bool() ? SOCK_DGRAM : SOCK_STREAM;
  ares_socket_t s;
  int           i, open_cnt = 0;

  s = default_asocket(domain, type, 0, NULL);

  for (i = 0; i < KMAX; i++) {
    if (k_state[i] == 1) open_cnt++;
    VP_ASSERT(k_closes[i] <= 1, "a kernel descriptor is closed at most once");
  }
  VP_ASSERT(k_next <= 1, "one socket() per call");
  if (s == ARES_SOCKET_BAD) {
    VP_ASSERT(open_cnt == 0, "a failed default_asocket leaves no kernel descriptor open");
    if (k_next == 1) VP_WITNESS("set-up failed after socket()");
    else VP_WITNESS("socket() failed");
  } else {
    VP_ASSERT(s == 0 && k_state[0] == 1 && open_cnt == 1, "the descriptor returned is the open one socket() produced");
    VP_ASSERT(k_nonblock[0] == 1, "the socket was made non-blocking");
    VP_ASSERT(k_cloexec[0] == 1, "the socket was made close-on-exec");
    VP_WITNESS("socket ready");
  }
#else
  size_t         n   = VALSIZE; /* concrete per job: exact-size object */
  unsigned char *val = vp_malloc(n ? n : 1);
  int            opt = (int)vp_range(0, 5), rv;
  ares_socket_t  fd;
  vp_alloc_install();
  k_state[0] = 1; k_next = 1; fd = 0;
  if (n) vp_bytes(val, n);
  rv = default_asetsockopt(fd, (ares_socket_opt_t)opt, val, (ares_socklen_t)n, NULL);
  VP_ASSERT(rv == 0 || rv == -1, "result is success or -1");
  if ((opt == ARES_SOCKET_OPT_SENDBUF_SIZE || opt == ARES_SOCKET_OPT_RECVBUF_SIZE) && n != sizeof(int))
    VP_ASSERT(rv == -1 && so_calls == 0, "a buffer-size option of the wrong width is refused before reaching the kernel");
  if (opt == ARES_SOCKET_OPT_TCP_FASTOPEN && n != sizeof(ares_bool_t))
    VP_ASSERT(rv == -1 && so_calls == 0, "a fast-open option of the wrong width is refused before reaching the kernel");
  if (opt > ARES_SOCKET_OPT_TCP_FASTOPEN) VP_ASSERT(rv == -1 && so_calls == 0, "an unknown option code is refused");
  if (rv == 0) VP_WITNESS("accepted");
  vp_free(val);
#endif
  VP_WITNESS("end");
}
