/* C10 / ares_open_connection(): on every failure point nothing stays open, registered or announced; on success
 * exactly one descriptor is open, registered and (unless the first TFO write is still pending) announced.
 * Real: ares_open_connection + statics (ares_conn.c included), whole ares_socket.c, ares_llist.c, ares_buf.c.
 * Failure points: socket(), setsockopt() (buffers / TFO), bind(), config callback, connect() (incl. EINTR retry,
 * EINPROGRESS), create callback, getsockname(), and ANY single allocation (list node, buffers, connection). */
#include "vp.h"
#include "ares_conn.c"
#include "world.h"
#include <errno.h>

static int cfg_cb_calls, create_cb_calls;
static int cfg_cb(ares_socket_t fd, int type, void *data)
{
  (void)type; (void)data;
  VP_ASSERT(vsock[fd].state == 1, "configure callback sees an open descriptor");
  cfg_cb_calls++;
  return vp_bool() ? -1 : 0;
}
static int create_cb(ares_socket_t fd, int type, void *data)
{
  (void)type; (void)data;
  VP_ASSERT(vsock[fd].state == 1, "create callback sees an open descriptor");
  create_cb_calls++;
  return vp_bool() ? -1 : 0;
}

void harness(void)
{
  static ares_channel_t ch;
  ares_server_t        *srv;
  ares_conn_t          *conn = NULL;
  ares_status_t         st;
  int                   i, is_tcp;
  long                  live0;

  vp_alloc_install();
  world_init(&ch);
  srv = world_add_server(&ch, 0, 0);
  srv->addr.family = FAMILY; /* AF_INET, AF_INET6 or an unusable family: concrete per job */
  ch.socket_send_buffer_size    = vp_bool() ? 4096 : 0;
  ch.socket_receive_buffer_size = vp_bool() ? 4096 : 0;
  ch.local_ip4                  = vp_bool() ? 0x7f000001 : 0;
  if (vp_bool()) { ch.sock_config_cb = cfg_cb; }
  if (vp_bool()) { ch.sock_create_cb = create_cb; }
  is_tcp = IS_TCP;
  vp_alloc_fail_at = vp_range(0, 12);
  if (vp_alloc_fail_at != 0) vp_alloc_fail_at += vp_alloc_calls;
  live0 = vp_alloc_live;

  st = ares_open_connection(&conn, &ch, srv, is_tcp ? ARES_TRUE : ARES_FALSE);
  vp_alloc_fail_at = 0;

  if (st != ARES_SUCCESS) {
    VP_ASSERT(conn == NULL, "failure returns no connection");
    VP_ASSERT(vsock_open_count == 0, "failed open leaves no descriptor open");
    VP_ASSERT(ares_htable_asvp_num_keys(ch.connnode_by_socket) == 0, "failed open registers nothing");
    VP_ASSERT(ares_llist_len(srv->connections) == 0 && srv->tcp_conn == NULL, "failed open leaves nothing on the server");
    for (i = 0; i < VSOCK_MAXFD; i++) {
      VP_ASSERT(vsock[i].told_watch == 0, "no application watch outstanding after a failed open");
      VP_ASSERT(vsock[i].state != 2 || vsock[i].closes == 1, "a descriptor obtained is closed exactly once");
    }
    VP_ASSERT(vp_alloc_live == live0, "failed open releases every allocation it made");
    VP_WITNESS("open failed");
  } else {
    VP_ASSERT(conn != NULL && vsock_open_count == 1 && vsock[conn->fd].state == 1, "success: exactly one descriptor open");
    VP_ASSERT(ares_conn_from_fd(&ch, conn->fd) == conn, "success: registered under its descriptor");
    VP_ASSERT(ares_llist_len(srv->connections) == 1, "success: linked on the server");
    VP_ASSERT((srv->tcp_conn == conn) == (is_tcp != 0), "tcp_conn tracks the TCP connection only");
    if (conn->flags & ARES_CONN_FLAG_TFO_INITIAL) {
      VP_ASSERT(vsock[conn->fd].watch_calls == 0, "TFO: announcement deferred to the first write");
      VP_WITNESS("tfo initial");
    } else {
      VP_ASSERT(vsock[conn->fd].told_watch && vsock[conn->fd].last_r == 1, "application told to watch the new socket for reading");
      VP_ASSERT(vsock[conn->fd].last_w == (is_tcp ? 1 : 0), "TCP also watches for writability (connect completion)");
      VP_ASSERT(((conn->state_flags & ARES_CONN_STATE_READ) != 0) && (((conn->state_flags & ARES_CONN_STATE_WRITE) != 0) == (is_tcp != 0)),
                "recorded interest equals the announced interest");
    }
    VP_WITNESS("open ok");
    /* tear down: exactly one close, final stop announced iff it had been told to watch */
    {
      ares_socket_t fd   = conn->fd;
      int           told = vsock[fd].told_watch;
      ares_close_connection(conn, ARES_SUCCESS);
      VP_ASSERT(vsock[fd].state == 2 && vsock[fd].closes == 1 && vsock_open_count == 0, "closed exactly once");
      VP_ASSERT(vsock[fd].told_watch == 0 && vsock[fd].stop_calls == (told ? 1 : 0), "told to stop exactly once iff it was told to watch");
      VP_ASSERT(ares_htable_asvp_num_keys(ch.connnode_by_socket) == 0 && ares_llist_len(srv->connections) == 0 && srv->tcp_conn == NULL,
                "closed connection is unregistered everywhere");
      VP_ASSERT(vp_alloc_live == live0, "open + close releases every allocation");
    }
  }
  VP_WITNESS("end");
}
/* not reached (no queries): */
ares_status_t ares_requeue_query(ares_query_t *query, const ares_timeval_t *now, ares_status_t status, ares_bool_t inc,
                                 const ares_dns_record_t *dnsrec, ares_array_t **requeue)
{ (void)query;(void)now;(void)status;(void)inc;(void)dnsrec;(void)requeue; VP_ASSERT(0, "no query to requeue in this harness"); return ARES_SUCCESS; }
void ares_tvnow(ares_timeval_t *now) { now->sec = 100; now->usec = 0; }
