/* C10 "every socket the library opens is closed exactly once ... no call on it after close", for the one socket that is
 * NOT a DNS connection: the throw-away UDP socket find_src_addr() (RFC 6724 source-address probe behind
 * ares_sortaddrinfo) opens, connects and asks for its local name.
 * Real: find_src_addr (ares_sortaddrinfo.c #included), whole ares_socket.c (ares_socket_open/connect/close).
 * Virtual sockets (vsock.c) with the descriptor ledger: socket(), connect() and getsockname() each fail or not
 * (solver's choice, any errno of the stub's list, EINPROGRESS included); destination family AF_INET / AF_INET6 / other.
 * Asserted: whatever happens, no descriptor stays open, a descriptor obtained is closed exactly once (the ledger also
 * asserts inside v_close / v_connect / v_getsockname that every call is made on an OPEN descriptor), the application is
 * never told to watch it, and the result code says "source found" only when getsockname() succeeded. */
#include "vp.h"
#include "ares_sortaddrinfo.c"
#include "world.h"
#include <errno.h>

void harness(void)
{
  static ares_channel_t ch;
  struct sockaddr_in    d4;
  struct sockaddr_in6   d6;
  struct sockaddr_storage_like {
    struct sockaddr_in6 s;
  } src;
  const struct sockaddr *dst;
  int                    rv, i, fam = FAMILY;

  vp_alloc_install();
  world_init(&ch);
  memset(&d4, 0, sizeof(d4));
  memset(&d6, 0, sizeof(d6));
  memset(&src, 0, sizeof(src));
  d4.sin_family  = AF_INET;
  d4.sin_port    = vp_u16();
  d6.sin6_family = AF_INET6;
  d6.sin6_port   = vp_u16();
  if (fam == AF_INET) dst = (const struct sockaddr *)(const void *)&d4;
  else if (fam == AF_INET6) dst = (const struct sockaddr *)(const void *)&d6;
  else { d4.sin_family = (sa_family_t)fam; dst = (const struct sockaddr *)(const void *)&d4; }

  rv = find_src_addr(&ch, dst, (struct sockaddr *)(void *)&src);

  VP_ASSERT(rv == 1 || rv == 0 || rv == -1, "result is found / no usable source / error");
  VP_ASSERT(vsock_open_count == 0, "the probe socket never outlives the call");
  for (i = 0; i < VSOCK_MAXFD; i++) {
    VP_ASSERT(vsock[i].state != 1, "no descriptor left open");
    VP_ASSERT(vsock[i].state != 2 || vsock[i].closes == 1, "a descriptor obtained is closed exactly once");
    VP_ASSERT(vsock[i].watch_calls == 0 && vsock[i].stop_calls == 0, "the application is never asked to watch or unwatch the probe socket");
  }
  VP_ASSERT(vsock_next <= 1, "at most one probe socket per destination");
  if (fam != AF_INET && fam != AF_INET6) {
    VP_ASSERT(rv == 0 && vsock_next == 0, "no socket for a non-IP destination");
    VP_WITNESS("other family");
  } else {
    if (rv == 1) VP_WITNESS("source found");
    if (rv == 0 && vsock_next == 1) VP_WITNESS("connect failed");
    if (rv == -1 && vsock_next == 1) VP_WITNESS("getsockname failed");
    if (vsock_next == 0) VP_WITNESS("socket failed");
  }
  VP_WITNESS("end");
}
