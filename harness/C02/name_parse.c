/* C02 / ares_dns_name_parse() on arbitrary bytes (S3) and on shape-concrete names (S2).
 *   -DL=n        exact size of the message object (vp_malloc(L): any over-read is a bounds failure)
 *   -DMODE=0     skip mode (name == NULL)        -DMODE=1  output mode (escaped text returned)
 *   -DREF=0      drop the reference walk (totality/memory safety/consistency only; for larger L)
 *   -DAPI=1      go through the legacy public entry ares_expand_name(encoded, abuf, alen, &s, &enclen): encoded is
 *                abuf+start for any start 0..L INCLUDING the one-past-the-end pointer, alen is L (the exact object
 *                size) or any value <= 0 (which the API must reject without touching anything)
 *   -DSHAPE=...  optional: per-byte cells {kind,val}; without it every byte is arbitrary
 *   -DSTART=n    optional: concrete start offset (default: any 0..L)
 *   -DEXPECT=0|1 optional: the shape must fail / succeed for every value assignment
 * Oracle: an independent reference walk of RFC 1035 4.1.4 with the strictly-backwards pointer rule
 * (target < lowest label start seen so far).  Termination of the real loop within the job's
 * unwinding bound is the no-loop claim (unwinding assertions are on).
 * Real: ares_dns_name.c, ares_buf.c, ares_str.c, ares_array.c, ares_llist.c, ares_library_init.c, ares_math.c. */
#include "vp.h"
#include "ares_private.h"

#ifndef L
#  define L 6
#endif
#ifndef MODE
#  define MODE 0
#endif
#ifndef REF
#  define REF 1
#endif
#ifndef API
#  define API 0
#endif
#define OUTMAX (5 * L + 2)

enum { K_ANY = 0, K_CONST, K_PLAIN, K_OTHER, K_RESV, K_NONPR };
typedef struct {
  unsigned char kind, val;
} cell_t;

static int m_isprint(unsigned char c) { return c >= 0x20 && c <= 0x7E; }
static int m_ishost(unsigned char c)
{
  return (c >= 'a' && c <= 'z') || (c >= 'A' && c <= 'Z') || (c >= '0' && c <= '9') || c == '-' || c == '.' || c == '_' ||
         c == '/' || c == '*';
}
static int m_isresv(unsigned char c)
{
  return c == '"' || c == '.' || c == ';' || c == '\\' || c == '(' || c == ')' || c == '@' || c == '$';
}

void c02_pool_teardown(void);
static unsigned char *g_data;
static unsigned char  m_out[OUTMAX];
static size_t         m_outlen, m_end;

/* reference decoder: 1 = well-formed (m_end = where the message continues, m_out = escaped text) */
static int model(size_t start, int is_hostname)
{
  size_t pos = start, min = start, step;
  int    jumped = 0;
  m_outlen      = 0;
  for (step = 0; step < 2 * L + 2; step++) {
    unsigned char c;
    size_t        i;
    if (pos < min)
      min = pos;
    if (pos >= L)
      return 0;
    c = g_data[pos++];
    if ((c & 0xC0) == 0xC0) {
      size_t off;
      if (pos >= L)
        return 0;
      off = ((size_t)(c & 0x3F) << 8) | g_data[pos++];
      if (off >= min)
        return 0; /* self, forward, or not below everything seen so far */
      if (!jumped) {
        m_end  = pos;
        jumped = 1;
      }
      pos = off;
      continue;
    }
    if (c & 0xC0)
      return 0;
    if (c == 0) {
      if (!jumped)
        m_end = pos;
      return 1;
    }
    if (pos + c > L)
      return 0;
    for (i = 0; i < c; i++)
      if (is_hostname && !m_ishost(g_data[pos + i]))
        return 0;
#if MODE
    if (m_outlen != 0)
      m_out[m_outlen++] = '.';
    for (i = 0; i < c; i++) {
      unsigned char b = g_data[pos + i];
      if (!m_isprint(b)) {
        m_out[m_outlen++] = '\\';
        m_out[m_outlen++] = (unsigned char)('0' + b / 100);
        m_out[m_outlen++] = (unsigned char)('0' + (b % 100) / 10);
        m_out[m_outlen++] = (unsigned char)('0' + b % 10);
      } else {
        if (m_isresv(b))
          m_out[m_outlen++] = '\\';
        m_out[m_outlen++] = b;
      }
    }
#endif
    pos += c;
  }
  VP_BOUND(0, "reference walk step budget");
  return 0;
}

void harness(void)
{
  ares_buf_t   *buf;
  size_t        start, i, pos;
  int           is_hostname, ok;
  ares_status_t st;
  char         *name = NULL;

  vp_alloc_install();
  g_data = vp_malloc(L);
#ifdef SHAPE
  {
    static const cell_t shape[L] = { SHAPE };
    for (i = 0; i < L; i++) {
      unsigned char b = (shape[i].kind == K_CONST) ? shape[i].val : vp_u8();
      switch (shape[i].kind) {
        case K_PLAIN:
          VP_ASSUME(m_ishost(b) && b != '.');
          break;
        case K_OTHER:
          VP_ASSUME(m_isprint(b) && !m_ishost(b) && !m_isresv(b));
          break;
        case K_RESV:
          VP_ASSUME(m_isresv(b));
          break;
        case K_NONPR:
          VP_ASSUME(!m_isprint(b));
          break;
        default:
          break;
      }
      g_data[i] = b;
    }
  }
#else
  vp_bytes(g_data, L);
#endif
#ifdef START
  start = START;
#else
  start = vp_range(0, L);
#endif
#if API == 1
  {
    long enclen0 = vp_long(), enclen = enclen0;
    int  alen    = vp_int();
    VP_ASSUME(alen == L || alen <= 0);
    is_hostname = 0; /* ares_expand_name never validates host name characters */
    buf         = NULL;
    st          = (ares_status_t)ares_expand_name(g_data + start, g_data, alen, MODE ? &name : NULL, &enclen);
    if (alen <= 0 || start == L) {
      VP_ASSERT(st == ARES_EBADNAME, "non-positive alen / encoded at or past the end is rejected with EBADNAME");
      VP_ASSERT(name == NULL, "rejected call returns no string");
      VP_ASSERT(enclen == (alen <= 0 ? enclen0 : 0), "rejected call reports no consumed length");
      VP_WITNESS("api-rejected");
      ares_free_string(name);
      vp_free(g_data);
#  ifdef C02_ALLOC
      c02_pool_teardown();
#  endif
      VP_WITNESS("end");
      return;
    }
    VP_ASSERT(enclen >= 0 && (size_t)enclen <= L - start, "enclen never exceeds alen - offset");
    VP_ASSERT((st == ARES_SUCCESS) == (enclen > 0), "a consumed length is reported exactly on success");
    pos = start + (size_t)enclen;
    if (st != ARES_SUCCESS)
      pos = L; /* no cursor to compare on failure */
  }
#else
  buf = ares_buf_create_const(g_data, L);
  VP_ASSUME(buf != NULL);
#  ifdef HOSTNAME
  is_hostname = HOSTNAME;
#  else
  is_hostname = vp_bool();
#  endif
  VP_ASSERT(ares_buf_set_position(buf, start) == ARES_SUCCESS, "start offset accepted");

  st  = ares_dns_name_parse(buf, MODE ? &name : NULL, is_hostname ? ARES_TRUE : ARES_FALSE);
  pos = ares_buf_get_position(buf);

  VP_ASSERT(pos <= L, "cursor ends inside the buffer");
  VP_ASSERT(ares_buf_len(buf) == L - pos, "remaining length consistent");
#endif
#if REF
  ok = model(start, is_hostname);
  if (ok) {
    VP_ASSERT(st == ARES_SUCCESS, "a well-formed name (strictly backward pointers, in-bounds labels) is accepted");
    VP_ASSERT(pos == m_end, "cursor continues after the terminator, or after the FIRST pointer when compressed");
#  if MODE
    VP_ASSERT(name != NULL, "success returns a string");
    for (i = 0; i < m_outlen; i++)
      VP_ASSERT((unsigned char)name[i] == m_out[i], "returned text is the escaped presentation form of the labels");
    VP_ASSERT(name[m_outlen] == 0, "returned text is NUL terminated at the expected length");
#  endif
    VP_WITNESS("accepted");
  } else {
    VP_ASSERT(st == ARES_EBADNAME, "a malformed name (truncated, reserved bits, forward/self pointer, bad hostname byte) is "
                                   "rejected with EBADNAME");
    VP_ASSERT(name == NULL, "failure returns no string");
    VP_WITNESS("rejected");
  }
#else
  /* no reference walk (larger L): totality, memory safety and result/status consistency only */
  ok = (st == ARES_SUCCESS);
  if (ok) {
    VP_ASSERT(pos > start && pos <= L, "success consumed at least the terminator/pointer and stays inside the buffer");
#  if MODE
    VP_ASSERT(name != NULL, "success returns a string");
    for (i = 0; i < OUTMAX && name[i] != 0; i++)
      VP_ASSERT(m_isprint((unsigned char)name[i]), "returned text is printable ASCII");
    VP_ASSERT(i < OUTMAX, "returned text is NUL terminated within 4 characters per input byte");
#  endif
    VP_WITNESS("accepted");
  } else {
    VP_ASSERT(st == ARES_EBADNAME, "every failure on arbitrary bytes is EBADNAME");
    VP_ASSERT(name == NULL, "failure returns no string");
    VP_WITNESS("rejected");
  }
#endif
#ifdef EXPECT
  VP_ASSERT(ok == EXPECT, "shape verdict is the one the job states");
#endif
#if API == 1
  ares_free_string(name);
#else
  ares_free(name);
  ares_buf_destroy(buf);
#endif
  vp_free(g_data);
#ifdef C02_ALLOC
  c02_pool_teardown();
#endif
  VP_WITNESS("end");
}
