/* C02 / legacy ares_expand_string(encoded, abuf, alen, &s, &enclen) on arbitrary bytes (S3).
 * abuf is an exact-size L-byte object (any over-read is a bounds failure); encoded = abuf+off for ANY off 0..L
 * (including the one-past-the-end pointer); alen is L or any value <= 0 (must be rejected untouched);
 * s may be NULL ("skip", documented in ares_expand_string_ex).
 * Oracle: <character-string> = length byte n followed by n bytes, all inside [off, L).
 * Real: legacy/ares_expand_string.c, ares_buf.c, ares_str.c, ares_array.c, ares_library_init.c, ares_math.c,
 * ares_free_string.c. */
#include "vp.h"
#include "ares_private.h"

#ifndef L
#  define L 4
#endif

void harness(void)
{
  unsigned char *abuf, shadow[L];
  unsigned char *s = NULL;
  size_t         off, i;
  long           enclen0 = vp_long(), enclen = enclen0;
  int            alen    = vp_int();
  int            want    = vp_bool();
  int            st;

  vp_alloc_install();
  abuf = vp_malloc(L);
  vp_bytes(abuf, L);
  for (i = 0; i < L; i++)
    shadow[i] = abuf[i];
  off = vp_range(0, L);
  VP_ASSUME(alen == L || alen <= 0);
  /* known-finding hooks: skip mode (s == NULL) leaks ares_buf_parse_dns_binstr's scratch buffer */
#ifdef KF_binstr_skip_leak
  VP_ASSUME(want);
#endif
#ifdef KFONLY_binstr_skip_leak
  VP_ASSUME(!want);
#endif

  st = ares_expand_string(abuf + off, abuf, alen, want ? &s : NULL, &enclen);

  if (alen <= 0) {
    VP_ASSERT(st == ARES_EBADRESP && s == NULL && enclen == enclen0, "non-positive alen rejected, nothing touched");
  } else if (off == L) {
    VP_ASSERT(st == ARES_EBADSTR && s == NULL && enclen == 0, "encoded at the end of the buffer rejected");
    VP_WITNESS("at-end");
  } else {
    size_t n = shadow[off];
    if (n <= L - off - 1) {
      VP_ASSERT(st == ARES_SUCCESS, "in-bounds <character-string> accepted");
      VP_ASSERT(enclen == (long)(n + 1), "enclen is the length byte plus the data");
      VP_ASSERT((size_t)enclen <= L - off, "enclen never exceeds alen - offset");
      if (want) {
        VP_ASSERT(s != NULL, "success returns a string");
        for (i = 0; i < n; i++)
          VP_ASSERT(s[i] == shadow[off + 1 + i], "returned bytes are the data bytes");
        VP_ASSERT(s[n] == 0, "returned string is NUL terminated");
      }
      VP_WITNESS("accepted");
    } else {
      VP_ASSERT(st == ARES_EBADSTR, "length byte running past the buffer rejected with EBADSTR");
      VP_ASSERT(s == NULL && enclen == 0, "failure returns no string and no length");
      VP_WITNESS("rejected");
    }
  }
  for (i = 0; i < L; i++)
    VP_ASSERT(abuf[i] == shadow[i], "input not modified");
  ares_free_string(s);
  vp_free(abuf);
  VP_WITNESS("end");
}
