/* C02 / whole-message parser (S2b): ares_dns_parse() on a 1-question, 1-RR message truncated at a concrete length.
 *
 *   full message (F bytes): ID(2,sym) FLAGS(hi: 0x85 or symbolic with -DHDRFLAGS_ANY; lo: symbolic) QD=1 AN/NS/AR = 1 in section SECT | 01 'a' 00 QTYPE(A, or symbolic with -DQTYPE_ANY) QCLASS=IN |
 *                           C0 0C  TYPE(2) CLASS(2) TTL(4,sym) RDLENGTH(2) RDATA(NB bytes, cells RD)
 *   -DML=n   the buffer handed to ares_dns_parse is an exact-size object holding the first ML bytes (0 < ML <= F);
 *            ML == 0 is the documented "no data" call (EFORMERR)
 *   -DRTYPE -DRCLASS/-DRCLASS_ANY -DSECT -DRDLEN -DNB -DRD as in rr_parse.c; -DFLAGS parse flags (concrete: a symbolic
 *   typed/RAW decision makes the record's destructor dispatch symbolic and does not close)
 * Oracle: SUCCESS => *dnsrec != NULL, 1 question, exactly the one RR in its section, fully formed (c02_rrcheck.h),
 * and only when the whole message was supplied; error => *dnsrec == NULL; nothing leaked after
 * ares_dns_record_destroy(); no access outside the exact-size buffer.
 * Real: ares_dns_parse.c, ares_dns_record.c, ares_dns_mapping.c, ares_dns_multistring.c, ares_dns_name.c, ares_array.c,
 * ares_buf.c, ares_str.c, ares_math.c, ares_library_init.c. */
#include "vp.h"
#include "ares_private.h"

#ifndef RTYPE
#  define RTYPE 1
#endif
#ifndef RCLASS
#  define RCLASS 1
#endif
#ifndef SECT
#  define SECT 1
#endif
#ifndef NB
#  define NB 4
#  define RD { 0, 0 }, { 0, 0 }, { 0, 0 }, { 0, 0 }
#  define RDLEN 4
#endif
#ifndef FLAGS
#  define FLAGS 0
#endif
#define QEND 19                /* header 12 + question 7 */
#define F    (QEND + 12 + NB)  /* owner pointer 2 + type 2 + class 2 + ttl 4 + rdlength 2 */
#ifndef ML
#  define ML F
#endif
#define MAXSTR 24

typedef struct {
  unsigned char kind, val;
} cell_t;

#include "c02_rrcheck.h"

void harness(void)
{
  static const cell_t rd[NB + 1] = { RD };
  unsigned char       full[F];
  unsigned char      *msg;
  ares_dns_record_t  *rec = NULL;
  ares_status_t       st;
  unsigned short      rclass;
  size_t              i;

  vp_alloc_install();
  full[0] = vp_u8();
  full[1] = vp_u8();
#ifdef HDRFLAGS_ANY
  full[2] = vp_u8(); /* QR opcode AA TC RD: a symbolic opcode makes record creation conditional */
#else
  full[2] = 0x85; /* QR=1 opcode=QUERY AA=1 RD=1 */
#endif
#ifdef HDRFLAGS_ANY
  full[3] = vp_u8(); /* RA Z AD CD rcode */
#else
  full[3] = 0x83; /* RA=1 rcode=NXDOMAIN: symbolic flag bits make ares_dns_flags_arevalid(), hence the record's very
                     existence, symbolic - every later access then case-splits (measured: no verdict in 240 s) */
#endif
  for (i = 4; i < 12; i++)
    full[i] = 0;
  full[5]            = 1;
  full[5 + 2 * SECT] = 1;
  full[12]           = 1;
  full[13]           = 'a';
  full[14]           = 0;
#ifdef QTYPE_ANY
  full[15] = vp_u8();
  full[16] = vp_u8();
#else
  full[15] = 0; /* QTYPE A */
  full[16] = 1;
#endif
  full[17]           = 0;
  full[18]           = 1;
  full[19]           = 0xC0;
  full[20]           = 12;
  full[21]           = (unsigned char)(RTYPE >> 8);
  full[22]           = (unsigned char)(RTYPE & 0xFF);
#ifdef RCLASS_ANY
  rclass = vp_u16();
#else
  rclass = RCLASS;
#endif
  full[23] = (unsigned char)(rclass >> 8);
  full[24] = (unsigned char)(rclass & 0xFF);
  full[25] = vp_u8();
  full[26] = vp_u8();
  full[27] = vp_u8();
  full[28] = vp_u8();
  full[29] = (unsigned char)(RDLEN >> 8);
  full[30] = (unsigned char)(RDLEN & 0xFF);
  for (i = 0; i < NB; i++)
    full[31 + i] = rd[i].kind ? rd[i].val : vp_u8();

  msg = vp_malloc(ML ? ML : 1);
  for (i = 0; i < ML; i++)
    msg[i] = full[i];

  st = ares_dns_parse(msg, ML, FLAGS, &rec);

  /* a message that cannot hold the promised RR (compile-time fact of the job) must be rejected; the "fully formed"
   * walk is only compiled in where success is possible, so symbolic execution does not wander through it with an
   * undefined record on the (infeasible) success branch of a truncated message */
  if (!(ML >= 31 + RDLEN && RDLEN <= NB)) {
    VP_ASSERT(st != ARES_SUCCESS, "accepted only when the promised RR, including RDLENGTH bytes of RDATA, is really there");
  }
#ifdef EXPECT_OK
  VP_ASSERT(st == ARES_SUCCESS, "a complete well-formed message whose acceptance does not depend on symbolic bytes is accepted");
#endif
  if ((ML >= 31 + RDLEN && RDLEN <= NB) && st == ARES_SUCCESS) {
    VP_ASSERT(rec != NULL, "success returns a record");
    VP_ASSERT(ares_dns_record_query_cnt(rec) == 1, "one question");
    VP_ASSERT(ares_dns_record_rr_cnt(rec, (ares_dns_section_t)SECT) == 1, "one RR in its section");
    VP_ASSERT(ares_dns_record_rr_cnt(rec, ARES_SECTION_ANSWER) + ares_dns_record_rr_cnt(rec, ARES_SECTION_AUTHORITY) +
                  ares_dns_record_rr_cnt(rec, ARES_SECTION_ADDITIONAL) == 1,
              "no RR in any other section");
    VP_ASSERT(ares_dns_record_get_id(rec) == (unsigned short)((full[0] << 8) | full[1]), "id decoded");
    check_rr(ares_dns_record_rr_get(rec, (ares_dns_section_t)SECT, 0), RTYPE);
    VP_WITNESS("ok");
  } else {
    VP_ASSERT(rec == NULL, "an error returns no record");
    VP_ASSERT(st == ARES_EBADRESP || st == ARES_EBADNAME || st == ARES_EBADSTR || st == ARES_EFORMERR,
              "failure is one of the parser's error codes (no allocation failure is injected)");
    VP_WITNESS("err");
  }
  ares_dns_record_destroy(rec);
  vp_free(msg);
  VP_WITNESS("end");
}
