/* C02 allocator (same interface as harness/common/valloc.c, used INSTEAD of it by the
 * jobs that list it in `support`).  Difference: growing an existing block
 * (realloc(p != NULL, n > 0)) is either
 *   - ruled out:  default; reaching it trips a BOUND assertion (inconclusive, never
 *     a violation) and the path is cut, so symbolic execution does not have to copy
 *     between two symbolic blocks.  Used where the job's sizes make growth
 *     impossible (e.g. a decoded name shorter than the first 32-byte allocation); the
 *     BOUND assertion proves that.
 *   - or copies a CONSTANT number of bytes (-DC02_GROW_COPY=k: old size must be <= k).
 * -DVP_SIZES as in valloc.c. */
#include "vp.h"
#include <stdlib.h>
#include <string.h>

unsigned long vp_alloc_calls   = 0;
unsigned long vp_alloc_fail_at = 0;
long          vp_alloc_live    = 0;

#ifdef VP_NATIVE
typedef struct {
  size_t n;
  size_t pad;
} vp_hdr_t;
static void *raw_alloc(size_t n)
{
  vp_hdr_t *h = malloc(sizeof(*h) + n);
  if (h == NULL)
    abort();
  h->n = n;
  return h + 1;
}
static size_t raw_size(void *p) { return ((vp_hdr_t *)p - 1)->n; }
static void   raw_free(void *p) { free((vp_hdr_t *)p - 1); }
#else
static void *raw_alloc(size_t n)
{
  void *p;
#  ifdef VP_SIZES
  static const size_t sizes[] = { VP_SIZES };
  size_t              i;
  p = NULL;
  for (i = 0; i < sizeof(sizes) / sizeof(*sizes); i++) {
    if (n == sizes[i]) {
      p = malloc(sizes[i]);
      break;
    }
  }
  VP_BOUND(i < sizeof(sizes) / sizeof(*sizes), "allocation size outside VP_SIZES");
#  else
  p = malloc(n);
#  endif
  __CPROVER_assume(p != NULL);
  return p;
}
static size_t raw_size(void *p) { return __CPROVER_OBJECT_SIZE(p); }
static void   raw_free(void *p) { free(p); }
#endif

void *vp_malloc(size_t n)
{
  vp_alloc_calls++;
  if (vp_alloc_fail_at != 0 && vp_alloc_calls == vp_alloc_fail_at)
    return NULL;
  if (n == 0)
    n = 1;
  vp_alloc_live++;
  return raw_alloc(n);
}

void vp_free(void *p)
{
  if (p == NULL)
    return;
  vp_alloc_live--;
  raw_free(p);
}

void *vp_realloc(void *p, size_t n)
{
  void  *q;
  size_t old;
  size_t i;
  if (p == NULL)
    return vp_malloc(n);
  if (n == 0) {
    vp_free(p);
    return NULL;
  }
#if !defined(VP_NATIVE) && !defined(C02_GROW_COPY)
  VP_BOUND(0, "realloc of a live block (growth) is outside this job's sizes");
  return NULL;
#else
  vp_alloc_calls++;
  if (vp_alloc_fail_at != 0 && vp_alloc_calls == vp_alloc_fail_at)
    return NULL;
  old = raw_size(p);
  q   = raw_alloc(n);
#  if !defined(VP_NATIVE)
  VP_BOUND(old <= C02_GROW_COPY, "old block larger than C02_GROW_COPY");
  for (i = 0; i < C02_GROW_COPY; i++)
    if (i < old && i < n)
      ((unsigned char *)q)[i] = ((unsigned char *)p)[i];
#  else
  for (i = 0; i < old && i < n; i++)
    ((unsigned char *)q)[i] = ((unsigned char *)p)[i];
#  endif
  raw_free(p);
  return q;
#endif
}

int ares_library_init_mem(int flags, void *(*amalloc)(size_t size), void (*afree)(void *ptr),
                          void *(*arealloc)(void *ptr, size_t size));

void vp_alloc_install(void)
{
  ares_library_init_mem(0, vp_malloc, vp_free, vp_realloc);
}
