/* C02 allocator (same interface as harness/common/valloc.c; used INSTEAD of it by the
 * name-decoder output-mode jobs, which list it in `support`).
 *
 * Why: ares_buf grows its data block only through ares_realloc().  In output mode every
 * append of ares_dns_name_parse is conditional on input bytes, so with the common allocator
 *   (1) each unwound append call site contributes its own malloc object to the value set of
 *       namebuf->alloc_buf, and every later write case-splits over all of them, and
 *   (2) the "grow an existing block" path (copy between two symbolic blocks) is explored
 *       at every append.
 * Measured: no progress of symbolic execution in 200 s even for a 1-byte name.
 *
 * Here:
 *   - realloc(NULL, n) - the FIRST growth step of an ares_buf - must have n == 32 and returns
 *     one of C02_POOL32 (default 1) blocks that vp_alloc_install() allocated eagerly, in
 *     order; a different n or more requests than blocks trips a BOUND (inconclusive, never a
 *     violation).  The blocks are ordinary malloc(32) objects: bounds, free, double free,
 *     use-after-free and leak checks apply unchanged; c02_pool_teardown() (call it last in
 *     the harness) frees the blocks that were never handed out.
 *   - realloc(p != NULL, n > 0) (growth beyond 32 bytes) trips a BOUND and the path is cut:
 *     the job's sizes must make it impossible (decoded text < 31 characters), and the BOUND
 *     assertion proves that it is.
 *   - malloc(n): passed through (all such sizes are concrete in these jobs).
 * Native replay builds use plain malloc/realloc. */
#include "vp.h"
#include <stdlib.h>
#include <string.h>

unsigned long vp_alloc_calls   = 0;
unsigned long vp_alloc_fail_at = 0;
long          vp_alloc_live    = 0;

#ifndef C02_POOL32
#  define C02_POOL32 1
#endif

#ifdef VP_NATIVE
void *vp_malloc(size_t n)
{
  void *p = malloc(n ? n : 1);
  if (p == NULL)
    abort();
  return p;
}
void  vp_free(void *p) { free(p); }
void *vp_realloc(void *p, size_t n)
{
  if (n == 0) {
    free(p);
    return NULL;
  }
  p = realloc(p, n);
  if (p == NULL)
    abort();
  return p;
}
void c02_pool_teardown(void) {}
#else
static void  *c02_pool[C02_POOL32];
static size_t c02_pool_next;

void *vp_malloc(size_t n)
{
  void *p;
  vp_alloc_calls++;
  if (n == 0)
    n = 1;
  vp_alloc_live++;
  p = malloc(n);
  __CPROVER_assume(p != NULL);
  return p;
}

void vp_free(void *p)
{
  if (p == NULL)
    return;
  vp_alloc_live--;
  free(p);
}

void *vp_realloc(void *p, size_t n)
{
  size_t k;
  void  *q = NULL;
  if (n == 0) {
    vp_free(p);
    return NULL;
  }
  VP_BOUND(p == NULL, "growing a live block (decoded text longer than the first 32-byte block) is outside this job");
  VP_BOUND(n == 32, "first ares_buf block is 32 bytes");
  VP_BOUND(c02_pool_next < C02_POOL32, "more ares_buf data blocks requested than C02_POOL32");
  for (k = 0; k < C02_POOL32; k++)
    if (k == c02_pool_next)
      q = c02_pool[k];
  c02_pool_next++;
  vp_alloc_calls++;
  vp_alloc_live++;
  return q;
}

void c02_pool_teardown(void)
{
  size_t k;
  for (k = 0; k < C02_POOL32; k++)
    if (k >= c02_pool_next)
      free(c02_pool[k]);
}
#endif

int ares_library_init_mem(int flags, void *(*amalloc)(size_t size), void (*afree)(void *ptr),
                          void *(*arealloc)(void *ptr, size_t size));

void vp_alloc_install(void)
{
#ifndef VP_NATIVE
  size_t k;
  for (k = 0; k < C02_POOL32; k++) {
    c02_pool[k] = malloc(32);
    __CPROVER_assume(c02_pool[k] != NULL);
  }
#endif
  ares_library_init_mem(0, vp_malloc, vp_free, vp_realloc);
}
