OUTSIDE = ("buffers of arbitrary bytes longer than the stated L; names longer than the stated label shapes in output mode; "
           "messages with more than one resource record; the 64 KiB end of the length range")
ASSUMPTIONS = ["reader primitives: the source buffer is read-only (const view or dynamic buffer that is only read), "
               "offset <= data_len, tag unset or <= data_len (<= offset for the tag_fetch family, whose callers tag and "
               "then only move forward)"]

LIB = ["src/lib/ares_library_init.c", "src/lib/util/ares_math.c", "src/lib/str/ares_str.c", "src/lib/dsa/ares_array.c"]
SUP = ["vp_rt.c", "valloc.c", "memloops.c", "c02_libc.c"]

BUF_OPS = [(0, "fetch_be16"), (1, "fetch_be32"), (2, "fetch_bytes"), (3, "fetch_bytes_dup"), (4, "fetch_str_dup"),
           (5, "fetch_bytes_into_buf"), (6, "consume"), (7, "consume_whitespace"), (8, "consume_nonwhitespace"),
           (9, "consume_line"), (10, "consume_until_charset"), (11, "consume_until_seq"), (12, "consume_charset"),
           (13, "tag_ops"), (14, "tag_fetch_bytes"), (15, "tag_fetch_string"), (16, "tag_fetch_strdup"),
           (17, "tag_fetch_constbuf"), (18, "peek_len_begins"), (19, "set_position"), (20, "parse_dns_binstr"),
           (21, "parse_dns_str")]


def buf_jobs(tier):
    J = []
    Ls = (0, 1, 2, 3, 4, 6, 8) if tier == "quick" else tuple(range(0, 17))
    for L in Ls:
        sizes = sorted(set(list(range(1, L + 4)) + [32, 48]))
        for op, opname in BUF_OPS:
            J.append(dict(name="buf_%s_L%d" % (opname, L), harness="buf_prim.c",
                          defines=["-DL=%d" % L, "-DOP=%d" % op, "-DVP_SIZES=%s" % ",".join(map(str, sizes))],
                          real=LIB, support=SUP, unwind=L + 8, leak=True,
                          bound="read-only ares_buf over an exact-size %d-byte object with symbolic contents, any offset "
                                "0..%d, any tag; ONE %s with arbitrary arguments" % (L, L, opname)))
    return J


NAME_LIB = LIB + ["src/lib/record/ares_dns_name.c", "src/lib/str/ares_buf.c", "src/lib/dsa/ares_llist.c"]


def name_loop_bound(L):
    """Unwinding bound of the label/pointer loop of ares_dns_name_parse on L arbitrary bytes.  Every head-byte position
    is visited at most once before a revisit, and a revisit replays a chain that must end at an already-taken pointer
    (target >= lowest label start => EBADNAME), so iterations <= L + L/2 + 1.  (L+2 is NOT enough from L=13 on: CBMC
    reports the unwinding assertion.)  The unwinding assertion proves the bound for each L."""
    return L + L // 2 + 2


def name_jobs(tier):
    J = []
    # arbitrary bytes, skip mode
    for L in (range(1, 9) if tier == "quick" else range(1, 13)):
        J.append(dict(name="name_skipref_L%d" % L, harness="name_parse.c",
                      defines=["-DL=%d" % L, "-DMODE=0", "-DREF=1", "-DVP_SIZES=%d,48" % L],
                      real=NAME_LIB, support=SUP, unwind=2 * L + 4, unwindset=["ares_dns_name_parse.0:%d" % name_loop_bound(L)],
                      leak=True, witnesses=["end", "accepted", "rejected"],
                      bound="ares_dns_name_parse(name=NULL) on an exact-size %d-byte object, ALL bytes arbitrary, any start "
                            "offset 0..%d, both is_hostname values; main loop bound %d unwindings; verdict and end cursor compared with a "
                            "reference RFC 1035 walk (strictly backward pointers)" % (L, L, name_loop_bound(L))))
    for L in (range(9, 13) if tier == "quick" else range(9, 21)):
        J.append(dict(name="name_skip_L%d" % L, harness="name_parse.c",
                      defines=["-DL=%d" % L, "-DMODE=0", "-DREF=0", "-DVP_SIZES=%d,48" % L],
                      real=NAME_LIB, support=SUP, unwind=L + 4, unwindset=["ares_dns_name_parse.0:%d" % name_loop_bound(L)],
                      leak=True, witnesses=["end", "accepted", "rejected"],
                      bound="ares_dns_name_parse(name=NULL) on an exact-size %d-byte object, ALL bytes arbitrary, any start "
                            "offset 0..%d, both is_hostname values; main loop bound %d unwindings; totality, bounds, status/"
                            "cursor consistency (no reference walk)" % (L, L, name_loop_bound(L))))
    # arbitrary bytes, output mode (escaped text is returned): tiny sizes only (output length is data-dependent)
    for L in (range(1, 5) if tier == "quick" else range(1, 7)):
        J.append(dict(name="name_out_L%d" % L, harness="name_parse.c",
                      defines=["-DL=%d" % L, "-DMODE=1", "-DREF=1", "-DVP_SIZES=%d,32,48,64,128" % L],
                      real=NAME_LIB, support=SUP, unwind=5 * L + 6,
                      unwindset=["ares_dns_name_parse.0:%d" % name_loop_bound(L), "vp_realloc.0:130"],
                      leak=True, witnesses=["end", "accepted", "rejected"],
                      bound="ares_dns_name_parse(name!=NULL) on an exact-size %d-byte object, ALL bytes arbitrary, any start "
                            "offset, both is_hostname values; returned text compared with the reference escaper; freed, leak "
                            "check" % L))
    return J


def jobs(tier, seed):
    J = []
    J += buf_jobs(tier)
    J += name_jobs(tier)
    return J
