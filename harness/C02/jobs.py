OUTSIDE = ("buffers of ARBITRARY bytes longer than the stated L (reader primitives L<=8 quick/16 thorough; name decoding skip "
           "mode L<=12 quick/20 thorough, with reference walk L<=8/11; name decoding returning text: all bytes arbitrary only "
           "L<=3 quick/4 thorough, otherwise shape-concrete names with <=8 symbolic content bytes and decoded text <31 chars "
           "(no growth of the 32-byte output block); ares_expand_name/ares_expand_string L<=8 quick/12 thorough); "
           "resource records beyond the enumerated one-RR shapes (31 RR-level shapes x RDLENGTH in {exact, exact-1, exact+1, 0} "
           "x bytes present; 9 message-level shapes truncated at every length in thorough); embedded length bytes, names "
           "and TYPE/CLASS/parse flags are concrete per job (symbolic ones make the record's destructor dispatch symbolic "
           "and do not close); header flag bytes and QTYPE concrete in message-level jobs; NAPTR/CAA(message level) string "
           "bytes concrete; messages with more than one RR; allocation failure (C14); ares_buf_split (does not close); the "
           "64 KiB end of the length range")
ASSUMPTIONS = ["reader primitives: the source buffer is read-only (const view or dynamic buffer that is only read), "
               "offset <= data_len, tag unset or <= data_len (<= offset for the tag_fetch family, whose callers tag and "
               "then only move forward)",
               "name decoding returning text uses harness/C02/c02_alloc.c: realloc(NULL,32) hands out one pre-allocated "
               "malloc(32) block, growth beyond it is a BOUND (inconclusive) - proved unreachable for every registered job",
               "memchr/memcmp/memmem are explicit loops (harness/C02/c02_libc.c)",
               "legacy API callers pass alen == size of the abuf object (or a non-positive alen, which must be rejected)",
               "ares_dns_parse_rr is entered on a freshly created empty ares_dns_record_t (as ares_dns_parse_buf does for "
               "the first RR)"]

LIB = ["src/lib/ares_library_init.c", "src/lib/util/ares_math.c", "src/lib/str/ares_str.c", "src/lib/dsa/ares_array.c"]
SUP = ["vp_rt.c", "valloc.c", "memloops.c", "c02_libc.c"]

BUF_OPS = [(0, "fetch_be16"), (1, "fetch_be32"), (2, "fetch_bytes"), (3, "fetch_bytes_dup"), (4, "fetch_str_dup"),
           (5, "fetch_bytes_into_buf"), (6, "consume"), (7, "consume_whitespace"), (8, "consume_nonwhitespace"),
           (9, "consume_line"), (10, "consume_until_charset"), (11, "consume_until_seq"), (12, "consume_charset"),
           (13, "tag_ops"), (14, "tag_fetch_bytes"), (15, "tag_fetch_string"), (16, "tag_fetch_strdup"),
           (17, "tag_fetch_constbuf"), (18, "peek_len_begins"), (19, "set_position"), (20, "parse_dns_binstr"),
           (21, "parse_dns_str")]
# OP 22 (ares_buf_split / split_str, harness code kept in buf_prim.c) is NOT registered: no verdict in 240 s even at
# L=1 (every section is a conditionally allocated ares_buf in a growing ares_array); it serves configuration parsing
# (C15), not DNS message decoding.


def buf_jobs(tier):
    J = []
    Ls = (0, 1, 2, 4, 6, 8) if tier == "quick" else tuple(range(0, 17))
    for L in Ls:
        sizes = sorted(set(list(range(1, L + 4)) + [32, 48]))
        for op, opname in BUF_OPS:
            if opname in ("consume_until_charset", "consume_charset") and L > (6 if tier == "quick" else 10):
                continue  # set-membership scans: 50 s at L=8 (charset of up to 3 symbolic bytes), super-linear beyond
            J.append(dict(name="buf_%s_L%d" % (opname, L), harness="buf_prim.c",
                          defines=["-DL=%d" % L, "-DOP=%d" % op, "-DVP_SIZES=%s" % ",".join(map(str, sizes))],
                          real=LIB, support=SUP, unwind=L + 8, leak=True,
                          **({"kf_group": "binstr_skip"} if opname == "parse_dns_binstr" else {}),
                          bound="read-only ares_buf over an exact-size %d-byte object with symbolic contents, any offset "
                                "0..%d, any tag; ONE %s with arbitrary arguments" % (L, L, opname)))
    return J


NAME_LIB = LIB + ["src/lib/record/ares_dns_name.c", "src/lib/str/ares_buf.c", "src/lib/dsa/ares_llist.c"]


SUP_POOL = ["vp_rt.c", "c02_alloc.c", "memloops.c", "c02_libc.c"]

# Name shapes.  Tokens: int n = concrete byte n (label length / terminator / pointer byte); "A" any byte;
# "P" plain hostname character; "O" printable, not hostname, not reserved; "R" reserved (needs a backslash);
# "N" non-printable (\DDD).  (name, start offset, tokens, expected verdict or None, tier)
K = {"A": 0, "P": 2, "O": 3, "R": 4, "N": 5}
NAME_SHAPES = [
    # plain label patterns, every content byte arbitrary (output length depends on the values)
    ("1x1", 0, [1, "A", 0], None, "quick"),
    ("1x3", 0, [3, "A", "A", "A", 0], None, "quick"),
    ("1x5", 0, [5, "A", "A", "A", "A", "A", 0], None, "quick"),
    ("2lab", 0, [2, "A", "A", 1, "A", 0], None, "quick"),
    ("3lab", 0, [1, "A", 1, "A", 1, "A", 0], None, "quick"),
    ("3lab2", 0, [2, "A", "A", 2, "A", "A", 2, "A", "A", 0], None, "quick"),
    ("root", 0, [0], 1, "quick"),
    # one escape class per position, longer text
    ("classes", 0, [2, ord("a"), "P", 2, "R", ord("b"), 2, "N", ord("c"), 0], 1, "quick"),
    ("other", 0, [2, "O", "P", 2, "N", "R", 0], 1, "quick"),
    ("classes8", 0, [3, "P", "P", "P", 3, "R", "R", "R", 2, "N", "N", 0], 1, "quick"),
    ("plain8", 0, [8] + [ord(c) for c in "abcdefgh"] + [3, "P", "P", "P", 0], 1, "quick"),
    # compression
    ("ptr", 3, [1, "A", 0, 1, "A", 0xC0, 0], None, "quick"),
    ("ptr_only", 3, [1, "A", 0, 0xC0, 0], None, "quick"),
    ("ptr_chain", 5, [1, "A", 0, 0xC0, 0, 1, "A", 0xC0, 3], None, "quick"),
    ("ptr_mid", 4, [2, "A", "A", 0, 1, "A", 0xC0, 1 - 1], None, "quick"),
    ("ptr_lowany", 3, [1, "P", 0, 0xC0, "A"], None, "quick-m0"),
    ("ptr_hiany", 3, [1, "P", 0, "A", 0], None, "quick-m0"),
    # the compression-pointer rule: every one of these must be REJECTED (never loop, never run forward)
    ("bad_self", 0, [0xC0, 0], 0, "quick"),
    ("bad_self_after_label", 0, [1, "A", 0xC0, 2], 0, "quick"),
    ("bad_into_own_label", 0, [1, "A", 0xC0, 1], 0, "quick"),
    ("bad_to_own_start", 0, [1, "A", 0xC0, 0], 0, "quick"),
    ("bad_forward", 0, [0xC0, 2, 1, "A", 0], 0, "quick"),
    ("bad_forward_via_earlier", 2, [0xC0, 4, 0xC0, 0, 1, "A", 0], 0, "quick"),
    ("bad_two_cycle", 2, [0xC0, 2, 0xC0, 0], 0, "quick"),
    ("bad_forward_after_back", 3, [0xC0, 2, 0, 0xC0, 0], 0, "quick"),
    ("bad_three_cycle", 4, [0xC0, 4, 0xC0, 0, 0xC0, 2], 0, "quick"),
    ("bad_past_end", 0, [0xC0, 9, 0], 0, "quick"),
    ("bad_trunc_label", 0, [3, "A", "A"], 0, "quick"),
    ("bad_trunc_ptr", 2, [0, 0, 0xC0], 0, "quick"),
    ("bad_resv40", 0, [0x40, "A", 0], 0, "quick"),
    ("bad_resv80", 0, [0x80, "A", 0], 0, "quick"),
    ("bad_noterm", 0, [1, "A", 1, "A"], 0, "quick"),
]


def shape_walk(toks, start):
    """(outer iterations, longest label) of the walk over a shape whose structural bytes are concrete; None if a head
    byte is symbolic."""
    L = len(toks)
    pos, mn, it, longest = start, start, 0, 0
    while it < 3 * L + 3:
        it += 1
        mn = min(mn, pos)
        if pos >= L:
            return it, longest
        c = toks[pos]
        if not isinstance(c, int):
            return None
        pos += 1
        if (c & 0xC0) == 0xC0:
            if pos >= L:
                return it, longest
            lo = toks[pos]
            if not isinstance(lo, int):
                return None
            pos += 1
            off = ((c & 0x3F) << 8) | lo
            if off >= mn:
                return it, longest
            pos = off
            continue
        if c & 0xC0 or c == 0:
            return it, longest
        longest = max(longest, min(c, L - pos))
        if pos + c > L:
            return it, longest
        pos += c
    return it, longest


def shape_cells(toks):
    return [(1, t) if isinstance(t, int) else (K[t], 0) for t in toks]


def name_loop_bound(L):
    """Unwinding bound of the label/pointer loop of ares_dns_name_parse on L arbitrary bytes.  Every head-byte position
    is visited at most once before a revisit, and a revisit replays a chain that must end at an already-taken pointer
    (target >= lowest label start => EBADNAME), so iterations <= L + L/2 + 1.  (L+2 is NOT enough from L=13 on: CBMC
    reports the unwinding assertion.)  The unwinding assertion proves the bound for each L."""
    return L + L // 2 + 2


def name_jobs(tier):
    J = []
    # arbitrary bytes, skip mode
    for L in (range(1, 9) if tier == "quick" else range(1, 13)):
        J.append(dict(name="name_skipref_L%d" % L, harness="name_parse.c",
                      defines=["-DL=%d" % L, "-DMODE=0", "-DREF=1", "-DVP_SIZES=%d,48" % L],
                      real=NAME_LIB, support=SUP, unwind=2 * L + 4, termination_loops=["ares_dns_name_parse.0"], unwindset=["ares_dns_name_parse.0:%d" % name_loop_bound(L)],
                      leak=True, witnesses=["end", "accepted", "rejected"],
                      bound="ares_dns_name_parse(name=NULL) on an exact-size %d-byte object, ALL bytes arbitrary, any start "
                            "offset 0..%d, both is_hostname values; main loop bound %d unwindings; verdict and end cursor compared with a "
                            "reference RFC 1035 walk (strictly backward pointers)" % (L, L, name_loop_bound(L))))
    for L in (range(9, 13) if tier == "quick" else range(9, 19)):
        J.append(dict(name="name_skip_L%d" % L, harness="name_parse.c",
                      defines=["-DL=%d" % L, "-DMODE=0", "-DREF=0", "-DVP_SIZES=%d,48" % L],
                      real=NAME_LIB, support=SUP, unwind=L + 4, termination_loops=["ares_dns_name_parse.0"], unwindset=["ares_dns_name_parse.0:%d" % name_loop_bound(L)],
                      leak=True, witnesses=["end", "accepted", "rejected"],
                      bound="ares_dns_name_parse(name=NULL) on an exact-size %d-byte object, ALL bytes arbitrary, any start "
                            "offset 0..%d, both is_hostname values; main loop bound %d unwindings; totality, bounds, status/"
                            "cursor consistency (no reference walk)" % (L, L, name_loop_bound(L))))
    # arbitrary bytes, output mode (escaped text is returned): tiny sizes only (output length is data-dependent)
    for L in ((1, 2, 3) if tier == "quick" else (1, 2, 3, 4)):
        J.append(dict(name="name_out_L%d" % L, harness="name_parse.c",
                      defines=["-DL=%d" % L, "-DMODE=1", "-DREF=1", "-DC02_ALLOC"],
                      real=NAME_LIB, support=SUP_POOL, unwind=5 * L + 8,
                      termination_loops=["ares_dns_name_parse.0"], unwindset=["ares_dns_name_parse.0:%d" % name_loop_bound(L),
                                 "ares_fetch_dnsname_into_buf.0:%d" % max(L, 2), "ares_buf_ensure_space.0:2"],
                      leak=True, witnesses=["end", "accepted", "rejected"], fs_array=8,
                      bound="ares_dns_name_parse(name!=NULL) on an exact-size %d-byte object, ALL bytes arbitrary, any start "
                            "offset, both is_hostname values; returned text compared with the reference escaper; freed, leak "
                            "check" % L))
    # shape-concrete names (label-length and pointer bytes concrete, content bytes symbolic), both modes
    for nm, start, toks, expect, tier_ in NAME_SHAPES:
        m0only = tier_.endswith("-m0")
        tier_ = tier_.split("-")[0]
        if tier == "quick" and tier_ != "quick":
            continue
        cells = shape_cells(toks)
        L = len(cells)
        nany = sum(1 for c in cells if c[0] != 1)
        variants = [(0, None)]
        if not m0only:
            variants += [(1, 0)] if (expect is not None or nany == 0) else [(1, 0), (1, 1)]
        w = shape_walk(toks, start)
        outer, inner = (w[0] + 2, w[1] + 2) if w else (name_loop_bound(L), max(L, 2))
        for mode, hn in variants:
            d = ["-DL=%d" % L, "-DMODE=%d" % mode, "-DREF=1", "-DSTART=%d" % start,
                 "-DSHAPE=" + ",".join("{%d,%d}" % c for c in cells)]
            wit = ["end"]
            if expect is not None:
                d += ["-DEXPECT=%d" % expect, "-DHOSTNAME=0"]
                wit.append("accepted" if expect else "rejected")
            elif hn is not None:
                d += ["-DHOSTNAME=%d" % hn]
            job = dict(name="name_shape_%s_m%d%s" % (nm, mode, "" if hn is None else "h%d" % hn), harness="name_parse.c",
                       real=NAME_LIB, unwind=5 * L + 8, leak=True, witnesses=wit,
                       unwindset=["ares_dns_name_parse.0:%d" % outer,
                                  "ares_fetch_dnsname_into_buf.0:%d" % inner, "ares_buf_ensure_space.0:2"],
                       bound="ares_dns_name_parse(%s) on the %d-byte shape [%s] from offset %d: length/pointer bytes "
                             "concrete, %d content bytes symbolic (class-restricted where the shape says so), is_hostname %s%s" %
                             ("name!=NULL" if mode else "name=NULL", L, " ".join(str(t) for t in toks), start, nany,
                              "symbolic" if (hn is None and expect is None) else str(hn or 0),
                              "" if expect is None else "; must be %s for every value" % ("accepted" if expect else "rejected")))
            if mode:
                job["defines"] = d + ["-DC02_ALLOC"]
                job["support"] = SUP_POOL
            else:
                job["defines"] = d + ["-DVP_SIZES=%d,48" % L]
                job["support"] = SUP
            J.append(job)
    return J


LEGACY_LIB = NAME_LIB + ["src/lib/legacy/ares_expand_name.c", "src/lib/legacy/ares_expand_string.c",
                         "src/lib/ares_free_string.c"]


def legacy_jobs(tier):
    J = []
    # ares_expand_name, s == NULL (skip; allowed by the API), arbitrary bytes, with the reference walk
    for L in (range(1, 9) if tier == "quick" else range(1, 13)):
        J.append(dict(name="expand_name_skip_L%d" % L, harness="name_parse.c",
                      defines=["-DL=%d" % L, "-DAPI=1", "-DMODE=0", "-DREF=1", "-DVP_SIZES=%d,48" % L],
                      real=LEGACY_LIB, support=SUP, unwind=2 * L + 4,
                      termination_loops=["ares_dns_name_parse.0"], unwindset=["ares_dns_name_parse.0:%d" % name_loop_bound(L)],
                      leak=True, witnesses=["end", "accepted", "rejected", "api-rejected"],
                      bound="ares_expand_name(abuf+off, abuf, alen, NULL, &enclen): abuf an exact-size %d-byte object, all "
                            "bytes arbitrary, off 0..%d (incl. one-past-end), alen == %d or any value <= 0; compared with the "
                            "reference walk" % (L, L, L)))
    # ares_expand_name returning the string: tiny sizes (output length is data dependent)
    for L in ((1, 2, 3) if tier == "quick" else (1, 2, 3, 4)):
        J.append(dict(name="expand_name_out_L%d" % L, harness="name_parse.c",
                      defines=["-DL=%d" % L, "-DAPI=1", "-DMODE=1", "-DREF=1", "-DC02_ALLOC"],
                      real=LEGACY_LIB, support=SUP_POOL, unwind=5 * L + 8,
                      termination_loops=["ares_dns_name_parse.0"], unwindset=["ares_dns_name_parse.0:%d" % name_loop_bound(L),
                                 "ares_fetch_dnsname_into_buf.0:%d" % max(L, 2), "ares_buf_ensure_space.0:2"],
                      leak=True, witnesses=["end", "accepted", "rejected", "api-rejected"], fs_array=8,
                      bound="ares_expand_name(..., &s, &enclen) on an exact-size %d-byte object, all bytes arbitrary, any "
                            "offset, alen == %d or <= 0; string compared with the reference escaper, freed with "
                            "ares_free_string" % (L, L)))
    for L in (range(1, 9) if tier == "quick" else range(1, 13)):
        J.append(dict(name="expand_string_L%d" % L, harness="expand_string.c",
                      defines=["-DL=%d" % L, "-DVP_SIZES=%s" % ",".join(str(x) for x in sorted(set([L, 32, 48])))],
                      real=LEGACY_LIB, support=SUP, unwind=max(L + 3, 5), kf_group="binstr_skip",
                      leak=True, witnesses=["end", "accepted", "rejected", "at-end"] if L > 1 else ["end", "accepted", "at-end"],
                      bound="ares_expand_string(abuf+off, abuf, alen, &s or NULL, &enclen): abuf an exact-size %d-byte object, "
                            "all bytes arbitrary, off 0..%d (incl. one-past-end), alen == %d or any value <= 0" % (L, L, L)))
    return J


RR_LIB = LIB + ["src/lib/record/ares_dns_record.c", "src/lib/record/ares_dns_mapping.c",
                "src/lib/record/ares_dns_multistring.c", "src/lib/record/ares_dns_name.c", "src/lib/str/ares_buf.c",
                "src/lib/dsa/ares_llist.c", "src/lib/record/ares_dns_write.c"]

A = "A"
NAME_B = [1, ord("b"), 0]
PTR0 = [0xC0, 0]
# (shape name, wire type, class (None = symbolic), section, exact RDATA tokens)
RR_SHAPES = [
    ("A", 1, 1, 1, [A] * 4),
    ("NS", 2, 1, 2, NAME_B),
    ("NS_ptr", 2, 1, 1, PTR0),
    ("CNAME", 5, 1, 1, NAME_B),
    ("SOA", 6, 1, 2, NAME_B + PTR0 + [A] * 20),
    ("PTR", 12, 1, 1, [1, ord("c"), 0xC0, 0]),
    ("HINFO", 13, 1, 1, [2, A, A, 1, A]),
    ("MX", 15, 1, 1, [A, A] + NAME_B),
    ("MX_ptr", 15, 1, 3, [A, A] + PTR0),
    ("TXT1", 16, 1, 1, [3, A, A, A]),
    ("TXT2", 16, 3, 1, [1, A, 2, A, A]),
    ("TXT3", 16, 1, 3, [0, 1, A, 2, A, A]),
    ("SIG", 24, 255, 3, [A] * 18 + NAME_B + [A] * 3),
    ("AAAA", 28, 1, 1, [A] * 16),
    ("SRV", 33, 1, 3, [A] * 6 + NAME_B),
    # NAPTR: a printable-validated string with symbolic bytes makes the cursor symbolic for everything after it
    # (CBMC merges the EBADSTR path), so only HINFO/CAA/URI keep symbolic string bytes; here they are concrete
    ("NAPTR", 35, 1, 1, [A, A, A, A, 1, ord("u"), 2, ord("s"), ord("v"), 0] + NAME_B),
    ("NAPTR_np", 35, 1, 1, [A, A, A, A, 1, ord("u"), 2, 7, ord("v"), 0] + NAME_B),
    ("OPT0", 41, None, 3, []),
    ("OPT1", 41, None, 3, [A, A, 0, 2, A, A]),
    ("OPT2", 41, None, 3, [A, A, 0, 0, A, A, 0, 1, A]),
    ("OPT3", 41, None, 3, [A, A, 0, 1, A, A, A, 0, 0]),   # an option with data FOLLOWED by an empty one (per-option state must not carry over)
    ("TLSA", 52, 1, 1, [A] * 7),
    ("SVCB0", 64, 1, 1, [A, A, 0]),
    ("SVCB1", 64, 1, 1, [A, A] + NAME_B + [A, A, 0, 2, A, A]),
    ("HTTPS2", 65, 1, 1, [A, A] + NAME_B + [A, A, 0, 1, A, A, A, 0, 0]),
    ("URI", 256, 1, 1, [A] * 4 + [A] * 3),
    ("CAA", 257, 1, 1, [A, 2, A, A, A, A, A]),
    ("ANY", 255, 1, 1, [A] * 2),
    ("UNK99", 99, 1, 1, [A] * 3),
    ("UNK99_badclass", 99, 7, 2, [A] * 3),
    ("A_badclass", 1, 7, 1, [A] * 4),
    ("A_classany", 1, 255, 1, [A] * 4),
]


RR_MUST_ACCEPT = set(n for n, t, c, s_, k in RR_SHAPES if n not in ("ANY", "A_badclass", "A_classany", "NAPTR_np"))
RR_VALUE_DEPENDENT = set(["HINFO", "CAA", "URI"])  # printable-validated symbolic strings: may be rejected
# bytes that follow the well-formed RDATA when more bytes are present than the shape has (default: arbitrary);
# TXT reads the first of them as a length byte when RDLENGTH says so: keep it concrete (sizes stay concrete)
RR_TRAIL = {"TXT1": [[1, A], [0, A]], "TXT2": [[1, A], [0, A]], "TXT3": [[2, A], [0, A]]}


def rr_jobs(tier):
    J = []
    for nm, rtype, rclass, sect, toks in RR_SHAPES:
        E = len(toks)
        variants = [(E, E), (E, E + 2), (E + 1, E), (E + 1, E + 2), (0, E), (0, 0)]
        if E > 0:
            variants += [(E - 1, E), (E - 1, E - 1)]
        if tier == "quick":
            variants = [(E, E), (E + 1, E + 2), (0, E)] + ([(E - 1, E)] if E > 0 else [])
            rawv = [(E, E), (0, E)] if nm in ("A", "NS", "SRV", "OPT1", "UNK99") else []
            if nm in ("A", "UNK99", "TXT1"):
                variants.append((E + 1, E))
        else:
            rawv = [(E, E), (0, E), (E + 1, E), (E + 1, E + 2)]
        runs = []
        for rdlen, nb in sorted(set(variants)):
            for ti, trail in enumerate(RR_TRAIL.get(nm, [[A, A]]) if nb > E else [[A, A]]):
                runs.append((rdlen, nb, 0, trail, "" if ti == 0 else "_t%d" % ti))
        runs += [(rdlen, nb, 0x3F, [A, A], "") for rdlen, nb in sorted(set(rawv))]
        for rdlen, nb, flags, trail, tsuf in runs:
            cells = [(1, t) if isinstance(t, int) else (0, 0) for t in (toks + trail)][:nb]
            d = ["-DRTYPE=%d" % rtype, "-DSECT=%d" % sect, "-DRDLEN=%d" % rdlen, "-DNB=%d" % nb, "-DFLAGS=%d" % flags,
                 "-DRD=" + ",".join("{%d,%d}" % c for c in cells)]
            d += ["-DRCLASS_ANY"] if rclass is None else ["-DRCLASS=%d" % rclass]
            wit = ["end"]
            if (rdlen, nb) == (E, E) and flags == 0 and nm in RR_MUST_ACCEPT:
                wit.append("ok")
                if nm not in RR_VALUE_DEPENDENT:
                    d.append("-DEXPECT_OK")
            if (rdlen, nb) == (E, E) and flags != 0:
                d.append("-DEXPECT_OK")
            J.append(dict(name="rr_%s%s_rdlen%d_nb%d%s" % (nm, "_raw" if flags else "", rdlen, nb, tsuf), harness="rr_parse.c",
                          defines=d, real=RR_LIB, support=SUP, unwind=max(26, nb + 4), leak=True, witnesses=wit,
                          kf_group="rr_parse",
                          bound="ares_dns_parse_rr on [01 'a' 00 | type %d | class %s | ttl symbolic | RDLENGTH %d | %d bytes: "
                                "%s], section %d, parse flags %s: embedded lengths/names concrete, values symbolic" %
                                (rtype, "symbolic" if rclass is None else rclass, rdlen, nb,
                                 " ".join(str(t) for t in (toks + trail)[:nb]), sect,
                                 "all *_RAW set (decoded as RAW_RR)" if flags else "0 (typed decoding)")))
    return J


PTRQ = [0xC0, 12]  # pointer to the question name
MSG_SHAPES = [
    ("A", 1, 1, 1, [A] * 4),
    ("NS_ptr", 2, 1, 2, PTRQ),
    ("MX", 15, 1, 1, [A, A] + NAME_B),
    ("SOA", 6, 1, 2, NAME_B + PTRQ + [A] * 20),
    ("TXT2", 16, 1, 1, [1, A, 2, A, A]),
    ("OPT1", 41, None, 3, [A, A, 0, 2, A, A]),
    ("SVCB1", 64, 1, 1, [A, A] + NAME_B + [A, A, 0, 2, A, A]),
    # tag concrete: a printable-validated symbolic string makes the status symbolic and the record's destructor chain
    # (run by ares_dns_parse_buf on failure) then case-splits without end (measured: no verdict in 240 s)
    ("CAA", 257, 1, 1, [A, 2, ord("i"), ord("s"), A, A, A]),
    ("UNK99", 99, 1, 3, [A] * 3),
]


def msg_jobs(tier):
    J = []
    for nm, rtype, rclass, sect, toks in MSG_SHAPES:
        E = len(toks)
        F = 31 + E
        if tier == "quick":
            mls = sorted(set([0, 11, 12, 18, 19, 21, 30, 31, F - 1, F]))
            if nm not in ("A", "MX", "OPT1", "UNK99"):
                mls = [19, F - 1, F]
        else:
            mls = list(range(0, F + 1))
        runs = [(ml, E, 0) for ml in mls] + [(F, E, 0x3F), (F, E + 1, 0), (F - 1, E, 0x3F)]
        if E > 0:
            runs.append((F, E - 1, 0))
        for ml, rdlen, flags in runs:
            cells = [(1, t) if isinstance(t, int) else (0, 0) for t in toks]
            d = ["-DRTYPE=%d" % rtype, "-DSECT=%d" % sect, "-DRDLEN=%d" % rdlen, "-DNB=%d" % E, "-DFLAGS=%d" % flags,
                 "-DML=%d" % ml, "-DRD=" + ",".join("{%d,%d}" % c for c in cells)]
            d += ["-DRCLASS_ANY"] if rclass is None else ["-DRCLASS=%d" % rclass]
            wit = ["end"]
            if ml < 31 + rdlen or rdlen > E:
                wit.append("err")
            elif ml == F and rdlen == E:
                wit.append("ok")
                d.append("-DEXPECT_OK")
            J.append(dict(name="msg_%s%s_rdlen%d_ml%d" % (nm, "_raw" if flags else "", rdlen, ml), harness="msg_parse.c",
                          defines=d, real=RR_LIB + ["src/lib/record/ares_dns_parse.c"], support=SUP,
                          unwind=max(26, F + 2), leak=True, witnesses=wit, kf_group="rr_parse",
                          bound="ares_dns_parse on the first %d of %d bytes of [id,flags symbolic | qd=1, one RR in section %d | "
                                "01 'a' 00 qtype symbolic IN | C0 0C type %d class %s ttl symbolic RDLENGTH %d | %s], parse "
                                "flags %s" % (ml, F, sect, rtype, "symbolic" if rclass is None else rclass, rdlen,
                                              " ".join(str(t) for t in toks), "all *_RAW" if flags else "0")))
    return J


def jobs(tier, seed):
    J = []
    J += buf_jobs(tier)
    J += name_jobs(tier)
    J += legacy_jobs(tier)
    J += rr_jobs(tier)
    J += msg_jobs(tier)
    for j in J:
        j.setdefault("mem_gb", 6)
    return J
