/* C02 / per-RR parser (S2a): the static ares_dns_parse_rr() and through it ares_dns_parse_rr_<type>,
 * on a real ares_buf over an EXACT-SIZE message fragment holding ONE resource record:
 *
 *     01 'a' 00 | TYPE(2) | CLASS(2) | TTL(4) | RDLENGTH(2) | RDATA bytes present (NB)
 *     ^offset 0 (owner name "a"; RDATA names may point back to it with C0 00)
 *
 *   -DRTYPE=n -DRCLASS=n   concrete wire type / class (RCLASS_ANY: class symbolic - OPT carries the UDP size there)
 *   -DRDLEN=n              concrete RDLENGTH field
 *   -DNB=n -DRD=...        number of bytes present after RDLENGTH and their cells {kind,val} (kind 1 = concrete,
 *                          0 = arbitrary byte): embedded length bytes / names are concrete, values symbolic
 *   -DSECT=1|2|3           section; -DFLAGS=n parse flags (default: symbolic, decides typed vs. RAW_RR decoding)
 *   -DEXPECT_OK            the job's shape must be accepted for every value of the symbolic bytes
 *   TTL is always symbolic.
 * Oracle: SUCCESS => exactly one RR in the section, cursor exactly at RDATA start + RDLENGTH (the
 * processed-length/RDLENGTH reconciliation), owner name "a", every key of the RR's type readable and well formed
 * (strings present and NUL terminated, binary values present with their recorded length readable, option values NUL
 * terminated, raw type recorded); error => cursor inside the buffer, at most one (half-filled) RR that
 * ares_dns_record_destroy() releases.  Always: no out-of-bounds access of the exact-size fragment, nothing leaked.
 * Real: ares_dns_parse.c (included), ares_dns_record.c, ares_dns_mapping.c, ares_dns_multistring.c, ares_dns_name.c,
 * ares_array.c, ares_buf.c, ares_str.c, ares_math.c, ares_library_init.c. */
#include "vp.h"
#include "record/ares_dns_parse.c"

#ifndef RTYPE
#  define RTYPE 1
#endif
#ifndef RCLASS
#  define RCLASS 1
#endif
#ifndef SECT
#  define SECT 1
#endif
#ifndef NB
#  define NB 4
#  define RD { 0, 0 }, { 0, 0 }, { 0, 0 }, { 0, 0 }
#  define RDLEN 4
#endif
#define HDR   13 /* owner name 3 + type 2 + class 2 + ttl 4 + rdlength 2 */
#define TOTAL (HDR + NB)
#define MAXSTR 24

typedef struct {
  unsigned char kind, val;
} cell_t;

#include "c02_rrcheck.h"

void harness(void)
{
  static const cell_t rd[NB + 1] = { RD };
  unsigned char      *msg;
  ares_buf_t         *buf;
  ares_dns_record_t  *rec = NULL;
  ares_status_t       st;
  unsigned int        flags;
  unsigned short      rclass;
  size_t              i, pos, cnt;

  vp_alloc_install();
  msg    = vp_malloc(TOTAL);
  msg[0] = 1;
  msg[1] = 'a';
  msg[2] = 0;
  msg[3] = (unsigned char)(RTYPE >> 8);
  msg[4] = (unsigned char)(RTYPE & 0xFF);
#ifdef RCLASS_ANY
  rclass = vp_u16();
#else
  rclass = RCLASS;
#endif
  msg[5]  = (unsigned char)(rclass >> 8);
  msg[6]  = (unsigned char)(rclass & 0xFF);
  msg[7]  = vp_u8();
  msg[8]  = vp_u8();
  msg[9]  = vp_u8();
  msg[10] = vp_u8();
  msg[11] = (unsigned char)(RDLEN >> 8);
  msg[12] = (unsigned char)(RDLEN & 0xFF);
  for (i = 0; i < NB; i++)
    msg[HDR + i] = rd[i].kind ? rd[i].val : vp_u8();
#ifdef FLAGS
  flags = FLAGS;
#else
  flags = vp_u8() & 0x3F;
#endif
  {
    /* known-finding hooks: an RR decoded as RAW_RR with RDLENGTH == 0 never gets its raw type recorded */
    int comp   = ares_dns_rec_allow_name_comp((ares_dns_rec_type_t)RTYPE) == ARES_TRUE;
    int rawbit = (SECT == 1) ? (comp ? 1 : 8) : (SECT == 2) ? (comp ? 2 : 16) : (comp ? 4 : 32);
    int israw  = !ares_dns_rec_type_isvalid((ares_dns_rec_type_t)RTYPE, ARES_FALSE) || (flags & (unsigned)rawbit) != 0;
    (void)israw;
#ifdef KF_rawrr_zero_rdlength
    VP_ASSUME(!(RDLEN == 0 && israw));
#endif
#ifdef KFONLY_rawrr_zero_rdlength
    VP_ASSUME(RDLEN == 0 && israw);
#endif
  }

  buf = ares_buf_create_const(msg, TOTAL);
  VP_ASSUME(buf != NULL);
  st = ares_dns_record_create(&rec, 0x1234, 0, ARES_OPCODE_QUERY, ARES_RCODE_NOERROR);
  VP_ASSUME(st == ARES_SUCCESS && rec != NULL);

  st  = ares_dns_parse_rr(buf, flags, (ares_dns_section_t)SECT, rec);
  pos = ares_buf_get_position(buf);
  cnt = ares_dns_record_rr_cnt(rec, (ares_dns_section_t)SECT);

  VP_ASSERT(pos <= TOTAL, "cursor stays inside the fragment");
#ifdef EXPECT_OK
  VP_ASSERT(st == ARES_SUCCESS, "a well-formed RR whose acceptance does not depend on symbolic bytes is accepted");
#endif
  if (st == ARES_SUCCESS) {
    VP_ASSERT(RDLEN <= NB, "success only when RDLENGTH bytes are really there");
    VP_ASSERT(pos == HDR + RDLEN, "on success the cursor is exactly RDLENGTH past the start of RDATA");
    VP_ASSERT(cnt == 1, "exactly one RR was added");
    check_rr(ares_dns_record_rr_get(rec, (ares_dns_section_t)SECT, 0), RTYPE);
    VP_WITNESS("ok");
  } else {
    VP_ASSERT(st == ARES_EBADRESP || st == ARES_EBADNAME || st == ARES_EBADSTR || st == ARES_EFORMERR,
              "failure is one of the parser's error codes (no allocation failure is injected)");
    VP_ASSERT(cnt <= 1, "at most the one (half-filled) RR remains for ares_dns_record_destroy()");
    VP_WITNESS("err");
  }
  VP_ASSERT(ares_dns_record_rr_cnt(rec, ARES_SECTION_ANSWER) + ares_dns_record_rr_cnt(rec, ARES_SECTION_AUTHORITY) +
                ares_dns_record_rr_cnt(rec, ARES_SECTION_ADDITIONAL) == cnt,
            "no RR in any other section");
  ares_dns_record_destroy(rec);
  ares_buf_destroy(buf);
  vp_free(msg);
  VP_WITNESS("end");
}
