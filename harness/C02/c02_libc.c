/* C02 helper: explicit-loop bodies for the libc search primitives the reader
 * layer calls (memmem has no CBMC model; memchr/memcmp as loops keep the
 * bounds checks on the exact-size input object).  Native builds use libc. */
#ifndef VP_NATIVE
#include <stddef.h>
void *memchr(const void *s, int c, size_t n)
{
  size_t i;
  for (i = 0; i < n; i++)
    if (((const unsigned char *)s)[i] == (unsigned char)c)
      return (void *)((const unsigned char *)s + i);
  return NULL;
}
int memcmp(const void *a, const void *b, size_t n)
{
  size_t i;
  for (i = 0; i < n; i++) {
    unsigned char x = ((const unsigned char *)a)[i], y = ((const unsigned char *)b)[i];
    if (x != y)
      return x < y ? -1 : 1;
  }
  return 0;
}
void *memmem(const void *big, size_t big_len, const void *little, size_t little_len)
{
  size_t i, j;
  if (little_len == 0)
    return (void *)big;
  if (big_len < little_len)
    return NULL;
  for (i = 0; i + little_len <= big_len; i++) {
    for (j = 0; j < little_len; j++)
      if (((const unsigned char *)big)[i + j] != ((const unsigned char *)little)[j])
        break;
    if (j == little_len)
      return (void *)((const unsigned char *)big + i);
  }
  return NULL;
}
#endif
