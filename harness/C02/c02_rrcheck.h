/* C02 shared oracle: "a successfully parsed RR is fully formed" - every key of the RR's type is readable and well
 * formed.  The includer defines RDLEN (the RR's RDLENGTH, bounds every variable-length value) and MAXSTR. */
#ifndef C02_RRCHECK_H
#define C02_RRCHECK_H
static void check_str(const char *s)
{
  size_t i;
  VP_ASSERT(s != NULL, "string/name field of a successfully parsed RR is present");
  for (i = 0; i < MAXSTR && s[i] != 0; i++)
    VP_ASSERT((unsigned char)s[i] >= 0x20 && (unsigned char)s[i] <= 0x7E, "string field is printable ASCII");
  VP_ASSERT(i < MAXSTR, "string field is NUL terminated within the fragment-derived bound");
}

static unsigned g_sum; /* forces every byte of the variable-length values to be read */

static void check_rr(const ares_dns_rr_t *rr, unsigned short wire_type)
{
  size_t                   nkeys = 0, k, i;
  ares_dns_rec_type_t      t     = ares_dns_rr_get_type(rr);
  const ares_dns_rr_key_t *keys  = ares_dns_rr_get_keys(t, &nkeys);
  const char              *nm    = ares_dns_rr_get_name(rr);

  VP_ASSERT(nm != NULL && nm[0] == 'a' && nm[1] == 0, "owner name decoded");
  VP_ASSERT(keys != NULL && nkeys >= 1 && nkeys <= 9, "record type has its key table");
  for (k = 0; k < nkeys; k++) {
    ares_dns_rr_key_t key = keys[k];
    switch (ares_dns_rr_key_datatype(key)) {
      case ARES_DATATYPE_INADDR:
        VP_ASSERT(ares_dns_rr_get_addr(rr, key) != NULL, "IPv4 address present");
        break;
      case ARES_DATATYPE_INADDR6:
        VP_ASSERT(ares_dns_rr_get_addr6(rr, key) != NULL, "IPv6 address present");
        break;
      case ARES_DATATYPE_U8:
        g_sum += ares_dns_rr_get_u8(rr, key);
        break;
      case ARES_DATATYPE_U16:
        g_sum += ares_dns_rr_get_u16(rr, key);
        break;
      case ARES_DATATYPE_U32:
        g_sum += ares_dns_rr_get_u32(rr, key);
        break;
      case ARES_DATATYPE_NAME:
      case ARES_DATATYPE_STR:
        check_str(ares_dns_rr_get_str(rr, key));
        break;
      case ARES_DATATYPE_BIN:
      case ARES_DATATYPE_BINP: {
        size_t               len = 0;
        const unsigned char *p   = ares_dns_rr_get_bin(rr, key, &len);
        if (key == ARES_RR_RAW_RR_DATA) {
          VP_ASSERT(len == RDLEN, "raw RR carries exactly RDLENGTH bytes");
          VP_ASSERT(len == 0 || p != NULL, "raw RR data present");
        } else {
          VP_ASSERT(p != NULL && len >= 1 && len <= RDLEN, "binary field present, length within RDLENGTH");
        }
        for (i = 0; i < len; i++)
          g_sum += p[i];
        if (key == ARES_RR_CAA_VALUE)
          VP_ASSERT(p[len] == 0, "CAA value is NUL terminated");
        break;
      }
      case ARES_DATATYPE_ABINP: {
        size_t cnt = ares_dns_rr_get_abin_cnt(rr, key), j;
        VP_ASSERT(cnt >= 1 && cnt <= RDLEN, "TXT has at least one string, no more than RDLENGTH");
        for (j = 0; j < cnt; j++) {
          size_t               len = 0;
          const unsigned char *p   = ares_dns_rr_get_abin(rr, key, j, &len);
          VP_ASSERT(p != NULL && len <= 255 && len < RDLEN + 1, "TXT string present, length within RDLENGTH");
          for (i = 0; i < len; i++)
            g_sum += p[i];
          VP_ASSERT(p[len] == 0, "TXT string is NUL terminated");
        }
        break;
      }
      case ARES_DATATYPE_OPT: {
        size_t cnt = ares_dns_rr_get_opt_cnt(rr, key), j;
        VP_ASSERT(cnt * 4 <= RDLEN, "each option/param takes at least 4 bytes of RDATA");
        for (j = 0; j < cnt; j++) {
          size_t               len = 0;
          const unsigned char *p   = NULL;
          g_sum += ares_dns_rr_get_opt(rr, key, j, &p, &len);
          VP_ASSERT(len <= RDLEN, "option length within RDLENGTH");
          VP_ASSERT((len == 0) == (p == NULL), "option value present iff non-empty");
          for (i = 0; i < len; i++)
            g_sum += p[i];
          if (len)
            VP_ASSERT(p[len] == 0, "option value is NUL terminated");
        }
        break;
      }
      default:
        VP_ASSERT(0, "unknown datatype in key table");
    }
  }
  if (t == ARES_REC_TYPE_RAW_RR) {
    VP_ASSERT(ares_dns_rr_get_u16(rr, ARES_RR_RAW_RR_TYPE) == wire_type, "raw RR records the wire type");
    VP_WITNESS("raw");
  } else {
    VP_ASSERT((unsigned)t == wire_type, "typed RR has the wire type");
    VP_WITNESS("typed");
  }
}

#endif
