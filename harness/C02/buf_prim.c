/* C02 / reader primitives (S1): ONE ares_buf read primitive from an ARBITRARY
 * read-only buffer state.  The data object is EXACTLY L bytes (vp_malloc(L)),
 * so any over-read is a CBMC bounds failure; offset is any value 0..L; the tag
 * is unset or any value (<= offset for the tag_fetch family, whose callers tag
 * and then only move forward).  L == 0 is the empty dynamic buffer of
 * ares_buf_create() (data == NULL).  Each primitive is compared with a plain
 * reference model written over the L bytes.
 * Real: whole src/lib/str/ares_buf.c (included), ares_str.c, ares_library_init.c, ares_math.c. */
#include "vp.h"
#include "str/ares_buf.c"

#ifndef L
#  define L 4
#endif
#ifndef OP
#  define OP 0
#endif

static unsigned char *g_data;
static unsigned char  g_shadow[L + 1];
static ares_buf_t    *g_buf;
static size_t         off0, tag0, rem0;

static int m_isprint(unsigned char c) { return c >= 0x20 && c <= 0x7E; }
static int m_isws(unsigned char c, int lf)
{
  return c == '\r' || c == '\t' || c == ' ' || c == '\v' || c == '\f' || (lf && c == '\n');
}

/* tagmode: 0 = unset or anything <= L; 1 = unset or <= offset */
static void arbitrary_buf(int tagmode)
{
  size_t i;
  g_buf = vp_malloc(sizeof(*g_buf));
  if (L > 0) {
    g_data = vp_malloc(L);
    vp_bytes(g_data, L);
    for (i = 0; i < L; i++)
      g_shadow[i] = g_data[i];
  } else {
    g_data = NULL;
  }
  g_buf->data          = g_data;
  g_buf->data_len      = L;
  g_buf->alloc_buf     = NULL;
  g_buf->alloc_buf_len = 0;
  off0                 = vp_range(0, L);
  tag0                 = vp_size();
  VP_ASSUME(tag0 == SIZE_MAX || tag0 <= (tagmode ? off0 : (size_t)L));
  g_buf->offset     = off0;
  g_buf->tag_offset = tag0;
  rem0              = L - off0;
}

/* frame: nothing but offset/tag may have changed, the input is untouched */
static void check_frame(void)
{
  size_t i;
  VP_ASSERT(g_buf->data == g_data && g_buf->data_len == L, "data pointer/length of a read-only buffer never change");
  VP_ASSERT(g_buf->alloc_buf == NULL && g_buf->alloc_buf_len == 0, "read primitives never allocate into the source buffer");
  VP_ASSERT(g_buf->offset <= L, "cursor stays within [0, data_len]");
  VP_ASSERT(ares_buf_len(g_buf) == L - g_buf->offset, "remaining length == data_len - offset");
  for (i = 0; i < L; i++)
    VP_ASSERT(g_data[i] == g_shadow[i], "input bytes are not modified");
}
#define UNCHANGED()    VP_ASSERT(g_buf->offset == off0, "failure leaves the cursor where it was")
#define TAG_KEPT()     VP_ASSERT(g_buf->tag_offset == tag0, "tag untouched")
#define ADVANCED(n)    VP_ASSERT(g_buf->offset == off0 + (n), "cursor advanced by exactly the consumed length")

static void finish(void)
{
  check_frame();
  VP_WITNESS("end");
  vp_free(g_data);
  vp_free(g_buf);
}

void harness(void)
{
  ares_status_t st;
  size_t        i;

  vp_alloc_install();

#if OP == 0 /* fetch_be16 */
  {
    unsigned short v0 = vp_u16(), v = v0;
    arbitrary_buf(0);
    st = ares_buf_fetch_be16(g_buf, &v);
    if (rem0 >= 2) {
      VP_ASSERT(st == ARES_SUCCESS, "be16 succeeds when 2 bytes remain");
      VP_ASSERT(v == (unsigned short)((g_shadow[off0] << 8) | g_shadow[off0 + 1]), "be16 value is big-endian bytes at the old cursor");
      ADVANCED(2);
      VP_WITNESS("ok");
    } else {
      VP_ASSERT(st == ARES_EBADRESP, "be16 fails with EBADRESP when fewer than 2 bytes remain");
      VP_ASSERT(v == v0, "failed fetch leaves the output untouched");
      UNCHANGED();
    }
    TAG_KEPT();
  }
#elif OP == 1 /* fetch_be32 */
  {
    unsigned int v0 = vp_u32(), v = v0;
    arbitrary_buf(0);
    st = ares_buf_fetch_be32(g_buf, &v);
    if (rem0 >= 4) {
      VP_ASSERT(st == ARES_SUCCESS, "be32 succeeds when 4 bytes remain");
      VP_ASSERT(v == (((unsigned int)g_shadow[off0] << 24) | ((unsigned int)g_shadow[off0 + 1] << 16) |
                      ((unsigned int)g_shadow[off0 + 2] << 8) | (unsigned int)g_shadow[off0 + 3]),
                "be32 value is big-endian bytes at the old cursor");
      ADVANCED(4);
      VP_WITNESS("ok");
    } else {
      VP_ASSERT(st == ARES_EBADRESP, "be32 fails with EBADRESP when fewer than 4 bytes remain");
      VP_ASSERT(v == v0, "failed fetch leaves the output untouched");
      UNCHANGED();
    }
    TAG_KEPT();
  }
#elif OP == 2 /* fetch_bytes */
  {
    unsigned char dst[L + 3], dst0[L + 3];
    size_t        len = vp_range(0, L + 2);
    vp_bytes(dst0, L + 3);
    for (i = 0; i < L + 3; i++)
      dst[i] = dst0[i];
    arbitrary_buf(0);
    st = ares_buf_fetch_bytes(g_buf, dst, len);
    if (len > 0 && len <= rem0) {
      VP_ASSERT(st == ARES_SUCCESS, "fetch_bytes succeeds when len bytes remain");
      for (i = 0; i < L + 3; i++)
        VP_ASSERT(dst[i] == (i < len ? g_shadow[off0 + i] : dst0[i]), "exactly len bytes from the old cursor are copied");
      ADVANCED(len);
      VP_WITNESS("ok");
    } else {
      VP_ASSERT(st == ARES_EBADRESP, "fetch_bytes rejects len == 0 and len > remaining");
      for (i = 0; i < L + 3; i++)
        VP_ASSERT(dst[i] == dst0[i], "failed fetch leaves the output untouched");
      UNCHANGED();
    }
    TAG_KEPT();
  }
#elif OP == 3 /* fetch_bytes_dup */
  {
    unsigned char *out = NULL;
    size_t         len = vp_range(0, L + 2);
    int            nt  = vp_bool();
    arbitrary_buf(0);
    st = ares_buf_fetch_bytes_dup(g_buf, len, nt ? ARES_TRUE : ARES_FALSE, &out);
    if (len > 0 && len <= rem0) {
      VP_ASSERT(st == ARES_SUCCESS && out != NULL, "fetch_bytes_dup succeeds when len bytes remain");
      for (i = 0; i < len; i++)
        VP_ASSERT(out[i] == g_shadow[off0 + i], "duplicate equals the bytes at the old cursor");
      if (nt)
        VP_ASSERT(out[len] == 0, "NUL terminated when requested");
#ifndef VP_NATIVE
      VP_ASSERT(__CPROVER_OBJECT_SIZE(out) == len + (nt ? 1 : 0), "duplicate has exactly the requested size");
#endif
      ADVANCED(len);
      ares_free(out);
      VP_WITNESS("ok");
    } else {
      VP_ASSERT(st == ARES_EBADRESP && out == NULL, "fetch_bytes_dup rejects len == 0 / len > remaining without a result");
      UNCHANGED();
    }
    TAG_KEPT();
  }
#elif OP == 4 /* fetch_str_dup */
  {
    char  *out = NULL;
    size_t len = vp_range(0, L + 2);
    int    pr  = 1;
    arbitrary_buf(0);
    st = ares_buf_fetch_str_dup(g_buf, len, &out);
    if (len > 0 && len <= rem0) {
      for (i = 0; i < len; i++)
        if (!m_isprint(g_shadow[off0 + i]))
          pr = 0;
      if (pr) {
        VP_ASSERT(st == ARES_SUCCESS && out != NULL, "fetch_str_dup succeeds on printable bytes");
        for (i = 0; i < len; i++)
          VP_ASSERT((unsigned char)out[i] == g_shadow[off0 + i], "string equals the bytes at the old cursor");
        VP_ASSERT(out[len] == 0, "string is NUL terminated");
        ADVANCED(len);
        ares_free(out);
        VP_WITNESS("ok");
      } else {
        VP_ASSERT(st == ARES_EBADSTR && out == NULL, "non-printable byte rejected with EBADSTR, no result");
        UNCHANGED();
        VP_WITNESS("badstr");
      }
    } else {
      VP_ASSERT(st == ARES_EBADRESP && out == NULL, "fetch_str_dup rejects len == 0 / len > remaining");
      UNCHANGED();
    }
    TAG_KEPT();
  }
#elif OP == 5 /* fetch_bytes_into_buf */
  {
    ares_buf_t *dest = ares_buf_create();
    size_t      len  = vp_range(0, L + 2);
    arbitrary_buf(0);
    st = ares_buf_fetch_bytes_into_buf(g_buf, dest, len);
    if (len > 0 && len <= rem0) {
      size_t               dl = 0;
      const unsigned char *dp = ares_buf_peek(dest, &dl);
      VP_ASSERT(st == ARES_SUCCESS, "fetch_bytes_into_buf succeeds when len bytes remain");
      VP_ASSERT(dl == len && dp != NULL, "destination grew by len");
      for (i = 0; i < len; i++)
        VP_ASSERT(dp[i] == g_shadow[off0 + i], "appended bytes equal the bytes at the old cursor");
      ADVANCED(len);
      VP_WITNESS("ok");
    } else {
      VP_ASSERT(st == ARES_EBADRESP, "fetch_bytes_into_buf rejects len == 0 / len > remaining");
      VP_ASSERT(ares_buf_len(dest) == 0, "destination untouched on failure");
      UNCHANGED();
    }
    TAG_KEPT();
    ares_buf_destroy(dest);
  }
#elif OP == 6 /* consume */
  {
    size_t len = vp_size();
    arbitrary_buf(0);
    st = ares_buf_consume(g_buf, len);
    if (len <= rem0) {
      VP_ASSERT(st == ARES_SUCCESS, "consume succeeds up to the remaining length");
      ADVANCED(len);
      VP_WITNESS("ok");
    } else {
      VP_ASSERT(st == ARES_EBADRESP, "consume beyond the end is rejected");
      UNCHANGED();
    }
    TAG_KEPT();
  }
#elif OP == 7 /* consume_whitespace */
  {
    int    lf = vp_bool();
    size_t n, want = 0;
    arbitrary_buf(0);
    n = ares_buf_consume_whitespace(g_buf, lf ? ARES_TRUE : ARES_FALSE);
    while (want < rem0 && m_isws(g_shadow[off0 + want], lf))
      want++;
    VP_ASSERT(n == want, "consume_whitespace returns the length of the whitespace run at the cursor");
    ADVANCED(want);
    TAG_KEPT();
  }
#elif OP == 8 /* consume_nonwhitespace */
  {
    size_t n, want = 0;
    arbitrary_buf(0);
    n = ares_buf_consume_nonwhitespace(g_buf);
    while (want < rem0 && !m_isws(g_shadow[off0 + want], 1))
      want++;
    VP_ASSERT(n == want, "consume_nonwhitespace returns the length of the non-whitespace run at the cursor");
    ADVANCED(want);
    TAG_KEPT();
  }
#elif OP == 9 /* consume_line */
  {
    int    lf = vp_bool();
    size_t n, want = 0;
    arbitrary_buf(0);
    n = ares_buf_consume_line(g_buf, lf ? ARES_TRUE : ARES_FALSE);
    while (want < rem0 && g_shadow[off0 + want] != '\n')
      want++;
    if (lf && want < rem0)
      want++;
    VP_ASSERT(n == want, "consume_line stops at (or just after) the first line feed");
    ADVANCED(want);
    TAG_KEPT();
  }
#elif OP == 10 || OP == 12 /* consume_until_charset / consume_charset */
  {
    unsigned char cs[3];
    size_t        cl  = vp_range(0, 3);
    int           req = vp_bool();
    size_t        n, want = 0;
    int           found = 0;
    vp_bytes(cs, 3);
    arbitrary_buf(0);
#  if OP == 10
    n = ares_buf_consume_until_charset(g_buf, cs, cl, req ? ARES_TRUE : ARES_FALSE);
    for (want = 0; want < rem0 && !found; want++) {
      size_t j;
      for (j = 0; j < cl; j++)
        if (g_shadow[off0 + want] == cs[j])
          found = 1;
      if (found)
        break;
    }
    if (cl == 0 || rem0 == 0) {
      VP_ASSERT(n == 0, "empty charset / empty buffer consumes nothing");
      UNCHANGED();
    } else if (req && !found) {
      VP_ASSERT(n == SIZE_MAX, "required delimiter missing is reported as SIZE_MAX");
      UNCHANGED();
    } else {
      VP_ASSERT(n == want, "consume_until_charset stops at the first byte of the set");
      ADVANCED(want);
      VP_WITNESS("ok");
    }
#  else
    (void)req;
    n = ares_buf_consume_charset(g_buf, cs, cl);
    if (cl != 0) {
      for (want = 0; want < rem0; want++) {
        size_t j;
        found = 0;
        for (j = 0; j < cl; j++)
          if (g_shadow[off0 + want] == cs[j])
            found = 1;
        if (!found)
          break;
      }
    }
    VP_ASSERT(n == want, "consume_charset consumes exactly the run of bytes in the set");
    ADVANCED(want);
#  endif
    TAG_KEPT();
  }
#elif OP == 11 /* consume_until_seq */
  {
    unsigned char sq[3];
    size_t        sl  = vp_range(0, 3);
    int           req = vp_bool();
    size_t        n, want, j;
    int           found = 0;
    vp_bytes(sq, 3);
    arbitrary_buf(0);
    n = ares_buf_consume_until_seq(g_buf, sq, sl, req ? ARES_TRUE : ARES_FALSE);
    for (want = 0; sl > 0 && want + sl <= rem0; want++) {
      for (j = 0; j < sl; j++)
        if (g_shadow[off0 + want + j] != sq[j])
          break;
      if (j == sl) {
        found = 1;
        break;
      }
    }
    if (sl == 0 || rem0 == 0) {
      VP_ASSERT(n == 0, "empty sequence / empty buffer consumes nothing");
      UNCHANGED();
    } else if (!found) {
      if (req) {
        VP_ASSERT(n == SIZE_MAX, "required sequence missing is reported as SIZE_MAX");
        UNCHANGED();
      } else {
        VP_ASSERT(n == rem0, "sequence missing: everything consumed");
        ADVANCED(rem0);
      }
    } else {
      VP_ASSERT(n == want, "consume_until_seq stops at the first occurrence");
      ADVANCED(want);
      VP_WITNESS("ok");
    }
    TAG_KEPT();
  }
#elif OP == 13 /* tag / rollback / clear / length / fetch */
  {
    unsigned sub = vp_range(0, 4);
    arbitrary_buf(1);
    switch (sub) {
      case 0:
        ares_buf_tag(g_buf);
        VP_ASSERT(g_buf->tag_offset == off0, "tag records the cursor");
        UNCHANGED();
        break;
      case 1:
        st = ares_buf_tag_rollback(g_buf);
        if (tag0 == SIZE_MAX) {
          VP_ASSERT(st == ARES_EFORMERR, "rollback without a tag is rejected");
          UNCHANGED();
        } else {
          VP_ASSERT(st == ARES_SUCCESS && g_buf->offset == tag0, "rollback restores the tagged cursor");
          VP_WITNESS("ok");
        }
        VP_ASSERT(g_buf->tag_offset == SIZE_MAX, "rollback clears the tag");
        break;
      case 2:
        st = ares_buf_tag_clear(g_buf);
        VP_ASSERT((st == ARES_SUCCESS) == (tag0 != SIZE_MAX), "tag_clear succeeds iff a tag was set");
        VP_ASSERT(g_buf->tag_offset == SIZE_MAX, "tag_clear clears the tag");
        UNCHANGED();
        break;
      case 3:
        VP_ASSERT(ares_buf_tag_length(g_buf) == (tag0 == SIZE_MAX ? 0 : off0 - tag0), "tag_length == cursor - tag");
        UNCHANGED();
        TAG_KEPT();
        break;
      default: {
        size_t               tl = 77;
        const unsigned char *p  = ares_buf_tag_fetch(g_buf, &tl);
        if (tag0 == SIZE_MAX) {
          VP_ASSERT(p == NULL, "tag_fetch without a tag returns NULL");
        } else {
          VP_ASSERT(p == g_data + tag0 && tl == off0 - tag0, "tag_fetch returns [tag, cursor)");
          VP_ASSERT(tag0 + tl <= L, "tagged range lies inside the data");
        }
        UNCHANGED();
        TAG_KEPT();
        break;
      }
    }
  }
#elif OP == 14 /* tag_fetch_bytes */
  {
    unsigned char dst[L + 2], dst0[L + 2];
    size_t        cap = vp_range(0, L + 1), len = cap, tl;
    vp_bytes(dst0, L + 2);
    for (i = 0; i < L + 2; i++)
      dst[i] = dst0[i];
    arbitrary_buf(1);
    tl = off0 - tag0;
    st = ares_buf_tag_fetch_bytes(g_buf, dst, &len);
    if (tag0 != SIZE_MAX && g_data != NULL && cap >= tl) {
      VP_ASSERT(st == ARES_SUCCESS && len == tl, "tag_fetch_bytes returns the tagged length");
      for (i = 0; i < L + 2; i++)
        VP_ASSERT(dst[i] == (i < tl ? g_shadow[tag0 + i] : dst0[i]), "exactly the tagged bytes are copied");
      VP_WITNESS("ok");
    } else {
      VP_ASSERT(st == ARES_EFORMERR, "no tag / too small output is rejected");
      VP_ASSERT(len == cap, "capacity untouched on failure");
      for (i = 0; i < L + 2; i++)
        VP_ASSERT(dst[i] == dst0[i], "output untouched on failure");
    }
    UNCHANGED();
    TAG_KEPT();
  }
#elif OP == 15 /* tag_fetch_string */
  {
    char   s[L + 3];
    size_t cap = vp_range(0, L + 2), tl;
    int    pr  = 1;
    for (i = 0; i < L + 3; i++)
      s[i] = 0x55;
    arbitrary_buf(1);
    tl = off0 - tag0;
    st = ares_buf_tag_fetch_string(g_buf, s, cap);
    VP_ASSERT(s[L + 2] == 0x55, "nothing written beyond the stated capacity");
    for (i = cap; i < L + 3; i++)
      VP_ASSERT(s[i] == 0x55, "nothing written at or beyond index cap");
    if (tag0 != SIZE_MAX && g_data != NULL && cap > 0 && cap - 1 >= tl) {
      for (i = 0; i < tl; i++)
        if (!m_isprint(g_shadow[tag0 + i]))
          pr = 0;
      VP_ASSERT(s[tl] == 0, "string NUL terminated at the tagged length");
      if (pr) {
        VP_ASSERT(st == ARES_SUCCESS, "printable tagged data is returned as a string");
        for (i = 0; i < tl; i++)
          VP_ASSERT((unsigned char)s[i] == g_shadow[tag0 + i], "string equals tagged bytes");
        VP_WITNESS("ok");
      } else {
        VP_ASSERT(st == ARES_EBADSTR, "non-printable tagged data rejected with EBADSTR");
      }
    } else {
      VP_ASSERT(st == ARES_EFORMERR, "no tag / no room for data+NUL is rejected");
    }
    UNCHANGED();
    TAG_KEPT();
  }
#elif OP == 16 /* tag_fetch_strdup */
  {
    char  *out = NULL;
    size_t tl;
    int    pr = 1;
    arbitrary_buf(1);
    tl = off0 - tag0;
    st = ares_buf_tag_fetch_strdup(g_buf, &out);
    if (tag0 != SIZE_MAX && g_data != NULL) {
      for (i = 0; i < tl; i++)
        if (!m_isprint(g_shadow[tag0 + i]))
          pr = 0;
      if (pr) {
        VP_ASSERT(st == ARES_SUCCESS && out != NULL, "printable tagged data is duplicated");
        for (i = 0; i < tl; i++)
          VP_ASSERT((unsigned char)out[i] == g_shadow[tag0 + i], "string equals tagged bytes");
        VP_ASSERT(out[tl] == 0, "string NUL terminated");
        ares_free(out);
        VP_WITNESS("ok");
      } else {
        VP_ASSERT(st == ARES_EBADSTR && out == NULL, "non-printable tagged data rejected, no result");
      }
    } else {
      VP_ASSERT(st == ARES_EFORMERR && out == NULL, "no tag is rejected, no result");
    }
    UNCHANGED();
    TAG_KEPT();
  }
#elif OP == 17 /* tag_fetch_constbuf */
  {
    ares_buf_t *nb = NULL;
    size_t      tl;
    arbitrary_buf(1);
    tl = off0 - tag0;
    st = ares_buf_tag_fetch_constbuf(g_buf, &nb);
    if (tag0 != SIZE_MAX && g_data != NULL && tl > 0) {
      VP_ASSERT(st == ARES_SUCCESS && nb != NULL, "non-empty tagged range yields a view buffer");
      VP_ASSERT(nb->data == g_data + tag0 && nb->data_len == tl && nb->offset == 0 && nb->alloc_buf == NULL,
                "view covers exactly [tag, cursor)");
      VP_ASSERT(tag0 + tl <= L, "view lies inside the data");
      ares_buf_destroy(nb);
      VP_WITNESS("ok");
    } else {
      VP_ASSERT(st != ARES_SUCCESS && nb == NULL, "no tag / empty range yields no buffer");
    }
    UNCHANGED();
    TAG_KEPT();
  }
#elif OP == 18 /* peek / peek_byte / len / begins_with / get_position */
  {
    unsigned      sub = vp_range(0, 3);
    unsigned char pf[3];
    vp_bytes(pf, 3);
    arbitrary_buf(0);
    switch (sub) {
      case 0: {
        size_t               pl = 77;
        const unsigned char *p  = ares_buf_peek(g_buf, &pl);
        VP_ASSERT(pl == rem0, "peek reports the remaining length");
        VP_ASSERT(p == (rem0 ? g_data + off0 : NULL), "peek returns the cursor address, NULL when empty");
        break;
      }
      case 1: {
        unsigned char b0 = vp_u8(), b = b0;
        st               = ares_buf_peek_byte(g_buf, &b);
        if (rem0) {
          VP_ASSERT(st == ARES_SUCCESS && b == g_shadow[off0], "peek_byte returns the byte at the cursor");
        } else {
          VP_ASSERT(st == ARES_EBADRESP && b == b0, "peek_byte on an exhausted buffer fails");
        }
        break;
      }
      case 2:
        VP_ASSERT(ares_buf_len(g_buf) == rem0 && ares_buf_get_position(g_buf) == off0, "len/position report the state");
        break;
      default: {
        size_t      pl = vp_range(0, 3), j;
        int         eq = 1;
        ares_bool_t r  = ares_buf_begins_with(g_buf, pf, pl);
        if (pl == 0 || pl > rem0) {
          eq = 0;
        } else {
          for (j = 0; j < pl; j++)
            if (g_shadow[off0 + j] != pf[j])
              eq = 0;
        }
        VP_ASSERT((r == ARES_TRUE) == (eq == 1), "begins_with compares exactly the prefix at the cursor");
        break;
      }
    }
    UNCHANGED();
    TAG_KEPT();
  }
#elif OP == 19 /* set_position */
  {
    size_t idx = vp_size();
    arbitrary_buf(0);
    st = ares_buf_set_position(g_buf, idx);
    if (idx <= L) {
      VP_ASSERT(st == ARES_SUCCESS && g_buf->offset == idx, "set_position accepts any index up to data_len");
      VP_WITNESS("ok");
    } else {
      VP_ASSERT(st == ARES_EFORMERR, "set_position beyond data_len is rejected");
      UNCHANGED();
    }
    TAG_KEPT();
  }
#elif OP == 20 || OP == 21 /* parse_dns_binstr / parse_dns_str */
  {
    unsigned char *bin    = NULL;
    size_t         binlen = 777;
    size_t         rl     = vp_size(); /* caller's idea of the remaining RDATA length: arbitrary */
    int            want   = vp_bool(); /* binstr only: caller wants the data or just skips it */
    arbitrary_buf(0);
    /* known-finding hooks (see known_findings.json): skip mode (bin == NULL) leaks the scratch ares_buf */
#  ifdef KF_binstr_skip_leak
    VP_ASSUME(want);
#  endif
#  ifdef KFONLY_binstr_skip_leak
    VP_ASSUME(!want);
#  endif
#  if OP == 20
    st = ares_buf_parse_dns_binstr(g_buf, rl, want ? &bin : NULL, &binlen);
#  else
    want = 1;
    st   = ares_buf_parse_dns_str(g_buf, rl, (char **)&bin);
#  endif
    if (rl == 0 || rem0 == 0) {
      VP_ASSERT(st == ARES_EBADRESP && bin == NULL, "nothing to read: EBADRESP, no result");
      UNCHANGED();
    } else {
      size_t n  = g_shadow[off0];
      int    pr = 1;
      for (i = 0; i < n && off0 + 1 + i < L; i++)
        if (!m_isprint(g_shadow[off0 + 1 + i]))
          pr = 0;
      if (n > rl - 1 || n > rem0 - 1) {
        VP_ASSERT(st != ARES_SUCCESS && bin == NULL, "length byte exceeding the record or the buffer is rejected, no result");
        VP_WITNESS("toolong");
      } else if (OP == 21 && !pr) {
        VP_ASSERT(st == ARES_EBADSTR && bin == NULL, "non-printable character string rejected, no result");
      } else {
        VP_ASSERT(st == ARES_SUCCESS, "well-formed <character-string> accepted");
        ADVANCED(1 + n);
        if (want) {
          VP_ASSERT(bin != NULL, "result returned");
#  if OP == 20
          VP_ASSERT(binlen == n, "reported length equals the length byte");
#  endif
          for (i = 0; i < n; i++)
            VP_ASSERT(bin[i] == g_shadow[off0 + 1 + i], "result equals the bytes after the length byte");
          VP_ASSERT(bin[n] == 0, "result is NUL terminated");
          ares_free(bin);
        }
        VP_WITNESS("ok");
      }
    }
    TAG_KEPT();
  }
#elif OP == 22 /* split (arbitrary delimiters/flags) + split_str */
  {
    unsigned char dl[2];
    size_t        dn    = vp_range(1, 2);
    unsigned      flags = vp_u8() & 0x3F;
    size_t        maxs  = vp_range(0, 3);
    int           how   = vp_bool();
    vp_bytes(dl, 2);
    arbitrary_buf(0);
    if (how) {
      ares_array_t *arr = NULL;
      st                = ares_buf_split(g_buf, dl, dn, (ares_buf_split_t)flags, maxs, &arr);
      if (st == ARES_SUCCESS) {
        size_t k, n = ares_array_len(arr);
        VP_ASSERT(arr != NULL, "success returns an array");
        VP_ASSERT(n <= rem0 + 1 && (maxs == 0 || n <= maxs), "section count bounded by input length and max_sections");
        for (k = 0; k < n; k++) {
          ares_buf_t **pb = ares_array_at(arr, k);
          ares_buf_t  *sb = *pb;
          VP_ASSERT(sb != NULL, "section buffer present");
          if (sb->data_len != 0) {
            VP_ASSERT(sb->data >= g_data + off0 && sb->data + sb->data_len <= g_data + L, "section is a view inside the unread input");
          }
        }
        VP_ASSERT(g_buf->offset == L, "split consumes the whole remaining input");
        ares_array_destroy(arr);
        VP_WITNESS("ok");
      } else {
        VP_ASSERT(arr == NULL, "failure returns no array");
      }
    } else {
      char **strs = NULL;
      size_t n    = 77, k;
      st          = ares_buf_split_str(g_buf, dl, dn, (ares_buf_split_t)flags, maxs, &strs, &n);
      if (st == ARES_SUCCESS) {
        VP_ASSERT(n <= rem0 + 1, "string count bounded by input length");
        VP_ASSERT(n == 0 || strs != NULL, "strings returned");
        for (k = 0; k < n; k++) {
          VP_ASSERT(strs[k] != NULL, "each string present");
          ares_free(strs[k]);
        }
        ares_free(strs);
      } else {
        VP_ASSERT(strs == NULL && n == 0, "failure returns nothing");
      }
    }
  }
#else
#  error "unknown OP"
#endif
  finish();
}
