OUTSIDE = "wall-clock behaviour; tries/timeouts above INT_MAX (not accepted by the option parser); server counts above 16 for the timeout kernel"
ASSUMPTIONS = ["budget theorem (DESIGN C06): every transmission happens in one ares_send_query level (sendquery.c: at most one per level); each level is entered either first, or after try_count+1 (requeue_step.c, timeouts_step.c, sendquery.c failure paths), or through the read loop's deferred list for one EDNS downgrade / one TCP upgrade (answer_step.c: neither can repeat) or a BADCOOKIE resend (C17: at most 3) - hence tx <= servers*tries + 1 + 1 + 3", "clock values within [0, 2^40] seconds", "ares_rand_bytes returns arbitrary bytes", "server count is an arbitrary value in 1..16"]

import os, sys
sys.path.insert(0, os.path.join(os.path.dirname(os.path.abspath(__file__)), "..", "machine"))
import mjobs

def jobs(tier, seed):
    J = []
    J.append(dict(name="timeout_calc", harness="timeout_calc.c", real=["src/lib/ares_metrics.c"], unwind=8,
                  cbmc=["--conversion-check"], support=["vp_rt.c"],
                  bound="all timeout in 1..INT_MAX, maxtimeout in 0..INT_MAX, tries in 1..INT_MAX, servers 1..16, "
                        "try_count < servers*tries, arbitrary metrics buckets, arbitrary jitter; one call"))
    J += mjobs.requeue_jobs(tier)
    J += mjobs.flush_requeue_jobs(tier)
    J += [j for j in mjobs.answer_jobs(tier, owner=False) if j["name"].endswith("current")]
    # "three bad-cookie resends": bounded by cookie_try_count in the real ares_cookie_validate (C17's validate jobs)
    import importlib.util
    p17 = os.path.join(os.path.dirname(os.path.abspath(__file__)), "..", "C17", "jobs.py")
    spec = importlib.util.spec_from_file_location("jobs_C17_reuse6", p17)
    m17 = importlib.util.module_from_spec(spec); spec.loader.exec_module(m17)
    for j in m17.jobs(tier, 0):
        if "validate" in j["name"]:
            j = dict(j); j["harness"] = "../C17/" + j["harness"]
            J.append(j)
    return J
