OUTSIDE = "wall-clock behaviour; tries/timeouts above INT_MAX (not accepted by the option parser); server counts above 16 for the timeout kernel"
ASSUMPTIONS = ["clock values within [0, 2^40] seconds", "ares_rand_bytes returns arbitrary bytes", "server count is an arbitrary value in 1..16"]

def jobs(tier, seed):
    J = []
    J.append(dict(name="timeout_calc", harness="timeout_calc.c", real=["src/lib/ares_metrics.c"], unwind=8,
                  cbmc=["--conversion-check"], support=["vp_rt.c"],
                  bound="all timeout in 1..INT_MAX, maxtimeout in 0..INT_MAX, tries in 1..INT_MAX, servers 1..16, "
                        "try_count < servers*tries, arbitrary metrics buckets, arbitrary jitter; one call"))
    return J
