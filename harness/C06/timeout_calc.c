/* C06: ares_calc_query_timeout() + ares_metrics_server_timeout() + timeadd()/ares_timedout()
 * for ALL legal option values, try counts, metrics histories and jitter draws.
 * Real: the static functions of ares_process.c (TU included), whole ares_metrics.c.
 * Stubs: ares_slist_len (server count = symbolic), ares_rand_bytes (arbitrary bytes). */
#include "vp.h"
#include "ares_process.c"

static size_t g_nservers;
size_t ares_slist_len(const ares_slist_t *l)
{
  (void)l;
  return g_nservers;
}
void ares_rand_bytes(ares_rand_state *s, unsigned char *buf, size_t len)
{
  (void)s;
  vp_bytes(buf, len);
}

void harness(void)
{
  static ares_channel_t ch;
  static ares_server_t  sv;
  static ares_query_t   q;
  ares_timeval_t        now;
  size_t                base, r, tries, i;

  ch.timeout    = vp_range(1, 0x7fffffff);
  ch.maxtimeout = vp_range(0, 0x7fffffff);
  tries         = vp_range(1, 0x7fffffff);
  g_nservers    = vp_range(1, 16);
  sv.channel    = &ch;
  q.channel     = &ch;
  q.try_count   = vp_size();
  VP_ASSUME(q.try_count < g_nservers * tries); /* ares_requeue_query's budget check */
  now.sec  = (ares_int64_t)vp_range(0, (size_t)1 << 40);
  now.usec = (unsigned int)vp_range(0, 999999);
  for (i = 0; i < ARES_METRIC_COUNT; i++) {
    sv.metrics[i].ts               = (time_t)vp_range(0, (size_t)1 << 40);
    sv.metrics[i].prev_ts          = (time_t)vp_range(0, (size_t)1 << 40);
    sv.metrics[i].total_ms         = vp_u64();
    sv.metrics[i].total_count      = vp_u64();
    sv.metrics[i].prev_total_ms    = vp_u64();
    sv.metrics[i].prev_total_count = vp_u64();
  }

  base = ares_metrics_server_timeout(&sv, &now);
  VP_ASSERT(base >= 1, "base timeout is never zero");
  if (ch.maxtimeout != 0) {
    VP_ASSERT(base <= ch.maxtimeout, "base timeout respects the configured maximum");
  } else {
    VP_ASSERT(base >= 250 && base <= 5000, "base timeout within [250ms floor, 5000ms default cap]");
  }

  r = ares_calc_query_timeout(&q, &sv, &now);
  VP_ASSERT(r >= base, "attempt waits no less than the configured/learned base timeout");
  if (ch.maxtimeout != 0) {
    VP_ASSERT(r <= ch.maxtimeout, "attempt waits no more than the configured maximum");
  }
  if (q.try_count / g_nservers == 0) {
    VP_ASSERT(r == base, "first round uses the base timeout unchanged");
  }
  if (q.try_count / g_nservers >= 64) VP_WITNESS("64 or more rounds");

  /* deadline arithmetic as done by ares_send_query(): now + timeplus */
  {
    ares_timeval_t dl = now;
    timeadd(&dl, r);
    VP_ASSERT(dl.usec < 1000000, "deadline microseconds normalised");
    VP_ASSERT(ares_timedout(&now, &dl) == ARES_FALSE || r == 0, "a fresh deadline is not already expired");
    VP_ASSERT(ares_timedout(&dl, &dl) == ARES_TRUE, "a query is expired exactly at its deadline");
  }
  VP_WITNESS("end");
}
