import os, sys
sys.path.insert(0, os.path.join(os.path.dirname(os.path.abspath(__file__)), "..", "C01"))
import importlib, compound_jobs
importlib.reload(compound_jobs)
OUTSIDE = ""
ASSUMPTIONS = compound_jobs.ASSUMPTIONS
def jobs(tier, seed):
    J = compound_jobs.jobs(tier)
    for j in J:
        j["harness"] = "../C01/" + j["harness"]
    return J
