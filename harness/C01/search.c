/* C01/C12: search request life-cycle, ONE step (inductive over the candidate walk).
 * Real: whole ares_search.c (included): ares_search_dnsrec, ares_search_int, ares_search_next, search_callback,
 * end_squery, squery_free, ares_search_name_list, ares_cat_domain ...
 * Entry 0: ares_search_dnsrec() from scratch.  Entry 1: search_callback() delivering the completion of candidate
 * number next_name_idx-1 (any index) with any status / rcode / answer count.
 * Contract stub: ares_send_nolock obeying G-send (the real one is checked against G-send in send_early.c):
 *   - it ALWAYS reports failure through the callback before returning a failure status (any status 1..24,
 *     including ARES_EFORMERR), and may complete synchronously with success (cache hit), or stay pending.
 *   - the callback it invokes is search_callback itself; its effect is abstracted by the induction hypothesis
 *     "a nested search_callback either completes the search exactly once (user callback, state freed) or leaves
 *     exactly one request pending": a hard status completes, a soft one may do either. */
#include "vp.h"
#include "ares_search.c"
#include "dnsrec_abs.h"

#ifndef ND
#  define ND 2 /* search domains */
#endif

static int                  user_cb_count;
static ares_status_t        user_status;
static int                  pending;      /* outstanding wire requests of this search */
static int                  sends;        /* ares_send_nolock calls in this step */
static char                 sent_name[16];
static int                  nested_completed;
static struct search_query *pending_sq;   /* search state owned by the outstanding request */

ares_bool_t ares_is_onion_domain(const char *name) { (void)name; return ARES_FALSE; }

static void user_cb(void *arg, ares_status_t status, size_t timeouts, const ares_dns_record_t *dnsrec)
{
  (void)arg; (void)timeouts; (void)dnsrec;
  user_cb_count++;
  VP_ASSERT(user_cb_count == 1, "search completion callback invoked at most once");
  user_status = status;
}

static int is_soft(ares_status_t st, const char *name)
{
  if (st == ARES_ENODATA || st == ARES_ENOTFOUND) return 1;
  if ((st == ARES_ESERVFAIL || st == ARES_EREFUSED) && ares_name_label_cnt(name) == 1) return 1;
  return 0;
}

/* induction hypothesis for the nested search_callback(squery, st, ...) */
static void nested_callback_effect(struct search_query *squery, ares_status_t st, const char *cand)
{
  int completes = !is_soft(st, cand) || vp_bool();
  if (completes) {
    nested_completed = 1;
    squery->callback(squery->arg, is_soft(st, cand) ? (ares_status_t)vp_range(1, 24) : st, 0, NULL);
    squery_free(squery);
  } else {
    pending++;
    pending_sq = squery;
  }
}

ares_status_t ares_send_nolock(ares_channel_t *channel, ares_server_t *server, ares_send_flags_t flags,
                               const ares_dns_record_t *dnsrec, ares_callback_dnsrec callback, void *arg,
                               unsigned short *qid)
{
  unsigned    mode = vp_u8();
  const char *n    = NULL;
  size_t      i;
  (void)channel; (void)server; (void)flags; (void)qid;
  VP_ASSERT(callback == search_callback, "search sends with its own completion handler");
  ares_dns_record_query_get(dnsrec, 0, &n, NULL, NULL);
  for (i = 0; i < 15 && n[i] != 0; i++)
    sent_name[i] = n[i];
  sent_name[i] = 0;
  sends++;
  if (mode == 0) { /* failure: callback invoked (abstractly), same status returned */
    ares_status_t st = (ares_status_t)vp_range(1, 24);
    nested_callback_effect(arg, st, sent_name);
    return st;
  }
  if (mode == 1) { /* answered synchronously from the cache: nested callback with a record */
    ares_status_t o = (ares_status_t)vp_range(0, 24);
    nested_callback_effect(arg, o, sent_name);
    return ARES_SUCCESS;
  }
  pending++;
  pending_sq = arg;
  return ARES_SUCCESS;
}

static int str_eq(const char *a, const char *b)
{
  size_t i;
  for (i = 0; i < 16; i++) {
    if (a[i] != b[i]) return 0;
    if (a[i] == 0) return 1;
  }
  return 1;
}

void harness(void)
{
  static ares_channel_t ch;
  static char          *domains[2];
  static char           d0[] = "x", d1[] = "y.z";
  static const char    *names[] = { "a", "a.b", "a." };
  const char           *name = names[NAME_IDX];
  ares_dns_record_t    *req;

  vp_alloc_install();
  domains[0]  = d0;
  domains[1]  = d1;
  ch.domains  = domains;
  ch.ndomains = ND;
  ch.ndots    = vp_range(0, 2);
  ch.flags    = ARES_FLAG_NOALIASES | (NOSEARCH ? ARES_FLAG_NOSEARCH : 0);
  vp_absrec_setname_may_fail = 1;
  vp_absrec_dup_may_fail     = 1;
  req = vp_absrec_new(1);
  vp_absrec_set_question(req, name, 1, 1);

#if ENTRY == 0
  {
    ares_status_t rv = ares_search_dnsrec(&ch, req, user_cb, NULL);
    VP_ASSERT(user_cb_count + pending == 1, "after starting: completed exactly once, or exactly one request pending");
    (void)rv; /* a failure status may be returned while the search goes on with the next candidate */
    if (sends == 1) {
      /* C12: first candidate per resolv.conf(5) */
      char **list = NULL;
      size_t cnt  = 0;
      if (ares_search_name_list(&ch, name, &list, &cnt) == ARES_SUCCESS) {
        VP_ASSERT(str_eq(sent_name, list[0]), "first request is for the first candidate name");
        ares_strsplit_free(list, cnt);
      }
      VP_WITNESS("sent first candidate");
    }
    if (sends == 0) VP_WITNESS("failed before any send");
    if (pending) squery_free(pending_sq); /* still owned by the search: release for the leak check */
  }
#else
  {
    /* mid-search state: candidate next_name_idx-1 is outstanding; its completion arrives now */
    struct search_query *sq = ares_malloc_zero(sizeof(*sq));
    ares_status_t        ls;
    size_t               k, cnt;
    ares_status_t        o;
    ares_dns_record_t   *resp = NULL;
    int                  had_nodata;
    char                 cand[16], nextcand[16];
    size_t               i;
    VP_ASSUME(sq != NULL);
    sq->channel  = &ch;
    sq->callback = user_cb;
    sq->dnsrec   = vp_absrec_new(1);
    vp_absrec_set_question(sq->dnsrec, name, 1, 1);
    ls = ares_search_name_list(&ch, name, &sq->names, &sq->names_cnt);
    VP_ASSUME(ls == ARES_SUCCESS);
    cnt                 = sq->names_cnt;
    k                   = vp_range(1, ND + 1);
    VP_ASSUME(k <= cnt);
    sq->next_name_idx   = k;
    sq->ever_got_nodata = vp_bool() ? ARES_TRUE : ARES_FALSE;
    had_nodata          = sq->ever_got_nodata;
    for (i = 0; i < 15 && sq->names[k - 1][i] != 0; i++) cand[i] = sq->names[k - 1][i];
    cand[i] = 0;
    nextcand[0] = 0;
    if (k < cnt) {
      for (i = 0; i < 15 && sq->names[k][i] != 0; i++) nextcand[i] = sq->names[k][i];
      nextcand[i] = 0;
    }
    vp_absrec_setname_may_fail = 0; /* keep the walk assertions about policy, not about ENOMEM */
    if (vp_bool()) {
      o = (ares_status_t)vp_range(1, 24);
      search_callback(sq, o, vp_range(0, 2), NULL);
    } else {
      resp        = vp_absrec_new(7);
      resp->rcode = (ares_dns_rcode_t)vp_range(0, 5);
      vp_absrec_set_ancount(resp, vp_range(0, 1));
      o = ares_dns_query_reply_tostatus(resp->rcode, ares_dns_record_rr_cnt(resp, ARES_SECTION_ANSWER));
      search_callback(sq, ARES_SUCCESS, 0, resp);
      ares_dns_record_destroy(resp);
    }
    VP_ASSERT(user_cb_count + pending == 1, "after a completion: search completed exactly once, or exactly one request pending");
    /* C12 walk policy */
    if (!is_soft(o, cand)) {
      VP_ASSERT(sends == 0 && user_cb_count == 1 && user_status == o, "data or a hard error stops the search with that status");
      VP_WITNESS("stopped on data or hard error");
    } else if (k < cnt) {
      VP_ASSERT(sends == 1, "a soft failure moves on to the next candidate");
      VP_ASSERT(str_eq(sent_name, nextcand), "candidates are tried in list order");
      VP_WITNESS("moved to next candidate");
    } else {
      VP_ASSERT(sends == 0 && user_cb_count == 1, "last candidate: search ends");
      if (o == ARES_ENOTFOUND && had_nodata)
        VP_ASSERT(user_status == ARES_ENODATA, "no-data seen earlier wins over a final not-found");
      else
        VP_ASSERT(user_status == o, "otherwise the last candidate's status is reported");
      VP_WITNESS("ended after last candidate");
    }
    if (pending) { /* still owned by the search: release for the leak check */
      squery_free(sq);
    }
  }
#endif
  if (nested_completed) VP_WITNESS("send completed the search synchronously");
  ares_dns_record_destroy(req);
  VP_WITNESS("end");
}
