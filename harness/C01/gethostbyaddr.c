/* C01 compound requests: ares_gethostbyaddr life-cycle, ONE step.
 * Real: whole ares_gethostbyaddr.c (included): ares_gethostbyaddr, ares_gethostbyaddr_nolock, next_lookup, addr_callback,
 *       end_aquery, file_lookup; ares_free_hostent.c; ares_str.c (ares_strdup).
 * ENTRY 0: ares_gethostbyaddr() from scratch: FAM 1 = AF_INET (4-byte object), 2 = AF_INET6 (16-byte object), symbolic address
 *          bytes; FAM 0 = any family/length pair that is not one of these two.  LOOKUPS = the channel's lookups string.
 * ENTRY 1: addr_callback() delivering the completion of the outstanding PTR request (the method walk stands after the 'b' of
 *          LOOKUPS) with ANY status 0..24, with or without a record.
 * Contract stubs:
 *   ares_query_nolock          G-send one level up (checked on the real ares_query.c by compound_q_*): synchronous failure with
 *                              any status (callback first) | answered synchronously (callback with any status + record,
 *                              ARES_SUCCESS returned) | pending.  The callback it runs is the REAL addr_callback: with at most
 *                              one 'b' in the lookups string the recursion is bounded by the code itself (a second 'b' would be
 *                              reported as a recursion bound, not assumed away).
 *   ares_parse_ptr_reply_dnsrec   *host = NULL first (as the real one); success with a host entry built from ares_malloc'ed
 *                              parts | ARES_ENODATA | ARES_EBADRESP | ARES_ENOMEM
 *   ares_dns_addr_to_ptr       ares_malloc'ed name | NULL
 *   ares_inet_ntop             NUL-terminated text | NULL;  ares_hosts_search_ipaddr: entry | ENOTFOUND | EFILE | ENOMEM |
 *                              EBADNAME;  ares_hosts_entry_to_hostent: host entry | ENOMEM | ENOTFOUND (*hostent = NULL)
 * The user callback may start a new ares_gethostbyaddr() on the same channel (depth 1). */
#include "vp.h"
#include "ares_gethostbyaddr.c"
#include "dnsrec_abs.h"

#ifndef ENTRY
#  define ENTRY 0
#endif
#ifndef FAM
#  define FAM 1
#endif
#ifndef LOOKUPS
#  define LOOKUPS "bf"
#endif
#define FAMILY  (FAM == 2 ? AF_INET6 : AF_INET)
#define ADDRLEN (FAM == 2 ? 16 : 4)

#ifdef VP_NATIVE
#  define TALLOC(T)     ((T *)vp_malloc(sizeof(T)))
#  define TALLOCN(T, n) ((T *)vp_malloc((n) * sizeof(T)))
#else /* typed objects: stored pointers stay constants for symex */
#  define TALLOC(T)     (vp_alloc_live++, (T *)malloc(sizeof(T)))
#  define TALLOCN(T, n) (vp_alloc_live++, (T *)malloc((n) * sizeof(T)))
#endif

extern int vp_lock_depth; /* lock_ghost.c */

static ares_channel_t  ch;
static unsigned char   g_addr[16];
static int             user_cb_count, user_status, user_timeouts;
static unsigned long   allocs_before_cb; /* allocations made by the outer request before its callback ran */
static struct hostent *user_host;
static int             cb2_count, pending2;
static void           *pending_arg2;
static int             depth;            /* 0 outer request, 1 inside the request started by the callback, 2 after it */
static char            ev[8];            /* lookup methods tried by the outer request, in order */
static int             ev_n;
static int             sends, pending, rec_depth[2];
static void           *pending_arg;
static int             stop_reason;      /* why the walk legitimately stopped before the end of the lookups string */
static int             terminal_ev_n = -1, terminal_status = -1; /* a DNS completion that must end the walk: methods tried so far, status */
static int             sync_completed;
static struct hostent *g_host;           /* host entry produced for the outer request */
static int             host_from;        /* 'b' / 'f' */
static int             parse_calls, parse_result = -1;
static char           *ptr_name;
static int             timeouts_sum;
static const char      the_entry;

static struct hostent *make_hostent(int family)
{
  struct hostent *h = TALLOC(struct hostent);
  size_t          i, n = family == AF_INET ? 4 : 16;
  VP_ASSUME(h != NULL);
  memset(h, 0, sizeof(*h));
  h->h_name         = ares_strdup("nm");
  h->h_aliases      = TALLOCN(char *, 2);
  h->h_addr_list    = TALLOCN(char *, 2);
  VP_ASSUME(h->h_name != NULL && h->h_aliases != NULL && h->h_addr_list != NULL);
  h->h_aliases[0]   = ares_strdup("al");
  h->h_aliases[1]   = NULL;
  h->h_addr_list[0] = ares_malloc(n);
  h->h_addr_list[1] = NULL;
  VP_ASSUME(h->h_aliases[0] != NULL && h->h_addr_list[0] != NULL);
  for (i = 0; i < n; i++) h->h_addr_list[0][i] = (char)g_addr[i];
  h->h_addrtype = family;
  h->h_length   = (int)n;
  return h;
}

static void user_cb2(void *arg, int status, int timeouts, struct hostent *host)
{
  (void)arg; (void)timeouts;
  cb2_count++;
  VP_ASSERT(cb2_count == 1, "nested request: completion callback invoked at most once");
  VP_ASSERT((status == ARES_SUCCESS) == (host != NULL), "nested request: a host entry is handed over exactly on success");
  if (host != NULL) (void)host->h_name[0];
}

static void user_cb(void *arg, int status, int timeouts, struct hostent *host)
{
  user_cb_count++;
  VP_ASSERT(user_cb_count == 1, "address-to-name completion callback invoked at most once");
  VP_ASSERT(arg == (void *)&user_cb_count, "the caller's argument is handed back");
  user_status      = status;
  user_host        = host;
  user_timeouts    = timeouts;
  allocs_before_cb = vp_alloc_calls;
  VP_ASSERT((status == ARES_SUCCESS) == (host != NULL), "a host entry is handed over exactly on success");
  if (host != NULL) {
    VP_ASSERT(host == g_host, "the host entry handed over is the one produced by the answer / hosts file");
    /* everything reachable from it is still alive (pointer checks) */
    VP_ASSERT(host->h_name[0] == 'n' && host->h_aliases[0][0] == 'a' && host->h_aliases[1] == NULL, "host entry intact");
    VP_ASSERT((unsigned char)host->h_addr_list[0][0] == g_addr[0] && host->h_addr_list[1] == NULL, "host entry intact (addresses)");
  }
#ifndef NO_REENTRY
  if (depth == 0 && vp_bool()) { /* a callback may start a new request */
    static unsigned char a2[4];
    vp_bytes(a2, 4);
    depth = 1;
    ares_gethostbyaddr(&ch, a2, 4, AF_INET, user_cb2, NULL);
    VP_ASSERT(cb2_count + pending2 == 1, "nested request: completed exactly once, or exactly one request pending");
    depth = 2;
  }
#endif
}

static int count_b(void)
{
  static const char lks[] = LOOKUPS;
  int               n = 0;
  size_t            i;
  for (i = 0; lks[i] != 0; i++)
    if (lks[i] == 'b') n++;
  return n;
}

/* ------------------------------------------------------------------ stubs */
char *ares_dns_addr_to_ptr(const struct ares_addr *addr)
{
  char *n;
  if (depth == 0) {
    size_t i;
    VP_ASSERT(addr->family == FAMILY, "PTR name is built for the family asked");
    for (i = 0; i < ADDRLEN; i++)
      VP_ASSERT(((const unsigned char *)&addr->addr)[i] == g_addr[i], "PTR name is built for the address asked");
  }
  if (vp_bool()) {
    if (depth == 0) stop_reason = 3;
    return NULL;
  }
  n = ares_strdup("1.in-addr.arpa");
  VP_ASSUME(n != NULL);
  if (depth == 0) ptr_name = n;
  return n;
}

ares_status_t ares_query_nolock(ares_channel_t *channel, const char *name, ares_dns_class_t dnsclass,
                                ares_dns_rec_type_t type, ares_callback_dnsrec callback, void *arg, unsigned short *qid)
{
  unsigned mode   = vp_u8();
  int      nested = depth != 0;
  VP_ASSERT(channel == &ch && callback == addr_callback && dnsclass == ARES_CLASS_IN && type == ARES_REC_TYPE_PTR && qid == NULL,
            "reverse lookups send a PTR/IN request with their own completion handler");
  VP_ASSERT(name[0] == '1' && name[13] == 'a' && name[14] == 0, "the PTR name is alive when the request is made");
  if (!nested) {
    VP_ASSERT(name == ptr_name, "the request is for the PTR name of the address");
    if (ev_n < 7) ev[ev_n++] = 'b';
    sends++;
    VP_ASSERT(sends <= count_b(), "at most one DNS request per 'b' of the lookups string");
  }
  /* one request per 'b' of the lookups string; a walk that does not advance would recurse through the synchronous
     completions for ever: cut it here as a violation instead of an unwinding bound (rec_depth[] is a constant for symex) */
  rec_depth[nested]++;
  if (rec_depth[nested] > count_b()) {
    VP_ASSERT(0, "a synchronously failing DNS request is not repeated from inside its own completion");
    rec_depth[nested]--;
    if (nested) { pending2++; pending_arg2 = arg; }
    else { pending++; pending_arg = arg; }
    return ARES_SUCCESS;
  }
  if (mode == 0) { /* synchronous failure: callback first, same status returned */
    ares_status_t st = (ares_status_t)vp_range(1, 24);
    size_t        t  = vp_range(0, 2);
    if (!nested) {
      sync_completed = 1;
      timeouts_sum  += (int)t;
      if (st == ARES_ECANCELLED || st == ARES_EDESTRUCTION) { stop_reason = 2; terminal_ev_n = ev_n; terminal_status = (int)st; }
    }
    addr_callback(arg, st, t, NULL);
    rec_depth[nested]--;
    return st;
  }
  if (mode == 1) { /* answered synchronously (cache): any mapped status, with the record */
    ares_status_t      st   = (ares_status_t)vp_range(0, 24);
    ares_dns_record_t *resp = vp_absrec_new(vp_u16());
    VP_ASSUME(resp != NULL);
    if (!nested) {
      sync_completed = 1;
      if (st == ARES_SUCCESS || st == ARES_ECANCELLED || st == ARES_EDESTRUCTION) {
        stop_reason   = 2;
        terminal_ev_n = ev_n;
        if (st != ARES_SUCCESS) terminal_status = (int)st;
      }
    }
    addr_callback(arg, st, 0, resp);
    ares_dns_record_destroy(resp);
    rec_depth[nested]--;
    return ARES_SUCCESS;
  }
  if (nested) { pending2++; pending_arg2 = arg; }
  else { pending++; pending_arg = arg; }
  rec_depth[nested]--;
  return ARES_SUCCESS;
}

ares_status_t ares_parse_ptr_reply_dnsrec(const ares_dns_record_t *dnsrec, const void *addr, int addrlen, int family,
                                          struct hostent **host)
{
  int r = (int)vp_range(0, 3);
  *host = NULL;
  VP_ASSERT(dnsrec != NULL, "only an answer is parsed");
  if (depth == 0) {
    int i;
    VP_ASSERT(family == FAMILY && addrlen == ADDRLEN, "the answer is parsed for the family asked");
    for (i = 0; i < ADDRLEN; i++)
      VP_ASSERT(((const unsigned char *)addr)[i] == g_addr[i], "the answer is parsed for the address asked");
    parse_calls++;
    parse_result = r;
  }
  switch (r) {
    case 0:
      *host = make_hostent(family);
      if (depth == 0) { g_host = *host; host_from = 'b'; }
      return ARES_SUCCESS;
    case 1:
      return ARES_ENODATA;
    case 2:
      return ARES_EBADRESP;
    default:
      return ARES_ENOMEM;
  }
}

static char *ntop_dst;
const char  *ares_inet_ntop(int af, const void *src, char *dst, ares_socklen_t size)
{
  size_t i, n = af == AF_INET ? 4 : 16;
  VP_ASSERT(size >= (ares_socklen_t)(af == AF_INET ? 16 : 46), "text buffer large enough for any address of the family");
  for (i = 0; i < n; i++) (void)((const unsigned char *)src)[i];
  if (depth == 0) {
    VP_ASSERT(af == FAMILY, "hosts file is searched for the family asked");
    if (ev_n < 7) ev[ev_n++] = 'f';
  }
  if (vp_bool()) return NULL;
  for (i = 0; i < 8; i++) dst[i] = (char)vp_u8();
  dst[8]   = 0;
  ntop_dst = dst;
  return dst;
}

ares_status_t ares_hosts_search_ipaddr(ares_channel_t *channel, ares_bool_t use_env, const char *ipaddr,
                                       const ares_hosts_entry_t **entry)
{
  int r = (int)vp_range(0, 4);
  VP_ASSERT(channel == &ch && use_env == ARES_FALSE && ipaddr == ntop_dst && ipaddr[8] == 0, "hosts file searched for the address text");
  *entry = NULL;
  switch (r) {
    case 0:
      *entry = (const ares_hosts_entry_t *)(const void *)&the_entry;
      return ARES_SUCCESS;
    case 1:
      return ARES_ENOTFOUND;
    case 2:
      return ARES_EFILE;
    case 3:
      return ARES_ENOMEM;
    default:
      return ARES_EBADNAME;
  }
}

ares_status_t ares_hosts_entry_to_hostent(const ares_hosts_entry_t *entry, int family, struct hostent **hostent)
{
  int r = (int)vp_range(0, 2);
  VP_ASSERT(entry == (const ares_hosts_entry_t *)(const void *)&the_entry, "the entry found is the one converted");
  *hostent = NULL;
  if (r == 0) {
    *hostent = make_hostent(family);
    if (depth == 0) { g_host = *hostent; host_from = 'f'; stop_reason = 1; }
    return ARES_SUCCESS;
  }
  return r == 1 ? ARES_ENOMEM : ARES_ENOTFOUND;
}

/* ------------------------------------------------------------------ harness */
static void check_order(const char *lk, size_t from)
{
  /* the methods tried are, in order, the methods of the lookups string (from position `from`) */
  size_t n = 0, i;
  while (lk[from + n] != 0) n++;
  VP_ASSERT((size_t)ev_n <= n, "no method is tried more often than the lookups string says");
  for (i = 0; i < n; i++)
    if (i < (size_t)ev_n) VP_ASSERT(ev[i] == lk[from + i], "methods are tried in the order of the lookups string");
  if (pending) VP_ASSERT(ev_n > 0 && ev[ev_n - 1] == 'b' && user_cb_count == 0, "pending: the last method tried is the DNS request");
  if (terminal_ev_n >= 0) {
    VP_ASSERT(ev_n == terminal_ev_n && sends == 1 && user_cb_count == 1, "an answer or cancel/destroy ends the lookup: no further method is tried");
    if (terminal_status >= 0) {
      VP_ASSERT(user_status == terminal_status, "cancel/destroy is reported with that status");
      VP_WITNESS("cancelled or destroyed synchronously");
    }
  }
  if (user_cb_count == 1 && stop_reason == 0 && parse_calls == 0) {
    VP_ASSERT((size_t)ev_n == n, "the lookup only gives up after every configured method was tried");
    VP_ASSERT(user_status == ARES_ENOTFOUND, "all methods exhausted: ARES_ENOTFOUND");
    VP_WITNESS("all methods exhausted");
  }
  if (user_host != NULL) {
    VP_ASSERT(ev_n > 0 && ev[ev_n - 1] == host_from, "the result comes from the last method tried");
    if (host_from == 'f') VP_WITNESS("answered from the hosts file");
    else VP_WITNESS("answered from DNS");
  }
}

void harness(void)
{
  static char lk[] = LOOKUPS;
  vp_alloc_install();
  ch.lookups = lk;
  vp_bytes(g_addr, 16);

#if ENTRY == 0
  {
#  if FAM == 0
    int            family = vp_int(), addrlen = vp_int();
    unsigned char *a      = malloc(16);
    VP_ASSUME(!(family == AF_INET && addrlen == 4) && !(family == AF_INET6 && addrlen == 16));
    ares_gethostbyaddr(&ch, a, addrlen, family, user_cb, &user_cb_count);
    VP_ASSERT(user_cb_count == 1 && user_status == ARES_ENOTIMP && sends == 0 && ev_n == 0 && allocs_before_cb == 0,
              "unsupported family / wrong address length: ARES_ENOTIMP at once, nothing started");
    VP_WITNESS("failed before any send");
    free(a);
#  else
    unsigned char *a = malloc(ADDRLEN); /* exact-size object: over-reads are pointer-check failures */
    size_t         i;
    for (i = 0; i < ADDRLEN; i++) a[i] = g_addr[i];
#    ifdef ALLOCFAIL
    vp_alloc_fail_at = ALLOCFAIL; /* 1: the lookup state, 2: its copy of the lookups string */
#    endif
    ares_gethostbyaddr(&ch, a, ADDRLEN, FAMILY, user_cb, &user_cb_count);
    vp_alloc_fail_at = 0;
    free(a); /* the caller's buffer need not outlive the call */
    VP_ASSERT(vp_lock_depth == 0, "channel lock released");
    VP_ASSERT(user_cb_count + pending == 1, "after starting: completed exactly once, or exactly one request pending");
    VP_ASSERT(sends <= 1, "at most one DNS request per 'b'");
#    ifdef ALLOCFAIL
    VP_ASSERT(user_cb_count == 1 && user_status == ARES_ENOMEM && ev_n == 0, "out of memory at start: reported once, nothing started");
    VP_WITNESS("failed before any send");
#    else
    check_order(lk, 0);
    if (sends == 0) VP_WITNESS("failed before any send");
    if (sync_completed && user_cb_count == 1) VP_WITNESS("completed synchronously");
    if (pending) VP_WITNESS("pending");
#    endif
#  endif
  }
#else
  {
    struct addr_query *aq = TALLOC(struct addr_query);
    size_t             bpos = 0, i;
    int                t0 = (int)vp_range(0, 3), t = (int)vp_range(0, 2);
    ares_status_t      st = (ares_status_t)vp_range(0, 24);
    ares_dns_record_t *resp = NULL;
    VP_ASSUME(aq != NULL);
    while (lk[bpos] != 'b') bpos++; /* LOOKUPS contains a 'b' (job shapes) */
    memset(aq, 0, sizeof(*aq));
    aq->channel     = &ch;
    aq->addr.family = FAMILY;
    for (i = 0; i < ADDRLEN; i++) ((unsigned char *)&aq->addr.addr)[i] = g_addr[i];
    aq->callback          = user_cb;
    aq->arg               = &user_cb_count;
    aq->lookups           = ares_strdup(lk);
    VP_ASSUME(aq->lookups != NULL);
    aq->remaining_lookups = aq->lookups + bpos + 1; /* the DNS request of this 'b' is outstanding */
    aq->timeouts          = (size_t)t0;
    if (st == ARES_SUCCESS || vp_bool()) {
      resp = vp_absrec_new(vp_u16());
      VP_ASSUME(resp != NULL);
    }
    timeouts_sum = t0 + t;
    if (st == ARES_EDESTRUCTION) {
      /* the channel is going away: the completion must not touch it any more (a dangling pointer makes any access a
         pointer-check failure) */
      ares_channel_t *dead = malloc(sizeof(*dead));
      free(dead);
      aq->channel = dead;
    }
    addr_callback(aq, st, (size_t)t, resp);
    if (resp != NULL) ares_dns_record_destroy(resp);

    VP_ASSERT(user_cb_count + pending == 1, "after a completion: lookup completed exactly once, or exactly one request pending");
    VP_ASSERT((st == ARES_SUCCESS) == (parse_calls == 1), "exactly successful answers are parsed");
    if (st == ARES_SUCCESS) {
      VP_ASSERT(user_cb_count == 1 && sends == 0 && ev_n == 0, "an answer ends the lookup");
      VP_ASSERT(user_status == (parse_result == 0 ? ARES_SUCCESS : parse_result == 1 ? ARES_ENODATA : parse_result == 2 ? ARES_EBADRESP : ARES_ENOMEM),
                "status of the lookup = status of interpreting the answer");
      if (parse_result == 0) VP_WITNESS("answer");
      else VP_WITNESS("answer not usable");
    } else if (st == ARES_ECANCELLED || st == ARES_EDESTRUCTION) {
      VP_ASSERT(user_cb_count == 1 && user_status == (int)st && sends == 0 && ev_n == 0, "cancel/destroy ends the lookup with that status");
      VP_WITNESS("cancelled or destroyed");
    } else {
      check_order(lk, bpos + 1);
      if (lk[bpos + 1] == 'f') {
        VP_ASSERT(ev_n == 1 && user_cb_count == 1, "a failed request moves on to the hosts file, which ends the lookup");
        VP_WITNESS("fell through to the hosts file");
      } else {
        VP_ASSERT(ev_n == 0 && user_cb_count == 1 && user_status == ARES_ENOTFOUND, "a failed request with no other method: ARES_ENOTFOUND");
      }
    }
    if (user_cb_count == 1) VP_ASSERT(user_timeouts == timeouts_sum, "timeouts reported = timeouts accumulated");
  }
#endif
  if (depth == 2) VP_WITNESS("callback started a new request");
  /* what is still owned by outstanding requests is released for the leak check */
  if (pending) {
    struct addr_query *aq = pending_arg;
    VP_ASSERT(aq->callback == user_cb && aq->arg == (void *)&user_cb_count, "the outstanding request carries the caller's callback");
    ares_free(aq->lookups);
    ares_free(aq);
  }
  if (pending2) {
    struct addr_query *aq = pending_arg2;
    ares_free(aq->lookups);
    ares_free(aq);
  }
  VP_ASSERT(vp_alloc_live == 0, "lookup state, PTR name and host entry are released exactly once");
  VP_WITNESS("end");
}
