"""C01: compound request kinds (query, gethostbyaddr, getnameinfo, gethostbyname): one step per job.
Imported by C01/jobs.py:  J += compound_jobs.jobs(tier)"""
LIB = ["src/lib/ares_library_init.c"]
SUP = ["vp_rt.c", "valloc.c", "memloops.c", "lock_ghost.c", "dnsrec_abs.c"]

ASSUMPTIONS = [
    "compound_*: contract stubs at the TU boundary below each compound request: ares_send_nolock obeys G-send (checked on the real "
    "one by send_early_*), ares_query_nolock obeys the same contract one level up (checked by q_* on the real ares_query.c), "
    "ares_gethostbyaddr_nolock and ares_getaddrinfo invoke their callback exactly once, synchronously or later (checked by "
    "gha_* and the C12 address-lookup walk)",
]


def query_jobs(tier):
    J = []
    real = LIB + ["src/lib/ares_search.c", "src/lib/record/ares_dns_mapping.c"]
    common = dict(harness="query.c", real=real, support=SUP, unwind=6, leak=True, backend="cadical", mem_gb=4, timeout=120)
    J.append(dict(common, name="q_dnsrec_start", defines=["-DENTRY=0"],
                  witnesses=["end", "completed synchronously", "pending", "failed before any send", "callback started a new request"],
                  bound="ares_query_dnsrec from scratch: request construction any status; ares_send_nolock: synchronous failure "
                        "with ANY status 1..24 (callback first) / synchronous answer (any rcode 0..15, 0..2 answers) / pending; "
                        "the callback may start a new request (depth 1); RD/EDNS channel flags symbolic"))
    J.append(dict(common, name="q_dnsrec_start_oom", defines=["-DENTRY=0", "-DALLOCFAIL=3"],
                  witnesses=["end", "failed before any send", "out of memory before any send"],
                  bound="same, the query argument cannot be allocated"))
    J.append(dict(common, name="q_dnsrec_complete", defines=["-DENTRY=1"],
                  witnesses=["end", "cancelled or destroyed", "no data", "answer", "callback started a new request"],
                  bound="ares_query_dnsrec_cb for the outstanding request: ANY status 0..24, with/without a record, rcode 0..15, "
                        "0..2 answers; the callback may start a new request (depth 1)"))
    J.append(dict(common, name="q_legacy_start", defines=["-DENTRY=2"],
                  witnesses=["end", "completed synchronously", "pending", "failed before any send"],
                  bound="legacy ares_query from scratch (name NULL or not) through ares_dnsrec_convert_cb; ares_dns_write any status"))
    for k in (1, 4):
        J.append(dict(common, name="q_legacy_start_oom%d" % k, defines=["-DENTRY=2", "-DALLOCFAIL=%d" % k],
                      witnesses=["end", "failed before any send"] + (["out of memory before any send"] if k == 4 else []),
                      bound="same, allocation %d of the call fails (1 = adaptor argument, 4 = query argument)" % k))
    return J


def q(s):
    return '"%s"' % s


def gha_jobs(tier):
    J = []
    real = LIB + ["src/lib/ares_free_hostent.c", "src/lib/str/ares_str.c"]
    common = dict(harness="gethostbyaddr.c", real=real, support=SUP, unwind=18, leak=True, backend="cadical", mem_gb=6, timeout=240)
    fams = {1: "inet", 2: "inet6"}
    for fam in (1, 2):
        for lk in ("b", "f", "bf", "fb", ""):
            w = ["end", "failed before any send", "all methods exhausted", "callback started a new request"]
            if "b" in lk:
                w += ["completed synchronously", "pending", "answered from DNS", "cancelled or destroyed synchronously"]
            if "f" in lk:
                w += ["answered from the hosts file"]
            J.append(dict(common, name="gha_start_%s_lk_%s" % (fams[fam], lk or "none"),
                          defines=["-DENTRY=0", "-DFAM=%d" % fam, "-DLOOKUPS=" + q(lk)], witnesses=w,
                          bound="ares_gethostbyaddr from scratch, %s address (exact-size object, symbolic bytes), lookups \"%s\"; "
                                "PTR request: synchronous failure with ANY status (callback first) / synchronous answer with any "
                                "status / pending; answer parse: host entry / ENODATA / EBADRESP / ENOMEM; PTR name allocation "
                                "may fail; hosts file any status; the callback may start a new request (depth 1)" % (fams[fam], lk)))
    J.append(dict(common, name="gha_start_badfamily", defines=["-DENTRY=0", "-DFAM=0"], witnesses=["end", "failed before any send"],
                  bound="ares_gethostbyaddr with ANY (family, length) pair other than (AF_INET,4) / (AF_INET6,16)"))
    for k in (1, 2):
        J.append(dict(common, name="gha_start_inet_oom%d" % k, defines=["-DENTRY=0", "-DFAM=1", "-DALLOCFAIL=%d" % k],
                      witnesses=["end", "failed before any send"],
                      bound="ares_gethostbyaddr from scratch, allocation %d of the call fails" % k))
    for fam in (1, 2):
        for lk in ("b", "bf", "fb"):
            w = ["end", "answer", "answer not usable", "cancelled or destroyed", "callback started a new request"]
            if lk == "bf":
                w += ["fell through to the hosts file", "answered from the hosts file", "all methods exhausted"]
            else:
                w += ["all methods exhausted"]
            J.append(dict(common, name="gha_complete_%s_lk_%s" % (fams[fam], lk),
                          defines=["-DENTRY=1", "-DFAM=%d" % fam, "-DLOOKUPS=" + q(lk)], witnesses=w,
                          bound="addr_callback for the outstanding PTR request of a %s lookup (lookups \"%s\", walk after its 'b'): ANY "
                                "status 0..24, with/without a record, timeouts so far 0..3; parse: host entry / ENODATA / EBADRESP / "
                                "ENOMEM; hosts file any status; the callback may start a new request (depth 1)" % (fams[fam], lk)))
    return J


def gni_jobs(tier):
    J = []
    real = LIB + ["src/lib/ares_free_hostent.c", "src/lib/str/ares_str.c"]
    common = dict(harness="getnameinfo.c", real=real, support=SUP, unwind=66, leak=True, backend="cadical", mem_gb=6, timeout=240)
    fams = {1: "inet", 2: "inet6"}
    classes = {0: "serviceonly", 1: "numerichost", 2: "dns"}
    for fam in (1, 2):
        for fc in (0, 1, 2):
            w = ["end", "callback started a new request"]
            if fc == 0:
                w += ["failed before any send", "service returned", "numeric service", "longest service name that fits", "service name too long"]
            elif fc == 1:
                w += ["failed before any send", "bad flags", "numeric service", "longest service name that fits", "service name too long"]
                if fam == 2:
                    w += ["scope id appended"]
            else:
                w += ["completed synchronously", "pending"]
            J.append(dict(common, name="gni_start_%s_%s" % (fams[fam], classes[fc]),
                          defines=["-DENTRY=0", "-DFAM=%d" % fam, "-DFLAGCLASS=%d" % fc], witnesses=w,
                          bound="ares_getnameinfo from scratch, %s socket address (exact-size object; symbolic port, address, scope id), "
                                "flag class '%s', every other flag bit symbolic; host lookup: synchronous completion with ANY status / "
                                "pending; service database: error / not found / nameless / names of 4, 32, 33, 40 characters; the "
                                "callback may start a new request (depth 1)" % (fams[fam], classes[fc])))
        J.append(dict(common, name="gni_start_%s_badsa" % fams[fam], defines=["-DENTRY=0", "-DFAM=%d" % fam, "-DBADSA"],
                      witnesses=["end", "failed before any send", "valid socket address", "callback started a new request"] +
                                (["IPv4 address in a larger object"] if fam == 2 else []),
                      bound="ares_getnameinfo with a NULL socket address or ANY sa_family and ANY salen <= the size of the %s object; "
                            "flags: one of service-only / numeric host+service / DNS" % fams[fam]))
        J.append(dict(common, name="gni_complete_%s" % fams[fam], defines=["-DENTRY=1", "-DFAM=%d" % fam],
                      witnesses=["end", "name found", "domain stripped", "address text instead of a name", "name required but not found",
                                 "cancelled or destroyed", "numeric service", "longest service name that fits", "service name too long",
                                 "callback started a new request"] + (["scope id appended"] if fam == 2 else []),
                      bound="nameinfo_callback for the outstanding host lookup of a %s request: ANY status 0..24 (host entry exactly on "
                            "success), all flags symbolic, timeouts so far 0..3; host name with/without the local domain; the "
                            "callback may start a new request (depth 1)" % fams[fam]))
    J.append(dict(common, name="gni_start_inet_dns_oom1", defines=["-DENTRY=0", "-DFAM=1", "-DFLAGCLASS=2", "-DALLOCFAIL=1"],
                  witnesses=["end", "failed before any send"], bound="ares_getnameinfo (DNS class), the request state cannot be allocated"))
    return J


def ghbn_jobs(tier):
    J = []
    real = LIB + ["src/lib/ares_addrinfo2hostent.c", "src/lib/ares_freeaddrinfo.c", "src/lib/ares_free_hostent.c",
                  "src/lib/str/ares_str.c"]
    # list-shaped data (address / alias arrays, node chains) has at most 3 elements here: loops over them get their own bound
    # (their termination is not a constant for symex once the arrays went through realloc)
    small = ["sort_addresses.0", "sort_addresses.1", "sort6_addresses.0", "sort6_addresses.1", "get_address_index.0",
             "get6_address_index.0", "ares_free_hostent.0", "ares_free_hostent.1", "ai_nalias.0", "ai_naddr.0", "hostent_nalias.0",
             "hostent_naddr.0", "ares_addrinfo2hostent.0", "ares_addrinfo2hostent.1", "ares_freeaddrinfo_cnames.0",
             "ares_freeaddrinfo_nodes.0", "user_cb.0", "user_cb.1", "add_node.0", "add_cname.0"]
    common = dict(harness="gethostbyname.c", real=real, support=SUP, unwind=18, unwindset=[l + ":5" for l in small], leak=True,
                  backend="cadical", mem_gb=6, timeout=240)
    J.append(dict(common, name="ghbn_start", defines=["-DENTRY=0", "-DNODES=" + q("46"), "-DNCN=1"],
                  witnesses=["end", "no callback", "completed synchronously", "answered synchronously", "pending",
                             "callback started a new request"],
                  bound="ares_gethostbyname from scratch: ANY family value, callback NULL or not; address lookup: synchronous completion "
                        "with ANY status (result IPv4+IPv6 node, one CNAME on success) / pending; sort list of 0..2 patterns; the "
                        "callback may start a new request (depth 1)"))
    J.append(dict(common, name="ghbn_start_oom1", defines=["-DENTRY=0", "-DALLOCFAIL=1"],
                  witnesses=["end", "no callback", "failed before any send"],
                  bound="ares_gethostbyname from scratch, the request state cannot be allocated"))
    shapes = [("4", 0), ("4", 2), ("6", 1), ("44", 0), ("46", 1), ("64", 1), ("66", 2)]
    if tier != "quick":
        shapes += [("446", 1), ("664", 0)]
    for nodes, ncn in shapes:
        J.append(dict(common, name="ghbn_complete_n%s_cn%d" % (nodes, ncn), defines=["-DENTRY=1", "-DNODES=" + q(nodes), "-DNCN=%d" % ncn],
                      witnesses=["end", "answer", "cancelled or destroyed", "callback started a new request"] +
                                (["sorted by the sort list"]),
                      bound="ares_gethostbyname_callback for the outstanding address lookup: ANY status 0..24; on success a result "
                            "with address nodes of families '%s' (symbolic addresses) and %d CNAME entries; sort list of 0..2 "
                            "patterns with any match verdicts; the callback may start a new request (depth 1)" % (nodes, ncn)))
    kinds = {0: "plain", 1: "localhost", 2: "onion"}
    for nk in (0, 1, 2):
        J.append(dict(common, name="ghbn_file_%s" % kinds[nk], defines=["-DENTRY=2", "-DNAMEKIND=%d" % nk], kf_group="ghbn_file",
                      witnesses=["end", "failed before any send"] + (["found"] if nk != 2 else []) +
                                (["hosts-file entry completed with loopback addresses"] if nk == 1 else []),
                      bound="ares_gethostbyname_file for a %s name (name / result pointer may be NULL), family in {INET, INET6, "
                            "UNSPEC}; hosts file: entry / ENOTFOUND / EFILE / ENOMEM, conversion: host entry / ENOMEM / ENOTFOUND; "
                            "loopback addresses: success / ENOMEM at once / ENOMEM after the first node" % kinds[nk]))
    return J


def jobs(tier):
    J = []
    J += query_jobs(tier)
    J += gha_jobs(tier)
    J += gni_jobs(tier)
    J += ghbn_jobs(tier)
    for j in J:
        j["name"] = "compound_" + j["name"]
    return J
