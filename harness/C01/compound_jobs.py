"""C01: compound request kinds (query, gethostbyaddr, getnameinfo, gethostbyname): one step per job.
Imported by C01/jobs.py:  J += compound_jobs.jobs(tier)"""
LIB = ["src/lib/ares_library_init.c"]
SUP = ["vp_rt.c", "valloc.c", "memloops.c", "lock_ghost.c", "dnsrec_abs.c"]

OUTSIDE = ("compound requests: more than one level of callback re-entry; lookups strings with more than one 'b'; host names / address "
           "texts / service names other than the fixed shapes (lengths concrete per job); getnameinfo flag words outside the listed "
           "classes in the quick tier (all-bits-symbolic variants run in the thorough tier); /etc/hosts, /etc/services, the local host "
           "name and interface names are abstract (any outcome of the listed kinds)")
ASSUMPTIONS = [
    "compound_*: contract stubs at the TU boundary below each compound request, each contract being an assertion of the harness "
    "one level down: ares_send_nolock obeys G-send (send_early_* on the real ares_send.c); ares_query_nolock obeys the same contract "
    "(compound_q_* on the real ares_query.c: a failure status is returned only after the callback ran with it; success = callback "
    "already invoked or exactly one request pending); ares_gethostbyaddr_nolock invokes its callback exactly once, now or later, "
    "and frees the host entry after the callback returned (compound_gha_*); ares_getaddrinfo invokes its callback exactly once "
    "with a result exactly on success, the result carrying at least one address (c12_walk_gai_*)",
    "compound_gha_*: ares_parse_ptr_reply_dnsrec sets *host = NULL first and returns a host entry exactly on success (as the real "
    "one); ares_dns_addr_to_ptr returns an allocated name or NULL; ares_inet_ntop returns NUL-terminated text or NULL; hosts-file "
    "search / conversion return any status with an entry / host entry exactly on success; lookups strings {b, f, bf, fb, empty}",
    "compound_gni_*: ares_inet_ntop never fails for AF_INET/AF_INET6 with a buffer of >= 16/46 bytes and writes at most 15/45 "
    "characters (quick tier: exactly that many); getservbyport_r: error / not found / nameless entry / names of 4, 32, 33, 40 "
    "characters; gethostname succeeds and NUL-terminates (\"h.d.e\" or \"host\"; the code ignores its return value); "
    "if_indextoname: NULL or a name of 3 / 15 characters; snprintf(\"%u\"/\"%lu\") writes the right number of digits",
    "compound_ghbn_*: ares_subnet_match any verdict; ares_is_localhost / ares_is_onion_domain = the job's name kind; "
    "ares_addrinfo_localhost sets the name and appends loopback nodes of the family asked, or fails with ARES_ENOMEM at once or "
    "after the first node",
    "compound_*: the request started from inside a completion callback (depth 1) is pending or refused at once in the "
    "getnameinfo / gethostbyname harnesses (full stub behaviour in query / gethostbyaddr)",
]


def query_jobs(tier):
    J = []
    real = LIB + ["src/lib/ares_search.c", "src/lib/record/ares_dns_mapping.c"]
    common = dict(harness="query.c", real=real, support=SUP, unwind=6, leak=True, backend="cadical", mem_gb=4, timeout=120)
    J.append(dict(common, name="q_dnsrec_start", defines=["-DENTRY=0"],
                  witnesses=["end", "completed synchronously", "pending", "failed before any send", "callback started a new request"],
                  bound="ares_query_dnsrec from scratch: request construction any status; ares_send_nolock: synchronous failure "
                        "with ANY status 1..24 (callback first) / synchronous answer (any rcode 0..15, 0..2 answers) / pending; "
                        "the callback may start a new request (depth 1); RD/EDNS channel flags symbolic"))
    J.append(dict(common, name="q_dnsrec_start_oom", defines=["-DENTRY=0", "-DALLOCFAIL=3"],
                  witnesses=["end", "failed before any send", "out of memory before any send"],
                  bound="same, the query argument cannot be allocated"))
    J.append(dict(common, name="q_dnsrec_complete", defines=["-DENTRY=1"],
                  witnesses=["end", "cancelled or destroyed", "no data", "answer", "callback started a new request"],
                  bound="ares_query_dnsrec_cb for the outstanding request: ANY status 0..24, with/without a record, rcode 0..15, "
                        "0..2 answers; the callback may start a new request (depth 1)"))
    J.append(dict(common, name="q_legacy_start", defines=["-DENTRY=2"],
                  witnesses=["end", "completed synchronously", "pending", "failed before any send"],
                  bound="legacy ares_query from scratch (name NULL or not) through ares_dnsrec_convert_cb; ares_dns_write any status"))
    for k in (1, 4):
        J.append(dict(common, name="q_legacy_start_oom%d" % k, defines=["-DENTRY=2", "-DALLOCFAIL=%d" % k],
                      witnesses=["end", "failed before any send"] + (["out of memory before any send"] if k == 4 else []),
                      bound="same, allocation %d of the call fails (1 = adaptor argument, 4 = query argument)" % k))
    return J


def q(s):
    return '"%s"' % s


def gha_jobs(tier):
    J = []
    real = LIB + ["src/lib/ares_free_hostent.c", "src/lib/str/ares_str.c"]
    common = dict(harness="gethostbyaddr.c", real=real, support=SUP, unwind=18, leak=True, backend="cadical", mem_gb=6, timeout=240)
    fams = {1: "inet", 2: "inet6"}
    for fam in (1, 2):
        for lk in ("b", "f", "bf", "fb", ""):
            w = ["end", "failed before any send", "all methods exhausted", "callback started a new request"]
            if "b" in lk:
                w += ["completed synchronously", "pending", "answered from DNS", "cancelled or destroyed synchronously"]
            if "f" in lk:
                w += ["answered from the hosts file"]
            J.append(dict(common, name="gha_start_%s_lk_%s" % (fams[fam], lk or "none"),
                          defines=["-DENTRY=0", "-DFAM=%d" % fam, "-DLOOKUPS=" + q(lk)], witnesses=w,
                          bound="ares_gethostbyaddr from scratch, %s address (exact-size object, symbolic bytes), lookups \"%s\"; "
                                "PTR request: synchronous failure with ANY status (callback first) / synchronous answer with any "
                                "status / pending; answer parse: host entry / ENODATA / EBADRESP / ENOMEM; PTR name allocation "
                                "may fail; hosts file any status; the callback may start a new request (depth 1)" % (fams[fam], lk)))
    J.append(dict(common, name="gha_start_badfamily", defines=["-DENTRY=0", "-DFAM=0"], witnesses=["end", "failed before any send"],
                  bound="ares_gethostbyaddr with ANY (family, length) pair other than (AF_INET,4) / (AF_INET6,16)"))
    for k in (1, 2):
        J.append(dict(common, name="gha_start_inet_oom%d" % k, defines=["-DENTRY=0", "-DFAM=1", "-DALLOCFAIL=%d" % k],
                      witnesses=["end", "failed before any send"],
                      bound="ares_gethostbyaddr from scratch, allocation %d of the call fails" % k))
    for fam in (1, 2):
        for lk in ("b", "bf", "fb"):
            w = ["end", "answer", "answer not usable", "cancelled or destroyed", "callback started a new request"]
            if lk == "bf":
                w += ["fell through to the hosts file", "answered from the hosts file", "all methods exhausted"]
            else:
                w += ["all methods exhausted"]
            J.append(dict(common, name="gha_complete_%s_lk_%s" % (fams[fam], lk),
                          defines=["-DENTRY=1", "-DFAM=%d" % fam, "-DLOOKUPS=" + q(lk)], witnesses=w,
                          bound="addr_callback for the outstanding PTR request of a %s lookup (lookups \"%s\", walk after its 'b'): ANY "
                                "status 0..24, with/without a record, timeouts so far 0..3; parse: host entry / ENODATA / EBADRESP / "
                                "ENOMEM; hosts file any status; the callback may start a new request (depth 1)" % (fams[fam], lk)))
    return J


NI = dict(NOFQDN=1, NUMERICHOST=2, NAMEREQD=4, NUMERICSERV=8, LOOKUPHOST=256, LOOKUPSERVICE=512)


def gni_jobs(tier):
    """quick tier: the flag word is a constant per job (every branch on it folds; protocol / scope / IDN bits vary over four
    constant call sites inside the job); thorough tier adds the all-other-bits-symbolic variants (30-80 s each)."""
    J = []
    real = LIB + ["src/lib/ares_free_hostent.c", "src/lib/str/ares_str.c"]
    common = dict(harness="getnameinfo.c", real=real, support=SUP, unwind=66, leak=True, backend="cadical", mem_gb=6, timeout=240)
    fams = {1: "inet", 2: "inet6"}
    classes = {0: "serviceonly", 1: "numerichost", 2: "dns"}
    LH, LS, NH, NS, NR, NF = NI["LOOKUPHOST"], NI["LOOKUPSERVICE"], NI["NUMERICHOST"], NI["NUMERICSERV"], NI["NAMEREQD"], NI["NOFQDN"]
    svc_w = ["longest service name that fits", "service name too long"]
    start_shapes = [
        # (class, tag, flag word, extra witnesses)
        (0, "db", LS, ["failed before any send", "service returned"] + svc_w),
        (0, "numserv", LS | NS, ["failed before any send", "service returned", "numeric service"]),
        (1, "plain", NH, ["failed before any send"]),
        (1, "svc", NH | LH | LS, ["failed before any send"] + svc_w),
        (1, "numserv", NH | LH | LS | NS, ["failed before any send", "numeric service"]),
        (1, "namereqd", NH | LH | NR, ["failed before any send", "bad flags"]),
        (2, "plain", 0, ["completed synchronously", "pending"]),
        (2, "svc", LH | LS, ["completed synchronously", "pending"]),
        (2, "all", LH | LS | NS | NF | NR, ["completed synchronously", "pending"]),
    ]
    for fam in (1, 2):
        for fc, tag, word, wx in start_shapes:
            w = ["end", "callback started a new request"] + wx
            if fam == 2 and fc == 1 and not (word & NR):
                w += ["scope id appended"]
            J.append(dict(common, name="gni_start_%s_%s_%s" % (fams[fam], classes[fc], tag),
                          defines=["-DENTRY=0", "-DFAM=%d" % fam, "-DFLAGCLASS=%d" % fc, "-DFLAGS=%du" % word] +
                                  (["-DHOSTDOM=1"] if word & NF else []) + (["-DNVAR=2"] if (fc == 2 or not (word & LS)) else []), witnesses=w,
                          bound="ares_getnameinfo from scratch, %s socket address (exact-size object; symbolic port, address, scope id), "
                                "flags 0x%x with {tcp, udp+NUMERICSCOPE} (serviceonly_db / numerichost_svc: also {sctp+IDN, dccp+IDN_ALLOW_UNASSIGNED}); host lookup: synchronous "
                                "completion with ANY status / pending; service database: error / not found / nameless / names of 4, 32, "
                                "33, 40 characters; the callback may start a new request (depth 1)" % (fams[fam], word)))
        J.append(dict(common, name="gni_start_%s_badsa" % fams[fam], defines=["-DENTRY=0", "-DFAM=%d" % fam, "-DBADSA"],
                      witnesses=["end", "failed before any send", "valid socket address", "callback started a new request"] +
                                (["IPv4 address in a larger object"] if fam == 2 else []),
                      bound="ares_getnameinfo with a NULL socket address or ANY sa_family and ANY salen <= the size of the %s object; "
                            "flags: one of service-only / numeric host+service / DNS" % fams[fam]))
        for svc, sword in (("nosvc", 0), ("db", LS), ("numserv", LS | NS)):
            # NOFQDN only matters when a name was found, NAMEREQD only when none was: the two are varied separately
            for nf, nr, hd in ((0, 0, None), (0, 1, None), (1, 0, 0), (1, 0, 1), (1, 0, 2)):
                word = LH | sword | (NF if nf else 0) | (NR if nr else 0)
                w = ["end", "name found", "cancelled or destroyed", "callback started a new request"]
                w += ["name required but not found"] if nr else ["address text instead of a name"]
                if hd == 1:
                    w += ["domain stripped"]
                if svc == "db":
                    w += svc_w
                if svc == "numserv":
                    w += ["numeric service"]
                if fam == 2 and not nr:
                    w += ["scope id appended"]
                J.append(dict(common, name="gni_complete_%s_%s_nofqdn%d_namereqd%d%s" % (fams[fam], svc, nf, nr, "" if hd is None else "_dom%d" % hd),
                              defines=["-DENTRY=1", "-DFAM=%d" % fam, "-DFLAGS=%du" % word] + ([] if hd is None else ["-DHOSTDOM=%d" % hd]) +
                                      ["-DNVAR=2"], witnesses=w,  # all four protocols: gni_start_*_serviceonly_db / numerichost_svc
                              bound="nameinfo_callback for the outstanding host lookup of a %s request: ANY status 0..24 (host "
                                    "entry exactly on success), flags 0x%x with {tcp, udp+NUMERICSCOPE}, timeouts so far 0..3%s; "
                                    "the callback may start a new request (depth 1)" %
                                    (fams[fam], word, "" if hd is None else "; local host name " +
                                     ["without a domain", "with the domain the name found ends in (other case)", "with another domain"][hd])))
        if tier != "quick":
            for fc in (0, 1, 2):
                J.append(dict(common, name="gni_start_%s_%s_symflags" % (fams[fam], classes[fc]),
                              defines=["-DENTRY=0", "-DFAM=%d" % fam, "-DFLAGCLASS=%d" % fc], witnesses=["end", "callback started a new request"],
                              timeout=600, bound="ares_getnameinfo from scratch, %s socket address, flag class '%s', EVERY other flag bit "
                                                 "symbolic" % (fams[fam], classes[fc])))
            J.append(dict(common, name="gni_complete_%s_symflags" % fams[fam], defines=["-DENTRY=1", "-DFAM=%d" % fam],
                          witnesses=["end", "name found", "domain stripped", "address text instead of a name",
                                     "name required but not found", "cancelled or destroyed"], timeout=600,
                          bound="nameinfo_callback for a %s request: ANY status, ALL flag bits symbolic" % fams[fam]))
    J.append(dict(common, name="gni_start_inet_dns_oom1", defines=["-DENTRY=0", "-DFAM=1", "-DFLAGCLASS=2", "-DFLAGS=256u", "-DALLOCFAIL=1"],
                  witnesses=["end", "failed before any send"], bound="ares_getnameinfo (DNS class), the request state cannot be allocated"))
    return J


def ghbn_jobs(tier):
    J = []
    real = LIB + ["src/lib/ares_addrinfo2hostent.c", "src/lib/ares_freeaddrinfo.c", "src/lib/ares_free_hostent.c",
                  "src/lib/str/ares_str.c"]
    # list-shaped data (address / alias arrays, node chains) has at most 3 elements here: loops over them get their own bound
    # (their termination is not a constant for symex once the arrays went through realloc)
    small = ["sort_addresses.0", "sort_addresses.1", "sort6_addresses.0", "sort6_addresses.1", "get_address_index.0",
             "get6_address_index.0", "ares_free_hostent.0", "ares_free_hostent.1", "ai_nalias.0", "ai_naddr.0", "hostent_nalias.0",
             "hostent_naddr.0", "ares_addrinfo2hostent.0", "ares_addrinfo2hostent.1", "ares_freeaddrinfo_cnames.0",
             "ares_freeaddrinfo_nodes.0", "user_cb.0", "user_cb.1", "add_node.0", "add_cname.0"]
    common = dict(harness="gethostbyname.c", real=real, support=SUP, unwind=18, unwindset=[l + ":5" for l in small], leak=True,
                  backend="cadical", mem_gb=6, timeout=240)
    J.append(dict(common, name="ghbn_start", defines=["-DENTRY=0", "-DNODES=" + q("46"), "-DNCN=1"],
                  witnesses=["end", "no callback", "completed synchronously", "answered synchronously", "pending",
                             "callback started a new request"],
                  bound="ares_gethostbyname from scratch: ANY family value, callback NULL or not; address lookup: synchronous completion "
                        "with ANY status (result IPv4+IPv6 node, one CNAME on success) / pending; sort list of 0..2 patterns; the "
                        "callback may start a new request (depth 1)"))
    J.append(dict(common, name="ghbn_start_oom1", defines=["-DENTRY=0", "-DALLOCFAIL=1"],
                  witnesses=["end", "no callback", "failed before any send"],
                  bound="ares_gethostbyname from scratch, the request state cannot be allocated"))
    shapes = [("4", 0), ("4", 2), ("6", 1), ("44", 0), ("46", 1), ("64", 1), ("66", 2)]
    if tier != "quick":
        shapes += [("446", 1), ("664", 0)]
    for nodes, ncn in shapes:
        J.append(dict(common, name="ghbn_complete_n%s_cn%d" % (nodes, ncn), defines=["-DENTRY=1", "-DNODES=" + q(nodes), "-DNCN=%d" % ncn],
                      witnesses=["end", "answer", "cancelled or destroyed", "callback started a new request"] +
                                (["sorted by the sort list"]),
                      bound="ares_gethostbyname_callback for the outstanding address lookup: ANY status 0..24; on success a result "
                            "with address nodes of families '%s' (symbolic addresses) and %d CNAME entries; sort list of 0..2 "
                            "patterns with any match verdicts; the callback may start a new request (depth 1)" % (nodes, ncn)))
    kinds = {0: "plain", 1: "localhost", 2: "onion"}
    fbound = ("hosts file: entry / ENOTFOUND / EFILE / ENOMEM, conversion: host entry / ENOMEM / ENOTFOUND; loopback addresses: "
              "success / ENOMEM at once / ENOMEM after the first node")
    for nk in (0, 2):
        J.append(dict(common, name="ghbn_file_%s" % kinds[nk], defines=["-DENTRY=2", "-DNAMEKIND=%d" % nk],
                      witnesses=["end"] + (["found"] if nk != 2 else []),
                      bound="ares_gethostbyname_file for a %s name, family in {INET, INET6, UNSPEC}; %s" % (kinds[nk], fbound)))
    J.append(dict(common, name="ghbn_file_nullargs", defines=["-DENTRY=2", "-DNAMEKIND=0", "-DNULLARGS"],
                  witnesses=["end", "failed before any send", "found"],
                  bound="ares_gethostbyname_file with name and/or result pointer NULL or not"))
    hs = {0: "hit", 1: "hit_convoom", 5: "hit_convnotfound", 2: "notfound", 3: "efile", 4: "oom"}
    hdesc = {0: "entry found and converted", 1: "entry found, conversion ENOMEM", 5: "entry found, conversion ENOTFOUND",
             2: "ENOTFOUND", 3: "EFILE", 4: "ENOMEM"}
    lhs = {0: "ok", 1: "oom", 2: "oompartial"}
    for fam in (4, 6, 0):
        for h in (0, 1, 5, 2, 3, 4):
            for lh in (0, 1, 2):
                if lh != 0 and (fam == 6 or h not in (0, 2)):
                    continue
                if fam == 6 and h in (3, 5):
                    continue
                w = ["end"]
                if lh == 0 and h not in (1, 4):
                    w += ["found"]
                    if h == 0:
                        w += ["hosts-file entry completed with loopback addresses"]
                J.append(dict(common, name="ghbn_file_localhost_f%d_%s_lh%s" % (fam, hs[h], lhs[lh]),
                              # known finding ghbn_file_localhost_oom_hostent lives in exactly these shapes
                              **({"kf_group": "compound_ghbn_file_localhost_oom"} if (h == 0 and lh != 0) else {}),
                              defines=["-DENTRY=2", "-DNAMEKIND=1", "-DFAMREQ=%d" % fam, "-DHOSTS=%d" % h, "-DLH=%d" % lh],
                              witnesses=w,
                              bound="ares_gethostbyname_file for a localhost name, family %s, hosts file: %s; loopback addresses: %s" %
                                    ({4: "INET", 6: "INET6", 0: "UNSPEC"}[fam], hdesc[h],
                                     {0: "added", 1: "ENOMEM at once", 2: "ENOMEM after the name and the first node"}[lh])))
    return J


def jobs(tier):
    J = []
    J += query_jobs(tier)
    J += gha_jobs(tier)
    J += gni_jobs(tier)
    J += ghbn_jobs(tier)
    for j in J:
        j["name"] = "compound_" + j["name"]
    return J
