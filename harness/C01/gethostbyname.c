/* C01 compound requests: ares_gethostbyname life-cycle, ONE step.
 * Real: whole ares_gethostbyname.c (included): ares_gethostbyname, ares_gethostbyname_callback, sort_addresses,
 *       sort6_addresses, get_address_index, get6_address_index, ares_gethostbyname_file(_int), ares_hostent_localhost;
 *       ares_addrinfo2hostent.c, ares_freeaddrinfo.c, ares_free_hostent.c, ares_str.c, ares_library_init.c (realloc_zero).
 * ENTRY 0: ares_gethostbyname() from scratch (any family value; callback NULL or not).
 * ENTRY 1: ares_gethostbyname_callback() delivering the completion of the outstanding address lookup: ANY status 0..24; on
 *          success an address-info result built by the harness from ares_malloc'ed parts: nodes of the families in NODES
 *          ("4", "6", "46", ...: at least one, as the real ares_getaddrinfo guarantees - C12 c12_walk_gai_*), NCN CNAME
 *          entries; channel sort list of 0..2 patterns.
 * ENTRY 2: ares_gethostbyname_file() (synchronous; NAMEKIND 0 ordinary name, 1 localhost name, 2 .onion name).
 * Contract stubs:
 *   ares_getaddrinfo           invokes its callback exactly once: synchronously (any status; result exactly on success) or
 *                              later (pending).  The callback it runs is the REAL ares_gethostbyname_callback.
 *   ares_subnet_match          any verdict (the real one: C16);  ares_is_localhost / ares_is_onion_domain: the job's NAMEKIND
 *   ares_hosts_search_host     entry | ENOTFOUND | EFILE | ENOMEM;  ares_hosts_entry_to_hostent: host entry | ENOMEM | ENOTFOUND
 *   ares_addrinfo_localhost    sets the name and appends loopback nodes of the family asked (IPv6 first) | ARES_ENOMEM at
 *                              once | ARES_ENOMEM after the name and the first node
 * The user callback may start a new ares_gethostbyname() on the same channel (depth 1). */
#include "vp.h"
#include "ares_gethostbyname.c"

#ifndef ENTRY
#  define ENTRY 1
#endif
#ifndef NODES
#  define NODES "4"
#endif
#ifndef NCN
#  define NCN 0
#endif
#ifndef NAMEKIND
#  define NAMEKIND 0
#endif

#ifdef VP_NATIVE
#  define TALLOC(T)     ((T *)vp_malloc(sizeof(T)))
#  define TALLOCN(T, n) ((T *)vp_malloc((n) * sizeof(T)))
#else /* typed objects: stored pointers stay constants for symex */
#  define TALLOC(T)     (vp_alloc_live++, (T *)malloc(sizeof(T)))
#  define TALLOCN(T, n) (vp_alloc_live++, (T *)malloc((n) * sizeof(T)))
#endif

extern int vp_lock_depth; /* lock_ghost.c */

static ares_channel_t  ch;
static struct apattern sortlist[2];
static const char     *g_name = NAMEKIND == 1 ? "localhost" : NAMEKIND == 2 ? "x.onion" : "a.b";
static int             g_family;
static int             user_cb_count, user_status, user_timeouts;
static unsigned long   allocs_before_cb;
static int             user_naddr, user_nalias, user_addrtype, user_length;
static char            user_name0;
static int             user_had_host;
static int             cb2_count, pending2;
static void           *pending_arg2;
static int             depth;
static int             gai_calls, pending, sync_completed;
static void           *pending_arg;
static int             timeouts_sum;
static const char      the_entry;

static void user_cb2(void *arg, int status, int timeouts, struct hostent *host)
{
  (void)arg; (void)status; (void)timeouts; (void)host;
  cb2_count++;
  VP_ASSERT(cb2_count == 1, "nested request: completion callback invoked at most once");
}

static void user_cb(void *arg, int status, int timeouts, struct hostent *host)
{
  user_cb_count++;
  VP_ASSERT(user_cb_count == 1, "name-to-address completion callback invoked at most once");
  VP_ASSERT(arg == (void *)&user_cb_count, "the caller's argument is handed back");
  user_status      = status;
  user_timeouts    = timeouts;
  allocs_before_cb = vp_alloc_calls;
  user_had_host    = host != NULL;
  if (status == ARES_SUCCESS) VP_ASSERT(host != NULL, "success comes with a host entry");
  if (host != NULL) {
    int i;
    /* everything reachable from the host entry is alive and well-formed (pointer checks) */
    user_name0    = host->h_name != NULL ? host->h_name[0] : 0;
    user_addrtype = host->h_addrtype;
    user_length   = host->h_length;
    for (i = 0; i < 4 && host->h_aliases != NULL && host->h_aliases[i] != NULL; i++) (void)host->h_aliases[i][0];
    user_nalias = i;
    for (i = 0; i < 4 && host->h_addr_list != NULL && host->h_addr_list[i] != NULL; i++) {
      (void)host->h_addr_list[i][0];
      (void)host->h_addr_list[i][host->h_addrtype == AF_INET ? 3 : 15];
    }
    user_naddr = i;
    if (status == ARES_SUCCESS) VP_ASSERT(user_naddr >= 1, "a successful lookup carries at least one address");
  }
#ifndef NO_REENTRY
  if (depth == 0 && vp_bool()) { /* a callback may start a new request */
    depth = 1;
    ares_gethostbyname(&ch, "n", AF_INET, user_cb2, NULL);
    VP_ASSERT(cb2_count + pending2 == 1, "nested request: completed exactly once, or exactly one request pending");
    depth = 2;
  }
#endif
}

/* ------------------------------------------------------------------ result builders */
static void add_node(struct ares_addrinfo *ai, int family)
{
  struct ares_addrinfo_node *n = TALLOC(struct ares_addrinfo_node), **pp;
  VP_ASSUME(n != NULL);
  memset(n, 0, sizeof(*n));
  if (family == AF_INET) {
    struct sockaddr_in *sin = TALLOC(struct sockaddr_in);
    VP_ASSUME(sin != NULL);
    memset(sin, 0, sizeof(*sin));
    sin->sin_family = AF_INET;
    vp_bytes((unsigned char *)&sin->sin_addr, 4);
    n->ai_addr    = (struct sockaddr *)sin;
    n->ai_addrlen = sizeof(*sin);
  } else {
    struct sockaddr_in6 *sin6 = TALLOC(struct sockaddr_in6);
    VP_ASSUME(sin6 != NULL);
    memset(sin6, 0, sizeof(*sin6));
    sin6->sin6_family = AF_INET6;
    vp_bytes((unsigned char *)&sin6->sin6_addr, 16);
    n->ai_addr    = (struct sockaddr *)sin6;
    n->ai_addrlen = sizeof(*sin6);
  }
  n->ai_family = family;
  for (pp = &ai->nodes; *pp != NULL; pp = &(*pp)->ai_next)
    ;
  *pp = n;
}

static void add_cname(struct ares_addrinfo *ai, const char *alias, const char *name)
{
  struct ares_addrinfo_cname *c = TALLOC(struct ares_addrinfo_cname), **pp;
  VP_ASSUME(c != NULL);
  memset(c, 0, sizeof(*c));
  c->alias = ares_strdup(alias);
  c->name  = ares_strdup(name);
  VP_ASSUME(c->alias != NULL && c->name != NULL);
  for (pp = &ai->cnames; *pp != NULL; pp = &(*pp)->next)
    ;
  *pp = c;
}

static struct ares_addrinfo *build_ai(void)
{
  static const char     pat[] = NODES;
  struct ares_addrinfo *ai    = TALLOC(struct ares_addrinfo);
  size_t                i;
  VP_ASSUME(ai != NULL);
  memset(ai, 0, sizeof(*ai));
  ai->name = ares_strdup("qn");
  VP_ASSUME(ai->name != NULL);
  for (i = 0; pat[i] != 0; i++) add_node(ai, pat[i] == '4' ? AF_INET : AF_INET6);
  if (NCN >= 1) add_cname(ai, "qn", "c1");
  if (NCN >= 2) add_cname(ai, "c1", "c2");
  return ai;
}

static struct hostent *make_hostent(int family)
{
  struct hostent *h = TALLOC(struct hostent);
  size_t          n = family == AF_INET6 ? 16 : 4;
  VP_ASSUME(h != NULL);
  memset(h, 0, sizeof(*h));
  h->h_name      = ares_strdup("nm");
  h->h_aliases   = TALLOCN(char *, 2);
  h->h_addr_list = TALLOCN(char *, 2);
  VP_ASSUME(h->h_name != NULL && h->h_aliases != NULL && h->h_addr_list != NULL);
  h->h_aliases[0]   = ares_strdup("al");
  h->h_aliases[1]   = NULL;
  h->h_addr_list[0] = ares_malloc(n);
  h->h_addr_list[1] = NULL;
  VP_ASSUME(h->h_aliases[0] != NULL && h->h_addr_list[0] != NULL);
  vp_bytes((unsigned char *)h->h_addr_list[0], n);
  h->h_addrtype = family == AF_INET6 ? AF_INET6 : AF_INET;
  h->h_length   = (int)n;
  return h;
}

/* ------------------------------------------------------------------ stubs */
void ares_getaddrinfo(ares_channel_t *channel, const char *name, const char *service, const struct ares_addrinfo_hints *hints,
                      ares_addrinfo_callback callback, void *arg)
{
  unsigned mode = vp_u8();
  VP_ASSERT(channel == &ch && callback == ares_gethostbyname_callback && service == NULL, "address lookup with the request's own handler, no service");
  VP_ASSERT(hints != NULL && hints->ai_flags == ARES_AI_CANONNAME && hints->ai_socktype == 0 && hints->ai_protocol == 0, "canonical name asked for, nothing else");
  if (depth != 0) { /* the request started by the callback: stays pending or is refused at once */
    if (mode & 1) { pending2++; pending_arg2 = arg; }
    else callback(arg, ARES_ECONNREFUSED, 0, NULL);
    return;
  }
  VP_ASSERT(name == g_name && hints->ai_family == g_family, "the name and family looked up are the ones asked");
  gai_calls++;
  if (mode == 0) { /* completes synchronously; the result is handed over to the callback */
    int st = (int)vp_range(0, 24);
    int t  = (int)vp_range(0, 2);
    sync_completed = 1;
    timeouts_sum  += t;
    /* two call sites: status and result pointer are constants for symex on the success path */
    if (st == ARES_SUCCESS) ares_gethostbyname_callback(arg, ARES_SUCCESS, t, build_ai());
    else ares_gethostbyname_callback(arg, st, t, NULL);
    return;
  }
  pending++;
  pending_arg = arg;
}

ares_bool_t ares_subnet_match(const struct ares_addr *addr, const struct ares_addr *subnet, unsigned char netmask)
{
  (void)netmask;
  VP_ASSERT(addr->family == subnet->family, "only patterns of the address's family are matched");
  return vp_bool() ? ARES_TRUE : ARES_FALSE;
}

ares_bool_t ares_is_localhost(const char *name) { (void)name; return NAMEKIND == 1 ? ARES_TRUE : ARES_FALSE; }
ares_bool_t ares_is_onion_domain(const char *name) { (void)name; return NAMEKIND == 2 ? ARES_TRUE : ARES_FALSE; }

static int hosts_calls, hosts_result = -1, tohostent_result = -1, localhost_calls, localhost_result = -1;

ares_status_t ares_hosts_search_host(ares_channel_t *channel, ares_bool_t use_env, const char *host, const ares_hosts_entry_t **entry)
{
#ifdef HOSTS /* outcome concrete per job: 0 entry converted, 1 / 5 entry found but conversion ENOMEM / ENOTFOUND,
                2 / 3 / 4 search says ENOTFOUND / EFILE / ENOMEM (a symbolic status would put the whole completion with loopback
                addresses under a symbolic guard: every pointer written there stops being a constant) */
  int r = HOSTS == 2 ? 1 : HOSTS == 3 ? 2 : HOSTS == 4 ? 3 : 0;
#else
  int r = (int)vp_range(0, 3);
#endif
  VP_ASSERT(channel == &ch && use_env == ARES_FALSE && host == g_name, "the hosts file is searched for the name asked");
  hosts_calls++;
  hosts_result = r;
  *entry       = NULL;
  switch (r) {
    case 0:
      *entry = (const ares_hosts_entry_t *)(const void *)&the_entry;
      return ARES_SUCCESS;
    case 1:
      return ARES_ENOTFOUND;
    case 2:
      return ARES_EFILE;
    default:
      return ARES_ENOMEM;
  }
}

ares_status_t ares_hosts_entry_to_hostent(const ares_hosts_entry_t *entry, int family, struct hostent **hostent)
{
#ifdef HOSTS
  int r = HOSTS == 0 ? 0 : HOSTS == 1 ? 1 : 2;
#else
  int r = (int)vp_range(0, 2);
#endif
  VP_ASSERT(entry == (const ares_hosts_entry_t *)(const void *)&the_entry && family == g_family, "the entry found is converted for the family asked");
  tohostent_result = r;
  *hostent         = NULL;
  if (r == 0) {
    *hostent = make_hostent(family);
    return ARES_SUCCESS;
  }
  return r == 1 ? ARES_ENOMEM : ARES_ENOTFOUND;
}

ares_status_t ares_addrinfo_localhost(const char *name, unsigned short port, const struct ares_addrinfo_hints *hints,
                                      struct ares_addrinfo *ai)
{
#ifdef LH /* outcome concrete per job (the node count decides allocation sizes downstream) */
  int r = LH;
#else
  int r = (int)vp_range(0, 2);
#endif
  VP_ASSERT(name == g_name && port == 0 && hints->ai_family == g_family && ai != NULL, "loopback addresses for the name and family asked");
  localhost_calls++;
  localhost_result = r;
  if (hints->ai_family != AF_INET && hints->ai_family != AF_INET6 && hints->ai_family != AF_UNSPEC) return ARES_EBADFAMILY;
  if (r == 1) return ARES_ENOMEM;
  if (ai->name != NULL) ares_free(ai->name);
  ai->name = ares_strdup(name);
  VP_ASSUME(ai->name != NULL);
  if (hints->ai_family != AF_INET) add_node(ai, AF_INET6);
  if (r == 2) return ARES_ENOMEM;
  if (hints->ai_family != AF_INET6) add_node(ai, AF_INET);
  return ARES_SUCCESS;
}

/* ------------------------------------------------------------------ harness */
static int count_family(int fam)
{
  static const char pat[] = NODES;
  int               c = 0;
  size_t            i;
  for (i = 0; pat[i] != 0; i++)
    if ((pat[i] == '4' ? AF_INET : AF_INET6) == fam) c++;
  return c;
}

static void check_result(void)
{
  static const char pat[]  = NODES;
  int               first  = pat[0] == '4' ? AF_INET : AF_INET6;
  VP_ASSERT(user_status == ARES_SUCCESS && user_had_host, "an address result is converted into a host entry");
  VP_ASSERT(user_addrtype == first && user_length == (first == AF_INET ? 4 : 16), "the host entry has the family of the first address");
  VP_ASSERT(user_naddr == count_family(first), "it carries exactly the addresses of that family");
  VP_ASSERT(user_nalias == NCN, "it carries the aliases of the CNAME chain");
  VP_ASSERT(user_name0 == (NCN ? 'c' : 'q'), "its name is the canonical name");
}

void harness(void)
{
  vp_alloc_install();
  ch.sortlist = sortlist;
  ch.nsort    = vp_range(0, 2);
  sortlist[0].addr.family = vp_bool() ? AF_INET : AF_INET6;
  sortlist[1].addr.family = vp_bool() ? AF_INET : AF_INET6;
  sortlist[0].mask        = vp_u8();
  sortlist[1].mask        = vp_u8();

#if ENTRY == 0
  {
    int use_cb = vp_bool();
    g_family   = vp_int();
#  ifdef ALLOCFAIL
    vp_alloc_fail_at = ALLOCFAIL;
#  endif
    ares_gethostbyname(&ch, g_name, g_family, use_cb ? user_cb : NULL, &user_cb_count);
    vp_alloc_fail_at = 0;
    if (!use_cb) {
      VP_ASSERT(gai_calls == 0 && vp_alloc_calls == 0 && user_cb_count == 0, "without a callback nothing is started");
      VP_WITNESS("no callback");
    } else {
      VP_ASSERT(user_cb_count + pending == 1, "after starting: completed exactly once, or exactly one request pending");
#  ifdef ALLOCFAIL
      VP_ASSERT(user_cb_count == 1 && user_status == ARES_ENOMEM && gai_calls == 0, "out of memory at start: reported once, nothing started");
      VP_WITNESS("failed before any send");
#  else
      VP_ASSERT(gai_calls == 1, "one address lookup is started");
      if (sync_completed) {
        VP_ASSERT(user_cb_count == 1, "synchronous completion reaches the caller");
        if (user_status == ARES_SUCCESS) { check_result(); VP_WITNESS("answered synchronously"); }
        VP_WITNESS("completed synchronously");
      }
      if (pending) VP_WITNESS("pending");
#  endif
    }
  }
#elif ENTRY == 1
  {
    struct host_query    *ga = TALLOC(struct host_query);
    int                   st = (int)vp_range(0, 24), t = (int)vp_range(0, 5);
    VP_ASSUME(ga != NULL);
    ga->callback = user_cb;
    ga->arg      = &user_cb_count;
    ga->channel  = &ch;
    /* two call sites: status and result pointer are constants for symex on the success path */
    if (st == ARES_SUCCESS) {
      ares_gethostbyname_callback(ga, ARES_SUCCESS, t, build_ai());
    } else {
      if (st == ARES_EDESTRUCTION) {
        /* the channel is going away: the completion must not touch it any more (a dangling pointer makes any access a
           pointer-check failure) */
        ares_channel_t *dead = malloc(sizeof(*dead));
        free(dead);
        ga->channel = dead;
      }
      ares_gethostbyname_callback(ga, st, t, NULL);
    }
    VP_ASSERT(user_cb_count == 1 && gai_calls == 0, "a completion is reported exactly once, nothing new is started");
    VP_ASSERT(user_timeouts == t, "timeouts are passed through");
    if (st == ARES_SUCCESS) {
      check_result();
      VP_WITNESS("answer");
      if (ch.nsort > 0) VP_WITNESS("sorted by the sort list");
    } else {
      VP_ASSERT(user_status == st && !user_had_host, "errors are passed through without a host entry");
      if (st == ARES_ECANCELLED || st == ARES_EDESTRUCTION) VP_WITNESS("cancelled or destroyed");
    }
  }
#else
  {
    struct hostent  *host  = (struct hostent *)(void *)&the_entry; /* garbage the call must overwrite */
#  ifdef NULLARGS
    struct hostent **hostp = vp_bool() ? &host : NULL;
    const char      *name  = vp_bool() ? g_name : NULL;
#  else
    struct hostent **hostp = &host;
    const char      *name  = g_name;
#  endif
    int              rv;
#  ifdef FAMREQ /* family concrete per job (address length = allocation size) */
    g_family = FAMREQ == 4 ? AF_INET : FAMREQ == 6 ? AF_INET6 : AF_UNSPEC;
#  else
    g_family = vp_bool() ? AF_INET : vp_bool() ? AF_INET6 : AF_UNSPEC;
#  endif
#  ifdef ALLOCFAIL
    vp_alloc_fail_at = ALLOCFAIL;
#  endif
    rv = ares_gethostbyname_file(&ch, name, g_family, hostp);
    vp_alloc_fail_at = 0;
    VP_ASSERT(vp_lock_depth == 0, "channel lock released");
    if (hostp == NULL || name == NULL) {
      VP_ASSERT(rv == ARES_ENOTFOUND && hosts_calls == 0, "missing arguments: ARES_ENOTFOUND");
      if (hostp != NULL) VP_ASSERT(host == NULL, "no host entry on failure");
      VP_WITNESS("failed before any send");
    } else {
      if (rv == ARES_SUCCESS) {
        VP_ASSERT(host != NULL && host->h_addr_list != NULL && host->h_addr_list[0] != NULL, "success: a host entry with an address");
        VP_WITNESS("found");
        if (localhost_calls && hosts_result == 0 && tohostent_result == 0) VP_WITNESS("hosts-file entry completed with loopback addresses");
      } else {
        /* KF region of ghbn_file_localhost_oom_hostent: a localhost name found in the hosts file, converted, and the
           completion with loopback addresses failed */
#  ifdef KFONLY_ghbn_file_localhost_oom_hostent
        VP_ASSUME(localhost_calls == 1 && hosts_result == 0 && tohostent_result == 0);
#  endif
#  ifdef KF_ghbn_file_localhost_oom_hostent
        if (!(localhost_calls == 1 && hosts_result == 0 && tohostent_result == 0))
#  endif
        VP_ASSERT(host == NULL, "FINDING ghbn_file_localhost_oom_hostent: a failing ares_gethostbyname_file() leaves *host == NULL (documented); "
                                "the hosts-file entry is not left behind when completing it with loopback addresses runs out of memory");
      }
      if (NAMEKIND == 2) VP_ASSERT(rv == ARES_ENOTFOUND && hosts_calls == 0, ".onion names are never looked up (RFC 7686)");
      if (NAMEKIND == 0) VP_ASSERT(localhost_calls == 0, "loopback addresses only for localhost names");
      if (NAMEKIND == 1 && !(hosts_result == 3 || (hosts_result == 0 && tohostent_result == 1)))
        VP_ASSERT(localhost_calls == 1, "localhost names always get the loopback addresses unless memory ran out");
      if (host != NULL) ares_free_hostent(host);
    }
  }
#endif
  if (depth == 2) VP_WITNESS("callback started a new request");
  if (pending) {
    struct host_query *ga = pending_arg;
    VP_ASSERT(ga->callback == user_cb && ga->arg == (void *)&user_cb_count && ga->channel == &ch, "the outstanding lookup carries the caller's callback");
    ares_free(ga);
  }
  if (pending2) ares_free(pending_arg2);
  VP_ASSERT(vp_alloc_live == 0, "request state, address result and host entry are released exactly once");
  VP_WITNESS("end");
}
