/* C01 compound requests: ares_query life-cycle, ONE step.
 * Real: whole ares_query.c (included): ares_query_nolock, ares_query_dnsrec, ares_query, ares_query_dnsrec_cb;
 *       ares_search.c for the legacy adaptor (ares_dnsrec_convert_arg / ares_dnsrec_convert_cb);
 *       ares_dns_mapping.c (ares_dns_query_reply_tostatus).
 * ENTRY 0: ares_query_dnsrec() from scratch.      ENTRY 2: legacy ares_query() from scratch (name may be NULL).
 * ENTRY 1: ares_query_dnsrec_cb() delivering the completion of the outstanding wire request: any status, with or without
 *          a record (any rcode 0..15, answer count 0..2).
 * Contract stubs:
 *   ares_dns_record_create_query   success (abstract record) | any failure status (nothing allocated)
 *   ares_send_nolock               G-send (the real one is checked against it in machine/send_early.c): a failure status is
 *                                  returned only AFTER the callback was invoked with that status; success = answered
 *                                  synchronously (callback invoked with a record) or pending (qid written).  The callback it
 *                                  invokes is the REAL ares_query_dnsrec_cb (no hypothesis needed: it does not recurse).
 *   ares_dns_write                 any status; success hands out an ares_malloc'ed buffer
 * The user callback may start a new request on the same channel (depth 1). */
#include "vp.h"
#include "ares_query.c"
#include "dnsrec_abs.h"

#ifndef ENTRY
#  define ENTRY 0
#endif

extern int vp_lock_depth; /* lock_ghost.c */

static ares_channel_t ch;
static int            user_cb_count, user_status, user_had_rec;
static int            cb2_count;            /* the request started from inside the callback */
static int            depth;
static int            sends, pending, pending2;
static void          *pending_arg, *pending_arg2;
static int            create_calls, create_failed;
static int            completed_in_send;
static const ares_dns_record_t *delivered_rec;
static int            expect_status = -1;
static int            write_status = -1;    /* ares_dns_write outcome (legacy adaptor), -1 = not called */

static void user_cb2(void *arg, ares_status_t status, size_t timeouts, const ares_dns_record_t *dnsrec)
{
  (void)arg; (void)status; (void)timeouts; (void)dnsrec;
  cb2_count++;
  VP_ASSERT(cb2_count == 1, "nested request: completion callback invoked at most once");
}

static void user_cb(void *arg, ares_status_t status, size_t timeouts, const ares_dns_record_t *dnsrec)
{
  (void)timeouts;
  user_cb_count++;
  VP_ASSERT(user_cb_count == 1, "query completion callback invoked at most once");
  VP_ASSERT(arg == (void *)&user_cb_count, "the caller's argument is handed back");
  user_status  = (int)status;
  user_had_rec = dnsrec != NULL;
  if (dnsrec != NULL) {
    VP_ASSERT(dnsrec == delivered_rec, "the record handed over is the one that was delivered");
    (void)ares_dns_record_get_rcode(dnsrec); /* still alive (pointer checks) */
  }
  if (depth == 0 && vp_bool()) { /* a callback may start a new request */
    ares_status_t rv;
    depth = 1;
    rv    = ares_query_dnsrec(&ch, "n", ARES_CLASS_IN, ARES_REC_TYPE_A, user_cb2, NULL, NULL);
    VP_ASSERT(cb2_count + pending2 == 1, "nested request: completed exactly once, or exactly one request pending");
    if (rv != ARES_SUCCESS) VP_ASSERT(cb2_count == 1, "nested request: a failure status is returned only after the callback ran");
    depth = 2;
  }
}

static void legacy_cb(void *arg, int status, int timeouts, unsigned char *abuf, int alen)
{
  (void)timeouts;
  user_cb_count++;
  VP_ASSERT(user_cb_count == 1, "query completion callback invoked at most once");
  VP_ASSERT(arg == (void *)&user_cb_count, "the caller's argument is handed back");
  user_status  = status;
  user_had_rec = abuf != NULL;
  if (abuf != NULL) {
    VP_ASSERT(alen == 12, "length of the serialised answer");
    (void)abuf[0]; (void)abuf[alen - 1]; /* alive and as long as stated */
  }
}

ares_bool_t ares_is_onion_domain(const char *name) { (void)name; return ARES_FALSE; }

ares_status_t ares_dns_record_create_query(ares_dns_record_t **dnsrec, const char *name, ares_dns_class_t dnsclass,
                                           ares_dns_rec_type_t type, unsigned short id, ares_dns_flags_t flags,
                                           size_t max_udp_size)
{
  ares_status_t st = (ares_status_t)vp_range(0, 24);
  (void)id; (void)max_udp_size;
  VP_ASSERT(name != NULL, "a request is only built for a name");
  if (depth == 0) {
    create_calls++;
    VP_ASSERT(((flags & ARES_FLAG_RD) != 0) == ((ch.flags & ARES_FLAG_NORECURSE) == 0), "RD is set unless ARES_FLAG_NORECURSE");
  }
  *dnsrec = NULL;
  if (st != ARES_SUCCESS) {
    if (depth == 0) create_failed = 1;
    return st;
  }
  *dnsrec = vp_absrec_new(id);
  VP_ASSUME(*dnsrec != NULL);
  vp_absrec_set_question(*dnsrec, name, (int)type, (int)dnsclass);
  return ARES_SUCCESS;
}

ares_status_t ares_dns_write(const ares_dns_record_t *dnsrec, unsigned char **buf, size_t *buf_len)
{
  ares_status_t st = (ares_status_t)vp_range(0, 24);
  VP_ASSERT(dnsrec != NULL, "only a record is serialised");
  *buf     = NULL;
  *buf_len = 0;
  write_status = (int)st;
  if (st != ARES_SUCCESS) return st;
  *buf = ares_malloc(12);
  VP_ASSUME(*buf != NULL);
  *buf_len = 12;
  return ARES_SUCCESS;
}

static ares_dns_record_t *make_answer(void)
{
  ares_dns_record_t *resp = vp_absrec_new(vp_u16());
  VP_ASSUME(resp != NULL);
  resp->rcode = (ares_dns_rcode_t)vp_range(0, 15);
  vp_absrec_set_ancount(resp, vp_range(0, 2));
  return resp;
}

ares_status_t ares_send_nolock(ares_channel_t *channel, ares_server_t *server, ares_send_flags_t flags,
                               const ares_dns_record_t *dnsrec, ares_callback_dnsrec callback, void *arg,
                               unsigned short *qid)
{
  unsigned mode   = vp_u8();
  int      nested = depth != 0;
  VP_ASSERT(channel == &ch && server == NULL && flags == 0, "plain request on the caller's channel");
  VP_ASSERT(callback == ares_query_dnsrec_cb, "queries are sent with their own completion handler");
  VP_ASSERT(dnsrec != NULL && ares_dns_record_query_cnt(dnsrec) == 1, "the request built is the one sent");
  if (!nested) sends++;
  if (mode == 0) { /* failure: callback first, same status returned */
    ares_status_t st = (ares_status_t)vp_range(1, 24);
    if (!nested) { completed_in_send = 1; expect_status = (int)st; }
    callback(arg, st, vp_range(0, 2), NULL);
    return st;
  }
  if (mode == 1) { /* answered synchronously (cache) */
    ares_dns_record_t *resp = make_answer();
    if (!nested) {
      completed_in_send = 1;
      delivered_rec     = resp;
      expect_status     = (int)ares_dns_query_reply_tostatus(resp->rcode, ares_dns_record_rr_cnt(resp, ARES_SECTION_ANSWER));
    }
    callback(arg, ARES_SUCCESS, 0, resp);
    ares_dns_record_destroy(resp);
    return ARES_SUCCESS;
  }
  if (nested) { pending2++; pending_arg2 = arg; }
  else { pending++; pending_arg = arg; }
  if (qid != NULL) *qid = vp_u16();
  return ARES_SUCCESS;
}

void harness(void)
{
  vp_alloc_install();
  ch.flags   = (vp_bool() ? ARES_FLAG_NORECURSE : 0) | (vp_bool() ? ARES_FLAG_EDNS : 0);
  ch.ednspsz = vp_u16();

#if ENTRY == 0
  {
    unsigned short qid = 0;
    ares_status_t  rv;
#  ifdef ALLOCFAIL
    vp_alloc_fail_at = ALLOCFAIL; /* 3: the query argument (1, 2 = the abstract request record) */
#  endif
    rv = ares_query_dnsrec(&ch, "a.b", ARES_CLASS_IN, (ares_dns_rec_type_t)vp_range(1, 255), user_cb,
                                           &user_cb_count, vp_bool() ? &qid : NULL);
    vp_alloc_fail_at = 0;
    VP_ASSERT(vp_lock_depth == 0, "channel lock released");
    VP_ASSERT(user_cb_count + pending == 1, "after starting: completed exactly once, or exactly one request pending");
    VP_ASSERT(create_calls == 1, "one request record is built");
    if (rv != ARES_SUCCESS) {
      VP_ASSERT(user_cb_count == 1 && user_status == (int)rv, "a failure status is returned only after the callback ran with it");
    }
    if (create_failed) {
      VP_ASSERT(sends == 0 && rv != ARES_SUCCESS, "nothing is sent when the request cannot be built");
      VP_WITNESS("failed before any send");
#  ifdef ALLOCFAIL
    } else if (1) {
      VP_ASSERT(sends == 0 && rv == ARES_ENOMEM && user_cb_count == 1, "out of memory before sending: reported once, nothing sent");
      VP_WITNESS("out of memory before any send");
#  endif
    } else {
      VP_ASSERT(sends == 1, "the request is sent once");
      if (completed_in_send) {
        VP_ASSERT(user_cb_count == 1 && user_status == expect_status, "status reported = status delivered (rcode/answer count mapped)");
        VP_WITNESS("completed synchronously");
      } else {
        VP_ASSERT(rv == ARES_SUCCESS && user_cb_count == 0, "pending: success returned, callback not yet invoked");
        VP_WITNESS("pending");
      }
    }
  }
#elif ENTRY == 2
  {
    const char *name = vp_bool() ? "a.b" : NULL;
#  ifdef ALLOCFAIL
    vp_alloc_fail_at = ALLOCFAIL; /* 1: the adaptor argument; 4: the query argument (2, 3 = the abstract request record) */
#  endif
    ares_query(&ch, name, ARES_CLASS_IN, (int)vp_range(1, 255), legacy_cb, &user_cb_count);
    vp_alloc_fail_at = 0;
    VP_ASSERT(vp_lock_depth == 0, "channel lock released");
    VP_ASSERT(user_cb_count + pending == 1, "after starting: completed exactly once, or exactly one request pending");
    if (sends == 0) {
      VP_ASSERT(user_cb_count == 1 && user_status != ARES_SUCCESS, "no request sent: completed with an error");
#  ifdef ALLOCFAIL
      if (name != NULL && !create_failed) {
        VP_ASSERT(user_status == ARES_ENOMEM, "out of memory before sending: reported once");
        VP_WITNESS("out of memory before any send");
      }
#  endif
      VP_WITNESS("failed before any send");
    } else if (completed_in_send) {
      if (write_status > 0) VP_ASSERT(user_status == write_status && !user_had_rec, "an answer that cannot be serialised is reported as that error");
      else VP_ASSERT(user_status == expect_status && user_had_rec == (write_status == 0), "status reported = status delivered; answers are handed over serialised");
      VP_WITNESS("completed synchronously");
    } else {
      VP_WITNESS("pending");
    }
  }
#else
  {
    ares_query_dnsrec_arg_t *qq = ares_malloc(sizeof(*qq));
    ares_status_t            st = (ares_status_t)vp_range(0, 24);
    ares_dns_record_t       *resp = NULL;
    VP_ASSUME(qq != NULL);
    qq->callback = user_cb;
    qq->arg      = &user_cb_count;
    if (st == ARES_SUCCESS || vp_bool()) resp = make_answer(); /* failures may carry a record too (e.g. ARES_ESERVFAIL paths) */
    delivered_rec = resp;
    ares_query_dnsrec_cb(qq, st, vp_range(0, 2), resp);
    VP_ASSERT(user_cb_count == 1, "a completion is reported exactly once");
    if (st != ARES_SUCCESS) {
      VP_ASSERT(user_status == (int)st, "errors are passed through");
      if (st == ARES_ECANCELLED || st == ARES_EDESTRUCTION) VP_WITNESS("cancelled or destroyed");
    } else {
      VP_ASSERT(user_status == (int)ares_dns_query_reply_tostatus(resp->rcode, ares_dns_record_rr_cnt(resp, ARES_SECTION_ANSWER)),
                "answers: status from rcode and answer count");
      VP_ASSERT(user_had_rec, "the answer is handed over");
      if (user_status == ARES_ENODATA) VP_WITNESS("no data");
      if (user_status == ARES_SUCCESS) VP_WITNESS("answer");
    }
    if (resp != NULL) ares_dns_record_destroy(resp);
  }
#endif
  if (depth == 2) VP_WITNESS("callback started a new request");
  /* what is still owned by outstanding wire requests is released for the leak check */
  if (pending) {
#if ENTRY == 2
    {
      /* legacy adaptor: the wrapper's argument owns the adaptor argument */
      ares_query_dnsrec_arg_t *qq = pending_arg;
      VP_ASSERT(qq->callback == ares_dnsrec_convert_cb, "legacy requests complete through the adaptor");
      ares_free(qq->arg);
      ares_free(qq);
    }
#else
    ares_free(pending_arg);
#endif
  }
  if (pending2) ares_free(pending_arg2);
  VP_ASSERT(vp_alloc_live == 0, "request state is released exactly once");
  VP_WITNESS("end");
}
