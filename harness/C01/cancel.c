/* C01 / cancel + end_query ownership: exactly-once completion and no use after
 * release when callbacks re-enter ares_cancel() or start new requests.
 * Real: ares_cancel.c (linked), end_query/ares_free_query/ares_detach_query/
 * ares_query_remove_from_conn/ares_requeue_query (ares_process.c included),
 * dsa/ares_llist.c, ares_library_init.c.
 * Stubs: slist_ref, szvp_ref (reference containers), lock_ghost, abstract
 * records, ares_metrics_record (no-op), ares_check_cleanup_conns (no-op). */
#include "vp.h"
#include "ares_process.c"
#include "dnsrec_abs.h"

#ifndef NQ
#  define NQ 2
#endif
#define MAXTOK (NQ + 2)

extern int vp_lock_depth;

static ares_channel_t  ch;
static ares_conn_t     conn;
static ares_server_t   srv;
static int             cb_count[MAXTOK];
static ares_status_t   cb_status[MAXTOK];
static int             ntok;
static int             depth;
static int             reentered_cancel, started_new;

void ares_metrics_record(const ares_query_t *query, ares_server_t *server, ares_status_t status,
                         const ares_dns_record_t *dnsrec)
{
  (void)query; (void)server; (void)status; (void)dnsrec;
}
void ares_check_cleanup_conns(const ares_channel_t *channel)
{
  (void)channel;
  VP_ASSERT(vp_lock_depth > 0, "cleanup runs under the channel lock");
}

static int tv_cmp(const void *a, const void *b)
{
  const ares_query_t *q1 = a, *q2 = b;
  if (q1->timeout.sec != q2->timeout.sec) return q1->timeout.sec < q2->timeout.sec ? -1 : 1;
  if (q1->timeout.usec != q2->timeout.usec) return q1->timeout.usec < q2->timeout.usec ? -1 : 1;
  return 0;
}

static void user_cb(void *arg, ares_status_t status, size_t timeouts, const ares_dns_record_t *dnsrec);

/* a live query in an arbitrary valid link state (what ares_send_nolock + ares_send_query leave behind) */
static ares_query_t *new_query(void)
{
  ares_query_t *q = ares_malloc_zero(sizeof(*q));
  int           tok = ntok++;
  VP_ASSUME(q != NULL);
  q->channel          = &ch;
  /* any id not currently in use (a finished query's id may be reused) */
  q->qid              = (unsigned short)vp_range(100, 100 + MAXTOK);
  VP_ASSUME(ares_htable_szvp_get_direct(ch.queries_by_qid, q->qid) == NULL);
  q->callback         = user_cb;
  q->arg              = &cb_count[tok];
  q->query            = vp_absrec_new(q->qid);
  q->node_all_queries = ares_llist_insert_last(ch.all_queries, q);
  VP_ASSUME(q->node_all_queries != NULL);
  ares_htable_szvp_insert(ch.queries_by_qid, q->qid, q);
  if (vp_bool()) { /* in flight on the connection */
    q->conn                    = &conn;
    q->node_queries_to_conn    = ares_llist_insert_last(conn.queries_to_conn, q);
    q->timeout.sec             = (ares_int64_t)vp_range(0, 3);
    q->node_queries_by_timeout = ares_slist_insert(ch.queries_by_timeout, q);
    VP_ASSUME(q->node_queries_to_conn != NULL && q->node_queries_by_timeout != NULL);
  }
  return q;
}

static void user_cb(void *arg, ares_status_t status, size_t timeouts, const ares_dns_record_t *dnsrec)
{
  int *cnt = arg;
  (void)timeouts; (void)dnsrec;
  (*cnt)++;
  VP_ASSERT(*cnt == 1, "completion callback invoked at most once per request");
  cb_status[cnt - cb_count] = status;
  if (depth == 0) {
    unsigned c = vp_u8();
    depth++;
    if (c == 1) {
      reentered_cancel = 1;
      ares_cancel(&ch);
    } else if (c == 2 && ntok < MAXTOK) {
      started_new = 1;
      (void)new_query();
    }
    depth--;
  }
}

void harness(void)
{
  ares_query_t  *q[NQ];
  ares_timeval_t now;
  unsigned       entry;
  int            i, n0;

  vp_alloc_install();
  ch.all_queries        = ares_llist_create(NULL);
  ch.queries_by_qid     = ares_htable_szvp_create(NULL);
  ch.queries_by_timeout = ares_slist_create(NULL, tv_cmp, NULL);
  ch.tries              = 1;
  ch.servers            = ares_slist_create(NULL, tv_cmp, NULL); /* empty: budget servers*tries == 0 */
  conn.server           = &srv;
  conn.queries_to_conn  = ares_llist_create(NULL);
  srv.channel           = &ch;
  VP_ASSUME(ch.all_queries && ch.queries_by_qid && ch.queries_by_timeout && ch.servers && conn.queries_to_conn);
  for (i = 0; i < NQ; i++)
    q[i] = new_query();
  n0       = ntok;
  now.sec  = 5;
  now.usec = 0;

  entry = vp_u8();
  if (entry == 0) {
    /* application cancels everything */
    ares_cancel(&ch);
    for (i = 0; i < n0; i++) {
      VP_ASSERT(cb_count[i] == 1, "every request present at cancel completes exactly once");
      VP_ASSERT(cb_status[i] == ARES_ECANCELLED, "cancelled requests report ARES_ECANCELLED");
    }
    VP_WITNESS("cancel path");
  } else if (entry == 1) {
    /* any completion path: a query ends with some status */
    size_t        k  = vp_range(0, NQ - 1);
    ares_status_t st = (ares_status_t)vp_range(0, 24);
    end_query(&ch, vp_bool() ? &srv : NULL, q[k], st, NULL);
    VP_ASSERT(cb_count[k] == 1, "ended request completed exactly once");
    VP_WITNESS("end_query path");
  } else if (entry == 2) {
    /* retry budget exhausted: requeue ends the query */
    size_t k = vp_range(0, NQ - 1);
    ares_status_t rs;
    rs = ares_requeue_query(q[k], &now, ARES_ETIMEOUT, ARES_TRUE, NULL, NULL);
    VP_ASSERT(rs == ARES_ETIMEOUT, "exhausted budget reports ETIMEOUT");
    VP_ASSERT(cb_count[k] == 1, "request with exhausted budget completed exactly once");
    VP_WITNESS("requeue-exhausted path");
  } else {
    VP_ASSUME(0);
  }
  /* link-state invariant: every live query is reachable through the qid index under its own id */
  {
    ares_llist_node_t *n;
    for (n = ares_llist_node_first(ch.all_queries); n != NULL; n = ares_llist_node_next(n)) {
      ares_query_t *lq = ares_llist_node_val(n);
      VP_ASSERT(ares_htable_szvp_get_direct(ch.queries_by_qid, lq->qid) == lq, "live query indexed under its id");
      VP_ASSERT(lq->node_all_queries == n, "live query knows its list node");
    }
    VP_ASSERT(ares_htable_szvp_num_keys(ch.queries_by_qid) == ares_llist_len(ch.all_queries),
              "qid index holds exactly the live queries");
  }
  if (reentered_cancel) VP_WITNESS("callback re-entered ares_cancel");
  if (started_new) VP_WITNESS("callback started a new request");
  for (i = 0; i < MAXTOK; i++)
    VP_ASSERT(cb_count[i] <= 1, "no request completes twice");

  /* channel remains consistent: a final cancel completes whatever is left exactly once */
  depth = 1; /* no further re-entry */
  ares_cancel(&ch);
  for (i = 0; i < ntok; i++)
    VP_ASSERT(cb_count[i] == 1, "after the final cancel every request ever started has completed exactly once");
  VP_ASSERT(ares_llist_len(ch.all_queries) == 0, "no query left linked");
  VP_ASSERT(ares_htable_szvp_num_keys(ch.queries_by_qid) == 0, "qid index empty");
  VP_ASSERT(ares_slist_len(ch.queries_by_timeout) == 0, "timeout index empty");
  VP_ASSERT(ares_llist_len(conn.queries_to_conn) == 0, "connection carries no query");
  VP_ASSERT(vp_lock_depth == 0, "channel lock released");
  VP_WITNESS("end");
}
