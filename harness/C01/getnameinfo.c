/* C01 compound requests: ares_getnameinfo life-cycle, ONE step.
 * Real: whole ares_getnameinfo.c (included): ares_getnameinfo, ares_getnameinfo_int, nameinfo_callback, lookup_service,
 *       append_scopeid, ares_striendstr; ares_str.c (ares_strlen, ares_strcpy, ares_tolower); ares_free_hostent.c.
 * ENTRY 0: ares_getnameinfo() from scratch.  FAM 1 = struct sockaddr_in, 2 = struct sockaddr_in6 (exact-size heap objects:
 *          any over-read is a pointer-check failure), symbolic port / address / scope id.  FLAGCLASS: 0 = service only
 *          (LOOKUPSERVICE without LOOKUPHOST), 1 = numeric host, 2 = DNS lookup.  -DFLAGS=<word>: the flag word is the
 *          job's constant (quick tier: every branch on it folds), with the protocol / numeric-scope / IDN bits varied over
 *          four constant call sites; without -DFLAGS every other flag bit is symbolic (thorough tier: CBMC cannot fold
 *          a test on (constant | symbolic) bits, so every path of the file is encoded).
 *          BADSA: ANY sa_family and ANY salen <= object size (only a matching family with a full-size salen may pass).
 * ENTRY 1: nameinfo_callback() delivering the completion of the outstanding address-to-name lookup: ANY status 0..24, host
 *          entry exactly on success (the stub frees it after the callback returned, as end_aquery does).
 * Contract stubs:
 *   ares_gethostbyaddr_nolock   invokes its callback exactly once: synchronously (any status) or later (pending); checked on
 *                               the real code by compound_gha_*.  The callback it runs is the REAL nameinfo_callback.
 *   ares_inet_ntop              NUL-terminated text of ANY length up to 15 (IPv4) / 45 (IPv6) characters (with -DFLAGS: the
 *                               longest one), never fails for these families with a buffer of at least 16 / 46 bytes
 *   getservbyport_r             error | not found | entry without a name | name of 4, 32, 33 or 40 characters
 *   gethostname                 succeeds: "h.d.e" or "host";  if_indextoname: NULL | name of 3 or 15 characters
 *   snprintf("%u" / "%lu")      the right NUMBER of decimal digits for the value, digit values arbitrary
 * The user callback may start a new ares_getnameinfo() on the same channel (depth 1). */
#include "ares_private.h"
#include <stdio.h>
#include <unistd.h>
#include <netdb.h>
#include <net/if.h>
#include <arpa/inet.h>
#include "vp.h"

static int   vp_getservbyport_r(int port, const char *proto, struct servent *se, char *buf, size_t buflen, struct servent **result);
static int   vp_gethostname(char *name, size_t len);
static char *vp_if_indextoname(unsigned int ifindex, char *ifname);
static int   vp_snprintf_num(char *buf, size_t n, const char *fmt, unsigned long v);
#define getservbyport_r            vp_getservbyport_r
#define gethostname                vp_gethostname
#define if_indextoname             vp_if_indextoname
#define snprintf(buf, n, fmt, val) vp_snprintf_num(buf, n, fmt, (unsigned long)(val))
#ifndef VP_NATIVE
/* the request state is a TYPED object for symex (its flags / family words stay constants when the job's are); accounting
   as in valloc.c, released through ares_free as usual */
static int vp_typed_pre(void);
#  define ares_malloc(n) (vp_typed_pre() ? malloc(n) : NULL)
#endif
#include "ares_getnameinfo.c"
#undef snprintf
#undef ares_malloc
#ifndef VP_NATIVE
static int vp_typed_pre(void)
{
  vp_alloc_calls++;
  if (vp_alloc_fail_at != 0 && vp_alloc_calls == vp_alloc_fail_at) return 0;
  vp_alloc_live++;
  return 1;
}
#endif

#ifndef ENTRY
#  define ENTRY 0
#endif
#ifndef FAM
#  define FAM 1
#endif
#ifndef FLAGCLASS
#  define FLAGCLASS 2
#endif
#define FAMILY  (FAM == 2 ? AF_INET6 : AF_INET)
#define ADDRLEN (FAM == 2 ? 16 : 4)
#define SALEN   (FAM == 2 ? sizeof(struct sockaddr_in6) : sizeof(struct sockaddr_in))

#ifdef VP_NATIVE
#  define TALLOC(T)     ((T *)vp_malloc(sizeof(T)))
#  define TALLOCN(T, n) ((T *)vp_malloc((n) * sizeof(T)))
#else /* typed objects: stored pointers stay constants for symex */
#  define TALLOC(T)     (vp_alloc_live++, (T *)malloc(sizeof(T)))
#  define TALLOCN(T, n) (vp_alloc_live++, (T *)malloc((n) * sizeof(T)))
#endif

extern int vp_lock_depth; /* lock_ghost.c */

static ares_channel_t  ch;
static unsigned char   g_addr[16];
static unsigned short  g_port;
static unsigned int    g_flags;          /* flags of the outer request, after defaulting */
static int             user_cb_count, user_status, user_timeouts;
static unsigned long   allocs_before_cb; /* allocations made by the outer request before its callback ran */
static char           *user_node, *user_service;
static size_t          user_node_len, user_service_len;
static int             cb2_count, pending2;
static void           *pending_arg2;
static int             depth;
static int             gha_calls, pending, sync_completed;
static void           *pending_arg;
static struct hostent *g_host;
static int             host_matches_domain; /* h_name is "n" + the local domain (other case) */
static int             hostname_has_domain;
static int             serv_calls, serv_mode = -1;
static char           *ntop_dst;
static int             timeouts_sum;
static int             expect_family = FAMILY, check_addr = 1;

static size_t str_len(const char *s, size_t max) /* walks the string: reading past its object is a pointer-check failure */
{
  size_t i;
  for (i = 0; i < max; i++)
    if (s[i] == 0) return i;
  return max;
}

static void user_cb2(void *arg, int status, int timeouts, char *node, char *service)
{
  (void)arg; (void)status; (void)timeouts;
  cb2_count++;
  VP_ASSERT(cb2_count == 1, "nested request: completion callback invoked at most once");
  if (node != NULL) VP_ASSERT(str_len(node, 64) < 64, "nested request: node is a terminated string");
  if (service != NULL) VP_ASSERT(str_len(service, 64) < 33, "nested request: service fits its buffer");
}

static void user_cb(void *arg, int status, int timeouts, char *node, char *service)
{
  user_cb_count++;
  VP_ASSERT(user_cb_count == 1, "name-info completion callback invoked at most once");
  VP_ASSERT(arg == (void *)&user_cb_count, "the caller's argument is handed back");
  user_status      = status;
  allocs_before_cb = vp_alloc_calls;
  user_timeouts = timeouts;
  user_node     = node;
  user_service  = service;
  if (status != ARES_SUCCESS) VP_ASSERT(node == NULL && service == NULL, "no strings are handed over with an error");
  if (node != NULL) {
    user_node_len = str_len(node, 64);
    VP_ASSERT(user_node_len < IPBUFSIZ, "node is a terminated string that fits the address-text buffer");
  }
  if (service != NULL) {
    user_service_len = str_len(service, 64);
    VP_ASSERT(user_service_len < 33, "service is a terminated string that fits its 33-byte buffer");
  }
#ifndef NO_REENTRY
  if (depth == 0 && vp_bool()) { /* a callback may start a new request */
    struct sockaddr_in *sa2 = malloc(sizeof(*sa2));
    memset(sa2, 0, sizeof(*sa2));
    sa2->sin_family = AF_INET;
    sa2->sin_port   = vp_u16();
    depth           = 1;
    ares_getnameinfo(&ch, (struct sockaddr *)sa2, sizeof(*sa2), ARES_NI_LOOKUPHOST, user_cb2, NULL);
    VP_ASSERT(cb2_count + pending2 == 1, "nested request: completed exactly once, or exactly one request pending");
    depth = 2;
    free(sa2);
  }
#endif
}

/* ------------------------------------------------------------------ stubs */
static struct hostent *make_hostent(int family)
{
  struct hostent *h = TALLOC(struct hostent);
  size_t          i, n = family == AF_INET ? 4 : 16;
#ifdef HOSTDOM /* 0: local host name without a domain; 1: with a domain the name found ends in; 2: with another domain */
  int             m = HOSTDOM == 1;
#else
  int             m = vp_bool();
#endif
  VP_ASSUME(h != NULL);
  memset(h, 0, sizeof(*h));
  if (depth == 0) host_matches_domain = m;
  h->h_name           = m ? ares_strdup("n.D.e") : ares_strdup("n.x.y");
  h->h_aliases        = TALLOCN(char *, 1);
  h->h_addr_list      = TALLOCN(char *, 2);
  VP_ASSUME(h->h_name != NULL && h->h_aliases != NULL && h->h_addr_list != NULL);
  h->h_aliases[0]   = NULL;
  h->h_addr_list[0] = ares_malloc(n);
  h->h_addr_list[1] = NULL;
  VP_ASSUME(h->h_addr_list[0] != NULL);
  for (i = 0; i < n; i++) h->h_addr_list[0][i] = (char)g_addr[i];
  h->h_addrtype = family;
  h->h_length   = (int)n;
  return h;
}

void ares_gethostbyaddr_nolock(ares_channel_t *channel, const void *addr, int addrlen, int family,
                               ares_host_callback callback, void *arg)
{
  unsigned mode   = vp_u8();
  int      nested = depth != 0;
  int      i;
  VP_ASSERT(channel == &ch && callback == nameinfo_callback, "the host lookup completes through the request's own handler");
  VP_ASSERT((family == AF_INET && addrlen == 4) || (family == AF_INET6 && addrlen == 16), "address length matches the family");
  for (i = 0; i < addrlen; i++) {
    unsigned char b = ((const unsigned char *)addr)[i]; /* inside the caller's object (pointer checks) */
    if (!nested && check_addr) VP_ASSERT(b == g_addr[i], "the address looked up is the one in the socket address");
  }
  if (nested) { /* the request started by the callback: stays pending or is refused at once (its own life-cycle is the
                   outer request's obligation in another run; here it only has to happen while the outer one completes) */
    if (mode & 1) { pending2++; pending_arg2 = arg; }
    else nameinfo_callback(arg, ARES_ECONNREFUSED, 0, NULL);
    return;
  }
  VP_ASSERT(family == expect_family, "the family looked up is the one of the socket address");
  gha_calls++;
  if (mode == 0) { /* completes synchronously */
    int st = (int)vp_range(0, 24);
    int t  = (int)vp_range(0, 2);
    sync_completed = 1;
    timeouts_sum  += t;
    /* two call sites: status and host pointer are constants for symex on the success path */
    if (st == ARES_SUCCESS) {
      struct hostent *h = make_hostent(family);
      g_host = h;
      nameinfo_callback(arg, ARES_SUCCESS, t, h);
      ares_free_hostent(h); /* as end_aquery does */
    } else {
      nameinfo_callback(arg, st, t, NULL);
    }
    return;
  }
  pending++;
  pending_arg = arg;
}

const char *ares_inet_ntop(int af, const void *src, char *dst, ares_socklen_t size)
{
  size_t i, n = af == AF_INET ? 4 : 16, maxlen = af == AF_INET ? 15 : 45;
  VP_ASSERT(af == AF_INET || af == AF_INET6, "address text for an Internet family");
  VP_ASSERT(size >= (ares_socklen_t)(maxlen + 1), "text buffer large enough for any address of the family");
  for (i = 0; i < n; i++) (void)((const unsigned char *)src)[i];
#ifdef FLAGS /* concrete-shape jobs: the longest text of the family (worst case for every buffer) */
  for (i = 0; i < maxlen; i++) dst[i] = 'x';
#else
  for (i = 0; i < maxlen; i++) dst[i] = (char)vp_u8();
#endif
  dst[maxlen] = 0;
  if (depth == 0) ntop_dst = dst;
  return dst;
}

static int vp_getservbyport_r(int port, const char *proto, struct servent *se, char *buf, size_t buflen, struct servent **result)
{
  int    mode = (int)vp_range(0, 6);
  size_t len, i;
  VP_ASSERT(port != 0 && buflen == 4096, "service lookup for a real port with the scratch buffer");
  if (depth == 0) {
    const char *want = (g_flags & ARES_NI_UDP) ? "udp" : (g_flags & ARES_NI_SCTP) ? "sctp" : (g_flags & ARES_NI_DCCP) ? "dccp" : "tcp";
    VP_ASSERT(!(g_flags & ARES_NI_NUMERICSERV), "no service database lookup with ARES_NI_NUMERICSERV");
    VP_ASSERT(proto[0] == want[0] && proto[1] == want[1], "protocol follows the flags");
    if (check_addr) VP_ASSERT((unsigned short)port == g_port, "the port looked up is the one in the socket address");
    serv_calls++;
    serv_mode = mode;
  }
  switch (mode) {
    case 0:
      return 1; /* error */
    case 1:
      *result = NULL;
      return 0;
    case 2:
      se->s_name = NULL;
      *result    = se;
      return 0;
    case 3:
      len = 4;
      break;
    case 4:
      len = 32;
      break;
    case 5:
      len = 33;
      break;
    default:
      len = 40;
      break;
  }
  for (i = 0; i < len; i++) buf[i] = 's';
  buf[len]   = 0;
  se->s_name = buf;
  *result    = se;
  return 0;
}

static int vp_gethostname(char *name, size_t len)
{
  VP_ASSERT(len >= 65, "host name buffer");
#ifdef HOSTDOM
  hostname_has_domain = HOSTDOM != 0;
#else
  hostname_has_domain = vp_bool();
#endif
  if (hostname_has_domain) {
    name[0] = 'h'; name[1] = '.'; name[2] = 'd'; name[3] = '.'; name[4] = 'e'; name[5] = 0;
  } else {
    name[0] = 'h'; name[1] = 'o'; name[2] = 's'; name[3] = 't'; name[4] = 0;
  }
  return 0;
}

static char *vp_if_indextoname(unsigned int ifindex, char *ifname)
{
  int    mode = (int)vp_range(0, 2);
  size_t len  = mode == 1 ? 3 : IF_NAMESIZE - 1, i;
  (void)ifindex;
  if (mode == 0) return NULL;
  for (i = 0; i < len; i++) ifname[i] = 'i';
  ifname[len] = 0;
  return ifname;
}

static int vp_snprintf_num(char *buf, size_t n, const char *fmt, unsigned long v)
{
  size_t maxd = fmt[1] == 'u' ? 5 : 10, len, i;
  VP_ASSERT(fmt[0] == '%' && (fmt[1] == 'u' || (fmt[1] == 'l' && fmt[2] == 'u')), "number formats used by this file");
  VP_ASSERT(v <= (maxd == 5 ? 65535UL : 4294967295UL), "value range of the formatted field");
  VP_ASSERT(n >= maxd + 1, "number buffer large enough");
  len = v < 10 ? 1 : v < 100 ? 2 : v < 1000 ? 3 : v < 10000 ? 4 : v < 100000 ? 5 : v < 1000000 ? 6 : v < 10000000 ? 7 :
        v < 100000000 ? 8 : v < 1000000000 ? 9 : 10;
  for (i = 0; i < maxd; i++) buf[i] = i < len ? (char)('0' + vp_u8() % 10) : 0;
  buf[maxd] = 0;
  return (int)len;
}

/* ------------------------------------------------------------------ harness */
static unsigned int other_flag_bits(void)
{
  unsigned int f = 0;
  if (vp_bool()) f |= ARES_NI_NOFQDN;
  if (vp_bool()) f |= ARES_NI_NAMEREQD;
  if (vp_bool()) f |= ARES_NI_NUMERICSERV;
  if (vp_bool()) f |= ARES_NI_UDP;
  if (vp_bool()) f |= ARES_NI_SCTP;
  if (vp_bool()) f |= ARES_NI_DCCP;
  if (vp_bool()) f |= ARES_NI_NUMERICSCOPE;
  if (vp_bool()) f |= ARES_NI_IDN;
  return f;
}

static void check_service(void)
{
  if ((g_flags & ARES_NI_LOOKUPSERVICE) && g_port != 0) {
    VP_ASSERT(user_service != NULL, "a service was asked for and the port is set: a service string is handed over");
    if (g_flags & ARES_NI_NUMERICSERV) {
      VP_ASSERT(serv_calls == 0 && user_service_len >= 1 && user_service_len <= 5, "numeric service: the port number as text");
      VP_WITNESS("numeric service");
    } else {
      VP_ASSERT(serv_calls == 1, "the service database is consulted once");
      if (serv_mode == 3) VP_ASSERT(user_service_len == 4, "the service name found is returned");
      if (serv_mode == 4) { VP_ASSERT(user_service_len == 32, "a 32-character service name still fits"); VP_WITNESS("longest service name that fits"); }
      if (serv_mode >= 5) { VP_ASSERT(user_service_len == 0, "a service name that does not fit is dropped, not truncated into the buffer"); VP_WITNESS("service name too long"); }
      if (serv_mode <= 2) VP_ASSERT(user_service_len >= 1 && user_service_len <= 5, "unknown service: the port number as text");
    }
  } else {
    VP_ASSERT(user_service == NULL && serv_calls == 0, "no service string unless asked for and the port is set");
  }
}

#ifndef NVAR
#  define NVAR 4 /* how many of the four protocol/scope/IDN variants the job runs */
#endif
#define VAR0 0u
#define VAR1 ((unsigned)(ARES_NI_UDP | ARES_NI_NUMERICSCOPE))
#define VAR2 ((unsigned)(ARES_NI_SCTP | ARES_NI_IDN))
#define VAR3 ((unsigned)(ARES_NI_DCCP | ARES_NI_IDN_ALLOW_UNASSIGNED))
#define EFF(f) ((unsigned)(f) | ((((unsigned)(f)) & (ARES_NI_LOOKUPHOST | ARES_NI_LOOKUPSERVICE)) ? 0u : (unsigned)ARES_NI_LOOKUPHOST))

#if ENTRY == 1
static struct hostent *e1_host;
static char           *e1_hname;
/* two call sites: status and host pointer are constants for symex on the success path */
static void deliver(struct nameinfo_query *nq, int st, int t)
{
  if (st == ARES_SUCCESS) {
    e1_host  = make_hostent(FAMILY);
    g_host   = e1_host;
    e1_hname = e1_host->h_name;
    nameinfo_callback(nq, ARES_SUCCESS, t, e1_host);
  } else {
    nameinfo_callback(nq, st, t, NULL);
  }
}
#endif

void harness(void)
{
  unsigned int scope = vp_u32();
  vp_alloc_install();
  vp_bytes(g_addr, 16);
  g_port = vp_u16();

#if ENTRY == 0
  {
    /* exact-size socket address object */
#  if FAM == 2
    struct sockaddr_in6 *sa6 = malloc(sizeof(*sa6));
    struct sockaddr     *sa  = (struct sockaddr *)sa6;
    memset(sa6, 0, sizeof(*sa6));
    sa6->sin6_family   = AF_INET6;
    sa6->sin6_port     = g_port;
    sa6->sin6_scope_id = scope;
    sa6->sin6_flowinfo = vp_u32();
    memcpy(&sa6->sin6_addr, g_addr, 16);
#  else
    struct sockaddr_in *sa4 = malloc(sizeof(*sa4));
    struct sockaddr    *sa  = (struct sockaddr *)sa4;
    memset(sa4, 0, sizeof(*sa4));
    sa4->sin_family = AF_INET;
    sa4->sin_port   = g_port;
    memcpy(&sa4->sin_addr, g_addr, 4);
    (void)scope;
#  endif
#  ifdef BADSA
    {
      /* the caller's object is SALEN bytes; it may hold a shorter address family (a sockaddr_in inside a sockaddr_in6-sized
         buffer is fine), sa_family and salen <= SALEN are arbitrary */
      unsigned short   fam    = vp_u16();
      ares_socklen_t   salen  = (ares_socklen_t)vp_range(0, SALEN);
      struct sockaddr *arg_sa = vp_bool() ? sa : NULL;
      int              ok;
      sa->sa_family = fam;
      ok            = arg_sa != NULL && ((fam == AF_INET && salen >= (ares_socklen_t)sizeof(struct sockaddr_in)) ||
                              (fam == AF_INET6 && salen >= (ares_socklen_t)sizeof(struct sockaddr_in6)));
      expect_family = fam;
      check_addr    = 0;
      /* one call per flag class with constant flags (the validation under test comes before any flag is looked at) */
      switch (vp_range(0, 2)) {
        case 0:
          g_flags = ARES_NI_LOOKUPSERVICE;
          ares_getnameinfo(&ch, arg_sa, salen, ARES_NI_LOOKUPSERVICE, user_cb, &user_cb_count);
          break;
        case 1:
          g_flags = ARES_NI_NUMERICHOST | ARES_NI_LOOKUPHOST | ARES_NI_LOOKUPSERVICE;
          ares_getnameinfo(&ch, arg_sa, salen, ARES_NI_NUMERICHOST | ARES_NI_LOOKUPHOST | ARES_NI_LOOKUPSERVICE, user_cb, &user_cb_count);
          break;
        default:
          g_flags = ARES_NI_LOOKUPHOST;
          ares_getnameinfo(&ch, arg_sa, salen, 0, user_cb, &user_cb_count);
          break;
      }
      VP_ASSERT(user_cb_count + pending == 1, "after starting: completed exactly once, or exactly one request pending");
      if (!ok) {
        VP_ASSERT(user_cb_count == 1 && user_status == ARES_ENOTIMP && gha_calls == 0 && allocs_before_cb == 0,
                  "no / unsupported / too short socket address: ARES_ENOTIMP at once, nothing started");
        VP_WITNESS("failed before any send");
      } else {
        if (g_flags == ARES_NI_LOOKUPHOST) VP_ASSERT(gha_calls == 1, "a full-size Internet socket address is accepted: host lookup started");
        else VP_ASSERT(user_cb_count == 1 && user_status != ARES_ENOTIMP, "a full-size Internet socket address is accepted");
        VP_WITNESS("valid socket address");
        if (FAM == 2 && fam == AF_INET) VP_WITNESS("IPv4 address in a larger object");
      }
    }
#  else
    {
#    ifdef ALLOCFAIL
      vp_alloc_fail_at = ALLOCFAIL;
#    endif
#    ifdef FLAGS
      switch (vp_range(0, NVAR - 1)) {
        case 0:
          g_flags = EFF(FLAGS | VAR0);
          ares_getnameinfo(&ch, sa, SALEN, (int)(FLAGS | VAR0), user_cb, &user_cb_count);
          break;
#      if NVAR > 2 /* compiled out, not just assumed away: symex explores every case it can see */
        case 2:
          g_flags = EFF(FLAGS | VAR2);
          ares_getnameinfo(&ch, sa, SALEN, (int)(FLAGS | VAR2), user_cb, &user_cb_count);
          break;
        case 3:
          g_flags = EFF(FLAGS | VAR3);
          ares_getnameinfo(&ch, sa, SALEN, (int)(FLAGS | VAR3), user_cb, &user_cb_count);
          break;
#      endif
        default:
          g_flags = EFF(FLAGS | VAR1);
          ares_getnameinfo(&ch, sa, SALEN, (int)(FLAGS | VAR1), user_cb, &user_cb_count);
          break;
      }
#    else
      {
        unsigned int flags = other_flag_bits();
#      if FLAGCLASS == 0
        flags |= ARES_NI_LOOKUPSERVICE;
        g_flags = flags;
#      elif FLAGCLASS == 1
        flags |= ARES_NI_NUMERICHOST;
        if (vp_bool()) flags |= ARES_NI_LOOKUPHOST | (vp_bool() ? ARES_NI_LOOKUPSERVICE : 0); /* else neither: a host is assumed */
        g_flags = flags | ARES_NI_LOOKUPHOST;
#      else
        if (vp_bool()) flags |= ARES_NI_LOOKUPHOST | (vp_bool() ? ARES_NI_LOOKUPSERVICE : 0);
        g_flags = flags | ARES_NI_LOOKUPHOST;
#      endif
        ares_getnameinfo(&ch, sa, SALEN, (int)flags, user_cb, &user_cb_count);
      }
#    endif
      vp_alloc_fail_at = 0;
      VP_ASSERT(vp_lock_depth == 0, "channel lock released");
      VP_ASSERT(user_cb_count + pending == 1, "after starting: completed exactly once, or exactly one request pending");
#    if FLAGCLASS == 0
      VP_ASSERT(user_cb_count == 1 && user_status == ARES_SUCCESS && user_node == NULL && gha_calls == 0, "service only: answered at once, no host lookup");
      check_service();
      VP_WITNESS("failed before any send");
      if (user_service != NULL) VP_WITNESS("service returned");
#    elif FLAGCLASS == 1
      VP_ASSERT(user_cb_count == 1 && gha_calls == 0, "numeric host: answered at once, no host lookup");
      if (g_flags & ARES_NI_NAMEREQD) {
        VP_ASSERT(user_status == ARES_EBADFLAGS, "NUMERICHOST with NAMEREQD is rejected");
        VP_WITNESS("bad flags");
      } else {
        VP_ASSERT(user_status == ARES_SUCCESS && user_node != NULL, "numeric host: the address text is returned");
        VP_ASSERT(user_node == ntop_dst, "the node is the address text");
        check_service();
        if (FAM == 2 && user_node_len > 45) VP_WITNESS("scope id appended");
      }
      VP_WITNESS("failed before any send");
#    else
#      ifdef ALLOCFAIL
      VP_ASSERT(user_cb_count == 1 && user_status == ARES_ENOMEM && gha_calls == 0, "out of memory at start: reported once, nothing started");
      VP_WITNESS("failed before any send");
#      else
      VP_ASSERT(gha_calls == 1, "one host lookup is started");
      if (sync_completed) VP_WITNESS("completed synchronously");
      if (pending) VP_WITNESS("pending");
#      endif
#    endif
    }
#  endif
    free(sa);
  }
#else
  {
    struct nameinfo_query *nq = TALLOC(struct nameinfo_query);
    int                    st = (int)vp_range(0, 24), t0 = (int)vp_range(0, 3), t = (int)vp_range(0, 2);
    struct hostent        *h;
    unsigned int           flags;
    char                  *hname;
    VP_ASSUME(nq != NULL);
    memset(nq, 0, sizeof(*nq));
    nq->callback = user_cb;
    nq->arg      = &user_cb_count;
    nq->timeouts = (size_t)t0;
    nq->family   = FAMILY;
#  if FAM == 2
    nq->addr.addr6.sin6_family   = AF_INET6;
    nq->addr.addr6.sin6_port     = g_port;
    nq->addr.addr6.sin6_scope_id = scope;
    memcpy(&nq->addr.addr6.sin6_addr, g_addr, 16);
#  else
    nq->addr.addr4.sin_family = AF_INET;
    nq->addr.addr4.sin_port   = g_port;
    memcpy(&nq->addr.addr4.sin_addr, g_addr, 4);
    (void)scope;
#  endif
    timeouts_sum = t0 + t;
#  ifdef FLAGS
    switch (vp_range(0, NVAR - 1)) {
      case 0:
        g_flags = flags = EFF(FLAGS | VAR0);
        nq->flags       = EFF(FLAGS | VAR0);
        deliver(nq, st, t);
        break;
#    if NVAR > 2 /* compiled out, not just assumed away: symex explores every case it can see */
      case 2:
        g_flags = flags = EFF(FLAGS | VAR2);
        nq->flags       = EFF(FLAGS | VAR2);
        deliver(nq, st, t);
        break;
      case 3:
        g_flags = flags = EFF(FLAGS | VAR3);
        nq->flags       = EFF(FLAGS | VAR3);
        deliver(nq, st, t);
        break;
#    endif
      default:
        g_flags = flags = EFF(FLAGS | VAR1);
        nq->flags       = EFF(FLAGS | VAR1);
        deliver(nq, st, t);
        break;
    }
#  else
    flags     = other_flag_bits() | ARES_NI_LOOKUPHOST | (vp_bool() ? ARES_NI_LOOKUPSERVICE : 0);
    nq->flags = flags;
    g_flags   = flags;
    deliver(nq, st, t);
#  endif
    h       = e1_host;
    hname   = e1_hname;

    VP_ASSERT(user_cb_count == 1 && pending == 0 && gha_calls == 0, "a completion is reported exactly once, nothing new is started");
    VP_ASSERT(user_timeouts == timeouts_sum, "timeouts reported = timeouts accumulated");
    if (st == ARES_SUCCESS) {
      VP_ASSERT(user_status == ARES_SUCCESS && user_node == hname, "the name found is returned");
      if ((flags & ARES_NI_NOFQDN) && hostname_has_domain && host_matches_domain) {
        VP_ASSERT(user_node_len == 1, "NOFQDN: the local domain is stripped");
        VP_WITNESS("domain stripped");
      } else {
        VP_ASSERT(user_node_len == 5, "the name is returned unchanged");
      }
      check_service();
      VP_WITNESS("name found");
    } else if (st == ARES_ENOTFOUND && !(flags & ARES_NI_NAMEREQD)) {
      VP_ASSERT(user_status == ARES_SUCCESS && user_node != NULL && user_node == ntop_dst, "no name: the address text is returned instead");
      check_service();
      if (FAM == 2 && user_node_len > 45) VP_WITNESS("scope id appended");
      VP_WITNESS("address text instead of a name");
    } else {
      VP_ASSERT(user_status == st && user_node == NULL && user_service == NULL, "errors are passed through without strings");
      if (st == ARES_ENOTFOUND) VP_WITNESS("name required but not found");
      if (st == ARES_ECANCELLED || st == ARES_EDESTRUCTION) VP_WITNESS("cancelled or destroyed");
    }
    if (h != NULL) ares_free_hostent(h); /* as end_aquery does, after the callback returned */
  }
#endif
  if (depth == 2) VP_WITNESS("callback started a new request");
  /* what is still owned by outstanding lookups is released for the leak check */
  if (pending) {
    struct nameinfo_query *nq = pending_arg;
    VP_ASSERT(nq->callback == user_cb && nq->arg == (void *)&user_cb_count, "the outstanding lookup carries the caller's callback");
    ares_free(nq);
  }
  if (pending2) ares_free(pending_arg2);
  VP_ASSERT(vp_alloc_live == 0, "request state is released exactly once");
  VP_WITNESS("end");
}
