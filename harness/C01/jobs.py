OUTSIDE = ("request names/records (abstract: only status codes flow into completion logic); callback re-entry deeper than one "
           "level; more live queries than stated; whole-library histories (each harness covers one top-level call plus nested "
           "callbacks from an arbitrary valid link state)")
ASSUMPTIONS = ["slist_ref.c / szvp_ref.c are reference implementations of the skip-list and szvp hash-table contracts (the real "
               "ones are checked against the same contracts in C19)", "lock_ghost.c: locks never block",
               "abstract DNS records (dnsrec_abs.c)"]
LIB = ["src/lib/ares_library_init.c"]
PROTO_SUP = ["vp_rt.c", "valloc.c", "memloops.c", "slist_ref.c", "szvp_ref.c", "lock_ghost.c", "dnsrec_abs.c"]

import os, sys
sys.path.insert(0, os.path.join(os.path.dirname(os.path.abspath(__file__)), "..", "machine"))
import mjobs

def jobs(tier, seed):
    J = []
    for nq in ((1, 2) if tier == "quick" else (1, 2, 3)):
        J.append(dict(name="cancel_endquery_nq%d" % nq, harness="cancel.c", defines=["-DNQ=%d" % nq],
                      real=LIB + ["src/lib/ares_cancel.c", "src/lib/dsa/ares_llist.c"], support=PROTO_SUP, unwind=nq + 4,
                      witnesses=["end", "cancel path", "end_query path", "requeue-exhausted path",
                                 "callback re-entered ares_cancel", "callback started a new request"],
                      bound="%d live queries in arbitrary link state (on a connection + timeout index, or not); entry in "
                            "{ares_cancel, end_query(any query, any status), requeue with exhausted budget}; each callback "
                            "may re-enter ares_cancel or start a new request (depth 1)" % nq))
    for entry in (0, 1):
      for ni, nm in enumerate(["a", "a.b", "a."]):
        for nd in (0, 1, 2):
            for nos in (0, 1):
                if nos and nd != 2:
                    continue
                J.append(dict(name="search_e%d_%s_nd%d_nosearch%d" % (entry, nm.replace(".", "dot"), nd, nos),
                  harness="search.c",
                  defines=["-DENTRY=%d" % entry, "-DNAME_IDX=%d" % ni, "-DND=%d" % nd, "-DNOSEARCH=%d" % nos],
                  real=LIB + ["src/lib/str/ares_str.c", "src/lib/str/ares_strsplit.c", "src/lib/record/ares_dns_mapping.c",
                              "src/lib/str/ares_buf.c", "src/lib/dsa/ares_array.c", "src/lib/util/ares_math.c",
                              "src/lib/dsa/ares_llist.c"],
                  support=["vp_rt.c", "valloc.c", "memloops.c", "lock_ghost.c", "dnsrec_abs.c"], unwind=17, leak=True,
                  witnesses=["end"],
                  bound="%s for name '%s', %d search domains of {x, y.z}, ndots 0..2, NOSEARCH=%d; "
                        "ares_send_nolock: sync failure with ANY status 1..24 / sync answer / pending; nested completion "
                        "abstracted by the induction hypothesis; any completion status, rcode 0..5, ancount 0..1; "
                        "record duplicate / name rewrite may fail" %
                        ("ares_search_dnsrec from scratch" if entry == 0 else
                         "search_callback for ANY outstanding candidate index", nm, nd, nos)))
    J += mjobs.send_early_jobs(tier)
    J += [j for j in mjobs.sendquery_jobs(tier) if "srv1" in j["name"] and ("_sib1" in j["name"] or "ex0" in j["name"] or j["name"].endswith("_pre"))]
    J += mjobs.requeue_jobs(tier)
    J += mjobs.close_jobs(tier)
    J += mjobs.destroy_jobs(tier)
    J += mjobs.readanswers_jobs(tier)
    J += mjobs.flush_jobs(tier)
    return J
