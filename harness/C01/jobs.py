OUTSIDE = ("request names/records (abstract: only status codes flow into completion logic); callback re-entry deeper than one "
           "level; more live queries than stated; whole-library histories (each harness covers one top-level call plus nested "
           "callbacks from an arbitrary valid link state)")
ASSUMPTIONS = ["slist_ref.c / szvp_ref.c are reference implementations of the skip-list and szvp hash-table contracts (the real "
               "ones are checked against the same contracts in C19)", "lock_ghost.c: locks never block",
               "abstract DNS records (dnsrec_abs.c)"]
LIB = ["src/lib/ares_library_init.c"]
PROTO_SUP = ["vp_rt.c", "valloc.c", "memloops.c", "slist_ref.c", "szvp_ref.c", "lock_ghost.c", "dnsrec_abs.c"]

import os, sys
sys.path.insert(0, os.path.join(os.path.dirname(os.path.abspath(__file__)), "..", "machine"))
import mjobs
import importlib.util as _ilu
_cs = _ilu.spec_from_file_location("c01_compound_jobs", os.path.join(os.path.dirname(os.path.abspath(__file__)), "compound_jobs.py"))
compound_jobs = _ilu.module_from_spec(_cs); _cs.loader.exec_module(compound_jobs)
ASSUMPTIONS = ASSUMPTIONS + list(compound_jobs.ASSUMPTIONS)
OUTSIDE = OUTSIDE + "; " + compound_jobs.OUTSIDE

def getaddrinfo_jobs(tier):
    """The getaddrinfo entry point: its request completes exactly once and the request object is not used after release,
    for the start (e0) and for any sub-query completion (e1), with A and AAAA sub-queries outstanding together
    (AF_UNSPEC) and sub-queries that complete synchronously.  The one-step walk harness is C12's gai_walk.c (its oracle
    counts the user callback and tracks the outstanding-request counter against a ghost); reused here."""
    import importlib.util
    p12 = os.path.join(os.path.dirname(os.path.abspath(__file__)), "..", "C12", "jobs.py")
    spec = importlib.util.spec_from_file_location("jobs_C12_reuse01", p12)
    m12 = importlib.util.module_from_spec(spec); spec.loader.exec_module(m12)
    quick = ("c12_walk_gai_e1_a_nd1_unspec_bf", "c12_walk_gai_e1_a_nd1_unspec_fb", "c12_walk_gai_e1_a_nd1_unspec_b",
             "c12_walk_gai_e1_a_nd1_inet_bf", "c12_walk_gai_e0_a_nd2_unspec_bf", "c12_walk_gai_e0_a_nd2_unspec_fb",
             "c12_walk_gai_e0_a_nd2_unspec_b", "c12_walk_gai_e0_a_nd2_unspec_f", "c12_walk_gai_e0_a_nd2_inet6_b",
             "c12_walk_gai_e0_localhost_nd2_unspec_bf")
    out = []
    for j in m12.jobs(tier, 0):
        if "walk_gai" not in j["name"] or (tier == "quick" and j["name"] not in quick):
            continue
        j = dict(j); j["harness"] = "../C12/" + j["harness"]
        j["support"] = [("../C12/" + x if os.path.exists(os.path.join(os.path.dirname(p12), x)) else x) for x in j.get("support", [])]
        out.append(j)
    return out


def jobs(tier, seed):
    J = []
    for nq in ((1, 2) if tier == "quick" else (1, 2, 3)):
        J.append(dict(name="cancel_endquery_nq%d" % nq, harness="cancel.c", defines=["-DNQ=%d" % nq],
                      real=LIB + ["src/lib/ares_cancel.c", "src/lib/dsa/ares_llist.c"], support=PROTO_SUP, unwind=nq + 4,
                      witnesses=["end", "cancel path", "end_query path", "requeue-exhausted path",
                                 "callback re-entered ares_cancel", "callback started a new request"],
                      bound="%d live queries in arbitrary link state (on a connection + timeout index, or not); entry in "
                            "{ares_cancel, end_query(any query, any status), requeue with exhausted budget}; each callback "
                            "may re-enter ares_cancel or start a new request (depth 1)" % nq))
    for entry in (0, 1):
      for ni, nm in enumerate(["a", "a.b", "a."]):
        for nd in (0, 1, 2):
            for nos in (0, 1):
                if nos and nd != 2:
                    continue
                J.append(dict(name="search_e%d_%s_nd%d_nosearch%d" % (entry, nm.replace(".", "dot"), nd, nos),
                  harness="search.c",
                  defines=["-DENTRY=%d" % entry, "-DNAME_IDX=%d" % ni, "-DND=%d" % nd, "-DNOSEARCH=%d" % nos],
                  real=LIB + ["src/lib/str/ares_str.c", "src/lib/str/ares_strsplit.c", "src/lib/record/ares_dns_mapping.c",
                              "src/lib/str/ares_buf.c", "src/lib/dsa/ares_array.c", "src/lib/util/ares_math.c",
                              "src/lib/dsa/ares_llist.c"],
                  support=["vp_rt.c", "valloc.c", "memloops.c", "lock_ghost.c", "dnsrec_abs.c"], unwind=17, leak=True,
                  witnesses=["end"],
                  bound="%s for name '%s', %d search domains of {x, y.z}, ndots 0..2, NOSEARCH=%d; "
                        "ares_send_nolock: sync failure with ANY status 1..24 / sync answer / pending; nested completion "
                        "abstracted by the induction hypothesis; any completion status, rcode 0..5, ancount 0..1; "
                        "record duplicate / name rewrite may fail" %
                        ("ares_search_dnsrec from scratch" if entry == 0 else
                         "search_callback for ANY outstanding candidate index", nm, nd, nos)))
    J += mjobs.send_early_jobs(tier)
    J += [j for j in mjobs.sendquery_jobs(tier) if "srv1" in j["name"] and ("_sib1" in j["name"] or "ex0" in j["name"] or j["name"].endswith("_pre"))]
    J += mjobs.requeue_jobs(tier)
    J += mjobs.close_jobs(tier)
    J += mjobs.destroy_jobs(tier)
    J += mjobs.readanswers_jobs(tier)
    J += mjobs.flush_jobs(tier)
    J += getaddrinfo_jobs(tier)
    # compound entry points built on ares_send/ares_query: ares_query, gethostbyaddr, getnameinfo, gethostbyname(_file)
    J += compound_jobs.jobs(tier)
    return J
