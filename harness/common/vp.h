/* Common harness vocabulary.  The same harness source is (a) symbolically
 * executed by CBMC and (b) compiled natively (gcc, ASan+UBSan, -DVP_NATIVE) to
 * replay a counterexample: every nondeterministic choice goes through vp_*(),
 * whose CBMC body is "return an arbitrary value" and whose native body reads
 * the next value extracted from the CBMC trace. */
#ifndef VP_H
#define VP_H
#include <stddef.h>
#include <stdint.h>

#ifdef VP_NATIVE
void vp_native_assume_fail(void);
void vp_native_assert_fail(const char *msg, const char *file, int line);
void vp_native_witness(const char *tag);
#  define VP_ASSUME(c)      do { if (!(c)) vp_native_assume_fail(); } while (0)
#  define VP_ASSERT(c, msg) do { if (!(c)) vp_native_assert_fail(msg, __FILE__, __LINE__); } while (0)
#  define VP_BOUND(c, msg)  do { if (!(c)) vp_native_assume_fail(); } while (0)
#  define VP_WITNESS(tag)   vp_native_witness(tag)
#else
#  define VP_ASSUME(c)      __CPROVER_assume(c)
#  define VP_ASSERT(c, msg) __CPROVER_assert((c), "PROP:" msg)
/* harness bound too small for this path: inconclusive, never a violation */
#  define VP_BOUND(c, msg)  do { __CPROVER_assert((c), "BOUND:" msg); __CPROVER_assume(c); } while (0)
/* reachability witness: MUST be reported as FAILURE, else the harness is vacuous */
#  define VP_WITNESS(tag)   __CPROVER_assert(0, "WITNESS:" tag)
#endif

/* nondeterministic choices (recorded for replay) */
uint8_t            vp_u8(void);
uint16_t           vp_u16(void);
uint32_t           vp_u32(void);
uint64_t           vp_u64(void);
int                vp_int(void);
long               vp_long(void);
size_t             vp_size(void);
int                vp_bool(void);
/* arbitrary value in [lo,hi] */
size_t             vp_range(size_t lo, size_t hi);
void               vp_bytes(unsigned char *p, size_t n);

/* allocator (valloc.c): installed through ares_library_init_mem() */
void   vp_alloc_install(void);
void  *vp_malloc(size_t n);
void  *vp_realloc(void *p, size_t n);
void   vp_free(void *p);
extern unsigned long vp_alloc_calls;   /* number of malloc/realloc(size>0) so far */
extern unsigned long vp_alloc_fail_at; /* 0 = never; else the n-th call returns NULL */
extern long          vp_alloc_live;    /* live blocks (ledger for native leak check) */

#endif
