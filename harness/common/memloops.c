/* R1: explicit-loop memcpy/memmove.  CBMC's built-in models turn copied
 * constants into opaque arrays (names stop being concrete) and blow up on
 * symbolic lengths.  memset stays CBMC's built-in (a byte loop makes zeroed
 * pointer fields non-constant).  Native builds use libc. */
#ifndef VP_NATIVE
#include <stddef.h>
void *memcpy(void *dst, const void *src, size_t n)
{
  size_t i;
  for (i = 0; i < n; i++)
    ((unsigned char *)dst)[i] = ((const unsigned char *)src)[i];
  return dst;
}
#  ifndef VP_MEMMOVE_BUILTIN
void *memmove(void *dst, const void *src, size_t n)
{
  size_t i;
  if ((const unsigned char *)dst <= (const unsigned char *)src ||
      (const unsigned char *)dst >= (const unsigned char *)src + n) {
    for (i = 0; i < n; i++)
      ((unsigned char *)dst)[i] = ((const unsigned char *)src)[i];
  } else {
    for (i = n; i > 0; i--)
      ((unsigned char *)dst)[i - 1] = ((const unsigned char *)src)[i - 1];
  }
  return dst;
}
#  endif
#  ifdef VP_MEMSET_LOOP
/* only for harnesses whose memset sizes are symbolic (see DESIGN R1) */
void *memset(void *dst, int c, size_t n)
{
  size_t i;
  for (i = 0; i < n; i++)
    ((unsigned char *)dst)[i] = (unsigned char)c;
  return dst;
}
#  endif
#endif
