/* R1 allocator: no symbolic allocation sizes reach CBMC's malloc model.
 * -DVP_SIZES=a,b,c : a requested size must equal one of the listed constants
 *                    (case split); anything else trips a BOUND assertion
 *                    (inconclusive, never a violation).
 * without VP_SIZES : sizes are passed through (harness keeps them concrete).
 * vp_alloc_fail_at : the n-th allocation (malloc or growing realloc) returns NULL. */
#include "vp.h"
#include <stdlib.h>
#include <string.h>

unsigned long vp_alloc_calls   = 0;
unsigned long vp_alloc_fail_at = 0;
long          vp_alloc_live    = 0;

#ifdef VP_NATIVE
typedef struct { size_t n; size_t pad; } vp_hdr_t;
static void *raw_alloc(size_t n)
{
  vp_hdr_t *h = malloc(sizeof(*h) + n);
  if (h == NULL) abort();
  h->n = n;
  return h + 1;
}
static size_t raw_size(void *p) { return ((vp_hdr_t *)p - 1)->n; }
#  define raw_alloc_re raw_alloc
static void raw_free(void *p) { free((vp_hdr_t *)p - 1); }
#else
static void *raw_alloc(size_t n)
{
  void *p;
#  ifdef VP_SIZES
  static const size_t sizes[] = { VP_SIZES };
  size_t              i;
  p = NULL;
  for (i = 0; i < sizeof(sizes) / sizeof(*sizes); i++) {
    if (n == sizes[i]) {
      p = malloc(sizes[i]);
      break;
    }
  }
  VP_BOUND(i < sizeof(sizes) / sizeof(*sizes), "allocation size outside VP_SIZES");
#  else
  p = malloc(n);
#  endif
  __CPROVER_assume(p != NULL);
  return p;
}
/* realloc target sizes are growth-computed (symbolic) in c-ares: -DVP_REALLOC_SIZES=a,b,c case-splits them */
static void *raw_alloc_re(size_t n)
{
#  ifdef VP_REALLOC_SIZES
  static const size_t sizes[] = { VP_REALLOC_SIZES };
  size_t              i;
  void               *p = NULL;
  for (i = 0; i < sizeof(sizes) / sizeof(*sizes); i++) {
    if (n == sizes[i]) {
      p = malloc(sizes[i]);
      break;
    }
  }
  VP_BOUND(i < sizeof(sizes) / sizeof(*sizes), "realloc size outside VP_REALLOC_SIZES");
  __CPROVER_assume(p != NULL);
  return p;
#  else
  return raw_alloc(n);
#  endif
}
static size_t raw_size(void *p) { return __CPROVER_OBJECT_SIZE(p); }
static void raw_free(void *p) { free(p); }
#endif

void *vp_malloc(size_t n)
{
  vp_alloc_calls++;
  if (vp_alloc_fail_at != 0 && vp_alloc_calls == vp_alloc_fail_at)
    return NULL;
  if (n == 0)
    n = 1;
  vp_alloc_live++;
  return raw_alloc(n);
}

void vp_free(void *p)
{
  if (p == NULL)
    return;
  vp_alloc_live--;
  raw_free(p);
}

void *vp_realloc(void *p, size_t n)
{
  void  *q;
  size_t old;
  size_t i;
  if (p == NULL) {
    vp_alloc_calls++;
    if (vp_alloc_fail_at != 0 && vp_alloc_calls == vp_alloc_fail_at)
      return NULL;
    if (n == 0)
      n = 1;
    vp_alloc_live++;
    return raw_alloc_re(n);
  }
  if (n == 0) {
    vp_free(p);
    return NULL;
  }
  vp_alloc_calls++;
  if (vp_alloc_fail_at != 0 && vp_alloc_calls == vp_alloc_fail_at)
    return NULL;
  old = raw_size(p);
  q   = raw_alloc_re(n);
#if !defined(VP_NATIVE) && defined(VP_REALLOC_ARRAYCOPY)
  /* growing realloc between concrete-size objects: one array-level copy instead of a byte loop */
  VP_BOUND(old <= n, "shrinking realloc not modelled with VP_REALLOC_ARRAYCOPY");
  __CPROVER_array_replace((unsigned char *)q, (unsigned char *)p);
  if (0)
#endif
  for (i = 0; i < old && i < n; i++)
    ((unsigned char *)q)[i] = ((unsigned char *)p)[i];
  raw_free(p);
  return q;
}

int ares_library_init_mem(int flags, void *(*amalloc)(size_t size), void (*afree)(void *ptr),
                          void *(*arealloc)(void *ptr, size_t size));

void vp_alloc_install(void)
{
  /* ARES_LIB_INIT_NONE == 0; only the allocator triple is recorded */
  ares_library_init_mem(0, vp_malloc, vp_free, vp_realloc);
}
