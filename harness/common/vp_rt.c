/* vp_*() choice functions.  CBMC: arbitrary value, stored in a local named
 * `v` so the runner can read the choice sequence off the trace.  Native:
 * next value from $VP_VALUES (one decimal per line); 0 when exhausted. */
#include "vp.h"

#ifdef VP_NATIVE
#include <stdio.h>
#include <stdlib.h>
static FILE *vp_f;
static int   vp_opened;
static unsigned long long vp_next(void)
{
  unsigned long long x = 0;
  if (!vp_opened) {
    const char *p = getenv("VP_VALUES");
    vp_opened     = 1;
    if (p != NULL)
      vp_f = fopen(p, "r");
  }
  if (vp_f == NULL)
    return 0;
  if (fscanf(vp_f, "%llu", &x) != 1)
    return 0;
  return x;
}
void vp_native_assume_fail(void)
{
  fprintf(stderr, "VP-REPLAY: assumption not met (replay diverged)\n");
  fflush(NULL);
  _Exit(77);
}
void vp_native_assert_fail(const char *msg, const char *file, int line)
{
  fprintf(stderr, "VP-REPLAY: ASSERTION FAILED: %s (%s:%d)\n", msg, file, line);
  fflush(NULL);
  _Exit(99);
}
void vp_native_witness(const char *tag) { (void)tag; }
void vp_native_unlinked(const char *name)
{
  fprintf(stderr, "VP-REPLAY: reached function %s which is not linked in the native replay\n", name);
  fflush(NULL);
  _Exit(78);
}
#  define VP_CHOICE(T) T v = (T)vp_next(); return v
#else
uint8_t  nondet_uint8_t(void);
uint16_t nondet_uint16_t(void);
uint32_t nondet_uint32_t(void);
uint64_t nondet_uint64_t(void);
int      nondet_int(void);
long     nondet_long(void);
size_t   nondet_size_t(void);
#  define VP_CHOICE(T) T v = nondet_##T(); return v
#endif

uint8_t  vp_u8(void)  { VP_CHOICE(uint8_t); }
uint16_t vp_u16(void) { VP_CHOICE(uint16_t); }
uint32_t vp_u32(void) { VP_CHOICE(uint32_t); }
uint64_t vp_u64(void) { VP_CHOICE(uint64_t); }
int      vp_int(void) { VP_CHOICE(int); }
long     vp_long(void) { VP_CHOICE(long); }
size_t   vp_size(void) { VP_CHOICE(size_t); }
int      vp_bool(void)
{
  uint8_t r = vp_u8();
  return r & 1;
}
size_t vp_range(size_t lo, size_t hi)
{
  size_t r = vp_size();
  VP_ASSUME(r >= lo && r <= hi);
  return r;
}
void vp_bytes(unsigned char *p, size_t n)
{
  size_t i;
  for (i = 0; i < n; i++)
    p[i] = vp_u8();
}
