/* entry point of the native replay binary */
void vp_harness_entry(void);
int main(void)
{
  vp_harness_entry();
  return 0;
}
