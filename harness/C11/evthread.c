/* C11 / c11_evthread_order: the event thread's two-lock discipline on the REAL code of src/lib/event/ares_event_thread.c
 * (included: ares_event_thread() loop, ares_event_update, ares_event_thread_sockstate_cb, notifywrite_cb,
 * ares_event_process_updates, cleanup).  Ghost locks: ev_mutex_depth (e->mutex) and vp_lock_depth (channel lock, taken by
 * the channel-function stubs).  Oracles:
 *   - the event mutex is NEVER held while calling into the channel (ares_timeout / ares_process_fds /
 *     ares_process_pending_write) or while waiting for events;
 *   - the channel lock is never ACQUIRED while the event mutex is held; the event mutex MAY be taken while the channel
 *     lock is held (socket-state / pending-write callbacks)  =>  the only order is channel -> event mutex: acyclic;
 *   - every mutex lock is released on every path; a queued update / pending-write request is followed by a wake-up
 *     (no lost wake-up of the event thread).
 * Stubs: typed mini queue / one-slot socket table / event pool behind the ares_llist, ares_htable_asvp and allocator
 * APIs, vpvp table (empty), event back end (ev_sys), thread primitives.  Bound: MAXITER loop iterations; one socket-state change (register/modify/remove socket 5) and one
 * pending-write request per run, raised from inside any of the channel calls. */
#include "vp.h"
#include "ares_private.h"
#ifndef MAXITER
#  define MAXITER 1
#endif
#define _PTHREAD_H 1
#include "event/ares_event_thread.c"

/* ---- typed mini containers and event pool (keeps stored callbacks constant for symbolic execution) ---- */
#define Q_CAP 3
struct ares_llist_node { int idx; };
struct ares_llist { void *item[Q_CAP]; int cnt; };
static struct ares_llist      Q;
static struct ares_llist_node Qn[Q_CAP] = { { 0 }, { 1 }, { 2 } };
ares_llist_t *ares_llist_create(ares_llist_destructor_t d) { (void)d; Q.cnt = 0; return &Q; }
ares_llist_node_t *ares_llist_node_first(ares_llist_t *l) { return (l != NULL && l->cnt > 0) ? &Qn[0] : NULL; }
ares_llist_node_t *ares_llist_node_next(ares_llist_node_t *n) { return (n->idx + 1 < Q.cnt) ? &Qn[n->idx + 1] : NULL; }
void *ares_llist_node_val(ares_llist_node_t *n) { return Q.item[n->idx]; }
size_t ares_llist_len(const ares_llist_t *l) { return l == NULL ? 0 : (size_t)l->cnt; }
ares_llist_node_t *ares_llist_insert_last(ares_llist_t *l, void *val)
{
  if (vp_bool()) return NULL; /* out of memory */
  VP_BOUND(l->cnt < Q_CAP, "update queue capacity");
  l->item[l->cnt] = val;
  return &Qn[l->cnt++];
}
void *ares_llist_node_claim(ares_llist_node_t *n)
{
  void *v = Q.item[n->idx];
  int   i;
  for (i = n->idx; i + 1 < Q_CAP; i++) Q.item[i] = Q.item[i + 1];
  Q.cnt--;
  return v;
}
void ares_llist_destroy(ares_llist_t *l) { VP_ASSERT(l == &Q && Q.cnt == 0, "the update queue is drained before it is destroyed"); }

struct ares_htable_asvp { int used; ares_socket_t key; void *val; ares_htable_asvp_val_free_t vfree; };
static struct ares_htable_asvp H;
ares_htable_asvp_t *ares_htable_asvp_create(ares_htable_asvp_val_free_t f) { H.used = 0; H.vfree = f; return &H; }
void *ares_htable_asvp_get_direct(const ares_htable_asvp_t *h, ares_socket_t key) { return (h->used && h->key == key) ? h->val : NULL; }
ares_bool_t ares_htable_asvp_insert(ares_htable_asvp_t *h, ares_socket_t key, void *val)
{
  /* never fails here: ares_event_process_updates() ignores an insertion failure (allocation failure only: the event
   * object would leak) - that is C14's subject, not a locking matter */
  VP_BOUND(!h->used || h->key == key, "one socket in this harness");
  if (h->used) ares_event_destroy_cb(h->val);
  h->used = 1; h->key = key; h->val = val;
  return ARES_TRUE;
}
ares_bool_t ares_htable_asvp_remove(ares_htable_asvp_t *h, ares_socket_t key)
{
  if (!h->used || h->key != key) return ARES_FALSE;
  h->used = 0;
  ares_event_destroy_cb(h->val);
  return ARES_TRUE;
}
void ares_htable_asvp_destroy(ares_htable_asvp_t *h) { if (h->used) { h->used = 0; ares_event_destroy_cb(h->val); } }

static ares_event_t ev_pool[4];
static int          ev_pool_used[4], ev_live;
void *ares_malloc_zero(size_t n)
{
  int i;
  static const ares_event_t zero;
  VP_ASSERT(n == sizeof(ares_event_t), "only events are allocated here");
  if (vp_bool()) return NULL;
  for (i = 0; i < 4; i++) {
    if (!ev_pool_used[i]) { ev_pool_used[i] = 1; ev_pool[i] = zero; ev_live++; return &ev_pool[i]; }
  }
  VP_BOUND(0, "event pool exhausted");
  return NULL;
}
void ares_free(void *p)
{
  int i;
  if (p == NULL) return;
  for (i = 0; i < 4; i++) {
    if (p == &ev_pool[i]) { VP_ASSERT(ev_pool_used[i], "no double free of an event"); ev_pool_used[i] = 0; ev_live--; return; }
  }
  VP_ASSERT(0, "only pool events are freed");
}

int        vp_lock_depth;
static int ev_mutex_depth, ev_locks, ev_unlocks;
static int ch_then_ev, waits, wakes, wake_with_mutex, into_channel, end_of_iteration_runs;
static ares_channel_t      ch;
static ares_event_thread_t E;
static ares_event_t        sig_event;
static int                 mutex_obj;

/* ---- thread primitives ---- */
void ares_thread_mutex_lock(ares_thread_mutex_t *mut)
{
  VP_ASSERT(mut == E.mutex, "the event thread's own mutex");
  if (vp_lock_depth > 0) ch_then_ev = 1;
  ev_mutex_depth++;
  ev_locks++;
}
void ares_thread_mutex_unlock(ares_thread_mutex_t *mut)
{
  VP_ASSERT(mut == E.mutex && ev_mutex_depth > 0, "unlock of the held event mutex");
  ev_mutex_depth--;
  ev_unlocks++;
}
ares_thread_mutex_t *ares_thread_mutex_create(void) { return (ares_thread_mutex_t *)&mutex_obj; }
void ares_thread_mutex_destroy(ares_thread_mutex_t *m) { (void)m; }
ares_status_t ares_thread_create(ares_thread_t **t, ares_thread_func_t f, void *a) { (void)t; (void)f; (void)a; return ARES_ESERVFAIL; }
ares_status_t ares_thread_join(ares_thread_t *t, void **rv) { (void)t; (void)rv; return ARES_SUCCESS; }
ares_bool_t   ares_threadsafety(void) { return ARES_TRUE; }

/* ---- channel lock (ghost) and the channel functions the event thread calls ---- */
static void ch_lock(void)
{
  VP_ASSERT(ev_mutex_depth == 0, "the channel lock is never acquired while the event mutex is held (lock order is channel -> event mutex only)");
  vp_lock_depth++;
}
static void ch_unlock(void) { vp_lock_depth--; }
/* what the channel does under its lock: socket state changes and pending-write notifications call back into the
 * event thread's callbacks (installed in the channel by ares_event_thread_init) */
static int cb_sock_budget = 1, cb_write_budget = 1; /* one socket-state change and one pending-write request per run */
static void channel_callbacks(void)
{
  if (cb_sock_budget > 0 && vp_bool()) { cb_sock_budget--; ares_event_thread_sockstate_cb(&E, (ares_socket_t)5, vp_bool(), vp_bool()); }
  if (cb_write_budget > 0 && vp_bool()) { cb_write_budget--; notifywrite_cb(&E); }
}
struct timeval *ares_timeout(const ares_channel_t *c, struct timeval *maxtv, struct timeval *tv)
{
  VP_ASSERT(c == &ch && ev_mutex_depth == 0, "ares_timeout() is called without the event mutex");
  into_channel++;
  ch_lock();
  ch_unlock();
  (void)maxtv;
  if (vp_bool()) return NULL;
  tv->tv_sec  = (time_t)vp_range(0, 1000000);
  tv->tv_usec = (suseconds_t)vp_range(0, 999999);
  return tv;
}
ares_status_t ares_process_fds(ares_channel_t *c, const ares_fd_events_t *events, size_t nevents, unsigned int flags)
{
  (void)nevents; (void)flags;
  VP_ASSERT(c == &ch && ev_mutex_depth == 0, "ares_process_fds() is called without the event mutex");
  into_channel++;
  if (events == NULL) {
    end_of_iteration_runs++;
    /* the thread is taken down (by ares_event_thread_destroy_int, under the mutex) while it is busy here */
    if (waits == MAXITER || vp_bool()) E.isup = ARES_FALSE;
  }
  ch_lock();
  channel_callbacks();
  ch_unlock();
  return ARES_SUCCESS;
}
void ares_process_pending_write(ares_channel_t *c)
{
  VP_ASSERT(c == &ch && ev_mutex_depth == 0, "ares_process_pending_write() is called without the event mutex");
  into_channel++;
  ch_lock();
  channel_callbacks();
  ch_unlock();
}

/* ---- event back end ---- */
static ares_bool_t sys_init(ares_event_thread_t *e) { (void)e; return ARES_TRUE; }
static void        sys_destroy(ares_event_thread_t *e) { (void)e; }
static ares_bool_t sys_add(ares_event_t *ev) { (void)ev; return vp_bool() ? ARES_TRUE : ARES_FALSE; }
static void        sys_del(ares_event_t *ev) { (void)ev; }
static void        sys_mod(ares_event_t *ev, ares_event_flags_t f) { (void)ev; (void)f; }
static size_t      sys_wait(ares_event_thread_t *e, unsigned long timeout_ms)
{
  (void)timeout_ms;
  VP_ASSERT(e == &E && ev_mutex_depth == 0, "the event thread sleeps without holding its mutex");
  VP_ASSUME(waits < MAXITER);
  waits++;
  /* a socket became ready: its callback processes it on the channel */
  if (vp_bool()) ares_event_thread_process_fd(e, (ares_socket_t)5, NULL, ARES_EVENT_FLAG_READ);
  /* another thread (ares_event_thread_destroy_int) may take the thread down while we sleep */
  if (vp_bool()) E.isup = ARES_FALSE;
  return 0;
}
static const ares_event_sys_t sys = { "vp", sys_init, sys_destroy, sys_add, sys_del, sys_mod, sys_wait };
static void sig_cb(const ares_event_t *ev)
{
  VP_ASSERT(ev == &sig_event, "wake through the thread's signal event");
  wakes++;
  if (ev_mutex_depth > 0) wake_with_mutex++;
}
/* custom-handle table: empty */
struct ares_htable_vpvp { int d; };
void       *ares_htable_vpvp_get_direct(const ares_htable_vpvp_t *h, const void *k) { (void)h; (void)k; return NULL; }
ares_bool_t ares_htable_vpvp_insert(ares_htable_vpvp_t *h, void *k, void *v) { (void)h; (void)k; (void)v; return ARES_TRUE; }
ares_bool_t ares_htable_vpvp_remove(ares_htable_vpvp_t *h, const void *k) { (void)h; (void)k; return ARES_TRUE; }
void        ares_htable_vpvp_destroy(ares_htable_vpvp_t *h) { (void)h; }
ares_htable_vpvp_t *ares_htable_vpvp_create(ares_htable_vpvp_key_free_t kf, ares_htable_vpvp_val_free_t vf) { static struct ares_htable_vpvp t; (void)kf; (void)vf; return &t; }

void harness(void)
{
  static struct ares_htable_vpvp cust;
  E.mutex           = (ares_thread_mutex_t *)&mutex_obj;
  E.channel         = &ch;
  E.isup            = ARES_TRUE;
  E.ev_updates      = ares_llist_create(NULL);
  E.ev_sock_handles = ares_htable_asvp_create(ares_event_destroy_cb);
  E.ev_cust_handles = &cust;
  E.ev_sys          = &sys;
  sig_event.signal_cb = sig_cb;
  E.ev_signal       = &sig_event;
  VP_ASSUME(E.ev_updates != NULL && E.ev_sock_handles != NULL);
  ch.sock_state_cb_data = &E;

#if OP == 0
  /* fd 5 may already be registered (so a callback MODIFIES or REMOVES it) */
  if (vp_bool()) {
    ares_event_t *ev = &ev_pool[3];
    ev_pool_used[3] = 1; ev_live++;
    ev->e = &E; ev->fd = 5; ev->flags = ARES_EVENT_FLAG_READ; ev->cb = ares_event_thread_process_fd;
    H.used = 1; H.key = 5; H.val = ev;
  }
  (void)ares_event_thread(&E);
  VP_ASSERT(ev_mutex_depth == 0 && ev_locks == ev_unlocks, "every event-mutex lock is released when the thread function returns");
  VP_ASSERT(vp_lock_depth == 0, "channel lock balanced");
  VP_ASSERT(E.ev_updates == NULL && E.ev_sock_handles == NULL, "the thread cleaned up its tables");
  VP_ASSERT(ev_live == 0, "every event object is released by the clean-up");
  if (ch_then_ev) VP_WITNESS("event mutex taken while the channel lock is held");
  if (into_channel >= 2) VP_WITNESS("called into the channel");
  if (waits == MAXITER) VP_WITNESS("all iterations");
  if (end_of_iteration_runs) VP_WITNESS("end-of-iteration processing ran");
#elif OP == 1
  { ares_event_t *out = NULL; ares_status_t st;
    ares_socket_t fd = vp_bool() ? ARES_SOCKET_BAD : (ares_socket_t)5;
    if (vp_bool()) vp_lock_depth = 1; /* with or without the channel lock held by the caller */
    st = ares_event_update(vp_bool() ? &out : NULL, vp_bool() ? &E : NULL, (ares_event_flags_t)vp_range(0, 7),
                           vp_bool() ? ares_event_thread_process_fd : NULL, fd, vp_bool() ? &ch : NULL, NULL, NULL);
    VP_ASSERT(ev_mutex_depth == 0 && ev_locks == ev_unlocks, "ares_event_update releases the event mutex on every path");
    if (st == ARES_SUCCESS) {
      VP_ASSERT(wakes >= 1, "a successfully queued update wakes the event thread (no lost wake-up)");
      VP_ASSERT(ares_llist_len(E.ev_updates) == 1, "the update is queued");
      VP_WITNESS("queued");
    } else {
      VP_ASSERT(ares_llist_len(E.ev_updates) == 0 && wakes == 0, "a rejected update leaves nothing queued");
      VP_WITNESS("rejected");
    }
  }
#elif OP == 2
  vp_lock_depth = 1; /* the channel calls its socket-state callback under the channel lock */
  ares_event_thread_sockstate_cb(&E, (ares_socket_t)5, vp_bool(), vp_bool());
  VP_ASSERT(ev_mutex_depth == 0 && ev_locks == ev_unlocks && ev_locks >= 1, "socket-state callback takes and releases the event mutex");
  VP_ASSERT(vp_lock_depth == 1, "the callback never touches the channel lock");
  VP_ASSERT(ch_then_ev, "order channel -> event mutex");
  VP_ASSERT(ares_llist_len(E.ev_updates) == 0 || wakes >= 1, "queued update => wake-up");
  if (wakes) VP_WITNESS("woken");
#else
  vp_lock_depth = 1;
  notifywrite_cb(&E);
  VP_ASSERT(ev_mutex_depth == 0 && ev_locks == ev_unlocks && ev_locks == 1, "pending-write callback takes and releases the event mutex");
  VP_ASSERT(E.process_pending_write == ARES_TRUE && wakes == 1, "the request is recorded and the event thread woken");
  VP_ASSERT(vp_lock_depth == 1, "the callback never touches the channel lock");
#endif
  VP_WITNESS("end");
}
