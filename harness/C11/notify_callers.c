/* C11 / c11_notify_callers: the callers of ares_queue_notify_empty() evaluate the queue AFTER their last change to it and
 * while holding the channel lock (otherwise a waiter in ares_queue_wait_empty() can miss the wake-up or see a stale
 * length).  Real: ares_cancel (ares_cancel.c), end_query / ares_free_query / ares_detach_query (ares_process.c included),
 * ares_llist.c.  Stubs: slist_ref / szvp_ref reference containers, abstract records; the lock is a ghost depth and
 * ares_queue_notify_empty() records the queue length it sees.  Callbacks may start a new request (re-fill the queue) or
 * re-enter ares_cancel (depth 1).  (ares_destroy's call is ordered in c11_reinit_destroy.) */
#include "vp.h"
#include "ares_process.c"
#include "dnsrec_abs.h"

#ifndef NQ
#  define NQ 2
#endif
#define MAXTOK (NQ + 2)

int           vp_lock_depth;
static int    notify_calls, notify_depth_ok;
static size_t notify_seen_len;

static ares_channel_t ch;
static ares_conn_t    conn;
static ares_server_t  srv;
static int            cb_count[MAXTOK];
static int            ntok, depth, started_new, reentered;

void ares_channel_lock(const ares_channel_t *c) { (void)c; vp_lock_depth++; }
void ares_channel_unlock(const ares_channel_t *c)
{
  (void)c;
  VP_ASSERT(vp_lock_depth > 0, "unlock only while locked");
  vp_lock_depth--;
}
void ares_queue_notify_empty(ares_channel_t *c)
{
  VP_ASSERT(c == &ch, "notification for the channel under test");
  VP_ASSERT(vp_lock_depth > 0, "the empty-queue notification is evaluated under the channel lock");
  notify_seen_len = ares_llist_len(ch.all_queries);
  notify_calls++;
}
void ares_metrics_record(const ares_query_t *query, ares_server_t *server, ares_status_t status, const ares_dns_record_t *dnsrec)
{ (void)query; (void)server; (void)status; (void)dnsrec; }
void ares_check_cleanup_conns(const ares_channel_t *channel)
{ (void)channel; VP_ASSERT(vp_lock_depth > 0, "cleanup runs under the channel lock"); }

static int tv_cmp(const void *a, const void *b)
{
  const ares_query_t *q1 = a, *q2 = b;
  if (q1->timeout.sec != q2->timeout.sec) return q1->timeout.sec < q2->timeout.sec ? -1 : 1;
  return 0;
}
static void user_cb(void *arg, ares_status_t status, size_t timeouts, const ares_dns_record_t *dnsrec);
static ares_query_t *new_query(void)
{
  ares_query_t *q   = ares_malloc_zero(sizeof(*q));
  int           tok = ntok++;
  VP_ASSUME(q != NULL);
  q->channel          = &ch;
  q->qid              = (unsigned short)(100 + tok);
  q->callback         = user_cb;
  q->arg              = &cb_count[tok];
  q->query            = vp_absrec_new(q->qid);
  q->node_all_queries = ares_llist_insert_last(ch.all_queries, q);
  VP_ASSUME(q->node_all_queries != NULL);
  ares_htable_szvp_insert(ch.queries_by_qid, q->qid, q);
  if (vp_bool()) {
    q->conn                    = &conn;
    q->node_queries_to_conn    = ares_llist_insert_last(conn.queries_to_conn, q);
    q->node_queries_by_timeout = ares_slist_insert(ch.queries_by_timeout, q);
    VP_ASSUME(q->node_queries_to_conn != NULL && q->node_queries_by_timeout != NULL);
  }
  return q;
}
static void user_cb(void *arg, ares_status_t status, size_t timeouts, const ares_dns_record_t *dnsrec)
{
  int *cnt = arg;
  (void)status; (void)timeouts; (void)dnsrec;
  (*cnt)++;
  VP_ASSERT(vp_lock_depth > 0, "completion callbacks run under the channel lock");
  if (depth == 0) {
    unsigned c = vp_u8();
    depth++;
    if (c == 1) { reentered = 1; ares_cancel(&ch); }
    else if (c == 2 && ntok < MAXTOK) { started_new = 1; (void)new_query(); }
    depth--;
  }
}

void harness(void)
{
  ares_query_t *q[NQ];
  size_t        n0, final_len;
  int           i;

  vp_alloc_install();
  ch.all_queries        = ares_llist_create(NULL);
  ch.queries_by_qid     = ares_htable_szvp_create(NULL);
  ch.queries_by_timeout = ares_slist_create(NULL, tv_cmp, NULL);
  ch.tries              = 1;
  ch.servers            = ares_slist_create(NULL, tv_cmp, NULL);
  conn.server           = &srv;
  conn.queries_to_conn  = ares_llist_create(NULL);
  srv.channel           = &ch;
  VP_ASSUME(ch.all_queries && ch.queries_by_qid && ch.queries_by_timeout && ch.servers && conn.queries_to_conn);
  for (i = 0; i < NQ; i++)
    q[i] = new_query();
  n0 = ares_llist_len(ch.all_queries);

#if ENTRY == 0
  ares_cancel(&ch);
  VP_ASSERT(vp_lock_depth == 0, "lock released");
#else
  /* a request completes inside some locked API call (ares_process_fds, ...) */
  vp_lock_depth = 1;
  end_query(&ch, NULL, q[vp_range(0, NQ - 1)], (ares_status_t)vp_range(0, 24), NULL);
  VP_ASSERT(vp_lock_depth == 1, "lock state untouched by end_query");
#endif
  final_len = ares_llist_len(ch.all_queries);
  VP_ASSERT(final_len < n0 || started_new, "the call removed at least one request");
  VP_ASSERT(notify_calls >= 1, "the queue length changed: waiters are notified");
  VP_ASSERT(notify_seen_len == final_len,
            "the LAST empty-queue notification evaluated the final queue (no request is removed after it)");
  if (final_len == 0) VP_WITNESS("queue became empty");
  if (final_len != 0) VP_WITNESS("queue not empty at return");
  if (started_new) VP_WITNESS("callback started a new request");
  if (reentered) VP_WITNESS("callback re-entered ares_cancel");
  VP_WITNESS("end");
}
