/* C11 / c11_lockheld: shared between lockheld.c (driver + oracles) and lh_stubs.c (lock-asserting contract stubs). */
#ifndef C11_LH_H
#define C11_LH_H
#include "ares_private.h"
#include "vp.h"

extern ares_channel_t LH_ch;        /* the channel under test */
extern ares_channel_t LH_dest;      /* a second channel (ares_dup destination) */
extern int            vp_lock_depth; /* ghost: depth of LH_ch's lock held by the calling thread */
extern int            LH_other_depth;
extern int            LH_acquisitions;
extern int            LH_cb_count;   /* user-visible completion callbacks seen */
extern int            LH_stub_calls; /* calls into "worker" stubs (shared state touched) */

/* mini world behind the container API: 0..2 servers with 0..2 connections each, 0..1 request in the timeout index,
 * all_queries abstracted to its length */
#define LH_MAXS 2
#define LH_MAXC 2
extern size_t        LH_nsrv, LH_nconn[LH_MAXS], LH_nqueries, LH_ntimeout;
extern ares_server_t LH_srv[LH_MAXS];
extern ares_conn_t   LH_conn[LH_MAXS][LH_MAXC];
extern ares_query_t  LH_query;

#if defined(EXPECT_save_options_unlocked) && defined(KF_save_options_unlocked)
#  define LH_LOCKED(what) ((void)0)
#elif defined(EXPECT_save_options_unlocked)
#  define LH_LOCKED(what) VP_ASSERT(vp_lock_depth > 0, "FINDING save_options_unlocked: ares_save_options() (and so the first half of " \
                                    "ares_dup()) reads the channel - server list, domains, sortlist, lookups, ... - without the " \
                                    "channel lock while ares_set_servers*/ares_set_sortlist/the event thread change and free them (" what ")")
#else
#  define LH_LOCKED(what) VP_ASSERT(vp_lock_depth > 0, "shared channel state is touched only while the channel lock is held (" what ")")
#endif
/* a worker: the function that does the real work of a public entry point */
#define LH_WORKER(what)  do { LH_LOCKED(what); LH_stub_calls++; } while (0)
ares_status_t LH_any_status(void);
#endif
