/* C11 / c11_reinit (S5): the REAL ares_reinit() (and its REAL thread body ares_reinit_thread()) called by thread A while
 *   B_OP=0: a second thread B calls the REAL ares_reinit() on the same channel,
 *   B_OP=1: thread A is the EVENT THREAD (its configuration-change callback calls ares_reinit(), as on Linux where
 *           ares_event_configchg_destroy() only queues the removal of the inotify event) and a user thread B calls the
 *           REAL ares_destroy(); B's ares_event_thread_destroy() waits for A, so the final teardown (lock destroyed,
 *           channel freed) takes effect after A has returned.
 * B's whole call runs at one synchronisation point of A at which A does not hold the channel lock (sched.h).
 * Oracles: no reload-thread handle is overwritten while unjoined; at most one reload thread runs at a time; a handle is
 * joined at most once and only while live; nobody joins a thread that needs the lock while holding it; every created
 * thread stays joinable through channel->reinit_thread; reinit_pending == "a reload thread is running"; when
 * ares_destroy() has completed no reload thread is left unjoined; the lock is balanced. */
#include "vp.h"
#include "ares_private.h"
#include "event/ares_event.h"
#include "sched.h"
#include "ares_init.c"

#ifndef B_OP
#  define B_OP 0
#endif

static ares_channel_t      ch;
static ares_status_t       b_status;
static int                 teardown;      /* ares_destroy() reached its final teardown */
static int                 b_joined_prev; /* ares_destroy() found a handle to join */
static ares_event_thread_t ev;

static void S_run_B(void)
{
#if B_OP == 0
  b_status = ares_reinit(&ch);
#else
  ares_destroy(&ch);
#endif
}

#if B_OP == 1
/* ---- neighbours of ares_destroy(): recorders with the locking obligations they impose ---- */
void ares_event_configchg_destroy(ares_event_configchg_t *c)
{
  (void)c;
  VP_ASSERT(vp_lock_depth == 0, "the configuration watcher is stopped without holding the channel lock (it may be "
                                "inside ares_reinit() waiting for that lock)");
}
ares_llist_node_t *ares_llist_node_first(ares_llist_t *l)
{
  VP_ASSERT(l == ch.all_queries && vp_lock_depth > 0, "outstanding requests are failed under the channel lock");
  return NULL; /* no outstanding requests (their completion is C01's subject) */
}
void ares_queue_notify_empty(ares_channel_t *c) { VP_ASSERT(c == &ch && vp_lock_depth > 0, "notify under the lock"); }
ares_slist_node_t *ares_slist_node_first(ares_slist_t *l)
{
  VP_ASSERT(l == ch.servers && vp_lock_depth > 0, "server state is destroyed under the channel lock");
  return NULL;
}
void ares_slist_destroy(ares_slist_t *l) { (void)l; }
void ares_event_thread_destroy(ares_channel_t *c)
{
  VP_ASSERT(c == &ch && vp_lock_depth == 0, "the event thread is joined without holding the channel lock");
}
void ares_llist_destroy(ares_llist_t *l) { (void)l; }
void ares_htable_szvp_destroy(ares_htable_szvp_t *h) { (void)h; }
void ares_htable_asvp_destroy(ares_htable_asvp_t *h) { (void)h; }
void ares_destroy_rand_state(ares_rand_state *s) { (void)s; }
void ares_hosts_file_destroy(ares_hosts_file_t *hf) { (void)hf; }
void ares_qcache_destroy(ares_qcache_t *c) { (void)c; }
void ares_channel_threading_destroy(ares_channel_t *c)
{
  VP_ASSERT(c == &ch && vp_lock_depth == 0, "the channel lock is destroyed only when nobody holds it");
  teardown = 1;
}
void ares_free(void *p) { (void)p; } /* the channel itself: effect deferred (see header) */
#endif

void harness(void)
{
  ares_status_t st;
  int           i;

  S_prestate(&ch);
  S_b_enabled = 1;
#if B_OP == 1
  ch.optmask            = ARES_OPT_EVENT_THREAD;
  ch.sock_state_cb_data = &ev;
  ev.channel            = &ch;
  ev.configchg          = vp_bool() ? (ares_event_configchg_t *)&ev : NULL;
  ch.all_queries        = (ares_llist_t *)&ch.all_queries;
  ch.servers            = (ares_slist_t *)&ch.servers;
#endif

  st = ares_reinit(&ch); /* thread A */
  S_yield();             /* B (if it has not run yet) and children after A returned */
  S_b_enabled = 0;       /* from here on the harness only inspects / quiesces */

  VP_ASSERT(vp_lock_depth == 0, "channel lock released by every thread");
  S_check_pending_unchanged();
  VP_ASSERT(st == ARES_SUCCESS || st == ARES_ENOMEM || st == ARES_ESERVFAIL, "ares_reinit reports success or the spawn failure");
#if B_OP == 1
  if (S_b_state == 2) {
    VP_ASSERT(teardown, "ares_destroy ran to its final teardown");
    for (i = 0; i < S_MAXT; i++)
      VP_ASSERT(!S_T[i].spawned || S_T[i].joined,
                "FINDING reinit_destroy_race: ares_destroy() completed while a reload thread started by a concurrent "
                "ares_reinit() was never joined (it goes on to use the destroyed lock and the freed channel)");
    VP_ASSERT(ch.sys_up == ARES_FALSE, "channel marked down");
    if (S_b_in_gap) VP_WITNESS("destroy ran between the gate and the thread creation of ares_reinit");
    VP_WITNESS("destroy completed");
    VP_WITNESS("end");
    return;
  }
#endif
  for (i = 0; i < S_MAXT; i++) {
    if (S_T[i].spawned && !S_T[i].joined)
      VP_ASSERT(ch.reinit_thread == &S_T[i],
                "FINDING reinit_handle_race: a reload thread that was created is no longer reachable through "
                "channel->reinit_thread (nobody will ever join it)");
  }
  VP_ASSERT(ch.reinit_thread == NULL || (S_is_handle(ch.reinit_thread) && ch.reinit_thread->spawned && !ch.reinit_thread->joined),
            "the stored handle is NULL or a live, unjoined thread (never a joined/freed one)");
  VP_ASSERT(S_unjoined() <= 1, "at most one unjoined reload thread exists");
  VP_ASSERT((ch.reinit_pending == ARES_TRUE) == (S_running_children() == 1),
            "reinit_pending is set exactly while a reload thread is running");

  if (S_b_in_gap) VP_WITNESS("thread B ran between A's unlock and create");
  if (S_b_between_spawn_and_store) VP_WITNESS("thread B ran between A's spawn and A's handle store");
  if (S_child_ran_in_window) VP_WITNESS("child finished before its handle was stored");
  if (S_nthr >= 2 && S_pending_pre == 0) VP_WITNESS("two reload threads were created");
  if (st != ARES_SUCCESS) VP_WITNESS("thread creation failed");
  if (S_flushes) VP_WITNESS("cache flushed");
  if (S_T[0].joined && S_pending_pre == 0 && S_nthr >= 2) VP_WITNESS("previous reload thread joined");

  /* quiesce: every child finishes; then the channel is joinable once more (what ares_destroy does) */
  for (i = 0; i < S_MAXT; i++) {
    if (S_T[i].spawned && !S_T[i].finished)
      S_run_child(&S_T[i]);
  }
  VP_ASSERT(ch.reinit_pending == ARES_FALSE, "after all reload threads finished no reload is pending");
  if (ch.reinit_thread != NULL)
    (void)ares_thread_join(ch.reinit_thread, NULL);
  VP_ASSERT(S_unjoined() == 0, "FINDING reinit_handle_race: after joining channel->reinit_thread no reload thread is left unjoined (no leaked thread)");
  VP_ASSERT(vp_lock_depth == 0, "channel lock balanced");
  VP_WITNESS("end");
}
