/* C11 / S5 context-bounded sequentialisation runtime (DESIGN R2-S5), shared by reinit.c.
 *
 * Threads: A (the harness' first caller), B (a second API caller whose ENTIRE call runs at one of A's
 * synchronisation points at which A does not hold the channel lock), and the reload threads ("children") spawned by
 * ares_thread_create().  A child is executed by calling the REAL thread function (ares_reinit_thread) to completion;
 * it may do so at any synchronisation point of A or B at which the channel lock is free (its unlocked prefix touches
 * no shared state, so "whole child at a point where the lock is free" is every schedule of the child), at the latest
 * when somebody joins it.
 *
 * Ghost state:
 *   vp_lock_depth          recursive channel lock depth of the running thread (others never run while it is > 0)
 *   struct ares_thread     per reload thread: spawned / finished / joined
 *   S_gap                  A has passed the "reinit_pending" gate but not yet finished ares_thread_create()
 */
#ifndef C11_SCHED_H
#define C11_SCHED_H

#define S_MAXT 3
struct ares_thread {
  int spawned, finished, joined;
};
enum { S_A = 0, S_B = 1, S_CHILD = 2 };

static ares_channel_t    *S_ch;
static struct ares_thread S_T[S_MAXT];
static int                S_nthr;
static int                S_cur = S_A;
static int                S_b_state;      /* 0 not started, 1 running, 2 done */
static int                S_b_enabled;    /* B exists and may still start */
static int                S_b_in_gap;     /* B ran inside A's gap */
static int                S_b_between_spawn_and_store;
static int                S_a_locks;      /* lock acquisitions by A so far */
static int                S_a_create_done;
static int                S_pending_pre;
static int                S_in_spawn_window;
static int                S_child_ran_in_window;
static int                S_flushes;
int                       vp_lock_depth;

static void  S_run_B(void);   /* provided by the harness: thread B's whole API call */
static void *ares_reinit_thread(void *arg);

static int                S_a_unlocks;
static int                S_a_pending_at_lock;
static int                S_a_gate;       /* A set reinit_pending itself and released the lock before creating the thread */
static int S_a_in_gap(void)
{
  return S_cur == S_A && S_a_gate && !S_a_create_done;
}

static ares_bool_t S_pend_snap; /* reinit_pending as of the last moment the lock was free */
static void S_check_pending_unchanged(void)
{
  VP_ASSERT(S_ch->reinit_pending == S_pend_snap, "reinit_pending is written only while the channel lock is held");
}
static void S_run_child(struct ares_thread *t)
{
  int prev = S_cur;
  VP_ASSERT(vp_lock_depth == 0, "a reload thread only gets the channel lock when nobody holds it");
  S_cur = S_CHILD;
  (void)ares_reinit_thread(S_ch); /* REAL child body */
  S_cur       = prev;
  S_check_pending_unchanged();
  t->finished = 1;
  if (S_in_spawn_window)
    S_child_ran_in_window = 1;
}

/* a synchronisation point of the running thread */
static void S_yield(void)
{
  int i;
  if (vp_lock_depth > 0 || S_cur == S_CHILD)
    return;
  for (i = 0; i < S_MAXT; i++) {
    if (S_T[i].spawned && !S_T[i].finished && vp_bool())
      S_run_child(&S_T[i]);
  }
  if (S_cur == S_A && S_b_enabled && S_b_state == 0) {
    int gap = S_a_in_gap();
    int go  = vp_bool();
#if defined(KF_reinit_handle_race) || defined(KF_reinit_destroy_race)
    if (gap) go = 0; /* known finding excluded: B never runs inside A's gate-to-store gap */
#endif
#if defined(KFONLY_reinit_handle_race) || defined(KFONLY_reinit_destroy_race)
    if (!gap) go = 0; /* only the known finding's region */
#endif
    if (go) {
      S_b_state  = 1;
      S_b_in_gap = gap;
      S_b_between_spawn_and_store = S_in_spawn_window;
      S_cur      = S_B;
      S_run_B();
      S_cur     = S_A;
      S_b_state = 2;
      /* after B, children may again finish */
      for (i = 0; i < S_MAXT; i++) {
        if (S_T[i].spawned && !S_T[i].finished && vp_bool())
          S_run_child(&S_T[i]);
      }
    }
  }
}

/* ---- channel lock: ghost depth; never blocks because nobody else runs while it is held ---- */
void ares_channel_lock(const ares_channel_t *channel)
{
  VP_ASSERT(channel == S_ch, "lock of the channel under test");
  S_yield();
  if (S_cur == S_A && S_a_locks++ == 0)
    S_a_pending_at_lock = S_ch->reinit_pending;
  if (vp_lock_depth == 0)
    S_check_pending_unchanged();
  vp_lock_depth++;
}
void ares_channel_unlock(const ares_channel_t *channel)
{
  VP_ASSERT(channel == S_ch, "unlock of the channel under test");
  VP_ASSERT(vp_lock_depth > 0, "unlock only while locked");
  vp_lock_depth--;
  if (vp_lock_depth == 0)
    S_pend_snap = S_ch->reinit_pending;
  if (S_cur == S_A && S_a_unlocks++ == 0)
    S_a_gate = !S_a_pending_at_lock && S_ch->reinit_pending && !S_a_create_done;
  S_yield();
}

ares_bool_t ares_threadsafety(void) { return ARES_TRUE; }

static int S_running_children(void)
{
  int i, n = 0;
  for (i = 0; i < S_MAXT; i++)
    n += S_T[i].spawned && !S_T[i].finished;
  return n;
}
static int S_unjoined(void)
{
  int i, n = 0;
  for (i = 0; i < S_MAXT; i++)
    n += S_T[i].spawned && !S_T[i].joined;
  return n;
}
static int S_is_handle(const struct ares_thread *t)
{
  return t == &S_T[0] || t == &S_T[1] || t == &S_T[2];
}

/* spawn = record an unjoined handle; the child may finish immediately (before the handle is stored); other threads
 * may run before the handle is stored; then store the handle (this is pthread_create() followed by "*thread = thr") */
ares_status_t ares_thread_create(ares_thread_t **thread, ares_thread_func_t func, void *arg)
{
  struct ares_thread *t;
  VP_ASSERT(func == ares_reinit_thread && arg == S_ch && thread == &S_ch->reinit_thread,
            "the reload thread is created on the channel's handle slot");
  S_yield();
  if (vp_bool()) {
    if (S_cur == S_A) S_a_create_done = 1;
    return vp_bool() ? ARES_ENOMEM : ARES_ESERVFAIL; /* *thread untouched, as in the real wrapper */
  }
  VP_BOUND(S_nthr < S_MAXT, "more reload threads than handle slots");
  VP_ASSERT(S_running_children() == 0, "at most one configuration reload thread runs at a time");
  t          = &S_T[S_nthr++];
  t->spawned = 1;
  if (S_cur == S_A) S_in_spawn_window = 1;
  S_yield(); /* child runs (or not), thread B runs (or not) before the handle is published */
  if (S_cur == S_A) S_in_spawn_window = 0;
  VP_ASSERT(*thread == NULL || (S_is_handle(*thread) && (*thread)->joined),
            "FINDING reinit_handle_race: ares_reinit() overwrites the handle of a reload thread that was never joined "
            "(two callers passed the reinit_pending gate; the thread and its handle leak)");
  *thread = t;
  if (S_cur == S_A) S_a_create_done = 1;
  return ARES_SUCCESS;
}

ares_status_t ares_thread_join(ares_thread_t *thread, void **rv)
{
  VP_ASSERT(S_is_handle(thread) && thread->spawned && !thread->joined,
            "only a live, not yet joined reload thread is joined (no double join, no stale handle)");
  S_yield();
  if (!thread->finished) {
    VP_ASSERT(vp_lock_depth == 0,
              "DEADLOCK: a reload thread that still needs the channel lock is joined while the lock is held");
    S_run_child(thread);
  }
  thread->joined = 1;
  if (rv != NULL) *rv = NULL;
  return ARES_SUCCESS;
}

/* configuration read + apply: any status (the apply part takes the lock itself; not modelled further) */
ares_status_t ares_init_by_sysconfig(ares_channel_t *channel)
{
  VP_ASSERT(channel == S_ch, "reload works on the channel under test");
  VP_ASSERT(vp_lock_depth == 0, "the (blocking) configuration read runs without the channel lock");
  return vp_bool() ? ARES_SUCCESS : (ares_status_t)vp_range(1, 24);
}
void ares_qcache_flush(ares_qcache_t *cache)
{
  VP_ASSERT(cache == S_ch->qcache, "flush of the channel's cache");
  VP_ASSERT(vp_lock_depth > 0, "the query cache is flushed under the channel lock");
  S_flushes++;
}

/* quiescent pre-state of the reload machinery: no reload ever / previous reload finished but not yet joined /
 * a reload currently in progress */
static void S_prestate(ares_channel_t *c)
{
  unsigned k = vp_u8();
  S_ch = c;
  c->sys_up = ARES_TRUE;
  c->qcache = (ares_qcache_t *)&S_flushes; /* opaque non-NULL */
  if (k == 1) {
    S_T[0].spawned = 1; S_T[0].finished = 1; S_nthr = 1;
    c->reinit_thread = &S_T[0];
  } else if (k == 2) {
    S_T[0].spawned = 1; S_nthr = 1;
    c->reinit_thread  = &S_T[0];
    c->reinit_pending = ARES_TRUE;
  } else {
    VP_ASSUME(k == 0);
  }
  S_pending_pre = c->reinit_pending;
  S_pend_snap   = c->reinit_pending;
}
#endif
