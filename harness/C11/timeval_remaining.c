/* C11 / c11_timeval_remaining: the contract of ares_timeval_remaining() assumed by c11_waitempty_timed, checked on the
 * REAL function (src/lib/ares_timeout.c): for NORMALISED time values (usec < 1000000) the result is exactly
 * max(tout - now, 0), normalised.  Second part (witness only): with a deadline whose usec is NOT normalised the
 * function reports "expired" while time remains - this is how ares_queue_wait_empty()'s deadline misled it. */
#include "ares_private.h"
#include "vp.h"

void harness(void)
{
  ares_timeval_t now, tout, rem;
  ares_int64_t   d;

  now.sec   = (ares_int64_t)vp_range(0, (size_t)1 << 41);
  now.usec  = (unsigned int)vp_range(0, 999999);
  tout.sec  = (ares_int64_t)vp_range(0, (size_t)1 << 41);
  tout.usec = (unsigned int)vp_range(0, UNNORM ? 1999999 : 999999);
  rem.sec   = -1;
  rem.usec  = 77;

  ares_timeval_remaining(&rem, &now, &tout);

#if !UNNORM
  /* sign of (tout - now) for normalised values: lexicographic order */
  d = tout.sec != now.sec ? (tout.sec > now.sec ? 1 : -1) : (tout.usec > now.usec ? 1 : (tout.usec < now.usec ? -1 : 0));
  if (d <= 0) {
    VP_ASSERT(rem.sec == 0 && rem.usec == 0, "a deadline that is reached or passed leaves exactly zero");
    VP_WITNESS("expired");
  } else {
    VP_ASSERT(rem.usec < 1000000 && rem.sec >= 0, "remaining time is normalised and non-negative");
    if (tout.usec >= now.usec)
      VP_ASSERT(rem.sec == tout.sec - now.sec && rem.usec == tout.usec - now.usec, "remaining time is exactly deadline minus now");
    else
      VP_ASSERT(rem.sec == tout.sec - now.sec - 1 && rem.usec == tout.usec + 1000000 - now.usec,
                "remaining time is exactly deadline minus now (microsecond borrow)");
    VP_WITNESS("time remains");
    if (tout.usec < now.usec) VP_WITNESS("borrow");
  }
#else
  d = (tout.sec - now.sec) * 1000000 + ((ares_int64_t)tout.usec - (ares_int64_t)now.usec);
  if (d > 0 && rem.sec == 0 && rem.usec == 0 && tout.usec >= 1000000)
    VP_WITNESS("an unnormalised deadline is called expired although time remains");
  if (d > 999000 && rem.sec == 0 && rem.usec == 0)
    VP_WITNESS("more than 999 ms are lost");
#endif
  VP_WITNESS("end");
}
