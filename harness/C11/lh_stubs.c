/* C11 / c11_lockheld: contract stubs for everything a public wrapper calls.
 *   WORKER stubs  - functions that read/write shared channel state (the _nolock/_int workers, neighbours taking the
 *                   channel/server/connection, the shared containers): ASSERT the channel lock is held, return any
 *                   status; request workers invoke the completion callback at most once, exactly once on failure;
 *   PURE stubs    - helpers that only touch their arguments (allocation, parsing of caller input, record objects):
 *                   no lock obligation; allocation may fail.
 * Static workers of the TU under test (-DTU_<name>) have their bodies removed by the runner and are defined here. */
#include "lh.h"
#include <stdlib.h>
#include <string.h>
#include <netinet/in.h>
#include <netdb.h>
#include "ares_data.h"

/* ------------------------------------------------ PURE: memory / strings ------------------------------------------- */
void *ares_malloc(size_t n) { return vp_bool() ? NULL : malloc(n); }
void *ares_malloc_zero(size_t n) { return vp_bool() ? NULL : calloc(1, n); }
void  ares_free(void *p) { (void)p; }
char *ares_strdup(const char *s) { static char d[4]; if (s == NULL || vp_bool()) return NULL; return d; }
void  ares_free_string(void *p) { (void)p; }
void *ares_malloc_data(ares_datatype type) { (void)type; return vp_bool() ? NULL : calloc(1, sizeof(struct ares_addr_port_node)); }
void  ares_free_data(void *p) { (void)p; }
size_t ares_strlen(const char *s) { return s == NULL ? 0 : strlen(s); }
size_t ares_strcpy(char *dest, const char *src, size_t dest_size)
{
  size_t i = 0;
  if (dest == NULL || dest_size == 0) return 0;
  for (i = 0; src != NULL && src[i] != 0 && i < dest_size - 1; i++) dest[i] = src[i];
  dest[i] = 0;
  return i;
}
void ares_tvnow(ares_timeval_t *now) { now->sec = (ares_int64_t)vp_range(0, 2000); now->usec = (unsigned int)vp_range(0, 999999); }
const char *ares_inet_ntop(int af, const void *src, char *dst, ares_socklen_t size)
{ (void)af; (void)src; if (size > 0) dst[0] = 0; return vp_bool() ? dst : NULL; }

/* ------------------------------------------------ PURE: DNS record objects ----------------------------------------- */
ares_status_t ares_dns_parse(const unsigned char *buf, size_t buf_len, unsigned int flags, ares_dns_record_t **dnsrec)
{
  static int rec;
  (void)buf; (void)buf_len; (void)flags;
  *dnsrec = NULL;
  if (vp_bool()) return (ares_status_t)vp_range(1, 24);
  *dnsrec = (ares_dns_record_t *)&rec;
  return ARES_SUCCESS;
}
void ares_dns_record_destroy(ares_dns_record_t *dnsrec) { (void)dnsrec; }
ares_dns_rcode_t ares_dns_record_get_rcode(const ares_dns_record_t *dnsrec) { (void)dnsrec; return (ares_dns_rcode_t)vp_range(0, 5); }
size_t ares_dns_record_rr_cnt(const ares_dns_record_t *dnsrec, ares_dns_section_t sect) { (void)dnsrec; (void)sect; return vp_range(0, 1); }
ares_status_t ares_dns_query_reply_tostatus(ares_dns_rcode_t rcode, size_t ancount) { (void)rcode; (void)ancount; return LH_any_status(); }
ares_status_t ares_dns_write(const ares_dns_record_t *dnsrec, unsigned char **buf, size_t *buf_len)
{ (void)dnsrec; *buf = NULL; *buf_len = 0; return ARES_ENOMEM; }
/* the request is built from channel->flags / channel->ednspsz: configuration that the reload thread rewrites */
ares_status_t ares_dns_record_create_query(ares_dns_record_t **dnsrec, const char *name, ares_dns_class_t dnsclass,
                                           ares_dns_rec_type_t type, unsigned short id, ares_dns_flags_t flags,
                                           size_t max_udp_size)
{
  static int rec;
  (void)name; (void)dnsclass; (void)type; (void)id; (void)flags; (void)max_udp_size;
#if defined(EXPECT_unlocked_config_reads) && !defined(KF_unlocked_config_reads)
  VP_ASSERT(vp_lock_depth > 0,
            "FINDING unlocked_config_reads: channel->flags / channel->ednspsz are read (to build the request) before the "
            "channel lock is taken, while the configuration reload thread writes channel->flags under the lock");
#elif !defined(EXPECT_unlocked_config_reads)
  LH_LOCKED("request built from channel->flags / ednspsz");
#endif
  *dnsrec = NULL;
  if (vp_bool()) return (ares_status_t)vp_range(1, 24);
  *dnsrec = (ares_dns_record_t *)&rec;
  return ARES_SUCCESS;
}
#ifndef TU_search
typedef struct { ares_callback callback; void *arg; } lh_carg_t;
void *ares_dnsrec_convert_arg(ares_callback callback, void *arg)
{
  lh_carg_t *c = vp_bool() ? NULL : malloc(sizeof(*c));
  if (c != NULL) { c->callback = callback; c->arg = arg; }
  return c;
}
void ares_dnsrec_convert_cb(void *arg, ares_status_t status, size_t timeouts, const ares_dns_record_t *dnsrec)
{
  lh_carg_t *c = arg;
  (void)dnsrec;
  c->callback(c->arg, (int)status, (int)timeouts, NULL, 0);
}
#endif

/* ------------------------------------------------ WORKERS: requests ------------------------------------------------ */
/* contract G-send (checked on the real function in C01 send_early): failure => callback ran exactly once */
ares_status_t ares_send_nolock(ares_channel_t *channel, ares_server_t *specific_server, ares_send_flags_t flags,
                               const ares_dns_record_t *dnsrec, ares_callback_dnsrec callback, void *arg,
                               unsigned short *qid)
{
  ares_status_t st = LH_any_status();
  (void)specific_server; (void)flags; (void)dnsrec;
  VP_ASSERT(channel == &LH_ch, "work on the channel under test");
  LH_WORKER("ares_send_nolock");
  if (st != ARES_SUCCESS || vp_bool()) callback(arg, st, 0, NULL);
  if (st == ARES_SUCCESS && qid != NULL) *qid = 7;
  return st;
}
#ifdef TU_search
ares_status_t ares_search_int(ares_channel_t *channel, const ares_dns_record_t *dnsrec, ares_callback_dnsrec callback, void *arg)
{
  ares_status_t st = LH_any_status();
  (void)dnsrec;
  VP_ASSERT(channel == &LH_ch, "work on the channel under test");
  LH_WORKER("ares_search_int");
  if (st != ARES_SUCCESS || vp_bool()) callback(arg, st, 0, NULL);
  return st;
}
#endif
#ifdef TU_process
ares_status_t ares_process_fds_nolock(ares_channel_t *channel, const ares_fd_events_t *events, size_t nevents, unsigned int flags)
{
  (void)events; (void)nevents; (void)flags;
  VP_ASSERT(channel == &LH_ch, "work on the channel under test");
  LH_WORKER("ares_process_fds_nolock");
  return vp_bool() ? ARES_SUCCESS : ARES_ENOMEM;
}
void handle_conn_error(ares_conn_t *conn, ares_bool_t critical_failure, ares_status_t failure_status)
{ (void)conn; (void)critical_failure; (void)failure_status; LH_WORKER("handle_conn_error"); }
#endif
ares_status_t ares_conn_flush(ares_conn_t *conn) { (void)conn; LH_WORKER("ares_conn_flush"); return LH_any_status(); }
#ifdef TU_getaddrinfo
void ares_getaddrinfo_int(ares_channel_t *channel, const char *name, const char *service,
                          const struct ares_addrinfo_hints *hints, ares_addrinfo_callback callback, void *arg)
{
  (void)name; (void)service; (void)hints;
  VP_ASSERT(channel == &LH_ch, "work on the channel under test");
  LH_WORKER("ares_getaddrinfo_int");
  if (vp_bool()) callback(arg, (int)LH_any_status(), 0, NULL);
}
#endif
#ifdef TU_gethostbyname
ares_status_t ares_gethostbyname_file_int(ares_channel_t *channel, const char *name, int family, struct hostent **host)
{
  (void)name; (void)family; (void)host;
  VP_ASSERT(channel == &LH_ch, "work on the channel under test");
  LH_WORKER("ares_gethostbyname_file_int (hosts file cache)");
  return LH_any_status();
}
/* a PUBLIC neighbour: takes the channel lock itself */
void ares_getaddrinfo(ares_channel_t *channel, const char *name, const char *service, const struct ares_addrinfo_hints *hints,
                      ares_addrinfo_callback callback, void *arg)
{
  (void)name; (void)service; (void)hints;
  ares_channel_lock(channel);
  LH_WORKER("ares_getaddrinfo");
  if (vp_bool()) callback(arg, (int)LH_any_status(), 0, NULL);
  ares_channel_unlock(channel);
}
ares_status_t ares_addrinfo2hostent(const struct ares_addrinfo *ai, int family, struct hostent **host)
{ (void)ai; (void)family; *host = NULL; return LH_any_status(); }
void ares_freeaddrinfo(struct ares_addrinfo *ai) { (void)ai; }
void ares_free_hostent(struct hostent *host) { (void)host; }
#endif
void ares_gethostbyaddr_nolock(ares_channel_t *channel, const void *addr, int addrlen, int family, ares_host_callback callback, void *arg)
{
  (void)addr; (void)addrlen; (void)family;
  VP_ASSERT(channel == &LH_ch, "work on the channel under test");
  LH_WORKER("ares_gethostbyaddr_nolock");
  if (vp_bool()) callback(arg, (int)vp_range(1, 24), 0, NULL); /* immediate failure (no host entry to hand over) */
}
#ifdef TU_getnameinfo
char *lookup_service(unsigned short port, unsigned int flags, char *buf, size_t buflen)
{ (void)port; (void)flags; if (buflen > 0) buf[0] = 0; return vp_bool() ? buf : NULL; }
void append_scopeid(const struct sockaddr_in6 *addr6, unsigned int flags, char *buf, size_t buflen)
{ (void)addr6; (void)flags; (void)buf; (void)buflen; }
#endif

/* ------------------------------------------------ WORKERS: configuration ------------------------------------------- */
ares_status_t ares_servers_update(ares_channel_t *channel, ares_llist_t *server_list, ares_bool_t user_specified)
{
  (void)server_list; (void)user_specified;
  VP_ASSERT(channel == &LH_ch, "work on the channel under test");
  LH_WORKER("ares_servers_update");
  return LH_any_status();
}
/* parses caller text, but resolves "%iface" through channel->sock_funcs / sock_func_cb_data */
ares_status_t ares_sconfig_append_fromstr(const ares_channel_t *channel, ares_llist_t **sconfig, const char *str, ares_bool_t ignore_invalid)
{
  static int l;
  (void)str; (void)ignore_invalid;
  VP_ASSERT(channel == &LH_ch, "work on the channel under test");
#if defined(EXPECT_unlocked_config_reads) && !defined(KF_unlocked_config_reads)
  VP_ASSERT(vp_lock_depth > 0,
            "FINDING unlocked_config_reads: the server string is parsed (link-local '%iface' resolved through "
            "channel->sock_funcs / sock_func_cb_data) before the channel lock is taken");
#elif !defined(EXPECT_unlocked_config_reads)
  LH_LOCKED("ares_sconfig_append_fromstr reads channel->sock_funcs");
#endif
  *sconfig = (ares_llist_t *)&l;
  return LH_any_status();
}
#ifdef TU_update_servers
ares_status_t ares_addr_node_to_sconfig_llist(const struct ares_addr_node *servers, ares_llist_t **llist)
{ static int l; (void)servers; *llist = NULL; if (vp_bool()) return ARES_ENOMEM; *llist = (ares_llist_t *)&l; return ARES_SUCCESS; }
ares_status_t ares_addrpnode_to_sconfig_llist(const struct ares_addr_port_node *servers, ares_llist_t **llist)
{ static int l; (void)servers; *llist = NULL; if (vp_bool()) return ARES_ENOMEM; *llist = (ares_llist_t *)&l; return ARES_SUCCESS; }
#endif
ares_status_t ares_get_server_addr(const ares_server_t *server, ares_buf_t *buf)
{ (void)buf; VP_ASSERT(server == &LH_srv[0] || server == &LH_srv[1], "a server of the channel"); LH_WORKER("ares_get_server_addr"); return LH_any_status(); }
ares_status_t ares_parse_sortlist(struct apattern **sortlist, size_t *nsort, const char *str)
{
  static struct apattern pat[2];
  (void)str;
  *sortlist = NULL; *nsort = 0;
  if (vp_bool()) return (ares_status_t)vp_range(1, 24);
  if (vp_bool()) { *sortlist = pat; *nsort = 2; }
  return ARES_SUCCESS;
}
ares_status_t ares_hosts_search_host(ares_channel_t *channel, ares_bool_t use_env, const char *host, const ares_hosts_entry_t **entry)
{ (void)use_env; (void)host; (void)entry; VP_ASSERT(channel == &LH_ch, "channel under test"); LH_WORKER("ares_hosts_search_host"); return LH_any_status(); }
#ifdef TU_init
int ares_init_options(ares_channel_t **channelptr, const struct ares_options *options, int optmask)
{
  (void)options; (void)optmask;
  *channelptr = NULL;
  if (vp_bool()) return (int)vp_range(1, 24);
  *channelptr = &LH_dest;
  return ARES_SUCCESS;
}
void ares_destroy_options(struct ares_options *options) { (void)options; }
void ares_destroy(ares_channel_t *channel) { VP_ASSERT(channel == &LH_dest, "only the half-built copy is destroyed"); }
/* PUBLIC neighbours: take the lock of the channel they are given themselves */
int ares_save_options(const ares_channel_t *channel, struct ares_options *options, int *optmask)
{
  (void)options;
  ares_channel_lock(channel);
  LH_WORKER("ares_save_options");
  *optmask = vp_bool() ? ARES_OPT_SERVERS : 0;
  ares_channel_unlock(channel);
  return (int)LH_any_status();
}
char *ares_get_servers_csv(const ares_channel_t *channel)
{
  static char csv[4];
  ares_channel_lock(channel);
  LH_WORKER("ares_get_servers_csv");
  ares_channel_unlock(channel);
  return vp_bool() ? csv : NULL;
}
int ares_set_servers_ports_csv(ares_channel_t *channel, const char *csv)
{ (void)csv; VP_ASSERT(channel == &LH_dest, "servers are copied into the new channel"); return (int)LH_any_status(); }
#endif

/* ------------------------------------------------ shared containers (mini world) ----------------------------------- */
struct ares_slist_node { int dummy; };
struct ares_llist_node { int dummy; };
static struct ares_slist_node snode[LH_MAXS], tnode;
static struct ares_llist_node cnode[LH_MAXS][LH_MAXC];

ares_slist_node_t *ares_slist_node_first(const ares_slist_t *list)
{
  LH_WORKER("ares_slist_node_first");
  if (list == LH_ch.servers) return LH_nsrv > 0 ? &snode[0] : NULL;
  VP_ASSERT(list == LH_ch.queries_by_timeout, "a skip list of the channel");
  return LH_ntimeout > 0 ? &tnode : NULL;
}
ares_slist_node_t *ares_slist_node_next(const ares_slist_node_t *node)
{
  LH_WORKER("ares_slist_node_next");
  if (node == &snode[0] && LH_nsrv > 1) return &snode[1];
  return NULL;
}
void *ares_slist_node_val(ares_slist_node_t *node)
{
  LH_WORKER("ares_slist_node_val");
  if (node == &tnode) return &LH_query;
  return node == &snode[0] ? &LH_srv[0] : &LH_srv[1];
}
size_t ares_slist_len(const ares_slist_t *list)
{
  LH_WORKER("ares_slist_len");
  return list == LH_ch.servers ? LH_nsrv : LH_ntimeout;
}
static int conn_list_index(const ares_llist_t *list)
{
  if (list == LH_srv[0].connections) return 0;
  VP_ASSERT(list == LH_srv[1].connections, "a connection list of the channel");
  return 1;
}
ares_llist_node_t *ares_llist_node_first(ares_llist_t *list)
{
  int s;
  LH_WORKER("ares_llist_node_first");
  s = conn_list_index(list);
  return LH_nconn[s] > 0 ? &cnode[s][0] : NULL;
}
ares_llist_node_t *ares_llist_node_next(ares_llist_node_t *node)
{
  LH_WORKER("ares_llist_node_next");
  if (node == &cnode[0][0] && LH_nconn[0] > 1) return &cnode[0][1];
  if (node == &cnode[1][0] && LH_nconn[1] > 1) return &cnode[1][1];
  return NULL;
}
void *ares_llist_node_val(ares_llist_node_t *node)
{
  LH_WORKER("ares_llist_node_val");
  if (node == &cnode[0][0]) return &LH_conn[0][0];
  if (node == &cnode[0][1]) return &LH_conn[0][1];
  if (node == &cnode[1][0]) return &LH_conn[1][0];
  return &LH_conn[1][1];
}
size_t ares_llist_len(const ares_llist_t *list)
{
  LH_WORKER("ares_llist_len");
  if (list == LH_ch.all_queries) return LH_nqueries;
  return LH_nconn[conn_list_index(list)];
}
/* local (caller-owned) lists are only ever destroyed by the wrappers */
void ares_llist_destroy(ares_llist_t *list)
{ VP_ASSERT(list != LH_ch.all_queries && list != LH_srv[0].connections && list != LH_srv[1].connections, "only a local list is destroyed"); }

/* ------------------------------------------------ PURE: local containers ------------------------------------------- */
struct ares_array { size_t cnt; ares_socket_t v[LH_MAXS * LH_MAXC]; };
ares_array_t *ares_array_create(size_t member_size, ares_array_destructor_t destruct)
{
  ares_array_t *a;
  (void)destruct;
  VP_ASSERT(member_size == sizeof(ares_socket_t), "socket array");
  a = vp_bool() ? NULL : malloc(sizeof(*a));
  if (a != NULL) a->cnt = 0;
  return a;
}
ares_status_t ares_array_insert_last(void **elem_ptr, ares_array_t *arr)
{
  if (vp_bool()) return ARES_ENOMEM;
  VP_BOUND(arr->cnt < LH_MAXS * LH_MAXC, "socket array capacity");
  *elem_ptr = &arr->v[arr->cnt++];
  return ARES_SUCCESS;
}
void *ares_array_finish(ares_array_t *arr, size_t *num_members)
{
  *num_members = arr->cnt;
  return arr->cnt == 0 ? NULL : arr->v;
}
void ares_array_destroy(ares_array_t *arr) { (void)arr; }
struct ares_buf { size_t len; };
ares_buf_t *ares_buf_create(void)
{
  ares_buf_t *b = vp_bool() ? NULL : malloc(sizeof(*b));
  if (b != NULL) b->len = 0;
  return b;
}
size_t ares_buf_len(const ares_buf_t *buf) { return buf->len; }
ares_status_t ares_buf_append_byte(ares_buf_t *buf, unsigned char b) { (void)b; if (vp_bool()) return ARES_ENOMEM; buf->len++; return ARES_SUCCESS; }
char *ares_buf_finish_str(ares_buf_t *buf, size_t *len) { static char out[4]; (void)buf; if (len != NULL) *len = 0; return vp_bool() ? out : NULL; }
void ares_buf_destroy(ares_buf_t *buf) { (void)buf; }
