OUTSIDE = ("data-race freedom of fields touched INSIDE internal (_nolock) functions and containers; the OS primitives (pthread "
           "mutex / condition variable / thread create+join are contract stubs); more than two API threads plus the reload "
           "threads they spawn; more than two context switches per pair of calls (thread B's whole call runs at ONE "
           "synchronisation point of thread A); the Windows/macOS configuration watchers; wall-clock liveness")
ASSUMPTIONS = []

def jobs(tier, seed):
    J = []
    J += reinit_jobs(tier)
    J += waitempty_jobs(tier)
    return J

def reinit_jobs(tier):
    J = []
    common = dict(harness="reinit.c", support=["vp_rt.c"], unwind=4, backend="cadical", mem_gb=4, timeout=240,
                  native=False,
                  unwindset=["ares_channel_lock:4", "ares_channel_unlock:4", "S_yield:4", "ares_reinit:3", "S_run_B:3",
                             "S_run_child:4", "ares_reinit_thread:4", "ares_thread_create:3", "ares_thread_join:4",
                             "ares_destroy:2"])
    J.append(dict(common, name="c11_reinit_x2", defines=["-DB_OP=0"], real=[], kf_group="c11_reinit_x2",
                  witnesses=["end", "two reload threads were created", "previous reload thread joined", "thread creation failed",
                             "cache flushed"],  # the "B ran in A's gap" witnesses exist only on the unrepaired code
                  bound="two threads call the real ares_reinit() (+ real ares_reinit_thread bodies) on one channel from each "
                        "quiescent pre-state {never reloaded, previous reload finished but unjoined, reload in progress}; "
                        "B's whole call at any ONE synchronisation point of A (lock, unlock, before spawn, between spawn and "
                        "handle store, join) where A does not hold the lock; each reload thread finishes at any such point; "
                        "thread creation may fail; configuration read returns any status"))
    J.append(dict(common, name="c11_reinit_destroy", defines=["-DB_OP=1"], real=["src/lib/ares_destroy.c"],
                  kf_group="c11_reinit_destroy",
                  witnesses=["end", "destroy completed"],
                  bound="event thread runs the real ares_reinit() (configuration-change callback) while a user thread runs the "
                        "real ares_destroy(); same pre-states and scheduling points; destroy's final teardown takes effect "
                        "after the event thread's call returned (it is joined first); no outstanding requests, no servers"))
    return J

def waitempty_jobs(tier):
    J = []
    common = dict(harness="waitempty.c", backend="cadical", mem_gb=6, timeout=240, unwind=4, native=False,
                  real=[], support=["vp_rt.c"],
                  replace=["ares_thread_mutex_lock", "ares_thread_mutex_unlock", "ares_thread_cond_wait",
                           "ares_thread_cond_timedwait", "ares_thread_cond_broadcast", "ares_threadsafety"],
                  replace_with=["waitempty_stubs.c"], cbmc=["--conversion-check"])
    mw = 2 if tier == "quick" else 3
    J.append(dict(common, name="c11_waitempty_untimed", defines=["-DOP=0", "-DTMO_CLASS=0", "-DMAXWAITS=%d" % mw],
                  unwindset=["ares_queue_wait_empty.0:%d" % (mw + 2)],
                  witnesses=["end", "success", "success after waiting", "success after a spurious or refilled wake-up"],
                  bound="ares_queue_wait_empty(timeout_ms < 0, every negative int) on a queue of 0..2 requests (length behind the ares_llist API); "
                        "other threads set the queue to any length 0..2 whenever the mutex is not held; up to %d wake-ups "
                        "(each from an arbitrary queue state, spurious ones included)" % mw))
    J.append(dict(common, name="c11_waitempty_timed", defines=["-DOP=0", "-DTMO_CLASS=1", "-DMAXWAITS=%d" % mw],
                  unwindset=["ares_queue_wait_empty.0:%d" % (mw + 2)], kf_group="c11_waitempty_timed",
                  witnesses=["end", "success", "success after waiting", "success after a spurious or refilled wake-up",
                             "timeout decided by the clock", "timeout reported by the timed wait"],
                  bound="ares_queue_wait_empty(timeout_ms in 0..INT_MAX, all values) with a virtual monotonic clock (start "
                        "0..2^40 s, any microsecond; up to 3 s between two clock reads; a timed wait lasts up to its timeout + "
                        "5 ms); queue 0..2 requests changed arbitrarily while the mutex is not held; up to %d wake-ups" % mw))
    J.append(dict(common, name="c11_notify_empty", defines=["-DOP=1"], witnesses=["end", "broadcast", "no broadcast"],
                  bound="ares_queue_notify_empty on a queue of 0..2 requests, and on a NULL channel"))
    J.append(dict(common, name="c11_waitempty_null", defines=["-DOP=2"], bound="ares_queue_wait_empty(NULL, any timeout)"))
    return J
