OUTSIDE = ("data-race freedom of fields touched INSIDE internal (_nolock) functions and containers; the OS primitives (pthread "
           "mutex / condition variable / thread create+join are contract stubs); more than two API threads plus the reload "
           "threads they spawn; more than two context switches per pair of calls (thread B's whole call runs at ONE "
           "synchronisation point of thread A); the Windows/macOS configuration watchers; wall-clock liveness")
ASSUMPTIONS = [
    "locks are ghost depth counters: a lock never blocks because, in the sequentialisation, no other thread runs while it is held "
    "(sched.h); in the one-thread harnesses (lockheld, evthread) other threads are not modelled at all - only the discipline is checked",
    "c11_reinit: ares_thread_create = spawn (child may finish at once) / yield / store handle, or fail without touching the slot; "
    "ares_thread_join = child runs to completion if it has not yet, DEADLOCK asserted if the joiner holds the channel lock then; the child "
    "is the REAL ares_reinit_thread run atomically at a point where the lock is free; ares_init_by_sysconfig returns any status; "
    "ares_threadsafety() is true; thread B's whole call runs at ONE synchronisation point of A",
    "c11_reinit_destroy: thread A is the event thread (Linux: ares_event_configchg_destroy only queues the removal, the inotify "
    "callback calls ares_reinit from the event thread until it is joined); ares_destroy's teardown after ares_event_thread_destroy "
    "takes effect after A returned; no outstanding requests and no servers (stubs return empty lists)",
    "c11_waitempty: pthread wrappers of ares_threads.c replaced by contract stubs (mutex = depth counter, condition wait = release / "
    "others change the queue / re-acquire / SUCCESS or ETIMEOUT, spurious wake-ups included); queue abstracted to its length 0..2 "
    "behind ares_llist_len; clock = arbitrary monotonic value, seconds up to 2^40 + 2^22 per step; ares_timeval_remaining replaced "
    "by its contract (checked on the real function in c11_timeval_remaining); at most 2 (thorough 3) wake-ups per call; <pthread.h> "
    "is not parsed (goto-cc rejects it with the framework's feature macros), pthread_* are declared by hand",
    "c11_notify_callers: reference containers slist_ref / szvp_ref, abstract records, callbacks re-enter at depth 1",
    "c11_lockheld: every callee of a wrapper is a stub (lh_stubs.c): workers assert the lock and return any status, request workers "
    "call the completion callback at most once and exactly once when they return failure (contract checked in C01), public "
    "neighbours (ares_getaddrinfo, ares_save_options, ares_get_servers_csv in the ares_dup / ares_gethostbyname jobs) take the lock "
    "themselves; allocation may fail anywhere; containers are a fixed mini world (0..2 servers x 0..2 connections, 0..1 timed request); "
    "entry depth of the lock is 0 (calls from inside a callback, where the recursive lock is already held, are not separately run)",
    "c11_evthread_order: event back end (ev_sys), update queue, socket table and event allocator are typed mini stubs; function "
    "pointers of the event back end restricted to the harness' functions (goto-instrument --restrict-function-pointer); one socket; "
    "one socket-state change and one pending-write request per run; table insertion never fails"]

def jobs(tier, seed):
    J = []
    J += reinit_jobs(tier)
    J += waitempty_jobs(tier)
    J += notify_jobs(tier)
    J += lockheld_jobs(tier)
    J += evthread_jobs(tier)
    return J

def reinit_jobs(tier):
    J = []
    common = dict(harness="reinit.c", support=["vp_rt.c"], unwind=4, backend="cadical", mem_gb=4, timeout=240,
                  native=False,
                  unwindset=["ares_channel_lock:4", "ares_channel_unlock:4", "S_yield:4", "ares_reinit:3", "S_run_B:3",
                             "S_run_child:4", "ares_reinit_thread:4", "ares_thread_create:3", "ares_thread_join:4",
                             "ares_destroy:2"])
    J.append(dict(common, name="c11_reinit_x2", defines=["-DB_OP=0"], real=[], kf_group="c11_reinit_x2",
                  witnesses=["end", "two reload threads were created", "previous reload thread joined", "thread creation failed",
                             "cache flushed"],  # the "B ran in A's gap" witnesses exist only on the unrepaired code
                  bound="two threads call the real ares_reinit() (+ real ares_reinit_thread bodies) on one channel from each "
                        "quiescent pre-state {never reloaded, previous reload finished but unjoined, reload in progress}; "
                        "B's whole call at any ONE synchronisation point of A (lock, unlock, before spawn, between spawn and "
                        "handle store, join) where A does not hold the lock; each reload thread finishes at any such point; "
                        "thread creation may fail; configuration read returns any status"))
    J.append(dict(common, name="c11_reinit_destroy", defines=["-DB_OP=1"], real=["src/lib/ares_destroy.c"],
                  kf_group="c11_reinit_destroy",
                  witnesses=["end", "destroy completed"],
                  bound="event thread runs the real ares_reinit() (configuration-change callback) while a user thread runs the "
                        "real ares_destroy(); same pre-states and scheduling points; destroy's final teardown takes effect "
                        "after the event thread's call returned (it is joined first); no outstanding requests, no servers"))
    return J

def waitempty_jobs(tier):
    J = []
    common = dict(harness="waitempty.c", backend="cadical", mem_gb=6, timeout=240, unwind=4, native=False,
                  real=[], support=["vp_rt.c"],
                  replace=["ares_thread_mutex_lock", "ares_thread_mutex_unlock", "ares_thread_cond_wait",
                           "ares_thread_cond_timedwait", "ares_thread_cond_broadcast", "ares_threadsafety"],
                  replace_with=["waitempty_stubs.c"], cbmc=["--conversion-check"])
    mw = 2 if tier == "quick" else 3
    J.append(dict(common, name="c11_waitempty_untimed", defines=["-DOP=0", "-DTMO_CLASS=0", "-DMAXWAITS=%d" % mw],
                  unwindset=["ares_queue_wait_empty.0:%d" % (mw + 2)],
                  witnesses=["end", "success", "success after waiting", "success after a spurious or refilled wake-up"],
                  bound="ares_queue_wait_empty(timeout_ms < 0, every negative int) on a queue of 0..2 requests (length behind the ares_llist API); "
                        "other threads set the queue to any length 0..2 whenever the mutex is not held; up to %d wake-ups "
                        "(each from an arbitrary queue state, spurious ones included)" % mw))
    J.append(dict(common, backend="z3", name="c11_waitempty_timed", defines=["-DOP=0", "-DTMO_CLASS=1", "-DMAXWAITS=%d" % mw],
                  unwindset=["ares_queue_wait_empty.0:%d" % (mw + 2)], kf_group="c11_waitempty_timed",
                  witnesses=["end", "success", "success after waiting", "success after a spurious or refilled wake-up",
                             "timeout decided by the clock", "timeout reported by the timed wait"],
                  bound="ares_queue_wait_empty(timeout_ms in 0..INT_MAX, all values) with a virtual monotonic clock (start "
                        "0..2^40 s, any microsecond; up to 3 s between two clock reads; a timed wait lasts up to its timeout + "
                        "5 ms); queue 0..2 requests changed arbitrarily while the mutex is not held; up to %d wake-ups" % mw))
    J.append(dict(name="c11_timeval_remaining", harness="timeval_remaining.c", defines=["-DUNNORM=0"], backend="cadical", mem_gb=4,
                  timeout=240, unwind=2, native=False, real=["src/lib/ares_timeout.c"], support=["vp_rt.c"],
                  witnesses=["end", "expired", "time remains", "borrow"],
                  bound="ares_timeval_remaining for all normalised now/tout with seconds in 0..2^41"))
    J.append(dict(name="c11_timeval_remaining_unnorm", harness="timeval_remaining.c", defines=["-DUNNORM=1"], backend="z3",
                  mem_gb=4, timeout=240, unwind=2, native=False, real=["src/lib/ares_timeout.c"], support=["vp_rt.c"],
                  witnesses=["end", "an unnormalised deadline is called expired although time remains", "more than 999 ms are lost"],
                  bound="witness only: a deadline with usec in 1000000..1999999 is reported expired while up to 999.999 ms remain"))
    J.append(dict(common, name="c11_notify_empty", defines=["-DOP=1"], witnesses=["end", "broadcast", "no broadcast"],
                  bound="ares_queue_notify_empty on a queue of 0..2 requests, and on a NULL channel"))
    J.append(dict(common, name="c11_waitempty_null", defines=["-DOP=2"], bound="ares_queue_wait_empty(NULL, any timeout)"))
    return J

def notify_jobs(tier):
    J = []
    for entry, nm in ((0, "cancel"), (1, "endquery")):
        J.append(dict(name="c11_notify_callers_%s" % nm, harness="notify_callers.c", defines=["-DENTRY=%d" % entry, "-DNQ=2"],
                      real=["src/lib/ares_library_init.c", "src/lib/ares_cancel.c", "src/lib/dsa/ares_llist.c"],
                      support=["vp_rt.c", "valloc.c", "memloops.c", "slist_ref.c", "szvp_ref.c", "dnsrec_abs.c"],
                      unwind=6, backend="cadical", mem_gb=6, timeout=240,
                      witnesses=["end", "queue became empty", "queue not empty at return", "callback started a new request"] +
                                (["callback re-entered ares_cancel"] if entry == 0 else []),
                      bound="real %s on 2 live requests in arbitrary link state; callbacks may start a request or re-enter "
                            "ares_cancel (depth 1)" % ("ares_cancel" if entry == 0 else "end_query (any request, any status)")))
    return J

# ---- c11_lockheld: one job per public entry point -------------------------------------------------------------------
# TU -> (macro, functions of that TU whose bodies are replaced by lh_stubs.c)
LH_TU = {
    "src/lib/ares_send.c": ("send", ["ares_send_nolock"]),
    "src/lib/ares_query.c": ("query", []),
    "src/lib/ares_search.c": ("search", ["ares_search_int"]),
    "src/lib/ares_process.c": ("process", ["ares_process_fds_nolock", "handle_conn_error"]),
    "src/lib/ares_timeout.c": ("timeout", []),
    "src/lib/legacy/ares_fds.c": ("fds", []),
    "src/lib/legacy/ares_getsock.c": ("getsock", []),
    "src/lib/ares_getaddrinfo.c": ("getaddrinfo", ["ares_getaddrinfo_int"]),
    "src/lib/ares_gethostbyname.c": ("gethostbyname", ["ares_gethostbyname_file_int"]),
    "src/lib/ares_gethostbyaddr.c": ("gethostbyaddr", ["ares_gethostbyaddr_nolock"]),
    "src/lib/ares_getnameinfo.c": ("getnameinfo", ["lookup_service", "append_scopeid"]),
    "src/lib/ares_update_servers.c": ("update_servers", ["ares_servers_update", "ares_sconfig_append_fromstr", "ares_get_server_addr",
                                                         "ares_addr_node_to_sconfig_llist", "ares_addrpnode_to_sconfig_llist"]),
    "src/lib/ares_init.c": ("init", ["ares_init_options"]),
    "src/lib/ares_options.c": ("options", []),
    "src/lib/ares_socket.c": ("socket", []),
    "src/lib/ares_set_socket_functions.c": ("sockfuncs", []),
}
# entry point, TU, finding expected on the pinned tree (None = must hold), required witnesses besides "end"
LH_EP = [
    ("ares_send_dnsrec", "src/lib/ares_send.c", None, ["lock taken", "worker reached", "callback invoked", "failure status"]),
    ("ares_send", "src/lib/ares_send.c", None, ["lock taken", "worker reached", "callback invoked"]),
    ("ares_queue_active_queries", "src/lib/ares_send.c", None, ["lock taken", "worker reached"]),
    ("ares_query_dnsrec", "src/lib/ares_query.c", None, ["lock taken", "worker reached", "callback invoked", "failure status"]),
    ("ares_query", "src/lib/ares_query.c", None, ["lock taken", "worker reached", "callback invoked"]),
    ("ares_search_dnsrec", "src/lib/ares_search.c", None, ["lock taken", "worker reached", "callback invoked", "failure status"]),
    ("ares_search", "src/lib/ares_search.c", "unlocked_config_reads", ["lock taken", "worker reached", "callback invoked"]),
    ("ares_process_fds", "src/lib/ares_process.c", None, ["lock taken", "worker reached", "failure status"]),
    ("ares_process_fd", "src/lib/ares_process.c", None, ["lock taken", "worker reached"]),
    ("ares_process", "src/lib/ares_process.c", None, ["lock taken", "worker reached"]),
    ("ares_process_pending_write", "src/lib/ares_process.c", None, ["lock taken", "worker reached"]),
    ("ares_timeout", "src/lib/ares_timeout.c", None, ["lock taken", "worker reached"]),
    ("ares_fds", "src/lib/legacy/ares_fds.c", None, ["lock taken", "worker reached"]),
    ("ares_getsock", "src/lib/legacy/ares_getsock.c", None, ["lock taken", "worker reached"]),
    ("ares_getaddrinfo", "src/lib/ares_getaddrinfo.c", None, ["lock taken", "worker reached", "callback invoked"]),
    ("ares_gethostbyname", "src/lib/ares_gethostbyname.c", None, ["lock taken", "worker reached", "callback invoked"]),
    ("ares_gethostbyname_file", "src/lib/ares_gethostbyname.c", None, ["lock taken", "worker reached"]),
    ("ares_gethostbyaddr", "src/lib/ares_gethostbyaddr.c", None, ["lock taken", "worker reached", "callback invoked"]),
    ("ares_getnameinfo", "src/lib/ares_getnameinfo.c", None, ["lock taken", "worker reached", "callback invoked"]),
    ("ares_set_servers", "src/lib/ares_update_servers.c", None, ["lock taken", "worker reached", "failure status"]),
    ("ares_set_servers_ports", "src/lib/ares_update_servers.c", None, ["lock taken", "worker reached", "failure status"]),
    ("ares_set_servers_csv", "src/lib/ares_update_servers.c", "unlocked_config_reads", ["lock taken", "worker reached", "failure status"]),
    ("ares_set_servers_ports_csv", "src/lib/ares_update_servers.c", "unlocked_config_reads", ["lock taken", "worker reached", "failure status"]),
    ("ares_get_servers", "src/lib/ares_update_servers.c", None, ["lock taken", "worker reached", "failure status"]),
    ("ares_get_servers_ports", "src/lib/ares_update_servers.c", None, ["lock taken", "worker reached", "failure status"]),
    ("ares_get_servers_csv", "src/lib/ares_update_servers.c", None, ["lock taken", "worker reached"]),
    ("ares_set_server_state_callback", "src/lib/ares_update_servers.c", "setters_unlocked", []),
    ("ares_set_sortlist", "src/lib/ares_init.c", None, ["lock taken", "failure status"]),
    ("ares_set_local_ip4", "src/lib/ares_init.c", None, ["lock taken"]),
    ("ares_set_local_ip6", "src/lib/ares_init.c", None, ["lock taken"]),
    ("ares_set_local_dev", "src/lib/ares_init.c", None, ["lock taken"]),
    ("ares_dup", "src/lib/ares_init.c", None, ["lock taken", "worker reached", "failure status"]),
    ("ares_save_options", "src/lib/ares_options.c", "save_options_unlocked", []),
    ("ares_set_socket_callback", "src/lib/ares_socket.c", "setters_unlocked", []),
    ("ares_set_socket_configure_callback", "src/lib/ares_socket.c", "setters_unlocked", []),
    ("ares_set_pending_write_cb", "src/lib/ares_socket.c", "setters_unlocked", []),
    ("ares_set_socket_functions", "src/lib/ares_set_socket_functions.c", "setters_unlocked", []),
    ("ares_set_socket_functions_ex", "src/lib/ares_set_socket_functions.c", "setters_unlocked", []),
]

def lockheld_jobs(tier):
    J = []
    for ep, tu, finding, wit in LH_EP:
        macro, repl = LH_TU[tu]
        defs = ["-DEP_%s" % ep, "-DTU_%s" % macro]
        if finding:
            defs.append("-DEXPECT_%s" % finding)
        J.append(dict(name="c11_lockheld_%s" % ep, harness="lockheld.c", defines=defs, real=[tu], support=["vp_rt.c"],
                      replace=repl + ["LH_never_defined"], replace_with=["lh_stubs.c"], unwind=4, backend="cadical", mem_gb=4,
                      timeout=240, native=False, kf_group=("c11_lockheld_" + finding) if finding else None,
                      unwindset=["chan_equal.0:33", "chan_equal.1:17", "ares_strcpy.0:33", "strlen.0:40", "memcpy.0:40", "memset.0:600",
                                 "harness.0:20", "harness.1:20", "harness.2:20", "harness.3:20", "vp_bytes.0:17", "ares_process.0:6"],
                      witnesses=["end"] + wit,
                      bound="real %s() from %s; all callees that touch shared state are lock-asserting stubs returning any "
                            "status; world: 0..2 servers x 0..2 connections, 0..2 outstanding requests" % (ep, tu)))
    return J

def evthread_jobs(tier):
    J = []
    names = ["loop", "update", "sockstate_cb", "notifywrite_cb"]
    wit = [["end", "event mutex taken while the channel lock is held", "called into the channel", "all iterations", "end-of-iteration processing ran"],
           ["end", "queued", "rejected"], ["end", "woken"], ["end"]]
    for op in range(4):
        J.append(dict(name="c11_evthread_order_%s" % names[op], harness="evthread.c",
                      defines=["-DOP=%d" % op, "-DMAXITER=%d" % (1 if tier == "quick" else 2)],
                      real=[], support=["vp_rt.c"], unwind=6, backend="cadical", mem_gb=6,
                      timeout=240, native=False, witnesses=wit[op],
                      # the harness fixes every callback of the event back end; without the restriction CBMC's
                      # function-pointer removal lets free_data_cb target ares_event_destroy_cb itself (unbounded recursion)
                      instrument=[sum([["--restrict-function-pointer", x] for x in (
                          "ares_event_destroy_cb.function_pointer_call.1/sys_del",
                          "ares_event_destroy_cb.function_pointer_call.2/ares_free",
                          "ares_event_signal.function_pointer_call.1/sig_cb",
                          "ares_event_process_updates.function_pointer_call.1/sys_add",
                          "ares_event_process_updates.function_pointer_call.2/sys_mod",
                          "ares_event_thread_cleanup.function_pointer_call.1/sys_destroy",
                          "ares_event_thread.function_pointer_call.1/sys_wait")], [])],
                      unwindset=["ares_event_thread.0:4", "ares_event_process_updates.0:6", "ares_event_update_find.0:6"],
                      bound=["one (thorough: two) iteration(s) of the real ares_event_thread() loop + cleanup; socket 5 unregistered or "
                             "registered; each call into the channel may trigger the socket-state and pending-write callbacks "
                             "(under the channel lock); a ready socket is processed during the wait",
                             "ares_event_update with arbitrary flags / fd class / cb / data / NULL thread, caller with or without the channel lock",
                             "ares_event_thread_sockstate_cb under the channel lock", "notifywrite_cb under the channel lock"][op]))
    return J
