/* C11 / c11_lockheld: LOCKING DISCIPLINE of one public entry point per job (-DEP_<name>; table in jobs.py).
 * The real translation unit defining the entry point is linked; every callee that does the actual work (the
 * _nolock/_int functions - also those defined in the same TU, whose bodies are removed - and the neighbours in other
 * TUs, containers included) is a stub in lh_stubs.c that ASSERTS the channel lock is held and returns any status.
 * Oracles:
 *   O1  every worker/container stub runs with vp_lock_depth > 0;
 *   O2  on return the lock depth equals its entry value on EVERY path (no path leaves the lock held / unlocks twice);
 *   O3  the channel structure is modified only while the lock is held: the channel is compared with the snapshot taken
 *       when the lock was last released (or at entry) each time the lock is acquired and at return;
 *   O4  a user-visible completion callback is invoked at most once by the wrapper (incl. immediate-failure paths);
 *   O5  an entry point that touched shared state acquired the lock at all. */
#include "lh.h"
#include <sys/select.h>
#include <netinet/in.h>
#include <netdb.h>

ares_channel_t LH_ch, LH_dest;
int            vp_lock_depth, LH_other_depth, LH_acquisitions, LH_cb_count, LH_stub_calls;
size_t         LH_nsrv, LH_nconn[LH_MAXS], LH_nqueries, LH_ntimeout;
ares_server_t  LH_srv[LH_MAXS];
ares_conn_t    LH_conn[LH_MAXS][LH_MAXC];
ares_query_t   LH_query;
static ares_channel_t LH_snap;
static int            LH_unlocked_write;

ares_status_t LH_any_status(void) { return vp_bool() ? ARES_SUCCESS : (ares_status_t)vp_range(1, 24); }

#define EQ(f) (LH_ch.f == LH_snap.f)
static int chan_equal(void)
{
  size_t i;
  for (i = 0; i < sizeof(LH_ch.local_dev_name); i++)
    if (LH_ch.local_dev_name[i] != LH_snap.local_dev_name[i]) return 0;
  for (i = 0; i < sizeof(LH_ch.local_ip6); i++)
    if (LH_ch.local_ip6[i] != LH_snap.local_ip6[i]) return 0;
  return EQ(flags) && EQ(timeout) && EQ(tries) && EQ(ndots) && EQ(maxtimeout) && EQ(rotate) && EQ(udp_port) && EQ(tcp_port) &&
         EQ(socket_send_buffer_size) && EQ(socket_receive_buffer_size) && EQ(domains) && EQ(ndomains) && EQ(sortlist) &&
         EQ(nsort) && EQ(lookups) && EQ(ednspsz) && EQ(qcache_max_ttl) && EQ(evsys) && EQ(optmask) && EQ(local_ip4) &&
         EQ(lock) && EQ(cond_empty) && EQ(servers) && EQ(rand_state) && EQ(all_queries) && EQ(queries_by_qid) &&
         EQ(queries_by_timeout) && EQ(connnode_by_socket) && EQ(sock_state_cb) && EQ(sock_state_cb_data) &&
         EQ(sock_create_cb) && EQ(sock_create_cb_data) && EQ(sock_config_cb) && EQ(sock_config_cb_data) &&
         EQ(sock_funcs.version) && EQ(sock_funcs.flags) && EQ(sock_funcs.asocket) && EQ(sock_funcs.aclose) &&
         EQ(sock_funcs.asetsockopt) && EQ(sock_funcs.aconnect) && EQ(sock_funcs.arecvfrom) && EQ(sock_funcs.asendto) &&
         EQ(sock_funcs.agetsockname) && EQ(sock_funcs.abind) && EQ(sock_funcs.aif_nametoindex) &&
         EQ(sock_funcs.aif_indextoname) && EQ(sock_func_cb_data) && EQ(legacy_sock_funcs) && EQ(legacy_sock_funcs_cb_data) &&
         EQ(notify_pending_write_cb) && EQ(notify_pending_write_cb_data) && EQ(notify_pending_write) &&
         EQ(resolvconf_path) && EQ(hosts_path) && EQ(udp_max_queries) && EQ(hf) && EQ(qcache) && EQ(server_retry_chance) &&
         EQ(server_retry_delay) && EQ(server_state_cb) && EQ(server_state_cb_data) && EQ(reinit_pending) &&
         EQ(reinit_thread) && EQ(sys_up);
}

#ifdef EXPECT_setters_unlocked
#  define O3_MSG "FINDING setters_unlocked: a public setter stores into the channel without taking the channel lock " \
                 "(the event thread / other API threads read these fields under the lock: torn callback+data pairs, " \
                 "sock_funcs zeroed then refilled while in use)"
#else
#  define O3_MSG "the channel structure is modified only while the channel lock is held"
#endif
static void check_unchanged(void)
{
  if (!chan_equal()) LH_unlocked_write = 1;
#if !defined(KF_setters_unlocked)
  VP_ASSERT(chan_equal(), O3_MSG);
#endif
}

void ares_channel_lock(const ares_channel_t *c)
{
  if (c == &LH_ch) {
    if (vp_lock_depth == 0) {
      check_unchanged();
      LH_acquisitions++;
    }
    vp_lock_depth++;
  } else {
    VP_ASSERT(c == &LH_dest, "only the two channels of the harness are locked");
    LH_other_depth++;
  }
}
void ares_channel_unlock(const ares_channel_t *c)
{
  if (c == &LH_ch) {
    VP_ASSERT(vp_lock_depth > 0, "unlock only while locked (no double unlock)");
    vp_lock_depth--;
    if (vp_lock_depth == 0) LH_snap = LH_ch;
  } else {
    VP_ASSERT(c == &LH_dest && LH_other_depth > 0, "unlock of the second channel only while locked");
    LH_other_depth--;
  }
}

/* ---- user callbacks (one request per job: at most one completion) ---- */
#define CB_BODY do { LH_cb_count++; VP_ASSERT(LH_cb_count <= 1, "the user's completion callback is invoked at most once"); } while (0)
static int cb_token;
static void cb_legacy(void *arg, int status, int timeouts, unsigned char *abuf, int alen)
{ (void)status; (void)timeouts; (void)abuf; (void)alen; VP_ASSERT(arg == &cb_token, "callback gets the user's argument"); CB_BODY; }
static void cb_dnsrec(void *arg, ares_status_t status, size_t timeouts, const ares_dns_record_t *r)
{ (void)status; (void)timeouts; (void)r; VP_ASSERT(arg == &cb_token, "callback gets the user's argument"); CB_BODY; }
static void cb_host(void *arg, int status, int timeouts, struct hostent *h)
{ (void)status; (void)timeouts; (void)h; VP_ASSERT(arg == &cb_token, "callback gets the user's argument"); CB_BODY; }
static void cb_addrinfo(void *arg, int status, int timeouts, struct ares_addrinfo *ai)
{ (void)status; (void)timeouts; (void)ai; VP_ASSERT(arg == &cb_token, "callback gets the user's argument"); CB_BODY; }
static void cb_nameinfo(void *arg, int status, int timeouts, char *node, char *service)
{ (void)status; (void)timeouts; (void)node; (void)service; VP_ASSERT(arg == &cb_token, "callback gets the user's argument"); CB_BODY; }
static int  sockcb(ares_socket_t fd, int type, void *data) { (void)fd; (void)type; (void)data; return 0; }
static void pwcb(void *data) { (void)data; }
static void sscb(const char *s, ares_bool_t ok, int flags, void *data) { (void)s; (void)ok; (void)flags; (void)data; }
static ares_socket_t f_socket(int a, int b, int c, void *u) { (void)a; (void)b; (void)c; (void)u; return 3; }
static int f_close(ares_socket_t s, void *u) { (void)s; (void)u; return 0; }
static int f_setsockopt(ares_socket_t s, ares_socket_opt_t o, const void *v, ares_socklen_t l, void *u) { (void)s; (void)o; (void)v; (void)l; (void)u; return 0; }
static int f_connect(ares_socket_t s, const struct sockaddr *a, ares_socklen_t l, unsigned int fl, void *u) { (void)s; (void)a; (void)l; (void)fl; (void)u; return 0; }
static ares_ssize_t f_recvfrom(ares_socket_t s, void *b, size_t l, int fl, struct sockaddr *a, ares_socklen_t *al, void *u) { (void)s; (void)b; (void)l; (void)fl; (void)a; (void)al; (void)u; return 0; }
static ares_ssize_t f_sendto(ares_socket_t s, const void *b, size_t l, int fl, const struct sockaddr *a, ares_socklen_t al, void *u) { (void)s; (void)b; (void)l; (void)fl; (void)a; (void)al; (void)u; return 0; }
static const struct ares_socket_functions legacy_funcs;

static void world_init(void)
{
  size_t s, c;
  static char   lookups[] = "bf";
  static char  *domains[1];
  static char   dom0[] = "x";
  static struct apattern sortl[1];
  static int    o_lock, o_cond, o_servers, o_all, o_tmo, o_qid, o_conn;
  LH_ch.flags       = (unsigned int)vp_u32();
  LH_ch.timeout     = 2000;
  LH_ch.tries       = 3;
  LH_ch.ndots       = 1;
  LH_ch.ednspsz     = 1232;
  LH_ch.lookups     = lookups;
  domains[0]        = dom0;
  LH_ch.domains     = domains;
  LH_ch.ndomains    = 1;
  LH_ch.sortlist    = sortl;
  LH_ch.nsort       = 1;
  LH_ch.optmask     = (unsigned int)vp_u32();
  LH_ch.lock        = (ares_thread_mutex_t *)&o_lock;
  LH_ch.cond_empty  = (ares_thread_cond_t *)&o_cond;
  LH_ch.servers     = (ares_slist_t *)&o_servers;
  LH_ch.all_queries = (ares_llist_t *)&o_all;
  LH_ch.queries_by_timeout = (ares_slist_t *)&o_tmo;
  LH_ch.queries_by_qid     = (ares_htable_szvp_t *)&o_qid;
  LH_ch.connnode_by_socket = (ares_htable_asvp_t *)&o_conn;
  LH_ch.sys_up      = ARES_TRUE;
  LH_ch.notify_pending_write = vp_bool() ? ARES_TRUE : ARES_FALSE;
  LH_nsrv     = vp_range(0, LH_MAXS);
  LH_nqueries = vp_range(0, 2);
  LH_ntimeout = vp_range(0, 1);
  for (s = 0; s < LH_MAXS; s++) {
    LH_nconn[s]           = vp_range(0, LH_MAXC);
    LH_srv[s].channel     = &LH_ch;
    LH_srv[s].connections = (ares_llist_t *)&LH_nconn[s];
    LH_srv[s].addr.family = vp_bool() ? AF_INET : AF_INET6;
    LH_srv[s].tcp_conn    = vp_bool() ? &LH_conn[s][0] : NULL;
    for (c = 0; c < LH_MAXC; c++) {
      LH_conn[s][c].server      = &LH_srv[s];
      LH_conn[s][c].fd          = (ares_socket_t)vp_range(0, 7);
      LH_conn[s][c].flags       = vp_bool() ? ARES_CONN_FLAG_TCP : ARES_CONN_FLAG_NONE;
      LH_conn[s][c].state_flags = vp_bool() ? ARES_CONN_STATE_WRITE : ARES_CONN_STATE_NONE;
    }
  }
  LH_query.channel     = &LH_ch;
  LH_query.timeout.sec = (ares_int64_t)vp_range(0, 1000);
}

void harness(void)
{
  int                entry_depth;
  ares_status_t      st = ARES_SUCCESS;
  static ares_dns_record_t *dnsrec;
  static int         rec_obj;
  world_init();
  dnsrec      = (ares_dns_record_t *)&rec_obj;
  LH_snap     = LH_ch;
  entry_depth = vp_lock_depth;
  (void)st; (void)dnsrec; (void)cb_legacy; (void)cb_dnsrec; (void)cb_host; (void)cb_addrinfo; (void)cb_nameinfo; (void)sockcb;
  (void)pwcb; (void)sscb; (void)f_socket; (void)f_close; (void)f_setsockopt; (void)f_connect; (void)f_recvfrom; (void)f_sendto;

#if defined(EP_ares_send_dnsrec)
  { unsigned short qid; st = ares_send_dnsrec(&LH_ch, dnsrec, cb_dnsrec, &cb_token, vp_bool() ? &qid : NULL);
    if (st != ARES_SUCCESS) VP_ASSERT(LH_cb_count == 1, "a failure status is returned only after the callback ran once"); }
#elif defined(EP_ares_send)
  { static unsigned char q[16]; ares_send(&LH_ch, q, vp_int(), cb_legacy, &cb_token); }
#elif defined(EP_ares_query_dnsrec)
  { unsigned short qid; st = ares_query_dnsrec(&LH_ch, vp_bool() ? "a" : NULL, ARES_CLASS_IN, ARES_REC_TYPE_A, cb_dnsrec, &cb_token, &qid);
    if (st != ARES_SUCCESS) VP_ASSERT(LH_cb_count == 1, "a failure status is returned only after the callback ran once"); }
#elif defined(EP_ares_query)
  ares_query(&LH_ch, "a", 1, 1, cb_legacy, &cb_token);
#elif defined(EP_ares_search_dnsrec)
  st = ares_search_dnsrec(&LH_ch, dnsrec, cb_dnsrec, &cb_token);
  if (st != ARES_SUCCESS) VP_ASSERT(LH_cb_count == 1, "a failure status is returned only after the callback ran once");
#elif defined(EP_ares_search)
  ares_search(&LH_ch, "a", 1, 1, cb_legacy, &cb_token);
#elif defined(EP_ares_process_fds)
  { static ares_fd_events_t ev[2]; ev[0].fd = 3; ev[0].events = ARES_FD_EVENT_READ;
    st = ares_process_fds(&LH_ch, vp_bool() ? ev : NULL, vp_range(0, 2), (unsigned int)vp_range(0, 1)); }
#elif defined(EP_ares_process_fd)
  ares_process_fd(&LH_ch, vp_bool() ? ARES_SOCKET_BAD : (ares_socket_t)vp_range(0, 7), vp_bool() ? ARES_SOCKET_BAD : (ares_socket_t)vp_range(0, 7));
#elif defined(EP_ares_process)
  { static fd_set r, w; FD_ZERO(&r); FD_ZERO(&w); if (vp_bool()) FD_SET(vp_range(0, 7), &r); if (vp_bool()) FD_SET(vp_range(0, 7), &w);
    ares_process(&LH_ch, vp_bool() ? &r : NULL, vp_bool() ? &w : NULL); }
#elif defined(EP_ares_process_pending_write)
  ares_process_pending_write(&LH_ch);
#elif defined(EP_ares_timeout)
  { struct timeval maxtv, tvbuf, *rv; maxtv.tv_sec = (time_t)vp_range(0, 100); maxtv.tv_usec = (suseconds_t)vp_range(0, 999999);
    rv = ares_timeout(&LH_ch, vp_bool() ? &maxtv : NULL, &tvbuf);
    VP_ASSERT(rv == NULL || rv == &maxtv || rv == &tvbuf, "returns one of the caller's buffers"); }
#elif defined(EP_ares_fds)
  { static fd_set r, w; int n; FD_ZERO(&r); FD_ZERO(&w); n = ares_fds(&LH_ch, &r, &w); VP_ASSERT(n >= 0 && n <= 8, "nfds in range"); }
#elif defined(EP_ares_getsock)
  { static ares_socket_t socks[ARES_GETSOCK_MAXNUM]; (void)ares_getsock(&LH_ch, socks, (int)vp_range(0, ARES_GETSOCK_MAXNUM)); }
#elif defined(EP_ares_queue_active_queries)
  { size_t n = ares_queue_active_queries(&LH_ch); VP_ASSERT(n == LH_nqueries, "reports the queue length"); }
#elif defined(EP_ares_getaddrinfo)
  ares_getaddrinfo(&LH_ch, "a", NULL, NULL, cb_addrinfo, &cb_token);
#elif defined(EP_ares_gethostbyname)
  ares_gethostbyname(&LH_ch, "a", AF_INET, cb_host, &cb_token);
#elif defined(EP_ares_gethostbyname_file)
  { struct hostent *h = NULL; (void)ares_gethostbyname_file(&LH_ch, "a", AF_INET, &h); }
#elif defined(EP_ares_gethostbyaddr)
  { static unsigned char a[16]; ares_gethostbyaddr(&LH_ch, a, vp_bool() ? 4 : 16, vp_bool() ? AF_INET : AF_INET6, cb_host, &cb_token); }
#elif defined(EP_ares_getnameinfo)
  { static struct sockaddr_in6 sa6; static struct sockaddr_in sa4; int v6 = vp_bool();
    sa4.sin_family = AF_INET; sa6.sin6_family = AF_INET6;
    ares_getnameinfo(&LH_ch, v6 ? (struct sockaddr *)&sa6 : (struct sockaddr *)&sa4, v6 ? sizeof(sa6) : (vp_bool() ? sizeof(sa4) : 2),
                     (int)vp_u32(), cb_nameinfo, &cb_token); }
#elif defined(EP_ares_set_servers)
  { static struct ares_addr_node n; n.family = AF_INET; st = (ares_status_t)ares_set_servers(&LH_ch, vp_bool() ? &n : NULL); }
#elif defined(EP_ares_set_servers_ports)
  { static struct ares_addr_port_node n; n.family = AF_INET; st = (ares_status_t)ares_set_servers_ports(&LH_ch, vp_bool() ? &n : NULL); }
#elif defined(EP_ares_set_servers_csv)
  st = (ares_status_t)ares_set_servers_csv(&LH_ch, vp_bool() ? "1.2.3.4" : "");
#elif defined(EP_ares_set_servers_ports_csv)
  st = (ares_status_t)ares_set_servers_ports_csv(&LH_ch, vp_bool() ? "[fe80::1%eth0]:53" : "");
#elif defined(EP_ares_get_servers)
  { struct ares_addr_node *out = NULL; st = (ares_status_t)ares_get_servers(&LH_ch, &out); }
#elif defined(EP_ares_get_servers_ports)
  { struct ares_addr_port_node *out = NULL; st = (ares_status_t)ares_get_servers_ports(&LH_ch, &out); }
#elif defined(EP_ares_get_servers_csv)
  (void)ares_get_servers_csv(&LH_ch);
#elif defined(EP_ares_set_server_state_callback)
  ares_set_server_state_callback(&LH_ch, sscb, &cb_token);
#elif defined(EP_ares_set_sortlist)
  st = (ares_status_t)ares_set_sortlist(&LH_ch, "1.2.3.0/24");
#elif defined(EP_ares_set_local_ip4)
  ares_set_local_ip4(&LH_ch, vp_u32());
#elif defined(EP_ares_set_local_ip6)
  { static unsigned char ip6[16]; vp_bytes(ip6, 16); ares_set_local_ip6(&LH_ch, ip6); }
#elif defined(EP_ares_set_local_dev)
  ares_set_local_dev(&LH_ch, "eth0");
#elif defined(EP_ares_set_socket_callback)
  ares_set_socket_callback(&LH_ch, sockcb, &cb_token);
#elif defined(EP_ares_set_socket_configure_callback)
  ares_set_socket_configure_callback(&LH_ch, sockcb, &cb_token);
#elif defined(EP_ares_set_pending_write_cb)
  ares_set_pending_write_cb(&LH_ch, pwcb, &cb_token);
#elif defined(EP_ares_set_socket_functions)
  ares_set_socket_functions(&LH_ch, &legacy_funcs, &cb_token);
#elif defined(EP_ares_set_socket_functions_ex)
  { static struct ares_socket_functions_ex f; f.version = (unsigned int)vp_range(0, 2); f.asocket = f_socket; f.aclose = f_close;
    f.asetsockopt = f_setsockopt; f.aconnect = f_connect; f.arecvfrom = f_recvfrom; f.asendto = vp_bool() ? f_sendto : NULL;
    st = ares_set_socket_functions_ex(&LH_ch, &f, &cb_token); }
#elif defined(EP_ares_save_options)
  { static struct ares_options opts; int optmask = 0;
#  ifdef KF_save_options_unlocked
    /* known finding excluded: nothing else to check in this entry point without its body touching shared state */
#  endif
    st = (ares_status_t)ares_save_options(&LH_ch, &opts, &optmask); }
#elif defined(EP_ares_dup)
  { ares_channel_t *d = NULL; st = (ares_status_t)ares_dup(&d, &LH_ch); VP_ASSERT(LH_other_depth == 0, "the new channel's lock is released too"); }
#else
#  error "no entry point selected"
#endif

  /* O2 */
  VP_ASSERT(vp_lock_depth == entry_depth, "on return the channel lock depth equals its entry value (no path leaves the lock held or unlocks twice)");
  /* O3 at return */
  check_unchanged();
  /* O5 */
#if !(defined(EXPECT_save_options_unlocked) && defined(KF_save_options_unlocked))
  if (LH_stub_calls > 0)
#ifdef EXPECT_save_options_unlocked
    VP_ASSERT(LH_acquisitions > 0, "FINDING save_options_unlocked: ares_save_options() reads shared channel state but never takes the channel lock");
#else
    VP_ASSERT(LH_acquisitions > 0, "an entry point that touched shared channel state took the channel lock");
#endif
#endif
  if (LH_acquisitions > 0) VP_WITNESS("lock taken");
  if (LH_stub_calls > 0) VP_WITNESS("worker reached");
  if (LH_cb_count > 0) VP_WITNESS("callback invoked");
  if (st != ARES_SUCCESS) VP_WITNESS("failure status");
  if (LH_unlocked_write) VP_WITNESS("channel written without the lock");
  VP_WITNESS("end");
}
