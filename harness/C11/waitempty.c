/* C11 / c11_waitempty: the REAL ares_queue_wait_empty() and ares_queue_notify_empty() (src/lib/util/ares_threads.c) over
 * a request queue abstracted to its length.  The pthread wrappers in the same TU are replaced by contract stubs
 * (waitempty_stubs.c): whenever the mutex is not held - before it is acquired, inside a condition wait, after the last
 * unlock - other threads arbitrarily add/remove requests; a wait returns SUCCESS (woken or spuriously) or ETIMEOUT.
 * Oracles:
 *   - ARES_SUCCESS only if the queue was empty when the mutex was released for the last time (the emptiness check and
 *     the return are one critical section);
 *   - ARES_ETIMEOUT only with timeout_ms >= 0 and only once the caller's deadline (entry time + timeout_ms) is reached
 *     to the millisecond, or a timed wait reported it;
 *   - every timed wait asks for exactly the remaining time (never more, never less by a millisecond or more);
 *   - mutex released on return, never waited on while held twice; all timeout arithmetic free of signed overflow for
 *     every timeout_ms in int range and every clock value up to 2^40 s;
 *   - ares_queue_notify_empty() broadcasts iff the queue is empty. */
#include "waitempty.h"

/* The real TU is compiled as part of this one.  <pthread.h> does not parse under goto-cc with the framework's feature
 * macros; the pthread_* calls only occur inside the OS wrappers whose bodies are replaced (jobs.py: replace=[...]), so
 * the header is skipped and the few names are declared here. */
#define _PTHREAD_H 1
#define PTHREAD_MUTEX_RECURSIVE 1
#include <sys/types.h>
#include <time.h>
int pthread_mutexattr_init(pthread_mutexattr_t *);
int pthread_mutexattr_settype(pthread_mutexattr_t *, int);
int pthread_mutexattr_destroy(pthread_mutexattr_t *);
int pthread_mutex_init(pthread_mutex_t *, const pthread_mutexattr_t *);
int pthread_mutex_destroy(pthread_mutex_t *);
int pthread_mutex_lock(pthread_mutex_t *);
int pthread_mutex_unlock(pthread_mutex_t *);
int pthread_cond_init(pthread_cond_t *, const pthread_condattr_t *);
int pthread_cond_destroy(pthread_cond_t *);
int pthread_cond_signal(pthread_cond_t *);
int pthread_cond_broadcast(pthread_cond_t *);
int pthread_cond_wait(pthread_cond_t *, pthread_mutex_t *);
int pthread_cond_timedwait(pthread_cond_t *, pthread_mutex_t *, const struct timespec *);
int pthread_create(pthread_t *, const pthread_attr_t *, void *(*)(void *), void *);
int pthread_join(pthread_t, void **);
#include "util/ares_threads.c"

ares_channel_t W_ch;
int            W_mx_depth, W_locks, W_unlocks, W_waits, W_timedwaits, W_timedwait_timeouts, W_broadcasts;
size_t         W_len_at_last_unlock, W_len_at_broadcast;
ares_int64_t   W_now_sec;
unsigned int   W_now_usec;
ares_int64_t   W_dl_sec, W_last_advance_us;
unsigned int   W_dl_usec;
int            W_tvnow_calls;
int            W_timeout_ms;
int            W_maxwaits;
static int     dummy_q[W_MAXQ];
static int     W_queue_changed;

/* reference computation on the NORMALISED deadline */
unsigned long W_remaining_ms(void)
{
  ares_int64_t s;
  unsigned int u;
  if (W_now_sec > W_dl_sec || (W_now_sec == W_dl_sec && W_now_usec >= W_dl_usec))
    return 0;
  s = W_dl_sec - W_now_sec;
  if (W_dl_usec >= W_now_usec) {
    u = W_dl_usec - W_now_usec;
  } else {
    u = W_dl_usec + 1000000 - W_now_usec;
    s--;
  }
  return (unsigned long)s * 1000 + u / 1000;
}
void W_advance(size_t max_us)
{
  size_t ds = vp_range(0, 2200000), du = vp_range(0, 999999); /* timeout_ms <= INT_MAX => at most ~2147484 s per step */
  VP_ASSUME(ds * 1000000 + du <= max_us);
  W_last_advance_us  = (ares_int64_t)(ds * 1000000 + du);
  W_now_sec         += (ares_int64_t)ds;
  W_now_usec        += (unsigned int)du;
  if (W_now_usec >= 1000000) {
    W_now_usec -= 1000000;
    W_now_sec++;
  }
}
void ares_tvnow(ares_timeval_t *now)
{
  W_advance(3000000); /* code between two clock reads takes any time up to 3 s */
  now->sec  = W_now_sec;
  now->usec = W_now_usec;
  if (W_tvnow_calls++ == 0 && W_timeout_ms >= 0) { /* the deadline: the function's first clock read + timeout_ms */
    W_dl_sec  = W_now_sec + W_timeout_ms / 1000;
    W_dl_usec = W_now_usec + (unsigned int)(W_timeout_ms % 1000) * 1000;
    if (W_dl_usec >= 1000000) {
      W_dl_usec -= 1000000;
      W_dl_sec++;
    }
  }
}

/* The request queue is abstracted to its length behind the ares_llist API (the functions under test only ask for the
 * length): other threads set it to any value 0..W_MAXQ. */
static size_t W_qlen;
size_t ares_llist_len(const ares_llist_t *list)
{
  VP_ASSERT(list == W_ch.all_queries, "length of the channel's request queue");
  return W_qlen;
}
void W_others_run(void)
{
  size_t want = vp_range(0, W_MAXQ);
  if (want != W_qlen) W_queue_changed = 1;
  W_qlen = want;
}

void harness(void)
{
  ares_status_t st;
  size_t        i, n0;
  static int    lock_obj, cond_obj;

  W_ch.lock        = (ares_thread_mutex_t *)&lock_obj;
  W_ch.cond_empty  = (ares_thread_cond_t *)&cond_obj;
  W_ch.all_queries = (ares_llist_t *)&dummy_q;
  n0 = vp_range(0, W_MAXQ);
  W_qlen = n0;
  (void)i;
  W_now_sec  = (ares_int64_t)vp_range(0, (size_t)1 << 40);
  W_now_usec = (unsigned int)vp_range(0, 999999);

#if OP == 0
  W_timeout_ms  = vp_int();
#  if TMO_CLASS == 0
  VP_ASSUME(W_timeout_ms < 0);
#  else
  VP_ASSUME(W_timeout_ms >= 0);
#  endif
  W_maxwaits    = MAXWAITS;

  st = ares_queue_wait_empty(&W_ch, W_timeout_ms);

  VP_ASSERT(W_mx_depth == 0 && W_locks == W_unlocks, "mutex released on return (every path)");
  VP_ASSERT(W_locks >= 1, "the queue is examined under the mutex");
  VP_ASSERT(st == ARES_SUCCESS || st == ARES_ETIMEOUT, "only SUCCESS or ETIMEOUT");
  if (st == ARES_SUCCESS) {
    VP_ASSERT(W_len_at_last_unlock == 0, "ARES_SUCCESS only when no request was outstanding at the moment the lock was released");
    VP_WITNESS("success");
    if (W_waits + W_timedwaits > 0) VP_WITNESS("success after waiting");
    if (W_waits + W_timedwaits >= 2) VP_WITNESS("success after a spurious or refilled wake-up");
  } else {
    VP_ASSERT(W_timeout_ms >= 0, "ARES_ETIMEOUT only when the caller gave a timeout");
    VP_ASSERT(W_waits == 0, "no untimed wait when a timeout was given");
    if (W_timedwait_timeouts == 0) {
      /* decided by the clock alone: the deadline (the function's first clock read + timeout_ms) must have been reached
       * to the millisecond */
      VP_ASSERT(W_remaining_ms() == 0,
                "FINDING waitempty_early_timeout: ARES_ETIMEOUT is reported although more than a millisecond of the "
                "caller's timeout remains (tout.usec is not normalised, so 'tout->sec < now->sec' calls it expired)");
      VP_WITNESS("timeout decided by the clock");
    } else {
      VP_WITNESS("timeout reported by the timed wait");
    }
    if (W_len_at_last_unlock == 0) VP_WITNESS("timeout although the queue just became empty");
  }
  if (W_timeout_ms < 0) VP_ASSERT(W_timedwaits == 0, "no timed wait without a timeout");
#elif OP == 1
  /* notify: called with the lock held (callers' obligation, checked in c11_lockheld / notify_callers) */
  W_mx_depth = 1;
  ares_queue_notify_empty(&W_ch);
  VP_ASSERT((W_broadcasts == 1) == (ares_llist_len(W_ch.all_queries) == 0), "broadcast iff no request is outstanding");
  VP_ASSERT(W_broadcasts <= 1 && W_mx_depth == 1, "one broadcast, lock state untouched");
  if (W_broadcasts) VP_WITNESS("broadcast");
  else VP_WITNESS("no broadcast");
  ares_queue_notify_empty(NULL);
  (void)st;
#else
  st = ares_queue_wait_empty(NULL, vp_int());
  VP_ASSERT(st == ARES_EFORMERR && W_locks == 0, "NULL channel rejected without touching any lock");
#endif
  VP_WITNESS("end");
}
