/* C11 / c11_waitempty: the REAL ares_queue_wait_empty() and ares_queue_notify_empty() (src/lib/util/ares_threads.c) over
 * a request queue abstracted to its length.  The pthread wrappers in the same TU are replaced by contract stubs
 * (waitempty_stubs.c): whenever the mutex is not held - before it is acquired, inside a condition wait, after the last
 * unlock - other threads arbitrarily add/remove requests; a wait returns SUCCESS (woken or spuriously) or ETIMEOUT.
 * Oracles:
 *   - ARES_SUCCESS only if the queue was empty when the mutex was released for the last time (the emptiness check and
 *     the return are one critical section);
 *   - ARES_ETIMEOUT only with timeout_ms >= 0 and only once the caller's deadline (entry time + timeout_ms) is reached
 *     to the millisecond, or a timed wait reported it;
 *   - every timed wait asks for exactly the remaining time (never more, never less by a millisecond or more);
 *   - mutex released on return, never waited on while held twice; all timeout arithmetic free of signed overflow for
 *     every timeout_ms in int range and every clock value up to 2^40 s;
 *   - ares_queue_notify_empty() broadcasts iff the queue is empty. */
#include "waitempty.h"

/* The real TU is compiled as part of this one.  <pthread.h> does not parse under goto-cc with the framework's feature
 * macros; the pthread_* calls only occur inside the OS wrappers whose bodies are replaced (jobs.py: replace=[...]), so
 * the header is skipped and the few names are declared here. */
#define _PTHREAD_H 1
#define PTHREAD_MUTEX_RECURSIVE 1
#include <sys/types.h>
#include <time.h>
int pthread_mutexattr_init(pthread_mutexattr_t *);
int pthread_mutexattr_settype(pthread_mutexattr_t *, int);
int pthread_mutexattr_destroy(pthread_mutexattr_t *);
int pthread_mutex_init(pthread_mutex_t *, const pthread_mutexattr_t *);
int pthread_mutex_destroy(pthread_mutex_t *);
int pthread_mutex_lock(pthread_mutex_t *);
int pthread_mutex_unlock(pthread_mutex_t *);
int pthread_cond_init(pthread_cond_t *, const pthread_condattr_t *);
int pthread_cond_destroy(pthread_cond_t *);
int pthread_cond_signal(pthread_cond_t *);
int pthread_cond_broadcast(pthread_cond_t *);
int pthread_cond_wait(pthread_cond_t *, pthread_mutex_t *);
int pthread_cond_timedwait(pthread_cond_t *, pthread_mutex_t *, const struct timespec *);
int pthread_create(pthread_t *, const pthread_attr_t *, void *(*)(void *), void *);
int pthread_join(pthread_t, void **);
#include "util/ares_threads.c"

ares_channel_t W_ch;
int            W_mx_depth, W_locks, W_unlocks, W_waits, W_timedwaits, W_timedwait_timeouts, W_broadcasts;
size_t         W_len_at_last_unlock, W_len_at_broadcast;
ares_int64_t   W_now_sec;
unsigned int   W_now_usec;
ares_int64_t   W_dl_sec, W_last_advance_us;
unsigned int   W_dl_usec;
int            W_tvnow_calls;
int            W_timeout_ms;
int            W_maxwaits;
static int     dummy_q[W_MAXQ];
static int     W_queue_changed;

unsigned long  W_last_rem_ms;
int            W_rem_calls;
static ares_timeval_t W_last_now;
static int     W_deadline_carry; /* first clock read's usec + (timeout_ms % 1000) * 1000 reached a full second */

/* Contract stub of ares_timeval_remaining() (src/lib/ares_timeout.c; the real one is checked against this contract in
 * job c11_timeval_remaining): pre  - both time values are normalised (usec < 1000000), `now` is a fresh clock read,
 * `tout` is the deadline; post - any remaining time (the harness does not need its value to relate to the clock). */
void ares_timeval_remaining(ares_timeval_t *remaining, const ares_timeval_t *now, const ares_timeval_t *tout)
{
  ares_int64_t rs = (ares_int64_t)vp_range(0, 2200000);
  unsigned int ru = (unsigned int)vp_range(0, 999999);
  VP_ASSERT(W_timeout_ms >= 0 && W_tvnow_calls >= 2, "remaining time is computed only for a timed wait, after the deadline was fixed");
  VP_ASSERT(now->sec == W_last_now.sec && now->usec == W_last_now.usec && W_mx_depth == 1,
            "the remaining time is computed from a fresh clock read, under the mutex");
  VP_ASSERT((tout->sec == W_dl_sec && tout->usec == W_dl_usec) ||
              (W_deadline_carry && tout->sec + 1 == W_dl_sec && tout->usec == W_dl_usec + 1000000),
            "the deadline is the function's first clock read plus timeout_ms (same instant, normalised or not)");
  VP_ASSERT(tout->usec < 1000000,
            "FINDING waitempty_early_timeout: the deadline handed to ares_timeval_remaining() is not normalised "
            "(usec >= 1000000): as soon as the clock's second exceeds tout.sec it is called expired although up to "
            "999 ms remain, so ARES_ETIMEOUT is returned early");
  remaining->sec  = rs;
  remaining->usec = ru;
  W_last_rem_ms   = (unsigned long)((rs * 1000) + (ru / 1000));
  W_rem_calls++;
}
void W_advance(size_t max_us)
{
  size_t ds = vp_range(0, (size_t)1 << 22), du = vp_range(0, 999999);
  VP_ASSUME(ds * 1000000 + du <= max_us);
  W_last_advance_us  = (ares_int64_t)(ds * 1000000 + du);
  W_now_sec         += (ares_int64_t)ds;
  W_now_usec        += (unsigned int)du;
  if (W_now_usec >= 1000000) {
    W_now_usec -= 1000000;
    W_now_sec++;
  }
}
void ares_tvnow(ares_timeval_t *now)
{
  W_advance((size_t)1 << 41); /* monotonic; any amount of time passes between two clock reads */
  now->sec  = W_now_sec;
  now->usec = W_now_usec;
  W_last_now = *now;
  if (W_tvnow_calls++ == 0 && W_timeout_ms >= 0) { /* the deadline: the function's first clock read + timeout_ms */
    W_dl_sec  = W_now_sec + W_timeout_ms / 1000;
    W_dl_usec = W_now_usec + (unsigned int)(W_timeout_ms % 1000) * 1000;
    if (W_dl_usec >= 1000000) {
      W_dl_usec -= 1000000;
      W_dl_sec++;
      W_deadline_carry = 1;
    }
#ifdef KF_waitempty_early_timeout
    VP_ASSUME(!W_deadline_carry);
#endif
#ifdef KFONLY_waitempty_early_timeout
    VP_ASSUME(W_deadline_carry);
#endif
  }
}

/* The request queue is abstracted to its length behind the ares_llist API (the functions under test only ask for the
 * length): other threads set it to any value 0..W_MAXQ. */
static size_t        W_qlen;
static ares_llist_t *W_first_list;
static int           W_list_swapped;
size_t ares_llist_len(const ares_llist_t *list)
{
  VP_ASSERT(list == W_ch.all_queries, "length asked of the channel's CURRENT request queue (never of a list another thread has replaced and destroyed)");
  return W_qlen;
}
static int dummy_q2_obj;
void W_others_run(void)
{
  size_t want = vp_range(0, W_MAXQ);
  if (want != W_qlen) W_queue_changed = 1;
  W_qlen = want;
  /* ares_cancel() run by another thread REPLACES the channel's request list by a fresh one and destroys the old
   * object: whoever resumes under the lock must look at channel->all_queries again (ares_llist_len above asserts that
   * the list it is asked about is the channel's current one - the old object no longer exists) */
  if (vp_bool()) {
    W_ch.all_queries = (W_ch.all_queries == (ares_llist_t *)&dummy_q2_obj) ? W_first_list : (ares_llist_t *)&dummy_q2_obj;
    W_list_swapped   = 1;
  }
}

void harness(void)
{
  ares_status_t st;
  size_t        i, n0;
  static int    lock_obj, cond_obj;

  W_ch.lock        = (ares_thread_mutex_t *)&lock_obj;
  W_ch.cond_empty  = (ares_thread_cond_t *)&cond_obj;
  W_ch.all_queries = (ares_llist_t *)&dummy_q;
  W_first_list     = W_ch.all_queries;
  n0 = vp_range(0, W_MAXQ);
  W_qlen = n0;
  (void)i;
  W_now_sec  = (ares_int64_t)vp_range(0, (size_t)1 << 40);
  W_now_usec = (unsigned int)vp_range(0, 999999);

#if OP == 0
  W_timeout_ms  = vp_int();
#  if TMO_CLASS == 0
  VP_ASSUME(W_timeout_ms < 0);
#  else
  VP_ASSUME(W_timeout_ms >= 0);
#  endif
  W_maxwaits    = MAXWAITS;

  st = ares_queue_wait_empty(&W_ch, W_timeout_ms);

  VP_ASSERT(W_mx_depth == 0 && W_locks == W_unlocks, "mutex released on return (every path)");
  VP_ASSERT(W_locks >= 1, "the queue is examined under the mutex");
  VP_ASSERT(st == ARES_SUCCESS || st == ARES_ETIMEOUT, "only SUCCESS or ETIMEOUT");
  if (st == ARES_SUCCESS) {
    VP_ASSERT(W_len_at_last_unlock == 0, "ARES_SUCCESS only when no request was outstanding at the moment the lock was released");
    VP_WITNESS("success");
    if (W_waits + W_timedwaits > 0) VP_WITNESS("success after waiting");
    if (W_waits + W_timedwaits >= 2) VP_WITNESS("success after a spurious or refilled wake-up");
  } else {
    VP_ASSERT(W_timeout_ms >= 0, "ARES_ETIMEOUT only when the caller gave a timeout");
    VP_ASSERT(W_waits == 0, "no untimed wait when a timeout was given");
    if (W_timedwait_timeouts == 0) {
      /* decided by the clock alone: the deadline (the function's first clock read + timeout_ms) must have been reached
       * to the millisecond */
      VP_ASSERT(W_rem_calls > 0 && W_last_rem_ms == 0,
                "ARES_ETIMEOUT without a timed-out wait only when less than a millisecond remains until the deadline");
      VP_WITNESS("timeout decided by the clock");
    } else {
      VP_WITNESS("timeout reported by the timed wait");
    }
    if (W_len_at_last_unlock == 0) VP_WITNESS("timeout although the queue just became empty");
  }
  if (W_timeout_ms < 0) VP_ASSERT(W_timedwaits == 0, "no timed wait without a timeout");
#elif OP == 1
  /* notify: called with the lock held (callers' obligation, checked in c11_lockheld / notify_callers) */
  W_mx_depth = 1;
  ares_queue_notify_empty(&W_ch);
  VP_ASSERT((W_broadcasts == 1) == (ares_llist_len(W_ch.all_queries) == 0), "broadcast iff no request is outstanding");
  VP_ASSERT(W_broadcasts <= 1 && W_mx_depth == 1, "one broadcast, lock state untouched");
  if (W_broadcasts) VP_WITNESS("broadcast");
  else VP_WITNESS("no broadcast");
  ares_queue_notify_empty(NULL);
  (void)st;
#else
  st = ares_queue_wait_empty(NULL, vp_int());
  VP_ASSERT(st == ARES_EFORMERR && W_locks == 0, "NULL channel rejected without touching any lock");
#endif
  VP_WITNESS("end");
}
