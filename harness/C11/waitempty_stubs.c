/* Contract stubs for the OS wrappers of src/lib/util/ares_threads.c (their bodies are removed from the real TU):
 * mutex = ghost depth; condition wait = release, let other threads change the queue, re-acquire, return SUCCESS (woken
 * or SPURIOUS) or ETIMEOUT (timed wait only). */
#include "waitempty.h"

ares_bool_t ares_threadsafety(void) { return ARES_TRUE; }

void ares_thread_mutex_lock(ares_thread_mutex_t *mut)
{
  VP_ASSERT(mut == W_ch.lock, "the channel's own mutex is locked");
  if (W_mx_depth == 0)
    W_others_run(); /* before we get the mutex anybody may have changed the queue */
  W_mx_depth++;
  W_locks++;
}
void ares_thread_mutex_unlock(ares_thread_mutex_t *mut)
{
  VP_ASSERT(mut == W_ch.lock, "the channel's own mutex is unlocked");
  VP_ASSERT(W_mx_depth > 0, "unlock only while locked");
  W_mx_depth--;
  W_unlocks++;
  if (W_mx_depth == 0) {
    W_len_at_last_unlock = ares_llist_len(W_ch.all_queries);
    W_others_run();
  }
}
static void wait_common(ares_thread_cond_t *cond, ares_thread_mutex_t *mut)
{
  VP_ASSERT(cond == W_ch.cond_empty && mut == W_ch.lock, "waits on the channel's condition with the channel's mutex");
  VP_ASSERT(W_mx_depth == 1, "a condition wait is entered holding the mutex exactly once (it must really be released)");
  VP_ASSUME(W_waits + W_timedwaits < W_maxwaits); /* bound on the number of wake-ups considered */
  W_mx_depth = 0;
  W_others_run();
  W_mx_depth = 1;
}
ares_status_t ares_thread_cond_wait(ares_thread_cond_t *cond, ares_thread_mutex_t *mut)
{
  wait_common(cond, mut);
  W_waits++;
  return ARES_SUCCESS;
}
ares_status_t ares_thread_cond_timedwait(ares_thread_cond_t *cond, ares_thread_mutex_t *mut, size_t timeout_ms)
{
  VP_ASSERT(W_timeout_ms >= 0, "a timed wait is only used when the caller gave a timeout");
  VP_ASSERT(timeout_ms > 0, "never a zero-length timed wait");
  VP_ASSERT(W_rem_calls > 0 && timeout_ms == W_last_rem_ms,
            "a timed wait asks for exactly the whole milliseconds left until the caller's deadline (never more, never less)");
  wait_common(cond, mut);
  W_timedwaits++;
  /* time passes: at most the requested time (plus scheduling latency) */
  if (vp_bool()) {
    W_timedwait_timeouts++;
    return ARES_ETIMEOUT;
  }
  return ARES_SUCCESS;
}
void ares_thread_cond_broadcast(ares_thread_cond_t *cond)
{
  VP_ASSERT(cond == W_ch.cond_empty, "broadcast on the channel's condition");
  W_len_at_broadcast = ares_llist_len(W_ch.all_queries);
  W_broadcasts++;
}
