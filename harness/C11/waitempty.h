/* shared between waitempty.c (harness) and waitempty_stubs.c (bodies replacing the pthread wrappers of ares_threads.c) */
#ifndef C11_WAITEMPTY_H
#define C11_WAITEMPTY_H
#include "ares_private.h"
#include "vp.h"
#define W_MAXQ 2
extern ares_channel_t W_ch;
extern int            W_mx_depth;        /* ghost: depth of channel->lock held by the calling thread */
extern int            W_locks, W_unlocks;
extern int            W_waits, W_timedwaits, W_timedwait_timeouts, W_broadcasts;
extern size_t         W_len_at_last_unlock;
extern size_t         W_len_at_broadcast;
extern ares_int64_t   W_now_sec;         /* virtual monotonic clock */
extern unsigned int   W_now_usec;
extern unsigned long  W_last_rem_ms;     /* whole milliseconds of the last remaining-time result handed to the function */
extern int            W_rem_calls;
void                  W_advance(size_t max_us); /* time passes: any amount up to max_us */
extern ares_int64_t   W_last_advance_us;
extern int            W_tvnow_calls;
extern ares_int64_t   W_dl_sec;          /* deadline = the function's first clock read + timeout_ms, normalised */
extern unsigned int   W_dl_usec;
extern int            W_timeout_ms;
extern int            W_maxwaits;
void                  W_others_run(void); /* other threads change the queue while the lock is not held */
#endif
