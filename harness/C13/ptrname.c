/* C13 / c13_ptrname + c13_localhost.
 * MODE 0/1: ares_dns_addr_to_ptr() equals a reference reverse-map formatter.
 *   MODE 0  IPv6: all 128 address bits symbolic (fixed-length nibble format).
 *   MODE 1  IPv4: all 32 bits symbolic; the DIGIT-COUNT shape of the four octets is concrete per job (DSHAPE, one
 *           decimal digit 1..3 per octet in address order) so the output length is concrete: ares_count_digits() is
 *           wrapped - the wrapper returns the job's constant for the octet being printed and ASSERTS that the real
 *           ares_count_digits() (util/ares_math.c, included) gives the same value.  The 81 shapes cover all addresses.
 *   Real: record/ares_dns_record.c (ares_dns_addr_to_ptr), str/ares_buf.c, util/ares_math.c, ares_library_init.c.
 * MODE 2: ares_addrinfo_localhost() returns only loopback addresses of the requested family (real inet_pton.c). */
#include "vp.h"
#include "ares_private.h"

#ifndef MODE
#  define MODE 0
#endif
#ifndef DSHAPE
#  define DSHAPE 3121
#endif

#if MODE == 1
/* real ares_math.c with its ares_count_digits renamed; the exported name is the checking wrapper below */
#  define ares_count_digits real_ares_count_digits
#  include "util/ares_math.c"
#  undef ares_count_digits
static int    digit_calls; /* octets are printed last first */
static size_t shape_digit(int octet)
{
  int v = DSHAPE, k;
  for (k = 3; k > octet; k--) v /= 10;
  return (size_t)(v % 10);
}
size_t ares_count_digits(size_t n)
{
  size_t want = shape_digit(3 - digit_calls);
  VP_ASSERT(digit_calls < 4, "one number per octet");
  VP_ASSERT(real_ares_count_digits(n) == want, "digit count of this octet is the job's shape (real ares_count_digits)");
  digit_calls++;
  return want;
}
#endif

static const char hexd[] = "0123456789abcdef";

#if MODE == 2
#  ifndef REQ
#    define REQ 0
#  endif
#  ifndef PRE
#    define PRE 0 /* nodes already present: 0 none, 4 an AF_INET node, 6 an AF_INET6 node */
#  endif
void harness(void)
{
  static struct ares_addrinfo ai;
  struct ares_addrinfo_hints  hints;
  static const unsigned char  lo4[4] = { 127, 0, 0, 1 };
  static const unsigned char  lo6[16] = { 0, 0, 0, 0, 0, 0, 0, 0, 0, 0, 0, 0, 0, 0, 0, 1 };
  unsigned char               pre[16];
  unsigned short              port = vp_u16();
  struct ares_addrinfo_node  *n;
  size_t                      n4 = 0, n6 = 0, i, cnt = 0;
  ares_status_t               st;
  int                         fam = (REQ == 4) ? AF_INET : (REQ == 6) ? AF_INET6 : AF_UNSPEC;

  vp_alloc_install();
  memset(&hints, 0, sizeof(hints));
  hints.ai_family = fam;
  vp_bytes(pre, 16);
  if (PRE == 4) VP_ASSUME(ares_append_ai_node(AF_INET, port, 0, pre, &ai.nodes) == ARES_SUCCESS);
  if (PRE == 6) VP_ASSUME(ares_append_ai_node(AF_INET6, port, 0, pre, &ai.nodes) == ARES_SUCCESS);
  st = ares_addrinfo_localhost("localhost", port, &hints, &ai);
  VP_ASSERT(st == ARES_SUCCESS, "loopback result is produced");
  VP_ASSERT(ai.name != NULL && ai.name[0] == 'l' && ai.name[9] == 0, "result name is the queried name");
  for (n = ai.nodes, i = 0; n != NULL && i < 4; n = n->ai_next, i++) {
    cnt++;
    if (i == 0 && PRE != 0) continue; /* the node that was already there (e.g. from the hosts file) */
    if (n->ai_family == AF_INET) {
      const struct sockaddr_in *s4 = (const struct sockaddr_in *)(const void *)n->ai_addr;
      size_t                    k;
      n4++;
      for (k = 0; k < 4; k++) VP_ASSERT(((const unsigned char *)&s4->sin_addr)[k] == lo4[k], "IPv4 loopback is 127.0.0.1");
      VP_ASSERT(s4->sin_port == htons(port), "port carried");
    } else {
      const struct sockaddr_in6 *s6 = (const struct sockaddr_in6 *)(const void *)n->ai_addr;
      size_t                     k;
      VP_ASSERT(n->ai_family == AF_INET6, "only IPv4/IPv6 nodes");
      n6++;
      for (k = 0; k < 16; k++) VP_ASSERT(((const unsigned char *)&s6->sin6_addr)[k] == lo6[k], "IPv6 loopback is ::1");
      VP_ASSERT(s6->sin6_port == htons(port), "port carried");
    }
    VP_ASSERT(fam == AF_UNSPEC || n->ai_family == fam, "only loopback addresses of the requested family are added");
  }
  VP_ASSERT(n == NULL, "list terminated");
  VP_ASSERT(n4 == ((fam == AF_INET || fam == AF_UNSPEC) && PRE != 4 ? 1u : 0u), "127.0.0.1 added once when IPv4 is wanted and not yet present");
  VP_ASSERT(n6 == ((fam == AF_INET6 || fam == AF_UNSPEC) && PRE != 6 ? 1u : 0u), "::1 added once when IPv6 is wanted and not yet present");
  ares_freeaddrinfo_nodes(ai.nodes);
  ares_free(ai.name);
  VP_ASSERT(vp_alloc_live == 0, "nothing leaks");
  VP_WITNESS("end");
}
#else
void harness(void)
{
  struct ares_addr addr;
  char             ref[80];
  char            *out;
  size_t           n = 0, i;

  vp_alloc_install();
  memset(&addr, 0, sizeof(addr));
#  if MODE == 0
  addr.family = AF_INET6;
  vp_bytes((unsigned char *)&addr.addr.addr6, 16);
  for (i = 16; i > 0; i--) {
    unsigned char b = ((const unsigned char *)&addr.addr.addr6)[i - 1];
    ref[n++]        = hexd[b & 0xF];
    ref[n++]        = '.';
    ref[n++]        = hexd[b >> 4];
    ref[n++]        = '.';
  }
  {
    static const char suf[] = "ip6.arpa";
    for (i = 0; i < 8; i++) ref[n++] = suf[i];
  }
#  else
  addr.family = AF_INET;
  vp_bytes((unsigned char *)&addr.addr.addr4, 4);
  for (i = 4; i > 0; i--) {
    unsigned      b = ((const unsigned char *)&addr.addr.addr4)[i - 1];
    size_t        d = shape_digit((int)i - 1);
    VP_ASSUME(d == 1 ? b <= 9 : d == 2 ? (b >= 10 && b <= 99) : b >= 100); /* this job's slice of the address space */
    if (d == 3) ref[n++] = (char)('0' + b / 100);
    if (d >= 2) ref[n++] = (char)('0' + (b / 10) % 10);
    ref[n++] = (char)('0' + b % 10);
    ref[n++] = '.';
  }
  {
    static const char suf[] = "in-addr.arpa";
    for (i = 0; i < 12; i++) ref[n++] = suf[i];
  }
#  endif
  ref[n] = 0;

  out = ares_dns_addr_to_ptr(&addr);
  VP_ASSERT(out != NULL, "a reverse-map name is produced");
  for (i = 0; i <= n; i++)
    VP_ASSERT(out[i] == ref[i], "reverse-map name equals the reference (RFC 1035 3.5 / RFC 3596 2.5), NUL-terminated at the same length");
  ares_free(out);
  VP_ASSERT(vp_alloc_live == 0, "nothing leaks");
  VP_WITNESS("end");
}
#endif
