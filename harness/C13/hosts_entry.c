/* C13 / c13_hosts_entry: "(or from the hosts file ...), restricted to the requested family, each with its port ..., none
 * invented, duplicated or dropped": ONE real ares_hosts_entry_to_addrinfo() on a hosts-file entry that holds NIP address
 * texts, each taken from a table of concrete texts (-DPICKS=i,j: concrete per job; all combinations are jobs) (IPv4, IPv6, and one text that is no address), for a
 * symbolic requested family (AF_UNSPEC / AF_INET / AF_INET6), symbolic port and want_cnames flag.
 * Real: ares_hosts_file.c (#included: ares_hosts_entry_t is private to it) with the real ares_dns_pton, ares_inet_pton
 *       (inet_net_pton.c), ares_append_ai_node (ares_addrinfo_localhost.c), ares_getaddrinfo.c list helpers,
 *       ares_freeaddrinfo.c, ares_llist.c.
 * Oracle: the node list is exactly, in entry order, the entry's addresses whose own family is the requested one (every
 * valid address for AF_UNSPEC): family, address bytes, port in network order; ARES_ENOTFOUND and an untouched result
 * when there is none.  The family of one address never decides whether ANOTHER address of the entry is returned. */
#include "vp.h"
#include "ares_private.h"
#include "ares_hosts_file.c"

#ifndef NIP
#  define NIP 2
#endif

typedef struct {
  const char   *text;
  int           fam;
  unsigned char b[16];
} iptab_t;

static const iptab_t T[] = {
  { "1.2.3.4",  AF_INET,  { 1, 2, 3, 4 } },
  { "10.0.0.9", AF_INET,  { 10, 0, 0, 9 } },
  { "::1",      AF_INET6, { 0, 0, 0, 0, 0, 0, 0, 0, 0, 0, 0, 0, 0, 0, 0, 1 } },
  { "fe80::5",  AF_INET6, { 0xfe, 0x80, 0, 0, 0, 0, 0, 0, 0, 0, 0, 0, 0, 0, 0, 5 } },
  { "zz",       0,        { 0 } },
};
#define NT (sizeof(T) / sizeof(*T))

static int bytes_eq(const unsigned char *a, const unsigned char *b, size_t n)
{
  size_t i;
  for (i = 0; i < n; i++)
    if (a[i] != b[i]) return 0;
  return 1;
}

void harness(void)
{
  ares_hosts_entry_t          entry;
  static struct ares_addrinfo ai;
  size_t                      pick[NIP], i, nexp = 0, k = 0;
  const iptab_t              *exp[NIP];
  int                         famsel = (int)vp_range(0, 2);
  int                         family = famsel == 0 ? AF_UNSPEC : (famsel == 1 ? AF_INET : AF_INET6);
  unsigned short              port   = vp_u16();
  ares_bool_t                 want_cnames = vp_bool() ? ARES_TRUE : ARES_FALSE;
  ares_status_t               st;
  struct ares_addrinfo_node  *n;
  int                         seen4 = 0, seen6 = 0;
#ifdef PICKS
  static const size_t         picks[] = { PICKS };
#endif

  vp_alloc_install();
  memset(&entry, 0, sizeof(entry));
  entry.ips   = ares_llist_create(NULL);
  entry.hosts = ares_llist_create(NULL);
  VP_ASSUME(entry.ips != NULL && entry.hosts != NULL);
  VP_ASSUME(ares_llist_insert_last(entry.hosts, (void *)"h.x") != NULL);
  for (i = 0; i < NIP; i++) {
#ifdef PICKS
    pick[i] = picks[i]; /* concrete per job: pushing a solver-chosen text through the real ares_inet_pton did not finish in 600 s */
#else
    pick[i] = vp_range(0, NT - 1);
#endif
    VP_ASSUME(ares_llist_insert_last(entry.ips, (void *)T[pick[i]].text) != NULL);
    if (T[pick[i]].fam != 0 && (family == AF_UNSPEC || family == T[pick[i]].fam)) exp[nexp++] = &T[pick[i]];
  }

  st = ares_hosts_entry_to_addrinfo(&entry, "q.x", family, port, want_cnames, &ai);

  if (nexp == 0) {
    VP_ASSERT(st == ARES_ENOTFOUND, "no address of the requested family in the entry: not found");
    VP_ASSERT(ai.nodes == NULL && ai.cnames == NULL && ai.name == NULL, "nothing is returned with a failure");
    VP_WITNESS("not found");
  } else {
    VP_ASSERT(st == ARES_SUCCESS, "the entry has an address of the requested family: success");
    for (n = ai.nodes; n != NULL && k < NIP + 1; n = n->ai_next, k++) {
      VP_ASSERT(k < nexp, "no address invented or duplicated");
      if (k < nexp) {
        VP_ASSERT(n->ai_family == exp[k]->fam, "node k is the k-th address of the requested family, in entry order (family)");
        if (n->ai_family == AF_INET) {
          const struct sockaddr_in *sa = (const struct sockaddr_in *)(const void *)n->ai_addr;
          VP_ASSERT(n->ai_addrlen == sizeof(*sa) && sa->sin_family == AF_INET, "IPv4 node carries a sockaddr_in");
          VP_ASSERT(bytes_eq((const unsigned char *)&sa->sin_addr, exp[k]->b, 4), "IPv4 address bytes are the entry's");
          VP_ASSERT(sa->sin_port == htons(port), "port as requested (network order)");
          seen4 = 1;
        } else {
          const struct sockaddr_in6 *sa = (const struct sockaddr_in6 *)(const void *)n->ai_addr;
          VP_ASSERT(n->ai_addrlen == sizeof(*sa) && sa->sin6_family == AF_INET6, "IPv6 node carries a sockaddr_in6");
          VP_ASSERT(bytes_eq((const unsigned char *)&sa->sin6_addr, exp[k]->b, 16), "IPv6 address bytes are the entry's");
          VP_ASSERT(sa->sin6_port == htons(port), "port as requested (network order)");
          seen6 = 1;
        }
      }
    }
    VP_ASSERT(k == nexp, "no address of the requested family dropped");
    VP_ASSERT(ai.name != NULL, "the looked-up name is recorded");
    if (seen4 && seen6) VP_WITNESS("both families");
    VP_WITNESS("found");
  }
  ares_freeaddrinfo_nodes(ai.nodes);
  ares_freeaddrinfo_cnames(ai.cnames);
  ares_free(ai.name);
  ares_llist_destroy(entry.ips);
  ares_llist_destroy(entry.hosts);
  VP_ASSERT(vp_alloc_live == 0, "nothing leaks once the result is released");
  VP_WITNESS("end");
}
