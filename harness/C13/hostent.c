/* C13 / c13_hostent + c13_addrttl: ares_addrinfo2hostent() and ares_addrinfo2addrttl() copy the addresses of the
 * requested family one-to-one and in order.
 * Real: ares_addrinfo2hostent.c, ares_free_hostent.c, str/ares_str.c, ares_library_init.c.
 * Input: an ares_addrinfo with NN nodes (family of each concrete per job, FAMS digits 4/6; address bytes, port, TTL
 * symbolic) and NC cname entries (names concrete, TTLs symbolic).
 * MODE 0 hostent: family REQ (0 unspec / 4 / 6): h_addrtype = requested family (unspec: family of the first node),
 *        h_length, h_addr_list = exactly the matching addresses in order + NULL, h_name = first cname target else
 *        ai->name, h_aliases = cname aliases in order + NULL; ARES_ENODATA (nothing returned) when there is neither
 *        an address nor an alias; everything freed by ares_free_hostent.
 * MODE 1 addrttl: family REQ (4 / 6), capacity CAP (concrete 0..3; the output array has EXACTLY CAP elements, so any
 *        write beyond it is an out-of-bounds write): count = min(CAP, matching), element i = i-th matching address,
 *        ttl = min(record ttl, smallest cname ttl). */
#include "vp.h"
#include "ares_private.h"
#include <limits.h>
#include <netdb.h>
#include <stdlib.h>

#ifndef MODE
#  define MODE 0
#endif
#ifndef NN
#  define NN 3
#endif
#ifndef FAMS
#  define FAMS 464
#endif
#ifndef NC
#  define NC 1
#endif
#ifndef REQ
#  define REQ 0
#endif
#ifndef CAP
#  define CAP 2
#endif

static int fam_of(int idx)
{
  int v = FAMS, k;
  for (k = NN - 1; k > idx; k--) v /= 10;
  return (v % 10) == 4 ? AF_INET : AF_INET6;
}
static int str_eq(const char *a, const char *b)
{
  size_t i;
  for (i = 0; i < 16; i++) {
    if (a[i] != b[i]) return 0;
    if (a[i] == 0) return 1;
  }
  return 1;
}
static const unsigned char *node_addr(const struct ares_addrinfo_node *n)
{
  if (n->ai_family == AF_INET) return (const unsigned char *)&((const struct sockaddr_in *)(const void *)n->ai_addr)->sin_addr;
  return (const unsigned char *)&((const struct sockaddr_in6 *)(const void *)n->ai_addr)->sin6_addr;
}
static int bytes_eq(const unsigned char *a, const unsigned char *b, size_t n)
{
  size_t i;
  for (i = 0; i < n; i++)
    if (a[i] != b[i]) return 0;
  return 1;
}

void harness(void)
{
  static struct ares_addrinfo       ai;
  static struct ares_addrinfo_node  node[4];
  static ares_sockaddr              sa[4];
  static struct ares_addrinfo_cname cn[3];
  static char                       nm[] = "q.x", c0a[] = "q.x", c0n[] = "r.y", c1a[] = "r.y", c1n[] = "s.z";
  size_t                            i, nmatch = 0;
  int                               want = (REQ == 4) ? AF_INET : (REQ == 6) ? AF_INET6 : AF_UNSPEC, eff;
  const struct ares_addrinfo_node  *match[4];

  vp_alloc_install();
  for (i = 0; i < NN; i++) {
    int f = fam_of((int)i);
    vp_bytes((unsigned char *)&sa[i], sizeof(sa[i]));
    sa[i].sa.sa_family  = (sa_family_t)f;
    node[i].ai_family   = f;
    node[i].ai_addr     = &sa[i].sa;
    node[i].ai_addrlen  = (f == AF_INET) ? sizeof(struct sockaddr_in) : sizeof(struct sockaddr_in6);
    node[i].ai_ttl      = (int)vp_u32();
    node[i].ai_next     = (i + 1 < NN) ? &node[i + 1] : NULL;
  }
  ai.nodes = NN ? &node[0] : NULL;
  ai.name  = nm;
  if (NC >= 1) {
    cn[0].alias = c0a;
    cn[0].name  = c0n;
    cn[0].ttl   = (int)vp_u32();
    cn[0].next  = (NC >= 2) ? &cn[1] : NULL;
    ai.cnames   = &cn[0];
  }
  if (NC >= 2) {
    cn[1].alias = c1a;
    cn[1].name  = c1n;
    cn[1].ttl   = (int)vp_u32();
    cn[1].next  = NULL;
  }
  eff = (want != AF_UNSPEC) ? want : (NN ? fam_of(0) : AF_UNSPEC);
  for (i = 0; i < NN; i++)
    if (node[i].ai_family == eff) match[nmatch++] = &node[i];

#if MODE == 0
  {
    struct hostent *h  = NULL;
    ares_status_t   st = ares_addrinfo2hostent(&ai, want, &h);
    if (eff == AF_UNSPEC) {
      VP_ASSERT(st == ARES_EBADQUERY && h == NULL, "no family can be determined: rejected");
      VP_WITNESS("no family");
    } else if (nmatch == 0 && NC == 0) {
      VP_ASSERT(st == ARES_ENODATA && h == NULL, "neither address nor alias: no data, nothing returned");
      VP_WITNESS("no data");
    } else {
      size_t alen = (eff == AF_INET) ? 4 : 16;
      VP_ASSERT(st == ARES_SUCCESS && h != NULL, "conversion succeeds");
      VP_ASSERT(h->h_addrtype == eff && h->h_length == (int)alen, "address type and length are the requested family's");
      VP_ASSERT(h->h_name != NULL && str_eq(h->h_name, NC == 2 ? c1n : (NC ? c0n : nm)), "official name: the end of the alias chain (last CNAME target), else the queried name");
      VP_ASSERT(h->h_aliases != NULL, "alias list present");
      for (i = 0; i < NC; i++)
        VP_ASSERT(h->h_aliases[i] != NULL && str_eq(h->h_aliases[i], i == 0 ? c0a : c1a), "aliases are the CNAME owners in order");
      VP_ASSERT(h->h_aliases[NC] == NULL, "alias list is NULL-terminated right after them");
      VP_ASSERT(h->h_addr_list != NULL, "address list present");
      for (i = 0; i < nmatch; i++) {
        VP_ASSERT(h->h_addr_list[i] != NULL, "one slot per matching address");
        VP_ASSERT(bytes_eq((const unsigned char *)h->h_addr_list[i], node_addr(match[i]), alen), "address i is the i-th address of the requested family (order kept)");
      }
      VP_ASSERT(h->h_addr_list[nmatch] == NULL, "address list ends right after the matching addresses (none invented)");
      if (nmatch > 0 && nmatch < NN) VP_WITNESS("family filter dropped a node");
      VP_WITNESS("converted");
    }
    ares_free_hostent(h);
  }
#else
  {
    struct ares_addrttl  *a4 = NULL;
    struct ares_addr6ttl *a6 = NULL;
    size_t                n = 99, expect;
    int                   cttl = INT_MAX;
    ares_status_t         st;
#  if CAP > 0
    a4 = malloc(CAP * sizeof(struct ares_addrttl)); /* exact size: writing element CAP is out of bounds */
    a6 = malloc(CAP * sizeof(struct ares_addr6ttl));
    VP_ASSUME(a4 != NULL && a6 != NULL);
#  else
    static struct ares_addrttl  d4;
    static struct ares_addr6ttl d6;
    a4 = &d4;
    a6 = &d6;
#  endif
    for (i = 0; i < NC; i++)
      if (cn[i].ttl < cttl) cttl = cn[i].ttl;
    st = ares_addrinfo2addrttl(&ai, want, CAP, want == AF_INET ? a4 : NULL, want == AF_INET6 ? a6 : NULL, &n);
    if (CAP == 0) {
      VP_ASSERT(st == ARES_EBADQUERY, "zero capacity is rejected");
    } else {
      expect = nmatch < CAP ? nmatch : CAP;
      VP_ASSERT(st == ARES_SUCCESS, "conversion succeeds");
      VP_ASSERT(n == expect, "count = min(capacity, addresses of the requested family)");
      for (i = 0; i < expect; i++) {
        int want_ttl = match[i]->ai_ttl < cttl ? match[i]->ai_ttl : cttl;
        if (want == AF_INET) {
          VP_ASSERT(bytes_eq((const unsigned char *)&a4[i].ipaddr, node_addr(match[i]), 4), "element i is the i-th IPv4 address");
          VP_ASSERT(a4[i].ttl == want_ttl, "ttl = min(record ttl, smallest CNAME ttl)");
        } else {
          VP_ASSERT(bytes_eq((const unsigned char *)&a6[i].ip6addr, node_addr(match[i]), 16), "element i is the i-th IPv6 address");
          VP_ASSERT(a6[i].ttl == want_ttl, "ttl = min(record ttl, smallest CNAME ttl)");
        }
      }
      if (nmatch > CAP) VP_WITNESS("capacity limits the result");
      if (nmatch > 0 && nmatch < NN) VP_WITNESS("family filter dropped a node");
    }
#  if CAP > 0
    free(a4);
    free(a6);
#  endif
  }
#endif
  VP_ASSERT(vp_alloc_live == 0, "nothing leaks");
  VP_WITNESS("end");
}
