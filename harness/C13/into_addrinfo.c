/* C13 / c13_into_addrinfo: ares_parse_into_addrinfo() returns exactly the A/AAAA answers, each with port and TTL.
 * Real: ares_parse_into_addrinfo.c, the record API (record/ares_dns_record.c, ares_dns_mapping.c, ...),
 *       ares_getaddrinfo.c (ares_append_addrinfo_node/cname, ares_addrinfo_cat_*), ares_addrinfo_localhost.c
 *       (ares_append_ai_node), ares_freeaddrinfo.c, ares_buf/ares_array/ares_str.
 * The answer record is built through the public record API: question "q.x" A IN, then one answer per character of
 * SHAPE (concrete per job):   A = A record     6 = AAAA record     C = CNAME (q.x -> r.y -> s.z -> t.w)
 *                             X = other type (NS)       H = A record of class CHAOS
 * Addresses, TTLs, port and the cname_only_is_enodata flag are symbolic.
 * Oracle: on success the node list equals the class-IN A/AAAA answers in answer order (family, address bytes,
 * port in network order, ai_ttl = the record's TTL), nothing else; the cname list equals the CNAME answers in order
 * (alias = owner, name = target, ttl); ai->name = last CNAME target, else the question name; ARES_ENODATA and an
 * untouched result when there is no address (unless CNAME-only answers are acceptable to the caller). */
#include "vp.h"
#include "ares_private.h"

#ifndef SHAPE
#  define SHAPE "CA6"
#endif
#define NA (sizeof(SHAPE) - 1)

static const char *chain[] = { "q.x", "r.y", "s.z", "t.w" };

static int str_eq(const char *a, const char *b)
{
  size_t i;
  for (i = 0; i < 16; i++) {
    if (a[i] != b[i]) return 0;
    if (a[i] == 0) return 1;
  }
  return 1;
}
static int bytes_eq(const unsigned char *a, const unsigned char *b, size_t n)
{
  size_t i;
  for (i = 0; i < n; i++)
    if (a[i] != b[i]) return 0;
  return 1;
}

void harness(void)
{
  static const char            shape[] = SHAPE;
  static struct ares_addrinfo  ai;
  static unsigned char         addr[4][16];
  static unsigned int          ttl[4];
  ares_dns_record_t           *rec = NULL;
  ares_status_t                st;
  size_t                       i, ncname = 0, naddr = 0, k;
  unsigned short               port = vp_u16();
  ares_bool_t                  cname_only_is_enodata = vp_bool() ? ARES_TRUE : ARES_FALSE;
  const char                  *owner = chain[0];
  struct ares_addrinfo_node   *n;
  struct ares_addrinfo_cname  *c;

  vp_alloc_install();
  st = ares_dns_record_create(&rec, vp_u16(), ARES_FLAG_QR | ARES_FLAG_RD | ARES_FLAG_RA, ARES_OPCODE_QUERY, ARES_RCODE_NOERROR);
  VP_ASSUME(st == ARES_SUCCESS);
  st = ares_dns_record_query_add(rec, chain[0], ARES_REC_TYPE_A, ARES_CLASS_IN);
  VP_ASSUME(st == ARES_SUCCESS);
  for (i = 0; i < NA; i++) {
    ares_dns_rr_t *rr = NULL;
    ttl[i]            = vp_u32();
    vp_bytes(addr[i], 16);
    switch (shape[i]) {
      case 'A':
      case 'H':
        st = ares_dns_record_rr_add(&rr, rec, ARES_SECTION_ANSWER, owner, ARES_REC_TYPE_A, shape[i] == 'A' ? ARES_CLASS_IN : ARES_CLASS_CHAOS, ttl[i]);
        VP_ASSUME(st == ARES_SUCCESS);
        st = ares_dns_rr_set_addr(rr, ARES_RR_A_ADDR, (const struct in_addr *)(const void *)addr[i]);
        break;
      case '6':
        st = ares_dns_record_rr_add(&rr, rec, ARES_SECTION_ANSWER, owner, ARES_REC_TYPE_AAAA, ARES_CLASS_IN, ttl[i]);
        VP_ASSUME(st == ARES_SUCCESS);
        st = ares_dns_rr_set_addr6(rr, ARES_RR_AAAA_ADDR, (const struct ares_in6_addr *)(const void *)addr[i]);
        break;
      case 'C':
        st = ares_dns_record_rr_add(&rr, rec, ARES_SECTION_ANSWER, owner, ARES_REC_TYPE_CNAME, ARES_CLASS_IN, ttl[i]);
        VP_ASSUME(st == ARES_SUCCESS);
        ncname++;
        st    = ares_dns_rr_set_str(rr, ARES_RR_CNAME_CNAME, chain[ncname]);
        owner = chain[ncname];
        break;
      default:
        st = ares_dns_record_rr_add(&rr, rec, ARES_SECTION_ANSWER, owner, ARES_REC_TYPE_NS, ARES_CLASS_IN, ttl[i]);
        VP_ASSUME(st == ARES_SUCCESS);
        st = ares_dns_rr_set_str(rr, ARES_RR_NS_NSDNAME, "n.s");
        break;
    }
    VP_ASSUME(st == ARES_SUCCESS);
    if (shape[i] == 'A' || shape[i] == '6') naddr++;
  }

  st = ares_parse_into_addrinfo(rec, cname_only_is_enodata, port, &ai);

  if (naddr == 0 && (ncname == 0 || cname_only_is_enodata)) {
    VP_ASSERT(st == ARES_ENODATA, "no address record (and CNAME-only not acceptable): no data");
    VP_ASSERT(ai.nodes == NULL && ai.cnames == NULL && ai.name == NULL, "nothing is returned with ARES_ENODATA");
    VP_WITNESS("nodata");
  } else {
    VP_ASSERT(st == ARES_SUCCESS, "answers with an address (or acceptable CNAME-only answers) are accepted");
    /* nodes: exactly the class-IN A/AAAA answers, in order */
    n = ai.nodes;
    for (i = 0; i < NA; i++) {
      if (shape[i] != 'A' && shape[i] != '6') continue;
      VP_ASSERT(n != NULL, "every A/AAAA answer has a node (none dropped)");
      if (n == NULL) break;
      if (shape[i] == 'A') {
        const struct sockaddr_in *s4 = (const struct sockaddr_in *)(const void *)n->ai_addr;
        VP_ASSERT(n->ai_family == AF_INET && n->ai_addrlen == sizeof(*s4) && s4->sin_family == AF_INET, "A answer gives an AF_INET node");
        VP_ASSERT(bytes_eq((const unsigned char *)&s4->sin_addr, addr[i], 4), "node address is the A record's address");
        VP_ASSERT(s4->sin_port == htons(port), "node carries the requested port");
      } else {
        const struct sockaddr_in6 *s6 = (const struct sockaddr_in6 *)(const void *)n->ai_addr;
        VP_ASSERT(n->ai_family == AF_INET6 && n->ai_addrlen == sizeof(*s6) && s6->sin6_family == AF_INET6, "AAAA answer gives an AF_INET6 node");
        VP_ASSERT(bytes_eq((const unsigned char *)&s6->sin6_addr, addr[i], 16), "node address is the AAAA record's address");
        VP_ASSERT(s6->sin6_port == htons(port), "node carries the requested port");
      }
      VP_ASSERT(n->ai_ttl == (int)ttl[i], "node carries the record's TTL");
      n = n->ai_next;
    }
    VP_ASSERT(n == NULL, "no further node (none invented or duplicated)");
    /* cnames */
    c = ai.cnames;
    k = 0;
    for (i = 0; i < NA; i++) {
      if (shape[i] != 'C') continue;
      VP_ASSERT(c != NULL, "every CNAME answer is listed");
      if (c == NULL) break;
      VP_ASSERT(c->alias != NULL && str_eq(c->alias, chain[k]) && c->name != NULL && str_eq(c->name, chain[k + 1]), "CNAMEs in answer order: alias = owner, name = target");
      VP_ASSERT(c->ttl == (int)ttl[i], "CNAME entry carries the record's TTL");
      k++;
      c = c->next;
    }
    VP_ASSERT(c == NULL, "no further CNAME entry");
    VP_ASSERT(ai.name != NULL && str_eq(ai.name, chain[ncname]), "canonical name = last CNAME target, else the question name");
    if (naddr >= 2) VP_WITNESS("two or more addresses");
    if (naddr == 0) VP_WITNESS("cname only accepted");
    VP_WITNESS("accepted");
  }
  ares_freeaddrinfo_nodes(ai.nodes);
  ares_freeaddrinfo_cnames(ai.cnames);
  ares_free(ai.name);
  ares_dns_record_destroy(rec);
  VP_ASSERT(vp_alloc_live == 0, "nothing leaks");
  VP_WITNESS("end");
}
