/* C13 / c13_sortlist: the sortlist ordering of ares_gethostbyname (sort_addresses / sort6_addresses,
 * get_address_index / get6_address_index) keeps the address multiset.
 * Real: ares_gethostbyname.c (included for the statics), ares_update_servers.c (ares_subnet_match).
 * NN addresses (concrete, 0..3) of family FAM (4 or 6), all bytes symbolic; NS sortlist patterns (0..2), each with
 * symbolic family, address bytes and prefix length (0..32 / 0..128, as the sortlist parser guarantees: C15).
 * Oracle: the address slots are the same buffers, NULL terminator intact, the contents are a permutation of the
 * input addresses (every value as often as before), and ordered by the index of the first matching pattern
 * (reference matcher: per-byte prefix masks), unmatched last. */
#include "vp.h"
#include "ares_gethostbyname.c"

#ifndef NN
#  define NN 3
#endif
#ifndef NS
#  define NS 2
#endif
#ifndef FAM
#  define FAM 4
#endif
#define AL (FAM == 4 ? 4 : 16)

static int bytes_eq(const unsigned char *a, const unsigned char *b)
{
  size_t i;
  for (i = 0; i < AL; i++)
    if (a[i] != b[i]) return 0;
  return 1;
}

/* reference: index of the first pattern of this family whose first `mask` bits equal the address's; NS if none */
static size_t ref_index(const unsigned char *a, const struct apattern *sl)
{
  size_t i, b;
  for (i = 0; i < NS; i++) {
    const unsigned char *p = (FAM == 4) ? (const unsigned char *)&sl[i].addr.addr.addr4 : (const unsigned char *)&sl[i].addr.addr.addr6;
    int                  ok = 1;
    if (sl[i].addr.family != (FAM == 4 ? AF_INET : AF_INET6)) continue;
    for (b = 0; b < AL; b++) { /* byte b holds prefix bits 8b .. 8b+7 */
      unsigned nbits = sl[i].mask > 8 * b ? (sl[i].mask - 8 * b >= 8 ? 8u : (unsigned)(sl[i].mask - 8 * b)) : 0u;
      unsigned m     = (0xff00u >> nbits) & 0xffu; /* the nbits most significant bits */
      if ((a[b] & m) != (p[b] & m)) ok = 0;
    }
    if (ok) return i;
  }
  return NS;
}

void harness(void)
{
  static unsigned char   buf[4][16], in[4][16];
  static char           *list[5];
  static struct apattern sl[3];
  struct hostent         host;
  size_t                 i, j;

  for (i = 0; i < NN; i++) {
    vp_bytes(buf[i], AL);
    for (j = 0; j < AL; j++) in[i][j] = buf[i][j];
    list[i] = (char *)buf[i];
  }
  list[NN] = NULL;
  for (i = 0; i < NS; i++) {
    vp_bytes((unsigned char *)&sl[i].addr.addr, sizeof(sl[i].addr.addr));
    sl[i].addr.family = vp_bool() ? AF_INET : AF_INET6;
    sl[i].mask        = (unsigned char)vp_range(0, sl[i].addr.family == AF_INET ? 32 : 128);
  }
  memset(&host, 0, sizeof(host));
  host.h_addrtype  = (FAM == 4) ? AF_INET : AF_INET6;
  host.h_length    = AL;
  host.h_addr_list = list;

  if (FAM == 4)
    sort_addresses(&host, sl, NS);
  else
    sort6_addresses(&host, sl, NS);

  VP_ASSERT(host.h_addr_list == list && list[NN] == NULL, "address list and its terminator are kept");
  for (i = 0; i < NN; i++) {
    size_t cin = 0, cout = 0;
    VP_ASSERT(list[i] == (char *)buf[i], "address slots are the same buffers");
    for (j = 0; j < NN; j++) {
      if (bytes_eq(in[j], in[i])) cin++;
      if (bytes_eq(buf[j], in[i])) cout++;
    }
    VP_ASSERT(cin == cout, "every input address occurs as often after sorting as before (none dropped, duplicated or invented)");
  }
  for (i = 0; i + 1 < NN; i++)
    VP_ASSERT(ref_index(buf[i], sl) <= ref_index(buf[i + 1], sl), "addresses are ordered by first matching sortlist pattern, unmatched last");
  if (NN >= 2 && !bytes_eq(buf[0], in[0])) VP_WITNESS("order changed");
  if (NN >= 1 && NS >= 1 && ref_index(in[0], sl) < NS) VP_WITNESS("pattern matched");
  VP_WITNESS("end");
}
