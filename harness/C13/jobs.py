OUTSIDE = ("libc qsort itself (replaced by a reference insertion sort over the real comparator); the real source-address probe "
           "(socket layer stubbed at the TU boundary); more than 3 addresses per list / answer; the end-to-end ares_getaddrinfo flow "
           "(walk: C12)")
ASSUMPTIONS = ["c13_sort_*: ares_socket_open/connect/close and the agetsockname callback are contract stubs (any outcome, any source "
               "address bytes); qsort is a reference insertion sort calling the real rfc6724_compare"]
LIB = ["src/lib/ares_library_init.c"]


def q(s):
    return '"%s"' % s


def sort_jobs(tier):
    J = []
    pats = {0: ["0"], 1: ["4", "6"], 2: ["44", "46", "64", "66"],
            3: ["444", "446", "464", "644", "466", "646", "664", "666"]}
    for n in (0, 1, 2, 3):
        for p in pats[n]:
            J.append(dict(name="c13_sort_perm_n%d_%s" % (n, p), harness="sort.c", defines=["-DMODE=0", "-DNN=%d" % n, "-DFAMS=%s" % p],
                          real=LIB, unwind=30, leak=True, mem_gb=6, timeout=240,
                          witnesses=["end"] + (["sorted", "probe failed"] if n else []) + (["order changed"] if n >= 2 else []),
                          bound="ares_sortaddrinfo on %d nodes, families %s, all address bytes symbolic; source-address probe: any "
                                "outcome per node (no family support / socket error / unreachable / getsockname failure / any source "
                                "address)" % (n, p)))
    J.append(dict(name="c13_sort_cmp", harness="sort.c", defines=["-DMODE=1"], real=LIB, unwind=30, mem_gb=6, timeout=240,
                  kf_group="c13_sort_cmp", witnesses=["end", "chain a<b<c"],
                  bound="rfc6724_compare on three arbitrary sort elements (family, 28 address bytes, source address bytes of any family, "
                        "has_src_addr all symbolic; distinct original positions): antisymmetric, total, transitive"))
    return J


def jobs(tier, seed):
    J = []
    J += sort_jobs(tier)
    return J
