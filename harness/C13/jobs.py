import os
OUTSIDE = ("libc qsort itself (replaced by a reference insertion sort over the real comparator); the real source-address probe "
           "(socket layer stubbed at the TU boundary); more than 3 (thorough: 4) addresses per list / 3 answers per message; "
           "ares_addrinfo2hostent() extending a caller-supplied hostent (*host != NULL); answer names other than the fixed chain "
           "q.x -> r.y -> s.z -> t.w; TTLs above INT_MAX are stored as (int)ttl (asserted as such); the end-to-end ares_getaddrinfo / "
           "ares_gethostbyname flow (walk: C12) - in particular ares_getaddrinfo does not filter address records of the other family "
           "out of an answer (ares_parse_into_addrinfo has no family argument; only addrinfo2hostent/addrinfo2addrttl filter)")
ASSUMPTIONS = ["c13_sort_*: ares_socket_open/connect/close and the agetsockname callback are contract stubs (any outcome, any source "
               "address bytes); qsort is a reference insertion sort calling the real rfc6724_compare",
               "c13_sortlist_*: sortlist prefix lengths are within 0..32 / 0..128 (guaranteed by the sortlist parser, C15)",
               "c13_into_addrinfo_*: records are built with values the public record API accepts; memset is the pointer-word-wise "
               "loop of c13_mem.c (copy of harness/C03/c03_mem.c)",
               "c13_ptrname_v4_*: ares_count_digits() is wrapped: the wrapper returns the job's concrete digit count for the octet "
               "being printed and asserts that the real ares_count_digits() returns the same (keeps the output length concrete); "
               "each job assumes its octets lie in the job's digit-count slice, the 81 slices cover all addresses",
               "c13_localhost_*: the Windows system loopback enumeration is not compiled (returns ARES_ENOTFOUND on this platform)"]
LIB = ["src/lib/ares_library_init.c"]


def q(s):
    return '"%s"' % s


def sort_jobs(tier):
    J = []
    pats = {0: ["0"], 1: ["4", "6"], 2: ["44", "46", "64", "66"],
            3: ["444", "446", "464", "644", "466", "646", "664", "666"]}
    if tier != "quick":
        pats[4] = ["4444", "4646", "6644", "6666", "4664"]
    for n in sorted(pats):
        for p in pats[n]:
            J.append(dict(name="c13_sort_perm_n%d_%s" % (n, p), harness="sort.c", defines=["-DMODE=0", "-DNN=%d" % n, "-DFAMS=%s" % p],
                          real=LIB, unwind=30, leak=True, mem_gb=6, timeout=240,
                          witnesses=["end"] + (["sorted", "probe failed"] if n else []) + (["order changed"] if n >= 2 else []),
                          bound="ares_sortaddrinfo on %d nodes, families %s, all address bytes symbolic; source-address probe: any "
                                "outcome per node (no family support / socket error / unreachable / getsockname failure / any source "
                                "address)" % (n, p)))
    J.append(dict(name="c13_sort_cmp", harness="sort.c", defines=["-DMODE=1"], real=LIB, unwind=30, mem_gb=6, timeout=240,
                  kf_group="c13_sort_cmp", witnesses=["end", "chain a<b<c"],
                  bound="rfc6724_compare on three arbitrary sort elements (family, 28 address bytes, source address bytes of any family, "
                        "has_src_addr all symbolic; distinct original positions): antisymmetric, total, transitive"))
    J.append(dict(name="c13_sort_cmp_srcfam", harness="sort.c", defines=["-DMODE=1", "-DSRC_FAMILY_MATCHES"], real=LIB, unwind=30, mem_gb=6,
                  timeout=240, kf_group="c13_sort_cmp", witnesses=["end", "chain a<b<c"],
                  bound="same, with every source address of the destination's own family (what a real getsockname reports)"))
    return J


def sortlist_jobs(tier):
    J = []
    for fam in (4, 6):
        for n in (0, 1, 2, 3):
            for ns in ((1, 2) if n else (2,)):
                if tier == "quick" and (fam, n, ns) == (6, 3, 2):
                    continue   # measured 63-86 s (solver bound, cadical no better): thorough tier
                J.append(dict(name="c13_sortlist_v%d_n%d_ns%d" % (fam, n, ns), harness="sortlist.c",
                              defines=["-DFAM=%d" % fam, "-DNN=%d" % n, "-DNS=%d" % ns],
                              real=LIB + ["src/lib/ares_update_servers.c"], unwind=34, mem_gb=6, timeout=240,
                              witnesses=["end"] + (["pattern matched"] if n else []) + (["order changed"] if n >= 2 else []),
                              bound="sort%s_addresses on %d addresses (all bytes symbolic) with %d sortlist patterns (family, address, "
                                    "prefix length symbolic)" % ("" if fam == 4 else "6", n, ns)))
    return J


HE_REAL = LIB + ["src/lib/ares_addrinfo2hostent.c", "src/lib/ares_free_hostent.c", "src/lib/str/ares_str.c"]


def hostent_jobs(tier):
    J = []
    pats = [(0, "0"), (1, "4"), (1, "6"), (2, "46"), (2, "64"), (2, "44"), (3, "464"), (3, "446"), (3, "664"), (3, "666")]
    k = 0
    for n, p in pats:
        for req in (0, 4, 6):
            for nc in ((0, 1, 2) if (n, p) in ((0, "0"), (3, "464")) else ((0, 2)[k % 2],)):
                k += 1
                nmatch = sum(1 for c in p if c == str(req)) if req else (sum(1 for c in p if c == p[0]) if n else 0)
                w = ["end"]
                if n == 0 and req == 0:
                    w.append("no family")
                elif nmatch == 0 and nc == 0:
                    w.append("no data")
                else:
                    w.append("converted")
                    if 0 < nmatch < n:
                        w.append("family filter dropped a node")
                J.append(dict(name="c13_hostent_n%d_%s_req%d_nc%d" % (n, p, req, nc), harness="hostent.c",
                              defines=["-DMODE=0", "-DNN=%d" % n, "-DFAMS=%s" % p, "-DREQ=%d" % req, "-DNC=%d" % nc],
                              real=HE_REAL, unwind=30, leak=True, mem_gb=6, timeout=240, witnesses=w,
                              bound="ares_addrinfo2hostent: %d nodes of families %s (addresses/TTLs symbolic), %d CNAME entries, requested "
                                    "family %s" % (n, p, nc, {0: "AF_UNSPEC", 4: "AF_INET", 6: "AF_INET6"}[req])))
    for n, p in [(2, "46"), (3, "464"), (3, "446"), (3, "444"), (3, "666"), (0, "0")]:
        for req in (4, 6):
            for cap in ((0, 1, 2, 3) if p == "464" else (1, 2, 3)):
                nc = (cap + n) % 3
                nmatch = sum(1 for c in p if c == str(req))
                w = ["end"]
                if cap and nmatch > cap:
                    w.append("capacity limits the result")
                if cap and 0 < nmatch < n:
                    w.append("family filter dropped a node")
                J.append(dict(name="c13_addrttl_n%d_%s_req%d_cap%d" % (n, p, req, cap), harness="hostent.c",
                              defines=["-DMODE=1", "-DNN=%d" % n, "-DFAMS=%s" % p, "-DREQ=%d" % req, "-DNC=%d" % nc, "-DCAP=%d" % cap],
                              real=HE_REAL, unwind=30, leak=True, mem_gb=6, timeout=240, witnesses=w,
                              bound="ares_addrinfo2addrttl: %d nodes of families %s, %d CNAME entries (TTLs symbolic), family AF_INET%s, "
                                    "output array of exactly %d elements" % (n, p, nc, "" if req == 4 else "6", cap)))
    return J


REC = ["src/lib/record/ares_dns_mapping.c", "src/lib/record/ares_dns_multistring.c", "src/lib/record/ares_dns_name.c",
       "src/lib/record/ares_dns_record.c"]
BASE = ["src/lib/str/ares_buf.c", "src/lib/str/ares_str.c", "src/lib/dsa/ares_array.c", "src/lib/dsa/ares_llist.c",
        "src/lib/util/ares_math.c", "src/lib/ares_library_init.c"]
INTO_REAL = REC + BASE + ["src/lib/ares_parse_into_addrinfo.c", "src/lib/ares_getaddrinfo.c", "src/lib/ares_addrinfo_localhost.c",
                          "src/lib/ares_freeaddrinfo.c"]
MEM_SUP = ["vp_rt.c", "valloc.c", "memloops.c", "c13_mem.c"]


def into_jobs(tier):
    J = []
    if tier == "quick":
        shapes = ["", "A", "6", "C", "X", "H", "AA", "A6", "6A", "CA", "C6", "CC", "XA", "HA", "CAA", "CA6", "CCA", "A6A", "AXA", "CH6",
                  "C6X", "CCC"]
    else:
        al = "A6CXH"
        shapes = [""] + [a for a in al] + [a + b for a in al for b in al] + [a + b + c for a in al for b in al for c in al]
    for sh in shapes:
        naddr = sum(1 for c in sh if c in "A6")
        ncn = sh.count("C")
        w = ["end"]
        if naddr == 0:
            w.append("nodata")
            if ncn:
                w.append("cname only accepted")
        else:
            w.append("accepted")
            if naddr >= 2:
                w.append("two or more addresses")
        J.append(dict(name="c13_into_addrinfo_%s" % (sh or "empty"), harness="into_addrinfo.c", defines=["-DSHAPE=" + q(sh)],
                      real=INTO_REAL, support=MEM_SUP, unwind=40, unwindset=["memset.0:300", "memset.1:40"], leak=True, mem_gb=6, timeout=240, witnesses=w,
                      bound="ares_parse_into_addrinfo on a record built with the record API: question q.x A IN, answers %s "
                            "(A / 6=AAAA / C=CNAME / X=NS / H=A class CHAOS), addresses, TTLs, port, cname_only flag symbolic" % (sh or "none")))
    return J


PTR_BASE = ["src/lib/record/ares_dns_record.c", "src/lib/str/ares_buf.c", "src/lib/str/ares_str.c", "src/lib/ares_library_init.c"]


def ptr_jobs(tier):
    J = []
    J.append(dict(name="c13_ptrname_v6", harness="ptrname.c", defines=["-DMODE=0"], real=PTR_BASE + ["src/lib/util/ares_math.c"],
                  unwind=20, unwindset=["harness.0:18", "harness.2:75", "vp_realloc.0:130", "memcpy.0:130"], leak=True, mem_gb=6, timeout=240,
                  bound="ares_dns_addr_to_ptr for ALL IPv6 addresses (128 bits symbolic) == nibble-reversed ip6.arpa reference"))
    for a in (1, 2, 3):
        for b in (1, 2, 3):
            for c in (1, 2, 3):
                for d in (1, 2, 3):
                    sh = "%d%d%d%d" % (a, b, c, d)
                    J.append(dict(name="c13_ptrname_v4_d%s" % sh, harness="ptrname.c", defines=["-DMODE=1", "-DDSHAPE=" + sh],
                                  real=PTR_BASE, unwind=20, unwindset=["harness.2:32"], leak=True, mem_gb=6, timeout=240,
                                  bound="ares_dns_addr_to_ptr for ALL IPv4 addresses whose octets have %s decimal digits (32 bits "
                                        "symbolic within that slice; 81 slices = all addresses) == reversed in-addr.arpa reference" % sh))
    for req in (0, 4, 6):
        for pre in (0, 4, 6):
            J.append(dict(name="c13_localhost_req%d_pre%d" % (req, pre), harness="ptrname.c",
                          defines=["-DMODE=2", "-DREQ=%d" % req, "-DPRE=%d" % pre],
                          real=LIB + ["src/lib/ares_addrinfo_localhost.c", "src/lib/ares_getaddrinfo.c", "src/lib/ares_freeaddrinfo.c",
                                      "src/lib/inet_net_pton.c", "src/lib/str/ares_str.c", "src/lib/str/ares_buf.c", "src/lib/util/ares_math.c"],
                          unwind=20, leak=True, mem_gb=6, timeout=240,
                          bound="ares_addrinfo_localhost, family %s, %s: only 127.0.0.1 / ::1 of the requested family are added, once, "
                                "with the port" % ({0: "AF_UNSPEC", 4: "AF_INET", 6: "AF_INET6"}[req],
                                                   "no node present" if not pre else "an AF_INET%s node already present" % ("" if pre == 4 else "6"))))
    return J


def hosts_entry_jobs(tier):
    import itertools
    J = []
    names = ["v4a", "v4b", "v6a", "v6b", "bad"]
    sel = (0, 2, 4) if tier == "quick" else (0, 1, 2, 3, 4)
    combos = list(itertools.product(sel, repeat=2))
    if tier != "quick":
        combos += [(0, 2, 1), (2, 0, 3), (4, 2, 0), (2, 4, 2), (0, 0, 2)]
    for c in combos:
        both = any(k in (0, 1) for k in c) and any(k in (2, 3) for k in c)
        none = all(k == 4 for k in c)
        J.append(dict(name="c13_hosts_entry_%s" % "_".join(names[k] for k in c), harness="hosts_entry.c",
                      defines=["-DNIP=%d" % len(c), "-DPICKS=" + ",".join(str(k) for k in c)],
                      real=LIB + ["src/lib/ares_addrinfo_localhost.c", "src/lib/ares_getaddrinfo.c", "src/lib/ares_freeaddrinfo.c",
                                  "src/lib/inet_net_pton.c", "src/lib/str/ares_str.c", "src/lib/str/ares_buf.c", "src/lib/util/ares_math.c",
                                  "src/lib/dsa/ares_llist.c"],
                      unwind=20, leak=True, mem_gb=6, timeout=240 if tier == "quick" else 900,
                      witnesses=["end"] + ([] if both else ["not found"]) + ([] if none else ["found"]) + (["both families"] if both else []),
                      bound="ONE ares_hosts_entry_to_addrinfo on the entry [%s] (v4a=1.2.3.4 v4b=10.0.0.9 v6a=::1 v6b=fe80::5 bad='zz'); "
                            "requested family AF_UNSPEC/AF_INET/AF_INET6, port and want_cnames symbolic" % " ".join(names[k] for k in c)))
    return J


def gai_winner_jobs(tier):
    """'... of accepted answers for the WINNING candidate name ... none dropped': the decision taken when the last A/AAAA
    sub-query of a candidate completes (host_callback: finish with the collected addresses, or move on to the next
    candidate / source with nothing collected) is the subject of C12's one-step getaddrinfo walk harness (gai_walk.c,
    completion entry e1); its single-label and multi-label AF_UNSPEC jobs are run here too."""
    import importlib.util
    p12 = os.path.join(os.path.dirname(os.path.abspath(__file__)), "..", "C12", "jobs.py")
    spec = importlib.util.spec_from_file_location("jobs_C12_reuse13", p12)
    m12 = importlib.util.module_from_spec(spec); spec.loader.exec_module(m12)
    out = []
    for j in m12.jobs(tier, 0):
        n = j["name"]
        if "walk_gai_e1" not in n:
            continue
        if tier == "quick" and not ("unspec" in n and ("_a_nd" in n or "_adotb_nd1" in n)):
            continue
        j = dict(j); j["harness"] = "../C12/" + j["harness"]
        j["support"] = [("../C12/" + x if os.path.exists(os.path.join(os.path.dirname(p12), x)) else x) for x in j.get("support", [])]
        out.append(j)
    return out


def jobs(tier, seed):
    J = []
    J += gai_winner_jobs(tier)
    J += hosts_entry_jobs(tier)
    J += sort_jobs(tier)
    J += sortlist_jobs(tier)
    J += hostent_jobs(tier)
    J += into_jobs(tier)
    J += ptr_jobs(tier)
    return J
