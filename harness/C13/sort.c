/* C13 / c13_sort_perm + c13_sort_cmp: ares_sortaddrinfo() only re-orders, and rfc6724_compare() is a consistent comparator.
 * Real: whole ares_sortaddrinfo.c (included: ares_sortaddrinfo, find_src_addr, rfc6724_compare, get_scope, get_label,
 *       get_precedence, common_prefix_len).
 * Stubs (TU boundary): ares_socket_open / ares_socket_connect / ares_socket_close (fd ledger) and the channel's
 *       agetsockname callback: any outcome, any source address bytes of any family.
 *       qsort = a small insertion sort calling the REAL comparator (libc qsort itself is outside; the comparator
 *       properties it needs are what MODE 1 checks).
 * MODE 0 (c13_sort_perm): NN nodes (concrete), family of each node concrete per job (FAMS digits 4/6), address bytes
 *       symbolic.  Result: the SAME node objects, each exactly once, in the order the sort produced, NULL-terminated,
 *       node contents untouched; list unchanged on failure; every probe socket closed; scratch array freed.
 * MODE 1 (c13_sort_cmp): three arbitrary sort elements (families / addresses / source addresses / has_src symbolic,
 *       distinct original positions): antisymmetric, total on distinct positions, transitive. */
#include "vp.h"
#include "ares_sortaddrinfo.c"

#ifndef MODE
#  define MODE 0
#endif
#ifndef NN
#  define NN 3
#endif
#ifndef FAMS
#  define FAMS 464 /* decimal digits, most significant = node 0 */
#endif

/* ------------------------------------------------------------------ socket stubs */
static int opened, closed_cnt, connects;
static int cur_family;

ares_conn_err_t ares_socket_open(ares_socket_t *sock, ares_channel_t *channel, int af, int type, int protocol)
{
  unsigned r = vp_u8();
  (void)channel;
  VP_ASSERT(type == SOCK_DGRAM && protocol == IPPROTO_UDP, "source-address probe uses a UDP socket");
  cur_family = af;
  if (r == 0) return ARES_CONN_ERR_AFNOSUPPORT;
  if (r == 1) return ARES_CONN_ERR_NOMEM;
  if (r == 2) return ARES_CONN_ERR_FAILURE;
  opened++;
  *sock = 40 + opened;
  return ARES_CONN_ERR_SUCCESS;
}
void ares_socket_close(ares_channel_t *channel, ares_socket_t s)
{
  (void)channel;
  VP_ASSERT(s == 40 + opened && closed_cnt == opened - 1, "the probe socket just opened is closed exactly once");
  closed_cnt++;
}
ares_conn_err_t ares_socket_connect(ares_channel_t *channel, ares_socket_t sockfd, ares_bool_t is_tfo,
                                    const struct sockaddr *addr, ares_socklen_t addrlen)
{
  unsigned r = vp_u8();
  (void)channel;
  (void)is_tfo;
  VP_ASSERT(sockfd == 40 + opened, "connect on the probe socket");
  VP_ASSERT(addr->sa_family == cur_family, "probe socket family is the destination's");
  VP_ASSERT(addrlen == (addr->sa_family == AF_INET ? sizeof(struct sockaddr_in) : sizeof(struct sockaddr_in6)), "address length fits the family");
  connects++;
  if (r == 0) return ARES_CONN_ERR_SUCCESS;
  if (r == 1) return ARES_CONN_ERR_WOULDBLOCK;
  if (r == 2) return ARES_CONN_ERR_NETUNREACH;
  return ARES_CONN_ERR_HOSTUNREACH;
}
static int my_getsockname(ares_socket_t sock, struct sockaddr *address, ares_socklen_t *address_len, void *user_data)
{
  (void)sock;
  (void)user_data;
  if (vp_bool()) return -1;
  /* any source address: the buffer is the sort element's ares_sockaddr union */
  VP_ASSERT(*address_len == sizeof(struct sockaddr_in) || *address_len == sizeof(struct sockaddr_in6), "length of the family's sockaddr is offered");
  vp_bytes((unsigned char *)address, *address_len == sizeof(struct sockaddr_in) ? sizeof(struct sockaddr_in) : sizeof(struct sockaddr_in6));
  return 0;
}

/* ------------------------------------------------------------------ reference sort (CBMC only) */
static struct ares_addrinfo_node *ghost_sorted[4];
static int                        qsort_calls;
#ifndef VP_NATIVE
void qsort(void *base, size_t nmemb, size_t size, int (*compar)(const void *, const void *))
{
  struct addrinfo_sort_elem *e = base;
  size_t                     i, j;
  VP_ASSERT(size == sizeof(struct addrinfo_sort_elem) && compar == rfc6724_compare, "sorted with the RFC 6724 comparator");
  qsort_calls++;
  for (i = 1; i < nmemb; i++) {
    for (j = i; j > 0 && rfc6724_compare(&e[j - 1], &e[j]) > 0; j--) {
      struct addrinfo_sort_elem t = e[j - 1];
      e[j - 1]                    = e[j];
      e[j]                        = t;
    }
  }
  for (i = 0; i < nmemb && i < 4; i++) ghost_sorted[i] = e[i].ai;
}
#endif

/* ------------------------------------------------------------------ harness */
static int fam_of(int idx) /* idx-th decimal digit of FAMS from the left, NN digits */
{
  int v = FAMS, k;
  for (k = NN - 1; k > idx; k--) v /= 10;
  return (v % 10) == 4 ? AF_INET : AF_INET6;
}

static void fill_sockaddr(ares_sockaddr *sa, int family)
{
  vp_bytes((unsigned char *)sa, sizeof(*sa));
  sa->sa.sa_family = (sa_family_t)family;
}

#if MODE == 0
void harness(void)
{
  static ares_channel_t            ch;
  static struct ares_addrinfo_node node[4], saved[4];
  static ares_sockaddr             addr[4];
  struct ares_addrinfo_node        sentinel;
  struct ares_addrinfo_node       *cur;
  ares_status_t                    st;
  size_t                           i, cnt, seen[4] = { 0, 0, 0, 0 };

  vp_alloc_install();
  ch.sock_funcs.agetsockname = vp_bool() ? my_getsockname : NULL;
  for (i = 0; i < NN; i++) {
    fill_sockaddr(&addr[i], fam_of((int)i));
    node[i].ai_family   = fam_of((int)i);
    node[i].ai_addr     = &addr[i].sa;
    node[i].ai_addrlen  = (fam_of((int)i) == AF_INET) ? sizeof(struct sockaddr_in) : sizeof(struct sockaddr_in6);
    node[i].ai_ttl      = (int)vp_u32();
    node[i].ai_flags    = (int)vp_u32();
    node[i].ai_socktype = (int)vp_range(0, 2);
    node[i].ai_protocol = (int)vp_range(0, 17);
    node[i].ai_next     = (i + 1 < NN) ? &node[i + 1] : NULL;
    saved[i]            = node[i];
  }
  sentinel.ai_next = NN ? &node[0] : NULL;

  st = ares_sortaddrinfo(&ch, &sentinel);

  VP_ASSERT(opened == closed_cnt, "every probe socket is closed");
  VP_ASSERT(vp_alloc_live == 0, "the scratch array is released");
  if (NN == 0) {
    VP_ASSERT(st == ARES_ENODATA && sentinel.ai_next == NULL, "empty list: nothing to sort");
  } else if (st == ARES_SUCCESS) {
    VP_ASSERT(qsort_calls == 1 || NN == 0, "sorted once");
    cnt = 0;
    for (cur = sentinel.ai_next; cur != NULL && cnt < NN + 1; cur = cur->ai_next) {
      int found = 0;
      for (i = 0; i < NN; i++) {
        if (cur == &node[i]) {
          seen[i]++;
          found = 1;
        }
      }
      VP_ASSERT(found, "every list element is one of the input nodes (none invented)");
#ifndef VP_NATIVE
      VP_ASSERT(cnt >= NN || cur == ghost_sorted[cnt], "list order is the order the sort produced");
#endif
      cnt++;
    }
    VP_ASSERT(cur == NULL && cnt == NN, "the list has exactly N elements and ends with NULL");
    for (i = 0; i < NN; i++) {
      VP_ASSERT(seen[i] == 1, "every input node appears exactly once (none dropped or duplicated)");
      VP_ASSERT(node[i].ai_addr == saved[i].ai_addr && node[i].ai_family == saved[i].ai_family && node[i].ai_ttl == saved[i].ai_ttl &&
                  node[i].ai_addrlen == saved[i].ai_addrlen && node[i].ai_flags == saved[i].ai_flags &&
                  node[i].ai_socktype == saved[i].ai_socktype && node[i].ai_protocol == saved[i].ai_protocol,
                "node contents (address, family, TTL) are untouched by sorting");
    }
    if (NN >= 2 && sentinel.ai_next != &node[0]) VP_WITNESS("order changed");
    VP_WITNESS("sorted");
  } else {
    VP_ASSERT(st == ARES_ENOTFOUND, "the only failure is a fatal source-address probe error");
    VP_ASSERT(sentinel.ai_next == &node[0], "list head unchanged on failure");
    for (i = 0; i < NN; i++)
      VP_ASSERT(node[i].ai_next == saved[i].ai_next, "list links unchanged on failure");
    VP_WITNESS("probe failed");
  }
  VP_WITNESS("end");
}
#else
static int sgn(int v) { return v < 0 ? -1 : (v > 0 ? 1 : 0); }

/* Used ONLY to delimit the known-finding region (not by any oracle): do two elements tie on rules 1-8? */
static int tie18(const struct addrinfo_sort_elem *a, const struct addrinfo_sort_elem *b)
{
  int sa = a->has_src_addr ? get_scope(&a->src_addr.sa) : ARES_IPV6_ADDR_SCOPE_NODELOCAL;
  int sb = b->has_src_addr ? get_scope(&b->src_addr.sa) : ARES_IPV6_ADDR_SCOPE_NODELOCAL;
  int la = a->has_src_addr ? get_label(&a->src_addr.sa) : 1;
  int lb = b->has_src_addr ? get_label(&b->src_addr.sa) : 1;
  return a->has_src_addr == b->has_src_addr &&
         (sa == get_scope(a->ai->ai_addr)) == (sb == get_scope(b->ai->ai_addr)) &&
         (la == get_label(a->ai->ai_addr)) == (lb == get_label(b->ai->ai_addr)) &&
         get_precedence(a->ai->ai_addr) == get_precedence(b->ai->ai_addr) &&
         get_scope(a->ai->ai_addr) == get_scope(b->ai->ai_addr);
}
static int v6src(const struct addrinfo_sort_elem *a) { return a->has_src_addr && a->ai->ai_addr->sa_family == AF_INET6; }
static size_t plen(const struct addrinfo_sort_elem *a)
{
  return common_prefix_len(&a->src_addr.sa6.sin6_addr, &((const struct sockaddr_in6 *)(const void *)a->ai->ai_addr)->sin6_addr);
}

void harness(void)
{
  static struct ares_addrinfo_node node[3];
  static ares_sockaddr             dst[3];
  static struct addrinfo_sort_elem e[3];
  int                              i, ab, ba, bc, cb, ac, ca, rule9_mixed, n_v6src = 0, n_other = 0;

  for (i = 0; i < 3; i++) {
    int fam = vp_bool() ? AF_INET : AF_INET6;
    fill_sockaddr(&dst[i], fam);
    node[i].ai_family = fam;
    node[i].ai_addr   = &dst[i].sa;
    e[i].ai           = &node[i];
    e[i].has_src_addr = vp_bool() ? ARES_TRUE : ARES_FALSE;
    vp_bytes((unsigned char *)&e[i].src_addr, sizeof(e[i].src_addr)); /* getsockname may report anything */
#ifdef SRC_FAMILY_MATCHES
    e[i].src_addr.sa.sa_family = (sa_family_t)fam;
#endif
    e[i].original_order = vp_range(0, 2);
    if (e[i].has_src_addr && fam == AF_INET6) n_v6src++; else n_other++;
  }
  VP_ASSUME(e[0].original_order != e[1].original_order && e[1].original_order != e[2].original_order &&
            e[0].original_order != e[2].original_order);
  /* FINDING sort_compare_nontransitive lives exactly where all three elements tie on rules 1-8, two of them are IPv6
   * with a source address and DIFFERENT prefix lengths (rule 9 orders that pair) and the third is not (rule 9 is
   * skipped for its pairs, original order decides): e.g. IPv4-mapped IPv6 destinations next to an IPv4 one */
  rule9_mixed = 0;
  if (n_v6src == 2 && n_other == 1 && tie18(&e[0], &e[1]) && tie18(&e[1], &e[2])) {
    const struct addrinfo_sort_elem *x = v6src(&e[0]) ? &e[0] : &e[1];
    const struct addrinfo_sort_elem *z = v6src(&e[2]) ? &e[2] : &e[1];
    rule9_mixed                        = plen(x) != plen(z);
  }

  ab = rfc6724_compare(&e[0], &e[1]);
  ba = rfc6724_compare(&e[1], &e[0]);
  bc = rfc6724_compare(&e[1], &e[2]);
  cb = rfc6724_compare(&e[2], &e[1]);
  ac = rfc6724_compare(&e[0], &e[2]);
  ca = rfc6724_compare(&e[2], &e[0]);
  VP_ASSERT(sgn(ab) == -sgn(ba) && sgn(bc) == -sgn(cb) && sgn(ac) == -sgn(ca), "comparator is antisymmetric");
  VP_ASSERT(ab != 0 && bc != 0 && ac != 0, "distinct positions never compare equal (original order breaks every tie)");
  VP_ASSERT(rfc6724_compare(&e[0], &e[0]) == 0, "an element equals itself");
#ifdef KFONLY_sort_compare_nontransitive
  VP_ASSUME(rule9_mixed);
#endif
#ifdef KF_sort_compare_nontransitive
  VP_ASSUME(!rule9_mixed);
#endif
  if (rule9_mixed) {
    VP_ASSERT(!(ab < 0 && bc < 0) || ac < 0,
              "FINDING sort_compare_nontransitive: rfc6724_compare is not transitive when rule 9 applies to only one pair (qsort undefined)");
  } else {
    VP_ASSERT(!(ab < 0 && bc < 0) || ac < 0, "comparator is transitive");
  }
  if (ab < 0 && bc < 0) VP_WITNESS("chain a<b<c");
  if (rule9_mixed) VP_WITNESS("rule 9 mixed triple");
  VP_WITNESS("end");
}
#endif
