/* C13 support (copy of harness/C03/c03_mem.c): word-wise memset for CBMC.
 * Measured: after CBMC's built-in memset (and after a byte-loop memset) a pointer stored into a member of the
 * ares_dns_rr_t union at an offset other than 0 (hinfo.os, soa.rname, naptr.services, caa.tag, multistring, ...) is no
 * longer a constant for the symbolic executor: strlen() of the stored string, allocation sizes and loop bounds derived
 * from it become symbolic and the job does not close.  Zeroing pointer-aligned storage with pointer-sized stores keeps
 * every later pointer store/load constant.  Semantically this is memset (all sizes in these harnesses are concrete).
 * Native builds use libc. */
#ifndef VP_NATIVE
#include <stddef.h>
void *memset(void *dst, int c, size_t n)
{
  size_t         i = 0;
  unsigned char *d = (unsigned char *)dst;
  if (c == 0 && __CPROVER_POINTER_OFFSET(dst) % sizeof(void *) == 0) {
    for (; i + sizeof(void *) <= n; i += sizeof(void *))
      *(void **)(d + i) = NULL;
  }
  for (; i < n; i++)
    d[i] = (unsigned char)c;
  return dst;
}
#endif
