/* C12 / c12_namelist: ares_search_name_list() against a reference written from resolv.conf(5) / hostname(7).
 * Real: src/lib/ares_search.c (ares_search_name_list, ares_search_eligible, ares_name_label_cnt, ares_cat_domain,
 *       ares_lookup_hostaliases), str/ares_str.c, str/ares_strsplit.c, ares_library_init.c.
 * Environment: getenv("HOSTALIASES") set or not; the ares_buf / ares_array calls of ares_lookup_hostaliases are the
 *       abstract two-line aliases file of aliasfile_stub.c: "zz q" / 'A'*L + " b.c" (so exactly the all-'a' name of
 *       this length has an alias, matched case-insensitively), or a missing file, or an unreadable one.  The real
 *       file parser is checked on arbitrary bytes in C15.
 * Name: L bytes (concrete length per job), every byte symbolic over {a, '.', '\\'}.
 * resolv.conf(5) "ndots:n  threshold for the number of dots which must appear in a name before an initial absolute
 * query will be made" - every '.' character counts (escaped or not; glibc res_search counts the same way), a name
 * ending in '.' is absolute. */
#include "vp.h"
#include "ares_private.h"
#include <stdio.h>
#include <stdlib.h>
#include <string.h>
#include <errno.h>

#ifndef L
#  define L 2
#endif
#ifndef ND
#  define ND 2
#endif
#ifndef D0
#  define D0 "x"
#endif
#ifndef D1
#  define D1 "y.z"
#endif
#ifndef ALLOCFAIL
#  define ALLOCFAIL 0
#endif
#define W 16 /* reference string capacity: L + 1 + 3 + 1 <= 10 */

/* ------------------------------------------------------------------ environment */
/* aliasfile_stub.c: abstract HOSTALIASES file "zz q / <vp_alias_host> b.c" behind the ares_buf/ares_array calls */
extern int         vp_alias_file_mode; /* 0 readable, 1 missing, 2 unreadable */
extern char        vp_alias_host[16];
extern const char *vp_alias_path;
static int         have_env;

#ifndef VP_NATIVE
char *getenv(const char *name)
{
  VP_ASSERT(name[0] == 'H' && name[1] == 'O' && name[2] == 'S' && name[3] == 'T' && name[4] == 'A' && name[11] == 0,
            "only $HOSTALIASES is consulted");
  return have_env ? (char *)vp_alias_path : NULL;
}
static void env_setup(void) {}
#else
static void env_setup(void)
{
  if (have_env)
    setenv("HOSTALIASES", vp_alias_path, 1);
  else
    unsetenv("HOSTALIASES");
}
#endif

/* ------------------------------------------------------------------ the name under test */
static char g_name[L + 1]; /* L bytes from {a . \\}, then NUL */

#ifndef VP_NATIVE
/* libc models.  strlen(g_name) is L by construction (no byte of the alphabet is NUL); telling symex so keeps every
 * allocation size and copy length concrete (DESIGN R1) - CBMC does not fold "ite(c==0,'a',...) != 0". */
size_t strlen(const char *s)
{
  size_t n = 0;
  if (s == g_name) return L;
  while (s[n] != 0) n++;
  return n;
}
#endif

/* ------------------------------------------------------------------ reference */
static void r_cat(char *dst, const char *a, const char *b)
{
  size_t i = 0, j;
  for (j = 0; a[j] != 0 && i < W - 1; j++) dst[i++] = a[j];
  for (j = 0; b[j] != 0 && i < W - 1; j++) dst[i++] = b[j];
  dst[i] = 0;
}
static int r_eq(const char *a, const char *b)
{
  size_t i;
  for (i = 0; i < W; i++) {
    if (a[i] != b[i]) return 0;
    if (a[i] == 0) return 1;
  }
  return 1;
}

/* resolv.conf(5) / hostname(7): candidate names for `name`; returns the count.
 * alias != NULL: a HOSTALIASES entry applies (dot-less name only): it is used as given, no searching. */
static size_t ref_candidates(const char *name, size_t ndots, unsigned int nosearch, const char *alias,
                             char *const *domains, size_t ndomains, char out[][W])
{
  size_t len = L, dots = 0, n = 0, i;
  for (i = 0; i < L; i++)
    if (name[i] == '.') dots++;
  if (alias != NULL && dots == 0) {
    r_cat(out[n++], alias, "");
    return n;
  }
  if ((len > 0 && name[len - 1] == '.') || nosearch) { /* absolute name, or searching switched off */
    r_cat(out[n++], name, "");
    return n;
  }
  if (dots >= ndots) r_cat(out[n++], name, "");        /* "initial absolute query" */
  for (i = 0; i < ndomains; i++) {
    if (r_eq(domains[i], ".")) {
      r_cat(out[n++], name, ".");                      /* root domain: "name." not "name.." */
    } else {
      char t[W];
      r_cat(t, name, ".");
      r_cat(out[n++], t, domains[i]);
    }
  }
  if (dots < ndots) r_cat(out[n++], name, "");          /* as given, after the search list */
  return n;
}

void harness(void)
{
  static ares_channel_t ch;
  static char           d0[] = D0, d1[] = D1;
  static char          *domains[2];
  static char           sentinel_obj;
  char                 *name = g_name;
  char                  ref[4][W];
  char                **list = (char **)(void *)&sentinel_obj;
  size_t                cnt  = 77, refcnt, i, sel, dots = 0;
  int                   all_a = (L > 0), alias_hit, alias_efile;
  unsigned int          nosearch, noaliases;
  ares_status_t         st, expect;

  vp_alloc_install();
  for (i = 0; i < L; i++) {
    unsigned c = (unsigned)vp_range(0, 2);
    name[i]    = (c == 0) ? 'a' : (c == 1) ? '.' : '\\';
    if (name[i] == '.') dots++;
    if (name[i] != 'a') all_a = 0;
  }
  name[L]     = 0;
  domains[0]  = d0;
  domains[1]  = d1;
  ch.domains  = domains;
  ch.ndomains = ND;
  sel         = vp_range(0, 4);
  ch.ndots    = (sel < 4) ? sel : (size_t)-1;
  nosearch    = vp_bool() ? ARES_FLAG_NOSEARCH : 0;
  noaliases   = vp_bool() ? ARES_FLAG_NOALIASES : 0;
  ch.flags    = nosearch | noaliases | (vp_bool() ? ARES_FLAG_EDNS : 0);
  have_env    = vp_bool();
  vp_alias_file_mode = (int)vp_range(0, 2);
  for (i = 0; i < (L > 0 ? L : 1); i++) vp_alias_host[i] = 'A'; /* a file token is never empty */
  vp_alias_host[L > 0 ? L : 1] = 0;
  env_setup();

  alias_hit   = !noaliases && dots == 0 && have_env && vp_alias_file_mode == 0 && all_a;
  alias_efile = !noaliases && dots == 0 && have_env && vp_alias_file_mode == 2;
  refcnt      = ref_candidates(name, ch.ndots, nosearch, alias_hit ? "b.c" : NULL, domains, ND, ref);
  /* an aliases file that exists but cannot be opened aborts the expansion with ARES_EFILE (long-standing c-ares
   * behaviour, kept as the expected result; glibc ignores the file) */
  expect = alias_efile ? ARES_EFILE : ARES_SUCCESS;

#if ALLOCFAIL
  vp_alloc_fail_at = ALLOCFAIL; /* concrete position per job: a symbolic one makes every stored pointer an ite (4 GB) */
#endif
  st = ares_search_name_list(&ch, name, &list, &cnt);

#if ALLOCFAIL
  if (vp_alloc_calls >= vp_alloc_fail_at) {
    VP_ASSERT(st == ARES_ENOMEM || st == expect, "a failed allocation gives ARES_ENOMEM (or was not needed)");
    if (st == ARES_ENOMEM) VP_WITNESS("enomem");
  } else
#endif
  {
    VP_ASSERT(st == expect, "status: success, or ARES_EFILE for an unreadable aliases file");
  }
  if (st == ARES_SUCCESS) {
    VP_ASSERT(st == expect, "no list when the alias lookup failed");
    VP_ASSERT(cnt == refcnt, "candidate count equals the resolv.conf(5) reference");
    for (i = 0; i < refcnt && i < cnt; i++) {
      VP_ASSERT(list[i] != NULL, "every candidate slot is filled");
      VP_ASSERT(r_eq(list[i], ref[i]), "candidate i equals reference candidate i (same strings, same order)");
    }
    if (alias_hit) VP_WITNESS("alias applies");
    else if (refcnt == 1 && ND > 0) VP_WITNESS("only the name itself");
    else if (dots >= ch.ndots) VP_WITNESS("as-is first");
    else VP_WITNESS("as-is last");
    ares_strsplit_free(list, cnt);
  } else {
    VP_ASSERT(list == (char **)(void *)&sentinel_obj && cnt == 77, "no list is published on failure");
    if (st == ARES_EFILE) VP_WITNESS("efile");
  }
  VP_ASSERT(vp_alloc_live == 0, "everything allocated on the way is released");
  VP_WITNESS("end");
}
