OUTSIDE = ("names longer than 5 bytes / other bytes than {a . \\}; more than 2 search domains or domains other than {x, y.z, .}; "
           "the HOSTALIASES file parser itself (C15 c15_hostaliases_*); sysconfig intake of search/domain/ndots (C15/C16)")
ASSUMPTIONS = ["c12_namelist: getenv(\"HOSTALIASES\") is set or not; aliasfile_stub.c: the ares_buf / ares_array calls made by "
               "ares_lookup_hostaliases are an abstract two-line aliases file (one alias line for the all-'a' name of the job's length, "
               "upper-case in the file; file readable / missing / unreadable / allocation failure) - the real file parser is checked on "
               "arbitrary bytes in C15",
               "strlen(name under test) is the job's concrete length by construction (harness strlen model says so; CBMC cannot fold it)",
               "c12_walk_gai_*: contract stubs ares_query_nolock (pending / synchronous failure with any status, callback first / cache "
               "answer), ares_parse_into_addrinfo (success with >= 1 node / ENODATA / EBADRESP / ENOMEM; real one in C13), "
               "ares_hosts_search_host + ares_hosts_entry_to_addrinfo (any status, success appends >= 1 node), ares_sortaddrinfo no-op, "
               "ares_inet_pton any verdict, ares_is_onion_domain false, ares_htable_szvp_get_direct a query or NULL; nested host_callback "
               "abstracted by the induction hypothesis (one request off `remaining`; last one: lookup completes exactly once or - soft "
               "failures only - continues with 1..2 new requests)",
               "c12_walk_gai_*: for AF_UNSPEC the walk decision is checked against the status of the LAST completing request of a candidate "
               "(the code keeps only the addresses of the first one, not its status)",
               "c12_walk_search_*: harness/C01/search.c assumptions (ares_send_nolock contract stub, abstract records)",
               ]
LIB = ["src/lib/ares_library_init.c"]
NL_REAL = LIB + ["src/lib/ares_search.c", "src/lib/str/ares_str.c", "src/lib/str/ares_strsplit.c"]
NL_SUP = ["vp_rt.c", "valloc.c", "memloops.c", "aliasfile_stub.c"]
DOMS = ["x", "y.z", "."]


def q(s):
    return '"%s"' % s


def namelist_jobs(tier):
    J = []
    lens = (0, 1, 2, 3, 4) if tier == "quick" else (0, 1, 2, 3, 4, 5)
    for l in lens:
        cfgs = [()]
        cfgs += [(d,) for d in DOMS]
        cfgs += [(a, b) for a in DOMS for b in DOMS if a != b or tier != "quick"]
        for cfg in cfgs:
            nd = len(cfg)
            tag = "_".join(d.replace(".", "dot") if d != "." else "root" for d in cfg) or "none"
            defs = ["-DL=%d" % l, "-DND=%d" % nd] + ["-DD%d=%s" % (i, q(d)) for i, d in enumerate(cfg)]
            J.append(dict(name="c12_namelist_L%d_%s" % (l, tag), harness="namelist.c", defines=defs, real=NL_REAL, support=NL_SUP,
                          unwind=l + 8, leak=True, mem_gb=4, timeout=240,
                          witnesses=["end", "as-is first", "as-is last", "efile"] + (["only the name itself"] if nd else []) +
                                    (["alias applies"] if l > 0 else []),
                          bound="ares_search_name_list: name of %d bytes, each symbolic over {a . \\}; search domains %s; ndots in "
                                "{0,1,2,3,SIZE_MAX}; NOSEARCH / NOALIASES symbolic; HOSTALIASES unset / file readable (alias for the "
                                "all-'a' name) / missing / unreadable; result compared element by element with ref_candidates()" %
                                (l, list(cfg))))
            if cfg in (("x", "y.z"), (".", "x")) and (l == 2 if tier == "quick" else l > 0):
                # longest path: 5 allocations in the alias lookup (miss) + list + 3 candidates = 9
                for k in range(1, 10):
                    J.append(dict(name="c12_namelist_allocfail%d_L%d_%s" % (k, l, tag), harness="namelist.c",
                                  defines=defs + ["-DALLOCFAIL=%d" % k], real=NL_REAL, support=NL_SUP, unwind=l + 8, leak=True,
                                  mem_gb=4, timeout=240, witnesses=["end", "enomem"],
                                  bound="same, with allocation number %d of the call failing (alias lookup allocations included): "
                                        "ARES_ENOMEM or not reached; nothing published, nothing leaked" % k))
    return J


WALK_REAL = LIB + ["src/lib/ares_search.c", "src/lib/str/ares_str.c", "src/lib/str/ares_strsplit.c", "src/lib/ares_freeaddrinfo.c",
                   "src/lib/ares_addrinfo_localhost.c"]
WALK_SUP = ["vp_rt.c", "valloc.c", "memloops.c", "lock_ghost.c", "dnsrec_abs.c"]
FAMS = ["unspec", "inet", "inet6"]


def walk_witnesses(entry, ni, nd, fam, lk):
    w = ["end"]
    if entry == 1:
        w += ["cancelled", "stopped on data", "stopped on hard error", "ended after last candidate"]
        if ni != 2 and nd > 0:
            w += ["moved to next candidate", "request completed the lookup synchronously"]
        if fam == 0:
            w.append("sibling outstanding")
        if lk == "bf":
            w.append("hosts file after dns")
    else:
        if ni == 3:
            w.append("localhost")
        else:
            if fam != 1:
                w.append("literal")   # a dot-less name can only be an IPv6 literal
            if lk != "f":
                w.append("sent first candidate")
    return w


def walk_jobs(tier):
    J = []
    names = ["a", "a.b", "a.", "localhost"]
    for entry in (1, 0):
        shapes = [(0, 0), (0, 1), (0, 2), (1, 0), (1, 1), (1, 2), (2, 2)] if entry == 1 else [(0, 2), (1, 2), (2, 1), (3, 2)]
        for ni, nd in shapes:
            for fam in (0, 1, 2):
                for lk in ("bf", "fb", "b") + (("f",) if entry == 0 else ()):
                    nm = names[ni]
                    J.append(dict(name="c12_walk_gai_e%d_%s_nd%d_%s_%s" % (entry, nm.replace(".", "dot"), nd, FAMS[fam], lk),
                                  harness="gai_walk.c",
                                  defines=["-DENTRY=%d" % entry, "-DNAME_IDX=%d" % ni, "-DND=%d" % nd, "-DFAM=%d" % fam,
                                           "-DLOOKUPS=" + q(lk)],
                                  real=WALK_REAL, support=WALK_SUP, unwind=18, leak=True, mem_gb=4, timeout=240,
                                  witnesses=walk_witnesses(entry, ni, nd, fam, lk),
                                  bound="%s; name '%s', %d search domains of {x, y.z}, ndots 0..2, family %s, lookups \"%s\"; "
                                        "request stub: pending / synchronous failure with any status / cache answer (nested completion by "
                                        "induction hypothesis); any completion status 0..24, parse result success+node / no-data / "
                                        "bad response / out of memory; hosts file any status" %
                                        ("ares_getaddrinfo from scratch" if entry == 0 else
                                         "host_callback for ONE outstanding request of ANY candidate index, 1-2 outstanding",
                                         nm, nd, FAMS[fam], lk)))
    return J


def search_walk_jobs(tier):
    """The same walk in ares_search.c: harness body shared with C01 (harness/C01/search.c, ENTRY 1 = one search_callback step)."""
    J = []
    for ni, nm in enumerate(["a", "a.b", "a."]):
        for nd in (0, 1, 2):
            for nos in (0, 1):
                if nos and nd != 2:
                    continue
                J.append(dict(name="c12_walk_search_%s_nd%d_nosearch%d" % (nm.replace(".", "dot"), nd, nos),
                              harness="../C01/search.c",
                              defines=["-DENTRY=1", "-DNAME_IDX=%d" % ni, "-DND=%d" % nd, "-DNOSEARCH=%d" % nos],
                              real=LIB + ["src/lib/str/ares_str.c", "src/lib/str/ares_strsplit.c", "src/lib/record/ares_dns_mapping.c",
                                          "src/lib/str/ares_buf.c", "src/lib/dsa/ares_array.c", "src/lib/util/ares_math.c",
                                          "src/lib/dsa/ares_llist.c"],
                              support=["vp_rt.c", "valloc.c", "memloops.c", "lock_ghost.c", "dnsrec_abs.c"], unwind=17, leak=True,
                              mem_gb=4, timeout=240, witnesses=["end", "stopped on data or hard error", "ended after last candidate"] +
                              (["moved to next candidate"] if ni != 2 and nd > 0 and not nos else []),
                              bound="search_callback for ANY outstanding candidate index of name '%s', %d search domains, ndots 0..2, "
                                    "NOSEARCH=%d: any completion status / rcode 0..5 / ancount 0..1; candidates in list order, stop at "
                                    "data or hard error, SERVFAIL/REFUSED soft only for single-label candidates, final status rule" %
                                    (nm, nd, nos)))
    return J


def jobs(tier, seed):
    J = []
    J += namelist_jobs(tier)
    J += walk_jobs(tier)
    J += search_walk_jobs(tier)
    return J
