OUTSIDE = ("names longer than 5 bytes / other bytes than {a . \\}; more than 2 search domains or domains other than {x, y.z, .}; "
           "the HOSTALIASES file parser itself (C15 c15_hostaliases_*); sysconfig intake of search/domain/ndots (C15/C16)")
ASSUMPTIONS = ["c12_namelist: getenv(\"HOSTALIASES\") is set or not; aliasfile_stub.c: the ares_buf / ares_array calls made by "
               "ares_lookup_hostaliases are an abstract two-line aliases file (one alias line for the all-'a' name of the job's length, "
               "upper-case in the file; file readable / missing / unreadable / allocation failure) - the real file parser is checked on "
               "arbitrary bytes in C15",
               "strlen(name under test) is the job's concrete length by construction (harness strlen model says so; CBMC cannot fold it)",
               ]
LIB = ["src/lib/ares_library_init.c"]
NL_REAL = LIB + ["src/lib/ares_search.c", "src/lib/str/ares_str.c", "src/lib/str/ares_strsplit.c"]
NL_SUP = ["vp_rt.c", "valloc.c", "memloops.c", "aliasfile_stub.c"]
DOMS = ["x", "y.z", "."]


def q(s):
    return '"%s"' % s


def namelist_jobs(tier):
    J = []
    lens = (0, 1, 2, 3, 4) if tier == "quick" else (0, 1, 2, 3, 4, 5)
    for l in lens:
        cfgs = [()]
        cfgs += [(d,) for d in DOMS]
        cfgs += [(a, b) for a in DOMS for b in DOMS if a != b or tier != "quick"]
        for cfg in cfgs:
            nd = len(cfg)
            tag = "_".join(d.replace(".", "dot") if d != "." else "root" for d in cfg) or "none"
            defs = ["-DL=%d" % l, "-DND=%d" % nd] + ["-DD%d=%s" % (i, q(d)) for i, d in enumerate(cfg)]
            J.append(dict(name="c12_namelist_L%d_%s" % (l, tag), harness="namelist.c", defines=defs, real=NL_REAL, support=NL_SUP,
                          unwind=l + 8, leak=True, mem_gb=4, timeout=240,
                          witnesses=["end", "as-is first", "as-is last", "efile"] + (["only the name itself"] if nd else []) +
                                    (["alias applies"] if l > 0 else []),
                          bound="ares_search_name_list: name of %d bytes, each symbolic over {a . \\}; search domains %s; ndots in "
                                "{0,1,2,3,SIZE_MAX}; NOSEARCH / NOALIASES symbolic; HOSTALIASES unset / file readable (alias for the "
                                "all-'a' name) / missing / unreadable; result compared element by element with ref_candidates()" %
                                (l, list(cfg))))
            if cfg in (("x", "y.z"), (".", "x")) and (l in (1, 3) if tier == "quick" else l > 0):
                # longest path: 5 allocations in the alias lookup (miss) + list + 3 candidates = 9
                for k in range(1, 10):
                    J.append(dict(name="c12_namelist_allocfail%d_L%d_%s" % (k, l, tag), harness="namelist.c",
                                  defines=defs + ["-DALLOCFAIL=%d" % k], real=NL_REAL, support=NL_SUP, unwind=l + 8, leak=True,
                                  mem_gb=4, timeout=240, witnesses=["end", "enomem"],
                                  bound="same, with allocation number %d of the call failing (alias lookup allocations included): "
                                        "ARES_ENOMEM or not reached; nothing published, nothing leaked" % k))
    return J


def jobs(tier, seed):
    J = []
    J += namelist_jobs(tier)
    return J
