/* C12 / c12_walk (address lookups): the candidate walk of ares_getaddrinfo, ONE step (inductive over the walk).
 * Real: whole ares_getaddrinfo.c (included: next_lookup, next_dns_lookup, host_callback, file_lookup, end_hquery,
 *       hquery_free, fake_addrinfo, ares_getaddrinfo_int), ares_search.c (ares_search_name_list, ares_name_label_cnt),
 *       ares_freeaddrinfo.c, ares_addrinfo_localhost.c (ares_append_ai_node), ares_str.c, ares_strsplit.c.
 * ENTRY 0: ares_getaddrinfo() from scratch.
 * ENTRY 1: host_callback() delivering the completion of ONE outstanding request of candidate next_name_idx-1 in an
 *          arbitrary mid-walk state (any candidate index, 1 or 2 requests outstanding, any no-data count, any status,
 *          any parse result).
 * Contract stubs (TU boundary):
 *   ares_query_nolock      stays pending | fails synchronously with ANY status (callback first, as the real one does)
 *                          | is answered synchronously from the cache.  The nested host_callback is abstracted by the
 *                          induction hypothesis: it takes one request off `remaining`; when that was the last one the
 *                          lookup either completes exactly once (real end_hquery) or - soft failures only - goes on
 *                          with 1..2 new outstanding requests.
 *   ares_parse_into_addrinfo   success with >= 1 address node appended | ARES_ENODATA | ARES_EBADRESP | ARES_ENOMEM
 *                          (the real one is checked in C13 c13_into_addrinfo_*)
 *   ares_hosts_search_host / ares_hosts_entry_to_addrinfo   any status; success appends >= 1 node
 *   ares_sortaddrinfo      no-op (C13 c13_sort_perm_*); ares_htable_szvp_get_direct: a query or NULL
 *   ares_inet_pton         any verdict (literal or not), arbitrary address bytes; ares_is_onion_domain: false */
#include "vp.h"
#include "ares_getaddrinfo.c"
#include "dnsrec_abs.h"

#ifndef ND
#  define ND 2
#endif
#ifndef NAME_IDX
#  define NAME_IDX 0
#endif
#ifndef NOSEARCH
#  define NOSEARCH 0
#endif
#ifndef LOOKUPS
#  define LOOKUPS "bf"
#endif
#ifndef FAM
#  define FAM 0 /* 0 AF_UNSPEC, 1 AF_INET, 2 AF_INET6 */
#endif
#ifndef ENTRY
#  define ENTRY 1
#endif

/* ------------------------------------------------------------------ ghost state */
static struct host_query    *g_hq;          /* the lookup under test (ENTRY 1) */
static int                   user_cb_count;
static int                   user_status;
static struct ares_addrinfo *user_ai;
static int                   sends;         /* ares_query_nolock calls in this step */
static char                  sent_name[2][16];
static int                   sent_type[2];
static void                 *sent_arg;
static int                   pending;       /* outstanding requests that will call host_callback later */
static int                   nested_completed;
static int                   hosts_lookups;
static int                   hosts_result;  /* 0 = produced addresses */
static int                   hosts_before_send; /* hosts file consulted before the first request of this step */
static int                   sort_calls;
static int                   parse_result = -1;
static int                   literal;       /* ares_inet_pton accepted the name as an address */
static ares_query_t          other_query;
static const char           *g_user_name;   /* the name handed to ares_getaddrinfo (ENTRY 0) */
extern int                   vp_lock_depth; /* lock_ghost.c */

static void user_cb(void *arg, int status, int timeouts, struct ares_addrinfo *res)
{
  (void)arg;
  (void)timeouts;
  user_cb_count++;
  VP_ASSERT(user_cb_count == 1, "address lookup completion callback invoked at most once");
  user_status = status;
  user_ai     = res;
  VP_ASSERT((status == ARES_SUCCESS) == (res != NULL), "a result is handed over exactly on success");
  if (res != NULL) VP_ASSERT(res->nodes != NULL, "a successful lookup carries at least one address");
}

static size_t label_cnt(const char *n) /* labels of a candidate (every '.' separates) */
{
  size_t c = 1, i;
  for (i = 0; i < 16 && n[i] != 0; i++)
    if (n[i] == '.') c++;
  return c;
}
static int is_soft(int st, const char *cand)
{
  if (st == ARES_ENODATA || st == ARES_ENOTFOUND) return 1;
  if ((st == ARES_ESERVFAIL || st == ARES_EREFUSED) && label_cnt(cand) == 1) return 1;
  return 0;
}
static void copy_name(char *dst, const char *src)
{
  size_t i;
  for (i = 0; i < 15 && src[i] != 0; i++) dst[i] = src[i];
  dst[i] = 0;
}
static int str_eq(const char *a, const char *b)
{
  size_t i;
  for (i = 0; i < 16; i++) {
    if (a[i] != b[i]) return 0;
    if (a[i] == 0) return 1;
  }
  return 1;
}
static void add_node(struct ares_addrinfo *ai, int family, unsigned short port)
{
  unsigned char addr[16];
  ares_status_t s;
  vp_bytes(addr, 16);
  s = ares_append_ai_node(family, port, 0, addr, &ai->nodes);
  VP_ASSUME(s == ARES_SUCCESS);
}

/* ------------------------------------------------------------------ stubs */
ares_bool_t ares_is_onion_domain(const char *name) { (void)name; return ARES_FALSE; }

/* induction hypothesis for a nested host_callback(hq, st, ...) */
static void nested_callback_effect(struct host_query *hq, int st, const char *cand)
{
  VP_ASSERT(hq->remaining > 0, "a completion is only delivered for an outstanding request");
  hq->remaining--;
  if (hq->remaining > 0) return; /* its sibling is still outstanding */
  if (!is_soft(st, cand) || vp_bool()) {
    ares_status_t s = (ares_status_t)vp_range(hq->ai->nodes != NULL ? 0 : 1, 24);
    nested_completed = 1;
    end_hquery(hq, is_soft(st, cand) || st == ARES_SUCCESS ? s : (ares_status_t)st);
  } else {
    size_t k       = vp_range(1, 2);
    hq->remaining  = k;
    pending       += (int)k;
  }
}

ares_status_t ares_query_nolock(ares_channel_t *channel, const char *name, ares_dns_class_t dnsclass,
                                ares_dns_rec_type_t type, ares_callback_dnsrec callback, void *arg, unsigned short *qid)
{
  unsigned mode = vp_u8();
  char     cand[16];
  (void)channel;
  VP_ASSERT(callback == host_callback && dnsclass == ARES_CLASS_IN, "address requests use the lookup's own handler, class IN");
  VP_ASSERT(sends < 2, "at most two requests (A and AAAA) per candidate");
  copy_name(cand, name);
  if (sends < 2) {
    copy_name(sent_name[sends], name);
    sent_type[sends] = (int)type;
  }
  if (sends == 0) hosts_before_send = hosts_lookups;
  sent_arg = arg;
  sends++;
  if (mode == 0) { /* synchronous failure: callback first, same status returned */
    int st = (int)vp_range(1, 24);
    nested_callback_effect(arg, st, cand);
    return (ares_status_t)st;
  }
  if (mode == 1) { /* answered synchronously from the cache */
    nested_callback_effect(arg, (int)vp_range(0, 24), cand);
    return ARES_SUCCESS;
  }
  pending++;
  *qid = vp_u16();
  return ARES_SUCCESS;
}

ares_status_t ares_parse_into_addrinfo(const ares_dns_record_t *dnsrec, ares_bool_t cname_only_is_enodata,
                                       unsigned short port, struct ares_addrinfo *ai)
{
  VP_ASSERT(dnsrec != NULL && cname_only_is_enodata == ARES_TRUE, "answers are parsed with CNAME-only = no data");
  VP_ASSERT(ai == g_hq->ai && port == g_hq->port, "answers are added to this lookup's result with its port");
  parse_result = (int)vp_range(0, 3);
  switch (parse_result) {
    case 0:
      add_node(ai, vp_bool() ? AF_INET : AF_INET6, port);
      return ARES_SUCCESS;
    case 1:
      return ARES_ENODATA;
    case 2:
      return ARES_EBADRESP;
    default:
      return ARES_ENOMEM;
  }
}

static const char the_entry;
ares_status_t     ares_hosts_search_host(ares_channel_t *channel, ares_bool_t use_env, const char *name,
                                         const ares_hosts_entry_t **entry)
{
  int r = (int)vp_range(0, 3);
  (void)channel;
  (void)use_env;
  (void)name;
  hosts_lookups++;
  hosts_result = 1;
  switch (r) {
    case 0:
      *entry = (const ares_hosts_entry_t *)(const void *)&the_entry;
      return ARES_SUCCESS;
    case 1:
      return ARES_ENOTFOUND;
    case 2:
      return ARES_EFILE;
    default:
      return ARES_ENOMEM;
  }
}
ares_status_t ares_hosts_entry_to_addrinfo(const ares_hosts_entry_t *entry, const char *name, int family,
                                           unsigned short port, ares_bool_t want_cnames, struct ares_addrinfo *ai)
{
  int r = (int)vp_range(0, 2);
  (void)want_cnames;
  (void)name;
  VP_ASSERT(entry == (const ares_hosts_entry_t *)(const void *)&the_entry, "the entry found is the one converted");
  if (r == 0) {
    add_node(ai, family == AF_UNSPEC ? (vp_bool() ? AF_INET : AF_INET6) : family, port);
    hosts_result = 0;
    return ARES_SUCCESS;
  }
  ares_free(ai->name);
  ai->name = NULL;
  return r == 1 ? ARES_ENOTFOUND : ARES_ENOMEM;
}
ares_status_t ares_sortaddrinfo(ares_channel_t *channel, struct ares_addrinfo_node *list_sentinel)
{
  (void)channel;
  VP_ASSERT(list_sentinel->ai_next != NULL, "only a non-empty list is sorted");
  sort_calls++;
  return ARES_SUCCESS;
}
void *ares_htable_szvp_get_direct(const ares_htable_szvp_t *htable, size_t key)
{
  (void)htable;
  (void)key;
  return vp_bool() ? &other_query : NULL;
}
int ares_inet_pton(int af, const char *src, void *dst)
{
  if (src != g_user_name) { /* the loopback literals of ares_addrinfo_localhost */
    vp_bytes(dst, af == AF_INET ? 4 : 16);
    return 1;
  }
  if (!vp_bool()) return 0;
  vp_bytes(dst, af == AF_INET ? 4 : 16);
  literal = 1;
  return 1;
}

/* ------------------------------------------------------------------ harness */
#define FAMILY (FAM == 0 ? AF_UNSPEC : FAM == 1 ? AF_INET : AF_INET6)

static void check_request_types(void)
{
  if (FAM == 1) VP_ASSERT(sends == 1 && sent_type[0] == ARES_REC_TYPE_A, "AF_INET asks for A only");
  if (FAM == 2) VP_ASSERT(sends == 1 && sent_type[0] == ARES_REC_TYPE_AAAA, "AF_INET6 asks for AAAA only");
  if (FAM == 0) {
    VP_ASSERT(sends == 2 && sent_type[0] == ARES_REC_TYPE_A && sent_type[1] == ARES_REC_TYPE_AAAA,
              "AF_UNSPEC asks for A and AAAA");
    VP_ASSERT(str_eq(sent_name[0], sent_name[1]), "both requests are for the same candidate");
  }
}

void harness(void)
{
  static ares_channel_t ch;
  static char          *domains[2];
  static char           d0[] = "x", d1[] = "y.z", lk[] = LOOKUPS;
  static const char    *names[] = { "a", "a.b", "a.", "localhost" };
  const char           *name    = names[NAME_IDX];
  char                **ref     = NULL;
  size_t                refcnt  = 0;
  ares_status_t         ls;
  int                   is_local = (NAME_IDX == 3);

  vp_alloc_install();
  domains[0]  = d0;
  domains[1]  = d1;
  ch.domains  = domains;
  ch.ndomains = ND;
  ch.ndots    = vp_range(0, 2);
  ch.flags    = ARES_FLAG_NOALIASES | (NOSEARCH ? ARES_FLAG_NOSEARCH : 0);
  ch.lookups  = lk;
  ls          = ares_search_name_list(&ch, name, &ref, &refcnt); /* the candidate list (checked by c12_namelist) */
  VP_ASSUME(ls == ARES_SUCCESS);

#if ENTRY == 0
  {
    struct ares_addrinfo_hints hints;
    hints.ai_flags    = (vp_bool() ? ARES_AI_NOSORT : 0) | (vp_bool() ? ARES_AI_CANONNAME : 0) | (vp_bool() ? ARES_AI_ENVHOSTS : 0);
    hints.ai_family   = FAMILY;
    hints.ai_socktype = (int)vp_range(0, 2);
    hints.ai_protocol = (int)vp_range(0, 17);
    g_user_name = name;
    ares_getaddrinfo(&ch, name, NULL, &hints, user_cb, NULL);
    VP_ASSERT(vp_lock_depth == 0, "channel lock released");
    VP_ASSERT(user_cb_count + (pending > 0) == 1, "after starting: completed exactly once, or requests outstanding");
    if (literal) {
      VP_ASSERT(sends == 0 && hosts_lookups == 0 && user_cb_count == 1, "an address literal is answered without any lookup");
      VP_WITNESS("literal");
    } else if (is_local) {
      VP_ASSERT(sends == 0, "localhost names are never sent to DNS servers (RFC 6761)");
      VP_ASSERT(user_cb_count == 1, "localhost lookup completes at once");
      VP_WITNESS("localhost");
    } else {
      if (lk[0] == 'f') {
        VP_ASSERT(hosts_lookups == 1, "lookups 'f..': the hosts file is consulted first, once");
        if (hosts_result == 0) VP_ASSERT(sends == 0 && user_cb_count == 1 && user_status == ARES_SUCCESS, "a hosts-file hit ends the lookup");
        else if (lk[1] == 'b') VP_ASSERT(sends >= 1 && hosts_before_send == 1, "hosts miss: DNS is tried next");
        else VP_ASSERT(sends == 0 && user_cb_count == 1, "hosts miss and no other method: the lookup ends");
      } else {
        VP_ASSERT(sends >= 1 && hosts_before_send == 0, "lookups 'b..': DNS is tried before the hosts file");
      }
      if (sends > 0) {
        VP_ASSERT(str_eq(sent_name[0], ref[0]), "the first request is for the first candidate name");
        check_request_types();
        VP_WITNESS("sent first candidate");
      }
    }
    if (user_cb_count == 0) {
      struct host_query *hq = sent_arg;
      VP_ASSERT(hq->remaining == (size_t)pending, "outstanding-request count matches");
      hquery_free(hq, ARES_TRUE); /* still owned by the lookup: release for the leak check */
    }
  }
#else
  {
    struct host_query    *hq;
    struct ares_addrinfo *ai;
    size_t                k, cnt = refcnt, had_nodata;
    int                   st, last, pre_nodes = 0, pre_nomem = 0, nodes_after, eff, nosort;
    ares_dns_record_t    *resp = NULL;
    char                  cand[16], nextcand[16];
    const char           *rest; /* lookup methods after the current 'b' */

#  ifdef VP_NATIVE
    hq = vp_malloc(sizeof(*hq));
    ai = vp_malloc(sizeof(*ai));
#  else
    hq = malloc(sizeof(*hq)); /* typed objects: stored pointers stay constants for symex */
    ai = malloc(sizeof(*ai));
    vp_alloc_live += 2;
#  endif
    VP_ASSUME(hq != NULL && ai != NULL);
    memset(hq, 0, sizeof(*hq));
    memset(ai, 0, sizeof(*ai));
    g_hq               = hq;
    hq->channel        = &ch;
    hq->name           = ares_strdup(name);
    hq->port           = vp_u16();
    hq->callback       = user_cb;
    hq->arg            = NULL;
    hq->hints.ai_flags = (vp_bool() ? ARES_AI_NOSORT : 0) | (vp_bool() ? ARES_AI_CANONNAME : 0) | (vp_bool() ? ARES_AI_ENVHOSTS : 0);
    hq->hints.ai_family   = FAMILY;
    hq->hints.ai_socktype = (int)vp_range(0, 2);
    hq->hints.ai_protocol = (int)vp_range(0, 17);
    nosort                = (hq->hints.ai_flags & ARES_AI_NOSORT) != 0;
    hq->sent_family       = -1;
    hq->timeouts          = vp_range(0, 3);
    hq->lookups           = ares_strdup(lk);
    hq->remaining_lookups = hq->lookups + (lk[0] == 'b' ? 0 : 1); /* a DNS request is outstanding: current method is 'b' */
    rest                  = lk + (lk[0] == 'b' ? 1 : 2);
    hq->names             = ref;
    hq->names_cnt         = refcnt;
    ref                   = NULL;
    k                     = vp_range(1, ND + 1);
    VP_ASSUME(k <= cnt);
    hq->next_name_idx = k;
    hq->ai            = ai;
    hq->qid_a         = vp_u16();
    hq->qid_aaaa      = vp_u16();
    hq->remaining     = (FAM == 0) ? vp_range(1, 2) : 1;
    hq->nodata_cnt    = vp_range(0, 3);
    had_nodata        = hq->nodata_cnt;
    last              = (hq->remaining == 1);
    pending           = 0;
    if (FAM == 0 && last && vp_bool()) { /* the sibling request already delivered an address */
      add_node(ai, vp_bool() ? AF_INET : AF_INET6, hq->port);
      pre_nodes = 1;
    }
    /* ... or the sibling's accepted answer could not be converted for lack of memory (C13/C14: its addresses are lost,
     * so the lookup must not end as a success with a partial list).  State invariant: the mark is only ever set by a
     * failed conversion of an answer for the current name. */
    pre_nomem = (FAM == 0 && last && vp_bool());
    hq->nomem = pre_nomem ? ARES_TRUE : ARES_FALSE;
    copy_name(cand, hq->names[k - 1]);
    nextcand[0] = 0;
    if (k < cnt) copy_name(nextcand, hq->names[k]);

    st = (int)vp_range(0, 24);
    if (st == ARES_SUCCESS || vp_bool()) {
      resp = vp_absrec_new(vp_u16());
      vp_absrec_set_question(resp, cand, FAM == 2 ? 28 : 1, 1);
    }
    host_callback(hq, (ares_status_t)st, vp_range(0, 2), resp);
    if (resp != NULL) ares_dns_record_destroy(resp);

    VP_ASSERT((st == ARES_SUCCESS) == (parse_result >= 0), "exactly successful answers are parsed for addresses");
    nodes_after = pre_nodes || parse_result == 0;
    eff         = (st == ARES_SUCCESS) ? ARES_ENODATA : st; /* a successful answer without usable addresses is no-data */

    if (!last) {
      VP_ASSERT(user_cb_count == 0 && sends == 0 && hosts_lookups == 0, "nothing is decided while the sibling request is outstanding");
      VP_ASSERT(hq->remaining == 1, "one request still outstanding");
      VP_ASSERT((hq->nomem == ARES_TRUE) == (st == ARES_SUCCESS && parse_result == 3),
                "an answer that could not be converted for lack of memory is remembered until the sibling completes (and nothing else sets the mark)");
      pending = 1;
      VP_WITNESS("sibling outstanding");
    } else if (st == ARES_EDESTRUCTION || st == ARES_ECANCELLED) {
      VP_ASSERT(user_cb_count == 1 && user_status == st && sends == 0 && hosts_lookups == 0, "cancel/destroy ends the lookup with that status");
      VP_WITNESS("cancelled");
    } else if (pre_nomem) {
      VP_ASSERT(user_cb_count == 1 && user_status == ARES_ENOMEM && sends == 0 && hosts_lookups == 0,
                "addresses of an accepted answer were lost for lack of memory: the lookup reports ARES_ENOMEM, never a partial success");
      VP_WITNESS("sibling ran out of memory");
    } else if (st == ARES_SUCCESS && parse_result == 3) {
      VP_ASSERT(user_cb_count == 1 && user_status == ARES_ENOMEM && sends == 0, "out of memory while collecting addresses is a hard error");
    } else if (st == ARES_SUCCESS && parse_result == 2) {
      VP_ASSERT(user_cb_count == 1 && sends == 0 && user_status == (nodes_after ? ARES_SUCCESS : ARES_EBADRESP),
                "a malformed answer: addresses already collected are returned, else ARES_EBADRESP");
    } else if (nodes_after) {
      VP_ASSERT(user_cb_count == 1 && user_status == ARES_SUCCESS && sends == 0 && hosts_lookups == 0, "data stops the walk with success");
      VP_ASSERT(sort_calls == (nosort ? 0 : 1), "the result is sorted once unless ARES_AI_NOSORT");
      VP_WITNESS("stopped on data");
    } else if (!is_soft(eff, cand)) {
      VP_ASSERT(user_cb_count == 1 && user_status == st && sends == 0 && hosts_lookups == 0, "a hard error stops the walk with that status");
      VP_WITNESS("stopped on hard error");
    } else {
      int carry = (had_nodata || eff == ARES_ENODATA) ? ARES_ENODATA : eff;
      if (k < cnt) {
        VP_ASSERT(hosts_lookups == 0, "the hosts file is not consulted between DNS candidates");
        VP_ASSERT(str_eq(sent_name[0], nextcand), "candidates are tried in list order");
        check_request_types();
        VP_ASSERT(user_cb_count + (pending > 0) == 1, "the lookup goes on with the next candidate (or its synchronous completion ended it)");
        if (!nested_completed) VP_ASSERT(user_cb_count == 0, "a soft failure does not end the walk while candidates remain");
        VP_WITNESS("moved to next candidate");
      } else {
        VP_ASSERT(sends == 0 && user_cb_count == 1, "after the last candidate the lookup ends");
        if (rest[0] == 'f') {
          VP_ASSERT(hosts_lookups == 1, "remaining method 'f': hosts file consulted once");
          if (hosts_result == 0) {
            VP_ASSERT(user_status == ARES_SUCCESS, "hosts-file hit after DNS gave nothing: success");
            VP_WITNESS("hosts file after dns");
          } else
            VP_ASSERT(user_status == carry, "final status: no-data if any candidate existed without data, else the last candidate's status");
        } else {
          VP_ASSERT(hosts_lookups == 0, "no other method configured");
          VP_ASSERT(user_status == carry, "final status: no-data if any candidate existed without data, else the last candidate's status");
        }
        VP_WITNESS("ended after last candidate");
      }
    }
    if (user_cb_count == 0) {
      VP_ASSERT(hq->remaining == (size_t)pending && pending > 0, "outstanding-request count matches");
      hquery_free(hq, ARES_TRUE); /* still owned by the lookup: release for the leak check */
    }
  }
#endif
  if (nested_completed) VP_WITNESS("request completed the lookup synchronously");
  if (user_ai != NULL) ares_freeaddrinfo(user_ai);
  if (ref != NULL) ares_strsplit_free(ref, refcnt);
  VP_ASSERT(vp_alloc_live == 0, "lookup state and results are released exactly once");
  VP_WITNESS("end");
}
