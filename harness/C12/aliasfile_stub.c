/* C12: abstract HOSTALIASES file behind the ares_buf / ares_array calls made by ares_lookup_hostaliases().
 * The real text parser (ares_buf_load_file, ares_buf_split, tags) is checked on arbitrary file bytes in C15
 * (c15_hostaliases_*); here the file is the token table
 *        zz      q
 *        <HOST>  b.c
 * where <HOST> is vp_alias_host.  Contract of each call as used by ares_lookup_hostaliases:
 *   ares_buf_create            new buffer or NULL (allocation may fail)
 *   ares_buf_load_file         ARES_ENOTFOUND (no such file) | ARES_EFILE (cannot open) | ARES_ENOMEM | ARES_SUCCESS
 *   ares_buf_split("\n",TRIM)  array of one buffer per non-empty line, or ARES_ENOMEM
 *   ares_buf_tag / consume_nonwhitespace / consume_whitespace / tag_fetch_string   token cursor over one line
 * Allocations are counted in the valloc ledger (vp_alloc_calls / vp_alloc_fail_at / vp_alloc_live), so the single
 * allocation failure of the ALLOCFAIL jobs also lands here and leaks show up in vp_alloc_live. */
#include "vp.h"
#include "ares_private.h"
#include <stdlib.h>
#include <string.h>

struct ares_buf {
  int is_line; /* 0: the file buffer, 1: a line */
  int line;    /* line number */
  int cur;     /* cursor: 0 at token 0, 1 after token 0, 2 at token 1, 3 after token 1 (end of line) */
  int tag;     /* cursor value at the last ares_buf_tag() */
  int loaded;
};
struct ares_array {
  size_t n;
};

#define NLINES 2
int                vp_alias_file_mode; /* 0 readable, 1 missing, 2 unreadable */
char               vp_alias_host[16];
const char        *vp_alias_path = "/h";
static const char *tok0          = "zz";
static const char *tok1[NLINES]  = { "q", "b.c" };
static ares_buf_t  line_obj[NLINES];
static ares_buf_t *line_ptr[NLINES] = { &line_obj[0], &line_obj[1] };
static int         lines_live;

static int tick(void)
{
  vp_alloc_calls++;
  if (vp_alloc_fail_at != 0 && vp_alloc_calls == vp_alloc_fail_at) return 0;
  vp_alloc_live++;
  return 1;
}

ares_buf_t *ares_buf_create(void)
{
  ares_buf_t *b;
  if (!tick()) return NULL;
  b = malloc(sizeof(ares_buf_t));
  VP_ASSUME(b != NULL);
  b->is_line = 0;
  b->line = b->cur = b->tag = b->loaded = 0;
  return b;
}
void ares_buf_destroy(ares_buf_t *buf)
{
  if (buf == NULL) return;
  VP_ASSERT(!buf->is_line, "only the file buffer is destroyed directly");
  vp_alloc_live--;
  free(buf);
}
ares_status_t ares_buf_load_file(const char *filename, ares_buf_t *buf)
{
#ifdef VP_NATIVE
  VP_ASSERT(strcmp(filename, vp_alias_path) == 0, "the file named by $HOSTALIASES is loaded");
#else
  VP_ASSERT(filename == vp_alias_path, "the file named by $HOSTALIASES is loaded");
#endif
  if (buf == NULL) return ARES_EFORMERR;
  /* the allocation counter is advanced on every path (a counter that differs between merged paths would make
   * every later allocation of the call "maybe failing") */
  if (!tick()) return ARES_ENOMEM; /* buffer storage */
  vp_alloc_live--;                 /* owned by buf, released with it */
  if (vp_alias_file_mode == 1) return ARES_ENOTFOUND;
  if (vp_alias_file_mode == 2) return ARES_EFILE;
  buf->loaded = 1;
  return ARES_SUCCESS;
}
ares_status_t ares_buf_split(ares_buf_t *buf, const unsigned char *delims, size_t delims_len, ares_buf_split_t flags,
                             size_t max_sections, ares_array_t **arr)
{
  int i;
  VP_ASSERT(buf != NULL && buf->loaded && !buf->is_line, "the loaded file is split");
  VP_ASSERT(delims_len == 1 && delims[0] == '\n' && flags == ARES_BUF_SPLIT_TRIM && max_sections == 0,
            "split into trimmed non-empty lines");
  *arr = NULL;
  if (!tick()) return ARES_ENOMEM;
  for (i = 0; i < NLINES; i++) {
    if (!tick()) { /* a line buffer could not be allocated: everything built so far is released */
      vp_alloc_live -= 1 + i;
      return ARES_ENOMEM;
    }
  }
  *arr      = malloc(sizeof(ares_array_t));
  VP_ASSUME(*arr != NULL);
  (*arr)->n = NLINES;
  for (i = 0; i < NLINES; i++) {
    line_obj[i].is_line = 1;
    line_obj[i].line    = i;
    line_obj[i].cur = line_obj[i].tag = 0;
  }
  lines_live = 1;
  return ARES_SUCCESS;
}
size_t ares_array_len(const ares_array_t *arr) { return arr ? NLINES : 0; } /* not arr->n: stays a constant when arr may be NULL */
void  *ares_array_at(ares_array_t *arr, size_t idx)
{
  if (arr == NULL || idx >= NLINES) return NULL;
  return &line_ptr[idx];
}
void ares_array_destroy(ares_array_t *arr)
{
  if (arr == NULL) return;
  VP_ASSERT(lines_live == 1, "line array destroyed once");
  lines_live     = 0;
  vp_alloc_live -= 1 + NLINES;
  free(arr);
}
void   ares_buf_tag(ares_buf_t *buf) { buf->tag = buf->cur; }
size_t ares_buf_consume_nonwhitespace(ares_buf_t *buf)
{
  if (buf->cur == 0 || buf->cur == 2) {
    buf->cur++;
    return 1;
  }
  return 0;
}
size_t ares_buf_consume_whitespace(ares_buf_t *buf, ares_bool_t include_linefeed)
{
  (void)include_linefeed;
  if (buf->cur == 1) {
    buf->cur = 2;
    return 1;
  }
  return 0;
}
ares_status_t ares_buf_tag_fetch_string(const ares_buf_t *buf, char *str, size_t len)
{
  const char *t = "";
  size_t      i;
  if (str == NULL || len == 0) return ARES_EFORMERR;
  if (buf->tag == 0 && buf->cur == 1) t = (buf->line == 0) ? tok0 : vp_alias_host;
  if (buf->tag == 2 && buf->cur == 3) t = tok1[buf->line];
  for (i = 0; t[i] != 0; i++) {
    if (i >= len - 1) return ARES_EFORMERR; /* does not fit */
    str[i] = t[i];
  }
  str[i] = 0;
  return ARES_SUCCESS;
}
