/* C03 shared helpers: field-by-field comparison of two DNS records through the PUBLIC getters only, and small
 * string/byte utilities with concrete bounds.  The includer defines MAXSTR (bound on any string compared). */
#ifndef C03_COMMON_H
#define C03_COMMON_H
#include "vp.h"
#include "ares.h"
#include "ares_dns_record.h"

#ifndef MAXSTR
#  define MAXSTR 24
#endif

/* 1 iff both strings are present and equal (bounded by MAXSTR) */
static int c03_streq(const char *a, const char *b)
{
  size_t i;
  if (a == NULL || b == NULL)
    return 0;
  for (i = 0; i < MAXSTR; i++) {
    if (a[i] != b[i])
      return 0;
    if (a[i] == 0)
      return 1;
  }
  VP_BOUND(0, "string longer than MAXSTR");
  return 0;
}

static int c03_memeq(const unsigned char *a, const unsigned char *b, size_t n)
{
  size_t i;
  for (i = 0; i < n; i++)
    if (a[i] != b[i])
      return 0;
  return 1;
}

/* every key of the RR's type, read through the typed public getters */
static void c03_cmp_rr(const ares_dns_rr_t *a, const ares_dns_rr_t *b)
{
  size_t                   nkeys = 0, k, i, j;
  ares_dns_rec_type_t      t     = ares_dns_rr_get_type(a);
  const ares_dns_rr_key_t *keys;

  VP_ASSERT(a != NULL && b != NULL, "RR present in both records");
  VP_ASSERT(ares_dns_rr_get_type(b) == t, "RR type survives the round trip");
  VP_ASSERT(c03_streq(ares_dns_rr_get_name(a), ares_dns_rr_get_name(b)), "RR owner name survives the round trip");
  VP_ASSERT(ares_dns_rr_get_class(a) == ares_dns_rr_get_class(b), "RR class survives the round trip");
  VP_ASSERT(ares_dns_rr_get_ttl(a) == ares_dns_rr_get_ttl(b), "RR TTL survives the round trip");
  keys = ares_dns_rr_get_keys(t, &nkeys);
  VP_ASSERT(keys != NULL && nkeys >= 1 && nkeys <= 9, "record type has its key table");
  for (k = 0; k < nkeys; k++) {
    ares_dns_rr_key_t key = keys[k];
    switch (ares_dns_rr_key_datatype(key)) {
      case ARES_DATATYPE_INADDR:
        {
          const struct in_addr *x = ares_dns_rr_get_addr(a, key), *y = ares_dns_rr_get_addr(b, key);
          VP_ASSERT(x != NULL && y != NULL && c03_memeq((const unsigned char *)x, (const unsigned char *)y, 4),
                    "IPv4 address survives the round trip");
        }
        break;
      case ARES_DATATYPE_INADDR6:
        {
          const struct ares_in6_addr *x = ares_dns_rr_get_addr6(a, key), *y = ares_dns_rr_get_addr6(b, key);
          VP_ASSERT(x != NULL && y != NULL && c03_memeq((const unsigned char *)x, (const unsigned char *)y, 16),
                    "IPv6 address survives the round trip");
        }
        break;
      case ARES_DATATYPE_U8:
        VP_ASSERT(ares_dns_rr_get_u8(a, key) == ares_dns_rr_get_u8(b, key), "u8 field survives the round trip");
        break;
      case ARES_DATATYPE_U16:
        VP_ASSERT(ares_dns_rr_get_u16(a, key) == ares_dns_rr_get_u16(b, key), "u16 field survives the round trip");
        break;
      case ARES_DATATYPE_U32:
        VP_ASSERT(ares_dns_rr_get_u32(a, key) == ares_dns_rr_get_u32(b, key), "u32 field survives the round trip");
        break;
      case ARES_DATATYPE_NAME:
        VP_ASSERT(c03_streq(ares_dns_rr_get_str(a, key), ares_dns_rr_get_str(b, key)),
                  "domain-name field survives the round trip");
        break;
      case ARES_DATATYPE_STR:
        VP_ASSERT(c03_streq(ares_dns_rr_get_str(a, key), ares_dns_rr_get_str(b, key)),
                  "character-string field survives the round trip");
        break;
      case ARES_DATATYPE_BIN:
      case ARES_DATATYPE_BINP:
        {
          size_t               la = 0, lb = 0;
          const unsigned char *x = ares_dns_rr_get_bin(a, key, &la), *y = ares_dns_rr_get_bin(b, key, &lb);
          VP_ASSERT(la == lb, "binary field length survives the round trip");
          VP_ASSERT(la == 0 || (x != NULL && y != NULL && c03_memeq(x, y, la)), "binary field survives the round trip");
        }
        break;
      case ARES_DATATYPE_ABINP:
        {
          size_t ca = ares_dns_rr_get_abin_cnt(a, key), cb = ares_dns_rr_get_abin_cnt(b, key);
          VP_ASSERT(ca == cb, "number of character-strings (TXT) survives the round trip");
          for (j = 0; j < ca; j++) {
            size_t               la = 0, lb = 0;
            const unsigned char *x = ares_dns_rr_get_abin(a, key, j, &la), *y = ares_dns_rr_get_abin(b, key, j, &lb);
            VP_ASSERT(x != NULL && y != NULL && la == lb, "TXT chunk length survives the round trip");
            VP_ASSERT(c03_memeq(x, y, la), "TXT chunk bytes survive the round trip");
          }
        }
        break;
      case ARES_DATATYPE_OPT:
        {
          size_t ca = ares_dns_rr_get_opt_cnt(a, key), cb = ares_dns_rr_get_opt_cnt(b, key);
          VP_ASSERT(ca == cb, "number of options/params survives the round trip");
          for (j = 0; j < ca; j++) {
            size_t               la = 0, lb = 0;
            const unsigned char *x = NULL, *y = NULL;
            unsigned short       oa = ares_dns_rr_get_opt(a, key, j, &x, &la), ob = ares_dns_rr_get_opt(b, key, j, &y, &lb);
            VP_ASSERT(oa == ob, "option code survives the round trip (same order)");
            VP_ASSERT(la == lb, "option length survives the round trip");
            VP_ASSERT(la == 0 || (x != NULL && y != NULL && c03_memeq(x, y, la)), "option value survives the round trip");
          }
        }
        break;
      default:
        VP_ASSERT(0, "unknown datatype in key table");
    }
    (void)i;
  }
}

/* header, question(s), and every RR of every section */
static void c03_cmp_record(const ares_dns_record_t *a, const ares_dns_record_t *b)
{
  size_t i, s;
  VP_ASSERT(ares_dns_record_get_id(a) == ares_dns_record_get_id(b), "header id survives the round trip");
  VP_ASSERT(ares_dns_record_get_flags(a) == ares_dns_record_get_flags(b), "header flags survive the round trip");
  VP_ASSERT(ares_dns_record_get_opcode(a) == ares_dns_record_get_opcode(b), "opcode survives the round trip");
  VP_ASSERT(ares_dns_record_get_rcode(a) == ares_dns_record_get_rcode(b), "rcode survives the round trip");
  VP_ASSERT(ares_dns_record_query_cnt(a) == ares_dns_record_query_cnt(b), "question count survives the round trip");
  for (i = 0; i < ares_dns_record_query_cnt(a); i++) {
    const char         *na = NULL, *nb = NULL;
    ares_dns_rec_type_t ta, tb;
    ares_dns_class_t    ca, cb;
    VP_ASSERT(ares_dns_record_query_get(a, i, &na, &ta, &ca) == ARES_SUCCESS, "question readable (original)");
    VP_ASSERT(ares_dns_record_query_get(b, i, &nb, &tb, &cb) == ARES_SUCCESS, "question readable (parsed)");
    VP_ASSERT(c03_streq(na, nb), "question name survives the round trip");
    VP_ASSERT(ta == tb && ca == cb, "question type and class survive the round trip");
  }
  for (s = ARES_SECTION_ANSWER; s <= ARES_SECTION_ADDITIONAL; s++) {
    size_t n = ares_dns_record_rr_cnt(a, (ares_dns_section_t)s);
    VP_ASSERT(n == ares_dns_record_rr_cnt(b, (ares_dns_section_t)s), "RR count per section survives the round trip");
    for (i = 0; i < n; i++)
      c03_cmp_rr(ares_dns_record_rr_get_const(a, (ares_dns_section_t)s, i),
                 ares_dns_record_rr_get_const(b, (ares_dns_section_t)s, i));
  }
}

#endif
