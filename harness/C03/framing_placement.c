/* C03.2 framing and placement: what the library hands to stream sockets.
 * A record with names that share suffixes (question QNAME, an RR owned by OWNER whose RDATA names N1/N2 share the
 * suffix) is written (a) with ares_dns_write() -> message bytes M, and (b) with ares_dns_write_buf_tcp() into an
 * ares_buf that ALREADY holds P bytes (P concrete per job; e.g. an earlier frame still queued in conn->out_buf).
 * Oracle: (b) succeeds iff (a) does; the buffer grows by exactly 2 + len(M); the 2-byte big-endian prefix equals
 * len(M); the bytes after the prefix equal M byte for byte (differential: compression pointers are offsets from the
 * start of the MESSAGE, RFC 1035 4.1.4 - not from the start of the buffer); the earlier P bytes are untouched; the
 * framed message parses and equals the original record; on failure (-DFAILRR: a second RR that cannot be serialised)
 * the buffer is restored to its P bytes.
 *   -DP=n, record parameters as in rr_roundtrip.c (c03_build.h), -DFAILRR */
#define MAXSTR 24
#include "c03_build.h"
#include "ares_private.h"

#ifndef P
#  define P 0
#endif

void harness(void)
{
  ares_dns_record_t   *rec = NULL, *rec2 = NULL;
  ares_dns_rr_t       *rr = NULL, *bad = NULL;
  unsigned char       *m = NULL;
  unsigned char        prior[P + 1];
  size_t               ml = 0, bl = 0, i;
  ares_status_t        st, st2;
  ares_buf_t          *buf;
  const unsigned char *b;

  vp_alloc_install();
  rec = c03_build_record(&rr);
#ifdef FAILRR
  /* a TXT RR without any character-string cannot be serialised: the writer fails after having emitted the first RR */
  st = ares_dns_record_rr_add(&bad, rec, ARES_SECTION_ADDITIONAL, "z", ARES_REC_TYPE_TXT, ARES_CLASS_IN, 0);
  VP_ASSERT(st == ARES_SUCCESS && bad != NULL, "second RR added");
#else
  (void)bad;
#endif

  st = ares_dns_write(rec, &m, &ml);

  buf = ares_buf_create();
  VP_ASSUME(buf != NULL);
  vp_bytes(prior, P);
  if (P > 0)
    VP_ASSERT(ares_buf_append(buf, prior, P) == ARES_SUCCESS, "earlier content queued");

  st2 = ares_dns_write_buf_tcp(rec, buf);
  b   = ares_buf_peek(buf, &bl);
  VP_ASSERT((st == ARES_SUCCESS) == (st2 == ARES_SUCCESS), "the framed writer succeeds exactly when the plain writer does");
  for (i = 0; i < P; i++)
    VP_ASSERT(b[i] == prior[i], "bytes already in the output buffer are untouched");
#ifdef FAILRR
  VP_ASSERT(st2 != ARES_SUCCESS, "a record with an unserialisable RR is refused");
  VP_ASSERT(bl == P, "on failure the output buffer is restored to its previous length");
  VP_WITNESS("restored");
#else
  VP_ASSERT(st == ARES_SUCCESS && m != NULL && ml <= 65535, "plain serialisation succeeds");
  VP_ASSERT(bl == P + 2 + ml, "the buffer grows by the prefix plus the message");
  VP_ASSERT(((size_t)b[P] << 8 | b[P + 1]) == ml, "the 2-byte big-endian prefix equals the message length");
#  ifndef KF_tcp_frame_compression_offset
  /* genuine defect (DESIGN section 6 #9): ares_dns_name_write() records name offsets as ares_buf_len(buf), i.e. from
   * the start of the BUFFER; behind a TCP length prefix (and any earlier queued frame) every compression pointer is too
   * large by 2 + P */
  {
    int eq = c03_memeq(b + P + 2, m, ml);
    VP_ASSERT(eq, "FINDING tcp_frame_compression_offset: the framed message equals ares_dns_write() of the same record byte "
                  "for byte (compression pointers count from the message start, not from the buffer start)");
    if (eq) {
      st = ares_dns_parse(b + P + 2, ml, 0, &rec2);
      VP_ASSERT(st == ARES_SUCCESS && rec2 != NULL, "the framed message parses");
      c03_cmp_record(rec, rec2);
      VP_WITNESS("framed equal");
    }
  }
#  else
  /* everything but the compression-pointer bytes */
  for (i = 0; i < ml; i++)
    VP_ASSERT(b[P + 2 + i] == m[i] || ((m[i] & 0xC0) == 0xC0) || (i > 0 && (m[i - 1] & 0xC0) == 0xC0),
              "outside compression pointers the framed message equals the plain one");
  VP_WITNESS("framed equal");
#  endif
#endif
  ares_free_string(m);
  ares_buf_destroy(buf);
  ares_dns_record_destroy(rec);
  ares_dns_record_destroy(rec2);
  VP_WITNESS("end");
}
