/* C03.5 legacy query builders: ares_create_query() / ares_mkquery() output parses back to what was asked for.
 * For each concrete argument tuple of the job (-DCASES={"name", class, type, rd, udp},...; id SYMBOLIC - class, type,
 * rd and the EDNS size are validated or decide the message layout, so they are concrete per case, see rr_roundtrip.c):
 *   success  => *bufp/*buflenp set, length = 12 + wire(name) + 4 (+ 11 with EDNS), ares_dns_parse() accepts it and
 *               reports id, flags == (rd ? RD : 0), opcode QUERY, rcode NOERROR, exactly one question with the same
 *               name/type/class, no answer/authority RR, and an OPT RR in ADDITIONAL iff udp > 0 carrying udp as UDP
 *               size, version 0, flags 0, no options;  ares_mkquery() == ares_create_query(..., 0) byte for byte
 *   refusal  => (invalid class, RAW type impossible here, udp > 65535 or negative, bad name, .onion => ENOTFOUND)
 *               *bufp == NULL, *buflenp == 0, status as documented
 * The expected verdict/size per case is computed by the harness from the concrete arguments. */
#define MAXSTR 40
#include "c03_common.h"
#include "ares_nameser.h"

typedef struct {
  const char *name;
  int         dnsclass, type, rd, udp;
  int         expect;   /* expected status */
  int         namewire; /* wire size of the name when valid */
  const char *parsed;   /* name as the parser reports it */
} case_t;

#ifndef CASES
#  define CASES { "a.b", 1, 1, 1, 0, ARES_SUCCESS, 5, "a.b" }
#endif

static void one(const case_t *c)
{
  unsigned char     *buf = NULL, *buf2 = NULL;
  int                len = -1, len2 = -1, st, st2;
  unsigned short     id = vp_u16();
  ares_dns_record_t *rec = NULL;

  st = ares_create_query(c->name, c->dnsclass, c->type, id, c->rd, &buf, &len, c->udp);
  VP_ASSERT(st == c->expect, "ares_create_query() returns the documented status for these arguments");
  if (c->udp == 0) {
    st2 = ares_mkquery(c->name, c->dnsclass, c->type, id, c->rd, &buf2, &len2);
    VP_ASSERT(st2 == st && len2 == len, "ares_mkquery() is ares_create_query() without EDNS");
    if (st == ARES_SUCCESS)
      VP_ASSERT(buf2 != NULL && c03_memeq(buf, buf2, (size_t)len), "ares_mkquery() yields the same bytes");
    ares_free_string(buf2);
  }
  if (st != ARES_SUCCESS) {
    VP_ASSERT(buf == NULL && len == 0, "a refused query leaves *bufp NULL and *buflenp 0");
    VP_WITNESS("refused");
    return;
  }
  VP_ASSERT(buf != NULL && len == 12 + c->namewire + 4 + (c->udp > 0 ? 11 : 0), "query has the expected wire size");
  VP_ASSERT(len <= 65535, "at most 65535 bytes");
  st = (int)ares_dns_parse(buf, (size_t)len, 0, &rec);
  VP_ASSERT(st == ARES_SUCCESS && rec != NULL, "the built query parses");
  VP_ASSERT(ares_dns_record_get_id(rec) == id, "query id as requested");
  VP_ASSERT(ares_dns_record_get_flags(rec) == (c->rd ? ARES_FLAG_RD : 0), "only the RD flag, iff rd != 0");
  VP_ASSERT(ares_dns_record_get_opcode(rec) == ARES_OPCODE_QUERY && ares_dns_record_get_rcode(rec) == ARES_RCODE_NOERROR,
            "opcode QUERY, rcode NOERROR");
  VP_ASSERT(ares_dns_record_query_cnt(rec) == 1, "exactly one question");
  {
    const char         *qn = NULL;
    ares_dns_rec_type_t qt;
    ares_dns_class_t    qc;
    VP_ASSERT(ares_dns_record_query_get(rec, 0, &qn, &qt, &qc) == ARES_SUCCESS, "question readable");
    VP_ASSERT(c03_streq(qn, c->parsed), "question name as requested");
    VP_ASSERT((int)qt == c->type && (int)qc == c->dnsclass, "question type and class as requested");
  }
  VP_ASSERT(ares_dns_record_rr_cnt(rec, ARES_SECTION_ANSWER) == 0 && ares_dns_record_rr_cnt(rec, ARES_SECTION_AUTHORITY) == 0,
            "no answer / authority records");
  if (c->udp > 0) {
    const ares_dns_rr_t *opt;
    VP_ASSERT(ares_dns_record_rr_cnt(rec, ARES_SECTION_ADDITIONAL) == 1, "EDNS requested: exactly one additional record");
    opt = ares_dns_record_rr_get_const(rec, ARES_SECTION_ADDITIONAL, 0);
    VP_ASSERT(ares_dns_rr_get_type(opt) == ARES_REC_TYPE_OPT && c03_streq(ares_dns_rr_get_name(opt), ""), "it is an OPT RR owned by the root");
    VP_ASSERT(ares_dns_rr_get_u16(opt, ARES_RR_OPT_UDP_SIZE) == c->udp, "EDNS UDP size as requested");
    VP_ASSERT(ares_dns_rr_get_u8(opt, ARES_RR_OPT_VERSION) == 0 && ares_dns_rr_get_u16(opt, ARES_RR_OPT_FLAGS) == 0 &&
                ares_dns_rr_get_opt_cnt(opt, ARES_RR_OPT_OPTIONS) == 0,
              "EDNS version 0, no flags, no options");
    VP_WITNESS("edns");
  } else {
    VP_ASSERT(ares_dns_record_rr_cnt(rec, ARES_SECTION_ADDITIONAL) == 0, "no EDNS requested: no additional record");
    VP_WITNESS("plain");
  }
  ares_dns_record_destroy(rec);
  ares_free_string(buf);
}

void harness(void)
{
  static const case_t cases[] = { CASES };
  size_t              i;
  vp_alloc_install();
  for (i = 0; i < sizeof(cases) / sizeof(*cases); i++)
    one(&cases[i]);
  VP_WITNESS("end");
}
