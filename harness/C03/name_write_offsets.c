/* C03.3 name writer: pointer emission of ares_dns_name_write() (statics of ares_dns_name.c reached by #include).
 * Pre-state: a name-offset list as earlier writes leave it: NE (1 or 2) entries for the CONCRETE names EN0/EN1 at
 * SYMBOLIC message offsets in 0..70000 (the list is built directly from ares_nameoffset_t, with the library's own
 * destructor), and an output buffer holding P0 earlier bytes.  One call writes the CONCRETE candidate name CN.
 * Oracle (RFC 1035 4.1.4): the output is a sequence of labels ended either by a zero octet - then the labels spell CN -
 * or by a 2-octet pointer 11xxxxxx xxxxxxxx - then there must be a list entry whose recorded offset EQUALS the 14-bit
 * pointer value (so that offset is < 16384: a pointer cannot address anything beyond) and whose name is exactly the rest
 * of CN after the labels written.  Earlier buffer content is untouched; the list grows by one entry for CN at offset P0
 * unless CN was an exact match / empty.
 *   -DNE=1|2 -DEN0="a.b" -DEN1="b" -DCN="c.a.b" -DP0=12
 *   -DMODE=0: the decision alone - the static ares_nameoffset_find() with SYMBOLIC offsets: the entry it returns (if any)
 *             can be pointed at (offset < 16384), is a whole-label suffix of CN, and no usable entry is a longer match.
 *   -DMODE=1 -DI0=n -DI1=n: the whole ares_dns_name_write() with CONCRETE offsets (boundary values enumerated by
 *             jobs.py: once the writer has to decide on the offset, a symbolic offset makes the rest of the write - name
 *             truncation, label split, buffer growth - symbolic and the job does not close). */
#include "vp.h"
#include "record/ares_dns_name.c"

#ifndef NE
#  define NE 1
#endif
#ifndef EN0
#  define EN0 "a.b"
#endif
#ifndef EN1
#  define EN1 "b"
#endif
#ifndef CN
#  define CN "c.a.b"
#endif
#ifndef P0
#  define P0 12
#endif
#ifndef MODE
#  define MODE 0
#endif
#define MAXN 16

static size_t slen(const char *s)
{
  size_t i;
  for (i = 0; i < MAXN && s[i] != 0; i++)
    ;
  return i;
}

static int seq(const char *a, const char *b)
{
  size_t i;
  for (i = 0; i < MAXN; i++) {
    if (a[i] != b[i])
      return 0;
    if (a[i] == 0)
      return 1;
  }
  return 0;
}

void harness(void)
{
  static const char   *en[2] = { EN0, EN1 };
  size_t               idx[2];
  ares_llist_t        *list = NULL;
  ares_buf_t          *buf;
  unsigned char        prior[P0 + 1];
  const unsigned char *b;
  size_t               bl = 0, i, pos, tpos;
  char                 text[MAXN + 2];
  ares_status_t        st;

  vp_alloc_install();
  list = ares_llist_create(ares_nameoffset_free);
  VP_ASSUME(list != NULL);
  for (i = 0; i < NE; i++) {
    ares_nameoffset_t *off = ares_malloc_zero(sizeof(*off));
    VP_ASSUME(off != NULL);
#if MODE == 0
    idx[i]        = vp_range(0, 70000);
#else
    {
      static const size_t ci[2] = { I0, I1 };
      idx[i] = ci[i];
    }
#endif
    off->name     = ares_strdup(en[i]);
    off->name_len = slen(en[i]);
    off->idx      = idx[i];
    VP_ASSUME(ares_llist_insert_last(list, off) != NULL);
  }
#if MODE == 0
  {
    const ares_nameoffset_t *r  = ares_nameoffset_find(list, CN);
    size_t                   cl = slen(CN), k;
    (void)st; (void)b; (void)bl; (void)pos; (void)tpos; (void)text; (void)prior; (void)buf;
    if (r != NULL) {
#  ifndef KF_compression_pointer_16k
      /* genuine defect (DESIGN section 6 #10): the offset of the matched entry is later masked with 0x3FFF */
      VP_ASSERT(r->idx <= 0x3FFF, "FINDING compression_pointer_16k: a name chosen as compression target can be pointed at with "
                                  "a 14-bit pointer (its offset is < 16384)");
#  endif
      VP_ASSERT(r->name_len <= cl && seq(CN + (cl - r->name_len), r->name) &&
                  (r->name_len == cl || CN[cl - r->name_len - 1] == '.'),
                "the chosen entry is a whole-label suffix of the candidate");
      VP_WITNESS("pointer");
    } else {
      VP_WITNESS("full");
    }
    /* no usable entry is a better (longer) match than the chosen one */
    for (k = 0; k < NE; k++) {
      size_t el = slen(en[k]);
      if (idx[k] <= 0x3FFF && el <= cl && seq(CN + (cl - el), en[k]) && (el == cl || CN[cl - el - 1] == '.'))
        VP_ASSERT(r != NULL && r->name_len >= el, "the longest usable suffix match is chosen");
    }
    ares_llist_destroy(list);
    VP_WITNESS("end");
    return;
  }
#endif
  buf = ares_buf_create();
  VP_ASSUME(buf != NULL);
  vp_bytes(prior, P0);
  if (P0 > 0)
    VP_ASSUME(ares_buf_append(buf, prior, P0) == ARES_SUCCESS);

  st = ares_dns_name_write(buf, &list, ARES_TRUE, CN);
  VP_ASSERT(st == ARES_SUCCESS, "a valid host name is written");
  b = ares_buf_peek(buf, &bl);
  VP_ASSERT(bl >= P0 + 1 && bl <= P0 + slen(CN) + 2, "output length within the name's wire size");
  for (i = 0; i < P0; i++)
    VP_ASSERT(b[i] == prior[i], "earlier buffer content untouched");

  /* decode what was written: labels -> text, until a zero octet or a pointer */
  pos  = P0;
  tpos = 0;
  for (i = 0; i < MAXN; i++) {
    unsigned char c;
    size_t        k;
    VP_ASSERT(pos < bl, "the written name is terminated inside the output");
    c = b[pos];
    if (c == 0 || (c & 0xC0) != 0)
      break;
    VP_ASSERT(pos + 1 + c <= bl && tpos + c + 1 <= MAXN, "label inside the output");
    if (tpos != 0)
      text[tpos++] = '.';
    for (k = 0; k < c; k++)
      text[tpos++] = (char)b[pos + 1 + k];
    pos += 1 + (size_t)c;
  }
  text[tpos] = 0;
  if (b[pos] == 0) {
    VP_ASSERT(pos + 1 == bl, "nothing after the terminating zero octet");
    VP_ASSERT(seq(text, CN), "a name written in full spells the candidate name");
    VP_WITNESS("full");
  } else {
    size_t ptr;
    int    ok = 0;
    VP_ASSERT((b[pos] & 0xC0) == 0xC0 && pos + 2 == bl, "a label sequence ends with a zero octet or a 2-octet pointer");
    ptr = ((size_t)(b[pos] & 0x3F) << 8) | b[pos + 1];
    for (i = 0; i < NE; i++) {
      /* the entry's name must be the remainder of CN after the labels written (plus the separating dot) */
      size_t el = slen(en[i]), cl = slen(CN);
      if (idx[i] == ptr && el <= cl && seq(CN + (cl - el), en[i]) &&
          ((tpos == 0 && el == cl) || (tpos != 0 && tpos + 1 + el == cl && CN[tpos] == '.'))) {
        size_t k;
        int    same = 1;
        for (k = 0; k < tpos; k++)
          if (text[k] != CN[k])
            same = 0;
        if (same)
          ok = 1;
      }
    }
#ifndef KF_compression_pointer_16k
    /* genuine defect (DESIGN section 6 #10): the offset of the matched entry is silently masked with 0x3FFF */
    VP_ASSERT(ok, "FINDING compression_pointer_16k: an emitted compression pointer equals the recorded offset of a matching "
                  "earlier name exactly (offsets >= 16384 cannot be pointed at)");
#else
    VP_ASSERT(ok || idx[0] > 0x3FFF || (NE > 1 && idx[1] > 0x3FFF), "pointer names a matching entry when all offsets fit 14 bits");
#endif
    VP_WITNESS("pointer");
  }
  VP_ASSERT(ares_llist_len(list) == NE + ((seq(CN, EN0) || (NE > 1 && seq(CN, EN1)) || CN[0] == 0) ? 0u : 1u) ||
              ares_llist_len(list) == NE + (CN[0] == 0 ? 0u : 1u),
            "the candidate is remembered for later names (unless it was an exact match)");
  ares_buf_destroy(buf);
  ares_llist_destroy(list);
  VP_WITNESS("end");
}
