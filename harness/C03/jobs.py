import os
OUTSIDE = ("records with more than the stated RRs / labels / payload sizes; names or messages near the 255-byte, 16 KiB and "
           "64 KiB limits as concrete data (the 14-bit pointer rule is checked with a symbolic name offset up to 70000 in "
           "ares_nameoffset_find and with concrete boundary offsets in the full name writer; a 17 KiB record was replayed "
           "natively); character-string fields and presentation names with symbolic text (their octets decide every "
           "length: concrete per job); header flags/opcode/rcode, question type/class and RR class as symbolic values "
           "(validated by the record constructors: enumerated concretely, every single value in hdr_roundtrip_*)")
ASSUMPTIONS = [
    "records are built with values the public constructors accept (valid opcode/rcode/flags/class; rcode > 15 only "
    "together with an OPT RR: the writer documents that extended rcodes need one - checked in hdr_roundtrip_ext_rcode_*)",
    "OPT RR built as the library builds it (class IN, ttl 0): RFC 6891 overloads CLASS/TTL, the RR's own class/ttl are "
    "not carried on the wire",
    "option/param codes: symbolic in one-option shapes, concrete and distinct in two-option shapes (the record API is a "
    "map keyed by the code; a symbolic code comparison makes the option count symbolic)",
    "a record without question or with a TXT/TLSA/SIG/URI field that cannot be expressed is refused by writer or parser "
    "(asserted as refusal, jobs rr_roundtrip_noquestion / rr_roundtrip_nowrite_*)",
    "memset is the pointer-word-wise loop of harness/C03/c03_mem.c (CBMC loses the constness of pointers stored in the "
    "ares_dns_rr_t union after its built-in or a byte-loop memset)",
]

REC = ["src/lib/record/ares_dns_mapping.c", "src/lib/record/ares_dns_multistring.c", "src/lib/record/ares_dns_name.c",
       "src/lib/record/ares_dns_parse.c", "src/lib/record/ares_dns_record.c", "src/lib/record/ares_dns_write.c"]
BASE = ["src/lib/str/ares_buf.c", "src/lib/str/ares_str.c", "src/lib/dsa/ares_array.c", "src/lib/dsa/ares_llist.c",
        "src/lib/util/ares_math.c", "src/lib/ares_library_init.c", "src/lib/ares_free_string.c"]
LIB = REC + BASE
SUP = ["vp_rt.c", "valloc.c", "memloops.c", "c03_mem.c"]


def q(s):
    return '"%s"' % s


def hdr(flags=0x19, opcode=0, rcode=0, qtype=255, qclass=1, rclass=1):
    return ["-DFLAGS=%d" % flags, "-DOPCODE=%d" % opcode, "-DRCODE=%d" % rcode, "-DQTYPE=%d" % qtype,
            "-DQCLASS=%d" % qclass, "-DRCLASS=%d" % rclass]


def names(qname="a.b", owner="a.b", n1=None, n2=None):
    d = ["-DQNAME=" + q(qname), "-DOWNER=" + q(owner)]
    if n1 is not None:
        d.append("-DN1=" + q(n1))
    if n2 is not None:
        d.append("-DN2=" + q(n2))
    return d


RAW = 65536
# (job suffix, RTYPE, section, extra defines, tier, bound text)
RR_SHAPES = [
    ("A", 1, 1, names() + hdr(0x19, 0, 0, 1, 1, 1), "quick", "A, owner = question name (pointer), address symbolic"),
    ("A_sub", 1, 3, names(owner="c.a.b") + hdr(0x01, 0, 3, 255, 255, 3), "thorough", "A, owner c.a.b (label + pointer), class CH"),
    ("NS", 2, 2, names(n1="c.a.b") + hdr(0x03, 0, 0, 2, 1, 1), "quick", "NS in AUTHORITY, NSDNAME c.a.b (label + pointer)"),
    ("NS_root", 2, 1, names(qname="", owner="", n1="a") + hdr(0x01, 0, 0, 2, 1, 1), "thorough", "NS for the root name"),
    ("CNAME", 5, 1, names(owner="c.a.b", n1="a.b") + hdr(0x19, 0, 0, 1, 1, 1), "quick",
     "CNAME, owner c.a.b, target a.b (pure pointer)"),
    ("CNAME_nocomp", 5, 1, names(owner="a.b", n1="x.y") + hdr(0x19, 0, 0, 5, 1, 4), "thorough", "CNAME, unrelated target, class HS"),
    ("SOA", 6, 2, names(n1="c.a.b", n2="d.a.b") + hdr(0x03, 0, 3, 6, 1, 1), "quick",
     "SOA in AUTHORITY (rcode NXDOMAIN), MNAME c.a.b RNAME d.a.b, five u32 symbolic"),
    ("SOA_same", 6, 1, names(n1="a.b", n2="a.b") + hdr(0x03, 5, 0, 6, 254, 254), "thorough",
     "SOA, MNAME = RNAME = owner (three pure pointers), opcode UPDATE, class NONE"),
    ("PTR", 12, 1, names(qname="1.in", owner="1.in", n1="h.in") + hdr(0x19, 0, 0, 12, 1, 1), "quick", "PTR"),
    ("HINFO", 13, 1, names() + ["-DS1=" + q("cpu"), "-DS2=" + q("os x")] + hdr(0x19, 0, 0, 13, 1, 1), "quick",
     "HINFO with two character-strings"),
    ("HINFO_empty", 13, 1, names() + ["-DS1=" + q(""), "-DS2=" + q("")] + hdr(0x19, 0, 0, 13, 1, 1), "thorough",
     "HINFO with two empty character-strings"),
    ("MX", 15, 1, names(n1="c.a.b") + hdr(0x59, 0, 0, 15, 1, 1), "quick", "MX, preference symbolic, exchange c.a.b"),
    ("MX_owner", 15, 1, names(owner="c.a.b", n1="c.a.b") + hdr(0x39, 0, 0, 15, 1, 1), "thorough",
     "MX whose exchange equals its owner (pointer to the owner name)"),
    ("TXT1", 16, 1, names() + ["-DTXTN=1", "-DTL0=3"] + hdr(0x19, 0, 0, 16, 1, 1), "quick", "TXT, one 3-byte chunk, bytes symbolic"),
    ("TXT3", 16, 3, names() + ["-DTXTN=3", "-DTL0=0", "-DTL1=1", "-DTL2=2"] + hdr(0x19, 0, 0, 16, 3, 3), "quick",
     "TXT, chunks of 0, 1 and 2 bytes, class CH"),
    ("SIG", 24, 3, names(n1="c.a.b") + ["-DBL=3"] + hdr(0x01, 0, 0, 24, 255, 255), "quick",
     "SIG (class ANY), signer c.a.b (not compressed), 3-byte signature"),
    ("AAAA", 28, 1, names() + hdr(0x19, 0, 0, 28, 1, 1), "quick", "AAAA, address symbolic"),
    ("SRV", 33, 1, names(qname="_s._t.b", owner="_s._t.b", n1="h.b") + hdr(0x19, 0, 0, 33, 1, 1), "quick",
     "SRV, three u16 symbolic, target h.b (not compressed)"),
    ("NAPTR", 35, 1, names(n1="r.b") + ["-DS1=" + q("u"), "-DS2=" + q("sv"), "-DS3=" + q("")] + hdr(0x19, 0, 0, 35, 1, 1),
     "quick", "NAPTR, flags/services/regexp character-strings, replacement r.b"),
    ("NAPTR_re", 35, 1, names(n1="") + ["-DS1=" + q(""), "-DS2=" + q(""), "-DS3=" + q("!a!b!")] + hdr(0x19, 0, 0, 35, 1, 1),
     "thorough", "NAPTR with regexp and root replacement"),
    ("OPT0", 41, 3, names(owner="") + ["-DNOPT=0"] + hdr(0x08, 0, 0, 1, 1, 1), "quick", "query with an empty OPT RR"),
    ("OPT1", 41, 3, names(owner="") + ["-DNOPT=1", "-DOL0=3"] + hdr(0x19, 0, 23, 1, 1, 1), "quick",
     "OPT with one option (code symbolic, 3 symbolic bytes), extended rcode BADCOOKIE"),
    ("OPT2", 41, 3, names(owner="") + ["-DNOPT=2", "-DOL0=0", "-DOL1=2"] + hdr(0x19, 0, 16, 1, 1, 1), "quick",
     "OPT with two options (codes 10 and 3, lengths 0 and 2, bytes symbolic), extended rcode BADSIG"),
    ("TLSA", 52, 1, names(qname="_4._t.b", owner="_4._t.b") + ["-DBL=4"] + hdr(0x19, 0, 0, 52, 1, 1), "quick",
     "TLSA, three u8 symbolic, 4 data bytes"),
    ("SVCB0", 64, 1, names(n1="") + ["-DNOPT=0"] + hdr(0x19, 0, 0, 64, 1, 1), "thorough", "SVCB alias form: root target, no params"),
    ("SVCB1", 64, 1, names(n1="s.b") + ["-DNOPT=1", "-DOL0=2"] + hdr(0x19, 0, 0, 64, 1, 1), "quick",
     "SVCB, target s.b, one param (key symbolic, 2 bytes)"),
    ("HTTPS2", 65, 1, names(n1="a.b") + ["-DNOPT=2", "-DOL0=3", "-DOL1=0"] + hdr(0x19, 0, 0, 65, 1, 1), "quick",
     "HTTPS, target a.b, two params (keys 10 and 3: descending, lengths 3 and 0, bytes symbolic)"),
    ("URI", 256, 1, names() + ["-DS1=" + q("ftp://x/")] + hdr(0x19, 0, 0, 256, 1, 1), "quick", "URI, priority/weight symbolic"),
    ("CAA", 257, 1, names() + ["-DS1=" + q("issue"), "-DBL=4"] + hdr(0x19, 0, 0, 257, 1, 1), "quick",
     "CAA, flags symbolic, tag issue, 4 value bytes symbolic"),
    ("RAW", RAW, 1, names() + ["-DRAWT=99", "-DBL=3"] + hdr(0x19, 0, 0, 99, 1, 7), "quick",
     "RAW_RR of wire type 99 with 3 symbolic bytes, class 7"),
    ("RAW_empty", RAW, 2, names() + ["-DRAWT=65280", "-DBL=0"] + hdr(0x19, 0, 0, 65280, 1, 1), "quick",
     "RAW_RR of wire type 65280 with EMPTY RDATA (design #11)"),
    ("noquestion", 1, 1, names() + ["-DNOQ"] + hdr(), "quick", "record without question"),
    # fields that cannot be expressed on the wire: the writer must refuse (nothing to parse back)
    ("nowrite_TXT_nochunk", 16, 1, names() + ["-DTXTN=0", "-DEXPECT_WRITE_FAIL"] + hdr(), "quick", "TXT without any character-string"),
    ("nowrite_TLSA_nodata", 52, 1, names() + ["-DBL=0", "-DEXPECT_WRITE_FAIL"] + hdr(), "quick", "TLSA with empty data"),
    ("nowrite_SIG_nosig", 24, 1, names(n1="s.b") + ["-DBL=0", "-DEXPECT_WRITE_FAIL"] + hdr(), "thorough", "SIG with empty signature"),
    ("nowrite_URI_notarget", 256, 1, names() + ["-DS1=" + q(""), "-DEXPECT_WRITE_FAIL"] + hdr(), "thorough", "URI with empty target"),
    ("nowrite_badname", 2, 1, names(n1="a..b") + ["-DEXPECT_WRITE_FAIL"] + hdr(), "quick", "NS whose NSDNAME has an empty label"),
    # writer more permissive than parser
    ("asym_HINFO_nonprint", 13, 1, names() + ["-DS1=" + q("\\001"), "-DS2=" + q("x"), "-DASYM"] + hdr(0x19, 0, 0, 13, 1, 1), "quick",
     "HINFO whose CPU string holds the octet 0x01"),
    ("asym_CAA_emptytag", 257, 1, names() + ["-DS1=" + q(""), "-DBL=2", "-DASYM"] + hdr(0x19, 0, 0, 257, 1, 1), "quick",
     "CAA with an empty tag"),
    ("asym_URI_nonprint", 256, 1, names() + ["-DS1=" + q("a\\177"), "-DASYM"] + hdr(0x19, 0, 0, 256, 1, 1), "quick",
     "URI whose target holds the octet 0x7F"),
]


def rr_jobs(tier):
    J = []
    for nm, rtype, sect, extra, t, txt in RR_SHAPES:
        if tier == "quick" and t != "quick":
            continue
        wit = ["end", "roundtrip"]
        if "-DEXPECT_WRITE_FAIL" in extra:
            wit = ["end", "write refused"]
        if "-DNOQ" in extra:
            wit = ["end", "noq refused"]
        if "-DASYM" in extra:
            wit = ["end"]
        J.append(dict(name="rr_roundtrip_%s" % nm, harness="rr_roundtrip.c", **({"kf_group": "rr_roundtrip_asym"} if "-DASYM" in extra else {}),
                      defines=["-DRTYPE=%d" % rtype, "-DSECT=%d" % sect] + extra,
                      real=LIB, support=SUP, unwind=140, leak=True, witnesses=wit,
                      bound="public-API record (id/flags/opcode/rcode/qtype/qclass/class/ttl symbolic; 1 question + 1 RR in "
                            "section %d): %s; write -> parse -> all keys equal -> write -> same bytes" % (sect, txt)))
    return J


def chunks(L, n):
    return [L[i:i + n] for i in range(0, len(L), n)]


def hdr_jobs(tier):
    J = []
    flags = [0, 1, 2, 4, 8, 16, 32, 64, 127, 0x55, 0x2A, 0x19] if tier == "quick" else list(range(128))
    for c in chunks(flags, 4):
        J.append(dict(name="hdr_roundtrip_flags_%s" % "_".join(map(str, c)), harness="hdr_roundtrip.c",
                      defines=["-DMODE=0", "-DLIST=" + ",".join(map(str, c))], real=LIB, support=SUP, unwind=140,
                      leak=True, bound="question-only record, id symbolic, flags values %s: wire bit positions, write -> parse "
                      "-> equal -> write -> same bytes" % c))
    ops = [0, 1, 2, 4, 5]
    pairs = [(o, 0) for o in ops] + [(0, r) for r in range(1, 12)]
    if tier != "quick":
        pairs = [(o, r) for o in ops for r in range(12)]
    for k, c in enumerate(chunks(pairs, 4)):
        J.append(dict(name="hdr_roundtrip_opcode_rcode_%d" % k, harness="hdr_roundtrip.c",
                      defines=["-DMODE=1", "-DLIST=" + ",".join("{%d,%d}" % x for x in c)], real=LIB, support=SUP,
                      unwind=140, leak=True, bound="question-only record, id symbolic, (opcode, rcode) pairs %s" % c))
    for c in chunks(list(range(16, 24)), 2):
        J.append(dict(name="hdr_roundtrip_ext_rcode_%s" % "_".join(map(str, c)), harness="hdr_roundtrip.c",
                      defines=["-DMODE=2", "-DLIST=" + ",".join(map(str, c))], real=LIB, support=SUP,
                      unwind=140, leak=True, bound="extended rcodes %s with an OPT RR (udp size/version/flags symbolic) and "
                      "without one (documented: written as SERVFAIL)" % c))
    return J


# (suffix, RTYPE, section, defines, tier, text)
FRAME_SHAPES = [
    ("CNAME", 5, 1, names(owner="a.b", n1="c.a.b") + hdr(0x19, 0, 0, 5, 1, 1), "quick",
     "Q a.b; CNAME a.b -> c.a.b (owner = pointer, target = label + pointer)"),
    ("NS", 2, 2, names(owner="c.a.b", n1="a.b") + hdr(0x03, 0, 0, 2, 1, 1), "quick",
     "Q a.b; NS c.a.b -> a.b in AUTHORITY (owner label + pointer, target pure pointer)"),
    ("MX", 15, 1, names(owner="a.b", n1="c.a.b") + hdr(0x19, 0, 0, 15, 1, 1), "quick", "Q a.b; MX a.b -> pref, c.a.b"),
    ("PTR", 12, 1, names(qname="1.in", owner="1.in", n1="h.in") + hdr(0x19, 0, 0, 12, 1, 1), "thorough",
     "Q 1.in; PTR 1.in -> h.in (no shared whole name: only the owner is a pointer)"),
    ("SOA", 6, 2, names(owner="a.b", n1="c.a.b", n2="d.c.a.b") + hdr(0x03, 0, 3, 6, 1, 1), "quick",
     "Q a.b; SOA a.b: MNAME c.a.b, RNAME d.c.a.b (pointer to a name first written inside RDATA)"),
    ("A_nocomp", 1, 1, names(qname="a.b", owner="x.y") + hdr(0x19, 0, 0, 1, 1, 1), "quick",
     "Q a.b; A x.y (control: no compression pointer at all)"),
]


def frame_jobs(tier):
    J = []
    for nm, rtype, sect, extra, t, txt in FRAME_SHAPES:
        for P in (0, 1, 2, 5):
            if tier == "quick" and (t != "quick" or (nm not in ("CNAME", "SOA") and P not in (0, 5))):
                continue
            wit = ["end", "framed equal"]
            J.append(dict(name="framing_placement_%s_P%d" % (nm, P), harness="framing_placement.c", kf_group="framing_placement",
                          defines=["-DRTYPE=%d" % rtype, "-DSECT=%d" % sect, "-DP=%d" % P] + extra,
                          real=LIB, support=SUP, unwind=140, leak=True, witnesses=wit,
                          bound="%s; ares_dns_write_buf_tcp() into a buffer already holding %d symbolic bytes vs "
                                "ares_dns_write(); values symbolic" % (txt, P)))
    for P in (0, 2) if tier == "quick" else (0, 1, 2, 5):
        J.append(dict(name="framing_placement_fail_P%d" % P, harness="framing_placement.c",
                      defines=["-DRTYPE=5", "-DSECT=1", "-DP=%d" % P, "-DFAILRR"] + names(owner="a.b", n1="c.a.b") + hdr(0x19, 0, 0, 5, 1, 1),
                      real=LIB, support=SUP, unwind=140, leak=True, witnesses=["end", "restored"],
                      bound="record whose second RR (TXT without strings) cannot be serialised: both writers fail, the "
                            "buffer keeps exactly its %d earlier bytes" % P))
    return J


NAME_LIB = BASE
# (suffix, NE, EN0, EN1, CN, witnesses, tier)
NW_SHAPES = [
    ("suffix", 1, "a.b", "b", "c.a.b", ["pointer"], "quick"),
    ("exact", 1, "a.b", "b", "a.b", ["pointer"], "quick"),
    ("nolabelboundary", 1, "a.b", "b", "xa.b", ["full"], "quick"),
    ("unrelated", 1, "a.b", "b", "c.d", ["full"], "thorough"),
    ("longest_of_two", 2, "b", "a.b", "c.a.b", ["pointer"], "quick"),
    ("two_one_matches", 2, "x.y", "a.b", "a.b", ["pointer"], "thorough"),
]


NW_IDX = [0, 12, 16383, 16384, 16385, 32780, 65535, 70000]


def nw_jobs(tier):
    J = []
    for nm, ne, e0, e1, cn, wit, t in NW_SHAPES:
        if tier == "quick" and t != "quick":
            continue
        base = ["-DNE=%d" % ne, "-DEN0=" + q(e0), "-DEN1=" + q(e1), "-DCN=" + q(cn), "-DP0=12"]
        J.append(dict(name="name_find_offsets_%s" % nm, harness="name_write_offsets.c", kf_group="name_write_offsets",
                      defines=base + ["-DMODE=0"], real=NAME_LIB, support=SUP, unwind=40, leak=True,
                      witnesses=["end"] + (["pointer", "full"] if wit == ["pointer"] else ["full"]),
                      bound="ares_nameoffset_find(%s) on a name-offset list holding %s at SYMBOLIC offsets 0..70000"
                            % (cn, [e0, e1][:ne])))
        if ne == 1:
            pairs = [(i, 0) for i in (NW_IDX if (nm == "suffix" or tier != "quick") else [12, 16383, 16384, 70000])]
        else:
            pairs = [(12, 20), (16384, 20), (12, 16384), (16390, 16384)]
            if tier != "quick":
                pairs += [(16383, 16383), (65535, 0), (0, 65535), (70000, 70000)]
        for i0, i1 in pairs:
            def matches(e):
                return cn == e or cn.endswith("." + e)
            fits = any(matches(e) and i <= 0x3FFF for e, i in list(zip([e0, e1], [i0, i1]))[:ne])
            w = ["end"] + (["pointer"] if (wit == ["pointer"] and fits) else [])
            J.append(dict(name="name_write_offsets_%s_%d_%d" % (nm, i0, i1), harness="name_write_offsets.c",
                          kf_group="name_write_offsets",
                          defines=base + ["-DMODE=1", "-DI0=%d" % i0, "-DI1=%d" % i1], real=NAME_LIB, support=SUP, unwind=40,
                          leak=True, witnesses=w,
                          bound="ares_dns_name_write(%s) with a name-offset list holding %s at offsets %s, 12 earlier buffer "
                                "bytes symbolic" % (cn, [e0, e1][:ne], [i0, i1][:ne])))
    return J


ESC_LIB = BASE + ["src/lib/record/ares_dns_name.c"]


def c_lit(t):
    return '"' + t.replace("\\", "\\\\").replace('"', '\\"') + '"'


# (job suffix, texts, canonical?, hostname, expected witness, tier)
BS = "\\"
ESC_SETS = [
    ("plain", ["a", "ab.c", "x-1_/*.y", "a.b.c.d"], True, 0, "roundtrip", "quick"),
    ("plain_host", ["a", "ab.c", "x-1_/*.y"], True, 1, "roundtrip", "quick"),
    ("reserved", [BS + ".", "a" + BS + ".b.c", BS + '"' + BS + ";" + BS + BS, BS + "(" + BS + ")" + BS + "@" + BS + "$.x"], True, 0,
     "roundtrip", "quick"),
    ("decimal", [BS + "000", BS + "001a", "a" + BS + "031" + BS + "127", BS + "128" + BS + "255." + BS + "009"], True, 0, "roundtrip",
     "quick"),
    ("other_printable", ["a b", "!#%&'+,:<=>?[]^`{|}~", "a=b.c d"], True, 0, "roundtrip", "quick"),
    ("noncanonical", [BS + "065", BS + "046", BS + "a" + BS + "-", BS + "032x", "a.b."], False, 0, "roundtrip", "quick"),
    ("root", ["", "."], False, 0, "roundtrip", "quick"),
    ("bad_escape", [BS + "256", BS + "1a", BS + "12", "a" + BS, BS + "999"], False, 0, "refused", "quick"),
    ("bad_labels", ["a..b", ".a", "..", "a." + "x" * 64], False, 0, "refused", "quick"),
    ("host_refused", ["a b", BS + "000", "a" + BS + ";b", "a=b"], False, 1, "refused", "quick"),
    ("host_dot", ["a" + BS + ".b", BS + "046"], False, 1, "roundtrip", "thorough"),
    ("label63", ["x" * 63 + ".y", BS + "000" * 1 + "y" * 62], False, 0, "roundtrip", "thorough"),
]


def esc_jobs(tier):
    J = []
    for nm, texts, canon, hn, wit, t in ESC_SETS:
        if tier == "quick" and t != "quick":
            continue
        d = ["-DTEXTS=" + ",".join(c_lit(x) for x in texts), "-DHOSTNAME=%d" % hn] + (["-DCANON"] if canon else [])
        J.append(dict(name="escapes_%s" % nm, harness="escapes.c", defines=d, real=ESC_LIB, support=SUP,
                      unwind=170, leak=True, witnesses=["end", wit],
                      bound="presentation texts %s, validate_hostname=%d: ares_dns_name_write -> expected wire (reference "
                            "un-escaper) -> ares_dns_name_parse -> canonical text (reference escaper) -> write again -> same "
                            "wire; 3 earlier buffer bytes symbolic" % (texts, hn)))
    return J


LEG_LIB = LIB + ["src/lib/legacy/ares_create_query.c", "src/lib/ares_getnameinfo.c"]
OKS, EFORM, ENOTF, EBADN = "ARES_SUCCESS", "ARES_EFORMERR", "ARES_ENOTFOUND", "ARES_EBADNAME"
# (name C literal, class, type, rd, udp, expected status, wire size of name, name as parsed back)
LEG_SETS = [
    ("plain", [("a.b", 1, 1, 1, 0, OKS, 5, "a.b"), ("a.b", 1, 28, 0, 0, OKS, 5, "a.b"), ("a.b", 255, 255, 2, 0, OKS, 5, "a.b")],
     ["plain"], "quick"),
    ("edns", [("a.b", 1, 1, 1, 1232, OKS, 5, "a.b"), ("a.b", 3, 16, 0, 65535, OKS, 5, "a.b"), ("a.b", 1, 33, 1, 1, OKS, 5, "a.b")],
     ["edns"], "quick"),
    ("names", [("", 1, 2, 1, 0, OKS, 1, ""), (".", 1, 2, 1, 512, OKS, 1, ""), ("a.b.", 1, 1, 1, 0, OKS, 5, "a.b"),
               ("x\\.y.z", 4, 12, 1, 0, OKS, 7, "x\\.y.z")], ["plain", "edns"], "quick"),
    ("types", [("a", 1, 0, 1, 0, OKS, 3, "a"), ("a", 1, 65535, 1, 0, OKS, 3, "a"), ("a", 254, 99, 1, 4096, OKS, 3, "a")],
     ["plain", "edns"], "quick"),
    ("refused_args", [("a.b", 2, 1, 1, 0, EFORM, 0, ""), ("a.b", 1, 65536, 1, 0, EFORM, 0, ""), ("a.b", 1, 1, 1, 65536, EFORM, 0, ""),
                      ("a.b", 1, 1, 1, -1, EFORM, 0, ""), ("a.b", 0, 1, 1, 0, EFORM, 0, "")], ["refused"], "quick"),
    ("refused_names", [("a..b", 1, 1, 1, 0, EBADN, 0, ""), ("x.onion", 1, 1, 1, 0, ENOTF, 0, ""), ("x.ONION.", 1, 1, 1, 1232, ENOTF, 0, ""),
                       ("a b", 1, 1, 1, 0, EBADN, 0, "")], ["refused"], "quick"),
]


def leg_jobs(tier):
    J = []
    for nm, cases, wit, t in LEG_SETS:
        if tier == "quick" and t != "quick":
            continue
        cs = ",".join('{"%s",%d,%d,%d,%d,%s,%d,"%s"}' % c for c in cases)
        J.append(dict(name="legacy_builders_%s" % nm, harness="legacy_builders.c", defines=["-DCASES=" + cs], real=LEG_LIB,
                      support=SUP, unwind=140, leak=True, witnesses=["end"] + wit,
                      bound="ares_create_query/ares_mkquery with id symbolic and (name, class, type, rd, udp size) in %s: "
                            "status, size, parse-back of question/flags/EDNS" % [c[:5] for c in cases]))
    return J


CB_LIB = LIB + ["src/lib/ares_search.c"]


def cb_jobs(tier):
    J = []
    shapes = [("CNAME", 5, names(owner="a.b", n1="c.a.b") + hdr(0x19, 0, 0, 5, 1, 1)),
              ("OPT1", 41, names(owner="") + ["-DSECT=3", "-DNOPT=1", "-DOL0=3"] + hdr(0x19, 0, 23, 1, 1, 1))]
    for nm, rtype, extra in shapes:
        J.append(dict(name="convert_cb_%s" % nm, harness="convert_cb.c", defines=["-DCASE=0", "-DRTYPE=%d" % rtype] + extra,
                      real=CB_LIB, support=SUP, unwind=140, leak=True, witnesses=["end", "bytes"],
                      bound="ares_dnsrec_convert_cb on a public-API record (1 question + 1 %s RR, values symbolic), status "
                            "and timeouts symbolic: bytes == ares_dns_write(record)" % nm))
    J.append(dict(name="convert_cb_norecord", harness="convert_cb.c", defines=["-DCASE=1"], real=CB_LIB, support=SUP, unwind=140,
                  leak=True, witnesses=["end", "norecord"], bound="ares_dnsrec_convert_cb with dnsrec == NULL, any status"))
    J.append(dict(name="convert_cb_writefail", harness="convert_cb.c",
                  defines=["-DCASE=2", "-DRTYPE=1"] + names() + hdr(), real=CB_LIB, support=SUP, unwind=140,
                  leak=True, witnesses=["end", "writefail"], bound="ares_dnsrec_convert_cb with a record that cannot be serialised"))
    return J


def jobs(tier, seed):
    J = all_jobs(tier, seed)
    for j in J:
        j.setdefault("mem_gb", 6)
    return J


def cached_record_jobs(tier):
    """'For any DNS record obtained from the parser ...': the records applications actually receive are often handed out by
    the query cache, which marks them with the time they spent cached (ttl_decrement).  What the getters report for
    such a record and what ares_dns_write() puts on the wire must agree (written TTL = reported TTL = original minus
    the time cached, floored at 0), so that the serialised form parses back field by field.  That obligation is
    C08's ttl_view.c; it is run here too."""
    import importlib.util
    p08 = os.path.join(os.path.dirname(os.path.abspath(__file__)), "..", "C08", "jobs.py")
    spec = importlib.util.spec_from_file_location("jobs_C08_reuse03", p08)
    m08 = importlib.util.module_from_spec(spec); spec.loader.exec_module(m08)
    out = []
    for j in m08.jobs(tier, 0):
        if j.get("harness") == "ttl_view.c" and j["name"] == "c08_ttl":
            j = dict(j); j["harness"] = "../C08/" + j["harness"]
            out.append(j)
    return out


def all_jobs(tier, seed):
    J = []
    J += cached_record_jobs(tier)
    J += cb_jobs(tier)
    J += leg_jobs(tier)
    J += esc_jobs(tier)
    J += nw_jobs(tier)
    J += frame_jobs(tier)
    J += rr_jobs(tier)
    J += hdr_jobs(tier)
    return J
