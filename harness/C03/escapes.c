/* C03.4 names with escapes round trip:
 *   presentation text T --ares_dns_name_write()--> wire labels W --ares_dns_name_parse()--> canonical text of W
 * The texts are CONCRETE per job (-DTEXTS="..","..": measured - any symbolic character in the text makes strlen(), the
 * label split and every buffer length symbolic and the writer does not close, even for one character; the wire -> text
 * direction with symbolic bytes per escape class is C02's name_shape_* family).  For each text the harness computes,
 * with its own reference un-escaper/escaper written from RFC 1035 5.1 (\DDD = octet with that decimal value, \c = c,
 * '.' separates labels; non-printable -> \DDD, the characters " . ; \ ( ) @ $ -> \c), the expected wire form W, the
 * expected verdict (bad escape, octet > 255, empty label, label > 63 octets => refused; with -DHOSTNAME=1 also any octet
 * outside [A-Za-z0-9-_/*.]) and the canonical text C of W, then checks:
 *   1. ares_dns_name_write(buf holding PRE symbolic bytes, no compression list, validate_hostname, T): verdict as
 *      expected; on success exactly W is appended; on refusal nothing is appended; earlier bytes untouched
 *   2. ares_dns_name_parse(exact-size copy of W, is_hostname=0) succeeds, consumes exactly W, returns exactly C
 *      (and C == T when T is already canonical: -DCANON)
 *   3. writing C again yields W again (text -> wire -> text -> wire is stable) */
#include "vp.h"
#include "ares_private.h"

#ifndef TEXTS
#  define TEXTS "a\\.b.c"
#endif
#ifndef HOSTNAME
#  define HOSTNAME 0
#endif
#define PRE  3
#define MAXW 80
#define MAXT 160

static int is_digit(char c) { return c >= '0' && c <= '9'; }
static int is_host(unsigned char c)
{
  return (c >= 'a' && c <= 'z') || (c >= 'A' && c <= 'Z') || (c >= '0' && c <= '9') || c == '-' || c == '_' || c == '/' ||
         c == '*' || c == '.';
}
static int is_reserved(unsigned char c)
{
  return c == '"' || c == '.' || c == ';' || c == '\\' || c == '(' || c == ')' || c == '@' || c == '$';
}

/* reference: text -> wire; returns 0 when the text is not a valid name */
static int ref_unescape(const char *t, unsigned char *w, size_t *wl, int hostname)
{
  size_t i = 0, n = 0, lenpos = 0, nlabels = 0;
  w[n++] = 0;
  while (t[i] != 0) {
    unsigned v;
    if (t[i] == '.') {
      if (w[lenpos] == 0) {
        /* empty label: only a single trailing dot (or the root ".") is allowed */
        if (t[i + 1] != 0 || (i != 0 && t[i - 1] == '.' ))
          return 0;
        if (i == 0 && t[1] != 0)
          return 0;
        i++;
        continue;
      }
      if (t[i + 1] == 0) { /* trailing dot */
        i++;
        continue;
      }
      nlabels++;
      lenpos = n;
      w[n++] = 0;
      i++;
      continue;
    }
    if (t[i] == '\\') {
      i++;
      if (t[i] == 0)
        return 0;
      if (is_digit(t[i])) {
        if (!is_digit(t[i + 1]) || !is_digit(t[i + 2]))
          return 0;
        v = (unsigned)(t[i] - '0') * 100 + (unsigned)(t[i + 1] - '0') * 10 + (unsigned)(t[i + 2] - '0');
        if (v > 255)
          return 0;
        i += 3;
      } else {
        v = (unsigned char)t[i];
        i++;
      }
    } else {
      v = (unsigned char)t[i];
      i++;
    }
    if (hostname && !is_host((unsigned char)v))
      return 0;
    if (w[lenpos] == 63 || n + 2 > MAXW)
      return 0;
    w[n++] = (unsigned char)v;
    w[lenpos]++;
  }
  if (w[lenpos] != 0)
    w[n++] = 0;
  else if (n == 1)
    ; /* root: the single zero octet is already there */
  *wl = n;
  (void)nlabels;
  return 1;
}

/* reference: wire (uncompressed) -> canonical text */
static void ref_escape(const unsigned char *w, char *t)
{
  size_t i = 0, n = 0, k;
  while (w[i] != 0) {
    unsigned len = w[i++];
    if (n != 0)
      t[n++] = '.';
    for (k = 0; k < len; k++) {
      unsigned char c = w[i++];
      if (c < 0x20 || c > 0x7E) {
        t[n++] = '\\';
        t[n++] = (char)('0' + c / 100);
        t[n++] = (char)('0' + (c / 10) % 10);
        t[n++] = (char)('0' + c % 10);
      } else {
        if (is_reserved(c))
          t[n++] = '\\';
        t[n++] = (char)c;
      }
    }
  }
  t[n] = 0;
}

static void one(const char *text)
{
  unsigned char        wire[MAXW], prior[PRE];
  char                 canon[MAXT];
  size_t               wl = 0, outl = 0, i;
  ares_buf_t          *buf, *rd;
  const unsigned char *out;
  char                *parsed = NULL;
  unsigned char       *w;
  ares_status_t        st;
  int                  valid = ref_unescape(text, wire, &wl, HOSTNAME);

  buf = ares_buf_create();
  VP_ASSUME(buf != NULL);
  vp_bytes(prior, PRE);
  VP_ASSUME(ares_buf_append(buf, prior, PRE) == ARES_SUCCESS);
  st  = ares_dns_name_write(buf, NULL, HOSTNAME ? ARES_TRUE : ARES_FALSE, text);
  out = ares_buf_peek(buf, &outl);
  for (i = 0; i < PRE; i++)
    VP_ASSERT(out[i] == prior[i], "earlier buffer content untouched");
  if (!valid) {
    VP_ASSERT(st == ARES_EBADNAME, "an invalid presentation name is refused with EBADNAME");
    VP_ASSERT(outl == PRE, "a refused name leaves nothing in the output buffer");
    VP_WITNESS("refused");
    ares_buf_destroy(buf);
    return;
  }
  VP_ASSERT(st == ARES_SUCCESS, "a valid (escaped) presentation name is accepted by the writer");
  VP_ASSERT(outl == PRE + wl, "the writer emits exactly the name's wire size");
  for (i = 0; i < wl; i++)
    VP_ASSERT(out[PRE + i] == wire[i], "text -> wire: length octets, un-escaped label octets, terminating zero");

  w = vp_malloc(wl);
  for (i = 0; i < wl; i++)
    w[i] = wire[i];
  rd = ares_buf_create_const(w, wl);
  VP_ASSUME(rd != NULL);
  st = ares_dns_name_parse(rd, &parsed, ARES_FALSE);
  VP_ASSERT(st == ARES_SUCCESS && parsed != NULL, "the wire name parses");
  VP_ASSERT(ares_buf_get_position(rd) == wl, "the parser consumes exactly the name");
  ref_escape(wire, canon);
  for (i = 0; i < MAXT; i++) {
    VP_ASSERT(parsed[i] == canon[i], "wire -> text: the parser returns the canonical escaped text");
#ifdef CANON
    VP_ASSERT(parsed[i] == text[i], "a canonical text comes back unchanged");
#endif
    if (canon[i] == 0)
      break;
  }
  /* and the canonical text writes to the same wire form */
  ares_buf_set_length(buf, PRE);
  st  = ares_dns_name_write(buf, NULL, HOSTNAME ? ARES_TRUE : ARES_FALSE, parsed);
  out = ares_buf_peek(buf, &outl);
  VP_ASSERT(st == ARES_SUCCESS && outl == PRE + wl, "the canonical text is accepted and has the same wire size");
  for (i = 0; i < wl; i++)
    VP_ASSERT(out[PRE + i] == wire[i], "text -> wire -> text -> wire is stable");
  VP_WITNESS("roundtrip");
  ares_free(parsed);
  ares_buf_destroy(rd);
  ares_buf_destroy(buf);
  vp_free(w);
}

void harness(void)
{
  static const char *texts[] = { TEXTS };
  size_t             i;
  vp_alloc_install();
  for (i = 0; i < sizeof(texts) / sizeof(*texts); i++)
    one(texts[i]);
  VP_WITNESS("end");
}
