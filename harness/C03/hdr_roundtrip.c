/* C03.1b header round trip: the header values that the public constructors VALIDATE (flags, opcode, rcode) cannot be
 * symbolic in the record-level harness (a symbolic verdict of ares_dns_record_create() makes every later allocation
 * symbolic), so every legal value is driven here, one after the other, in a question-only record (plus an OPT RR for
 * the extended rcodes):
 *   -DMODE=0 -DLIST=f1,f2,.. : the listed flags values (7 bits: QR AA TC RD RA AD CD), opcode QUERY, rcode NOERROR
 *   -DMODE=1 -DLIST={o,r},.. : the listed (opcode, non-extended rcode) pairs, flags = QR|RD
 *   -DMODE=2 -DLIST=r1,r2,.. : the listed extended rcodes (16..23) with an OPT RR (version, flags, udp size symbolic)
 *                              and WITHOUT an OPT RR: documented to go out as SERVFAIL
 * (a few values per job: the symbolic executor's cost is per record built; jobs.py enumerates all values)
 * id symbolic throughout.  Each record: write -> parse -> header/question equal -> write -> same bytes -> destroyed. */
#define MAXSTR 8
#include "c03_common.h"

#ifndef MODE
#  define MODE 0
#endif
#ifndef LIST
#  define LIST 0, 127
#endif

static void one(unsigned short flags, ares_dns_opcode_t opcode, ares_dns_rcode_t rcode, int with_opt, int expect_servfail)
{
  ares_dns_record_t *rec = NULL, *rec2 = NULL;
  ares_dns_rr_t     *rr  = NULL;
  unsigned char     *m1 = NULL, *m2 = NULL;
  size_t             l1 = 0, l2 = 0;
  ares_status_t      st;
  unsigned short     id = vp_u16();
  unsigned short     w;

  st = ares_dns_record_create(&rec, id, flags, opcode, rcode);
  VP_ASSERT(st == ARES_SUCCESS && rec != NULL, "every legal flags/opcode/rcode value is accepted");
  st = ares_dns_record_query_add(rec, "a", ARES_REC_TYPE_A, ARES_CLASS_IN);
  VP_ASSERT(st == ARES_SUCCESS, "question added");
  if (with_opt) {
    st = ares_dns_record_rr_add(&rr, rec, ARES_SECTION_ADDITIONAL, "", ARES_REC_TYPE_OPT, ARES_CLASS_IN, 0);
    VP_ASSERT(st == ARES_SUCCESS && rr != NULL, "OPT RR added");
    ares_dns_rr_set_u16(rr, ARES_RR_OPT_UDP_SIZE, vp_u16());
    ares_dns_rr_set_u8(rr, ARES_RR_OPT_VERSION, vp_u8());
    ares_dns_rr_set_u16(rr, ARES_RR_OPT_FLAGS, vp_u16());
  }
  st = ares_dns_write(rec, &m1, &l1);
  VP_ASSERT(st == ARES_SUCCESS && m1 != NULL && l1 == (with_opt ? 30u : 19u), "header + question (+ OPT) serialise to the expected size");
  /* the wire header itself (RFC 1035 4.1.1) */
  VP_ASSERT(m1[0] == (id >> 8) && m1[1] == (id & 0xFF), "ID big endian");
  w = (unsigned short)((m1[2] << 8) | m1[3]);
  VP_ASSERT(((w >> 15) & 1) == !!(flags & ARES_FLAG_QR) && ((w >> 10) & 1) == !!(flags & ARES_FLAG_AA) &&
              ((w >> 9) & 1) == !!(flags & ARES_FLAG_TC) && ((w >> 8) & 1) == !!(flags & ARES_FLAG_RD) &&
              ((w >> 7) & 1) == !!(flags & ARES_FLAG_RA) && ((w >> 6) & 1) == 0 && ((w >> 5) & 1) == !!(flags & ARES_FLAG_AD) &&
              ((w >> 4) & 1) == !!(flags & ARES_FLAG_CD),
            "flag bits at their RFC 1035/2535 positions, Z clear");
  VP_ASSERT(((w >> 11) & 0xF) == (unsigned)opcode, "opcode in bits 11-14");
  VP_ASSERT((w & 0xF) == (expect_servfail ? 2u : ((unsigned)rcode & 0xF)), "low 4 rcode bits in the header");
  VP_ASSERT(m1[4] == 0 && m1[5] == 1 && m1[6] == 0 && m1[7] == 0 && m1[8] == 0 && m1[9] == 0 && m1[10] == 0 &&
              m1[11] == (with_opt ? 1 : 0),
            "section counts");
  if (with_opt)
    VP_ASSERT(m1[19] == 0 && m1[20] == 0 && m1[21] == 41 && m1[24] == ((unsigned)rcode >> 4), "OPT: root owner, type 41, extended rcode in TTL bits 24-31");

  st = ares_dns_parse(m1, l1, 0, &rec2);
  VP_ASSERT(st == ARES_SUCCESS && rec2 != NULL, "what ares_dns_write() produced parses back");
  if (expect_servfail) {
    VP_ASSERT(ares_dns_record_get_rcode(rec2) == ARES_RCODE_SERVFAIL, "extended rcode without OPT RR is written as SERVFAIL (documented)");
    VP_ASSERT(ares_dns_record_get_id(rec2) == id && ares_dns_record_get_flags(rec2) == flags &&
                ares_dns_record_get_opcode(rec2) == opcode,
              "id, flags, opcode survive");
  } else {
    c03_cmp_record(rec, rec2);
  }
  st = ares_dns_write(rec2, &m2, &l2);
  VP_ASSERT(st == ARES_SUCCESS && m2 != NULL && l2 == l1 && c03_memeq(m1, m2, l1), "second serialisation is byte-identical");
  ares_free_string(m1);
  ares_free_string(m2);
  ares_dns_record_destroy(rec);
  ares_dns_record_destroy(rec2);
}

void harness(void)
{
  size_t i;
  vp_alloc_install();
#if MODE == 0
  static const unsigned short fl[] = { LIST };
  for (i = 0; i < sizeof(fl) / sizeof(*fl); i++)
    one(fl[i], ARES_OPCODE_QUERY, ARES_RCODE_NOERROR, 0, 0);
#elif MODE == 1
  static const struct {
    int o, r;
  } pr[] = { LIST };
  for (i = 0; i < sizeof(pr) / sizeof(*pr); i++)
    one(ARES_FLAG_QR | ARES_FLAG_RD, (ares_dns_opcode_t)pr[i].o, (ares_dns_rcode_t)pr[i].r, 0, 0);
#else
  static const int xr[] = { LIST };
  for (i = 0; i < sizeof(xr) / sizeof(*xr); i++) {
    one(ARES_FLAG_QR, ARES_OPCODE_QUERY, (ares_dns_rcode_t)xr[i], 1, 0);
    one(ARES_FLAG_QR, ARES_OPCODE_QUERY, (ares_dns_rcode_t)xr[i], 0, 1);
  }
#endif
  VP_WITNESS("end");
}
