/* C03 shared record builder: one question + one RR of concrete type RTYPE built through the PUBLIC API with symbolic
 * values.  Parameters (all concrete per job, see rr_roundtrip.c): RTYPE SECT QNAME OWNER N1 N2 S1 S2 S3 BL TXTN TL0..2
 * NOPT OL0 OL1 OC0 OC1 RAWT FLAGS OPCODE RCODE QTYPE QCLASS RCLASS. */
#ifndef C03_BUILD_H
#define C03_BUILD_H
#include "c03_common.h"
#include <string.h>

#ifndef RTYPE
#  define RTYPE 1
#endif
#ifndef SECT
#  define SECT 1
#endif
#ifndef QNAME
#  define QNAME "a.b"
#endif
#ifndef OWNER
#  define OWNER "a.b"
#endif
#ifndef N1
#  define N1 "c.a.b"
#endif
#ifndef N2
#  define N2 "d.b"
#endif
#ifndef S1
#  define S1 "x"
#endif
#ifndef S2
#  define S2 "yz"
#endif
#ifndef S3
#  define S3 ""
#endif
#ifndef BL
#  define BL 3
#endif
#ifndef TXTN
#  define TXTN 2
#endif
#ifndef TL0
#  define TL0 1
#endif
#ifndef TL1
#  define TL1 2
#endif
#ifndef TL2
#  define TL2 0
#endif
#ifndef NOPT
#  define NOPT 1
#endif
#ifndef OL0
#  define OL0 2
#endif
#ifndef OL1
#  define OL1 0
#endif
#ifndef RAWT
#  define RAWT 99
#endif
#ifndef FLAGS
#  define FLAGS (ARES_FLAG_QR | ARES_FLAG_RD | ARES_FLAG_RA)
#endif
#ifndef OPCODE
#  define OPCODE ARES_OPCODE_QUERY
#endif
#ifndef RCODE
#  define RCODE ARES_RCODE_NOERROR
#endif
#ifndef QTYPE
#  define QTYPE 255
#endif
#ifndef QCLASS
#  define QCLASS 1
#endif
#ifndef RCLASS
#  define RCLASS 1
#endif

#define OK(e) VP_ASSERT((e) == ARES_SUCCESS, "public setter accepts a valid value: " #e)

static void set_bin(ares_dns_rr_t *rr, ares_dns_rr_key_t key, size_t len)
{
  unsigned char tmp[BL + 1];
  vp_bytes(tmp, len);
  OK(ares_dns_rr_set_bin(rr, key, tmp, len));
}

static void add_txt(ares_dns_rr_t *rr, size_t len)
{
  unsigned char tmp[8];
  vp_bytes(tmp, len);
  OK(ares_dns_rr_add_abin(rr, ARES_RR_TXT_DATA, tmp, len));
}

/* option/param codes: symbolic when the RR has ONE option; with two options both codes are concrete (-DOC0 -DOC1,
 * distinct, deliberately not ascending): ares_dns_rr_set_opt() compares the new code with every stored one (the record
 * API is a map keyed by the code), a symbolic comparison there makes the option COUNT symbolic */
#ifndef OC0
#  define OC0 10
#endif
#ifndef OC1
#  define OC1 3
#endif
static void set_opts(ares_dns_rr_t *rr, ares_dns_rr_key_t key)
{
  static const size_t         ol[2] = { OL0, OL1 };
  static const unsigned short oc[2] = { OC0, OC1 };
  size_t                      i;
  for (i = 0; i < NOPT; i++) {
    unsigned char  tmp[8];
    unsigned short code = (NOPT == 1) ? vp_u16() : oc[i];
    vp_bytes(tmp, ol[i]);
    OK(ares_dns_rr_set_opt(rr, key, code, ol[i] ? tmp : NULL, ol[i]));
  }
}

static void build_rr(ares_dns_rr_t *rr)
{
#if RTYPE == 1
  struct in_addr a;
  vp_bytes((unsigned char *)&a, 4);
  OK(ares_dns_rr_set_addr(rr, ARES_RR_A_ADDR, &a));
#elif RTYPE == 2
  OK(ares_dns_rr_set_str(rr, ARES_RR_NS_NSDNAME, N1));
#elif RTYPE == 5
  OK(ares_dns_rr_set_str(rr, ARES_RR_CNAME_CNAME, N1));
#elif RTYPE == 6
  OK(ares_dns_rr_set_str(rr, ARES_RR_SOA_MNAME, N1));
  OK(ares_dns_rr_set_str(rr, ARES_RR_SOA_RNAME, N2));
  OK(ares_dns_rr_set_u32(rr, ARES_RR_SOA_SERIAL, vp_u32()));
  OK(ares_dns_rr_set_u32(rr, ARES_RR_SOA_REFRESH, vp_u32()));
  OK(ares_dns_rr_set_u32(rr, ARES_RR_SOA_RETRY, vp_u32()));
  OK(ares_dns_rr_set_u32(rr, ARES_RR_SOA_EXPIRE, vp_u32()));
  OK(ares_dns_rr_set_u32(rr, ARES_RR_SOA_MINIMUM, vp_u32()));
#elif RTYPE == 12
  OK(ares_dns_rr_set_str(rr, ARES_RR_PTR_DNAME, N1));
#elif RTYPE == 13
  OK(ares_dns_rr_set_str(rr, ARES_RR_HINFO_CPU, S1));
  OK(ares_dns_rr_set_str(rr, ARES_RR_HINFO_OS, S2));
#elif RTYPE == 15
  OK(ares_dns_rr_set_u16(rr, ARES_RR_MX_PREFERENCE, vp_u16()));
  OK(ares_dns_rr_set_str(rr, ARES_RR_MX_EXCHANGE, N1));
#elif RTYPE == 16
  static const size_t tl[3] = { TL0, TL1, TL2 };
  size_t              i;
  for (i = 0; i < TXTN; i++)
    add_txt(rr, tl[i]);
#elif RTYPE == 24
  OK(ares_dns_rr_set_u16(rr, ARES_RR_SIG_TYPE_COVERED, vp_u16()));
  OK(ares_dns_rr_set_u8(rr, ARES_RR_SIG_ALGORITHM, vp_u8()));
  OK(ares_dns_rr_set_u8(rr, ARES_RR_SIG_LABELS, vp_u8()));
  OK(ares_dns_rr_set_u32(rr, ARES_RR_SIG_ORIGINAL_TTL, vp_u32()));
  OK(ares_dns_rr_set_u32(rr, ARES_RR_SIG_EXPIRATION, vp_u32()));
  OK(ares_dns_rr_set_u32(rr, ARES_RR_SIG_INCEPTION, vp_u32()));
  OK(ares_dns_rr_set_u16(rr, ARES_RR_SIG_KEY_TAG, vp_u16()));
  OK(ares_dns_rr_set_str(rr, ARES_RR_SIG_SIGNERS_NAME, N1));
  set_bin(rr, ARES_RR_SIG_SIGNATURE, BL);
#elif RTYPE == 28
  struct ares_in6_addr a;
  vp_bytes((unsigned char *)&a, 16);
  OK(ares_dns_rr_set_addr6(rr, ARES_RR_AAAA_ADDR, &a));
#elif RTYPE == 33
  OK(ares_dns_rr_set_u16(rr, ARES_RR_SRV_PRIORITY, vp_u16()));
  OK(ares_dns_rr_set_u16(rr, ARES_RR_SRV_WEIGHT, vp_u16()));
  OK(ares_dns_rr_set_u16(rr, ARES_RR_SRV_PORT, vp_u16()));
  OK(ares_dns_rr_set_str(rr, ARES_RR_SRV_TARGET, N1));
#elif RTYPE == 35
  OK(ares_dns_rr_set_u16(rr, ARES_RR_NAPTR_ORDER, vp_u16()));
  OK(ares_dns_rr_set_u16(rr, ARES_RR_NAPTR_PREFERENCE, vp_u16()));
  OK(ares_dns_rr_set_str(rr, ARES_RR_NAPTR_FLAGS, S1));
  OK(ares_dns_rr_set_str(rr, ARES_RR_NAPTR_SERVICES, S2));
  OK(ares_dns_rr_set_str(rr, ARES_RR_NAPTR_REGEXP, S3));
  OK(ares_dns_rr_set_str(rr, ARES_RR_NAPTR_REPLACEMENT, N1));
#elif RTYPE == 41
  OK(ares_dns_rr_set_u16(rr, ARES_RR_OPT_UDP_SIZE, vp_u16()));
  OK(ares_dns_rr_set_u8(rr, ARES_RR_OPT_VERSION, vp_u8()));
  OK(ares_dns_rr_set_u16(rr, ARES_RR_OPT_FLAGS, vp_u16()));
  set_opts(rr, ARES_RR_OPT_OPTIONS);
#elif RTYPE == 52
  OK(ares_dns_rr_set_u8(rr, ARES_RR_TLSA_CERT_USAGE, vp_u8()));
  OK(ares_dns_rr_set_u8(rr, ARES_RR_TLSA_SELECTOR, vp_u8()));
  OK(ares_dns_rr_set_u8(rr, ARES_RR_TLSA_MATCH, vp_u8()));
  set_bin(rr, ARES_RR_TLSA_DATA, BL);
#elif RTYPE == 64
  OK(ares_dns_rr_set_u16(rr, ARES_RR_SVCB_PRIORITY, vp_u16()));
  OK(ares_dns_rr_set_str(rr, ARES_RR_SVCB_TARGET, N1));
  set_opts(rr, ARES_RR_SVCB_PARAMS);
#elif RTYPE == 65
  OK(ares_dns_rr_set_u16(rr, ARES_RR_HTTPS_PRIORITY, vp_u16()));
  OK(ares_dns_rr_set_str(rr, ARES_RR_HTTPS_TARGET, N1));
  set_opts(rr, ARES_RR_HTTPS_PARAMS);
#elif RTYPE == 256
  OK(ares_dns_rr_set_u16(rr, ARES_RR_URI_PRIORITY, vp_u16()));
  OK(ares_dns_rr_set_u16(rr, ARES_RR_URI_WEIGHT, vp_u16()));
  OK(ares_dns_rr_set_str(rr, ARES_RR_URI_TARGET, S1));
#elif RTYPE == 257
  OK(ares_dns_rr_set_u8(rr, ARES_RR_CAA_CRITICAL, vp_u8()));
  OK(ares_dns_rr_set_str(rr, ARES_RR_CAA_TAG, S1));
  set_bin(rr, ARES_RR_CAA_VALUE, BL);
#elif RTYPE == 65536
  OK(ares_dns_rr_set_u16(rr, ARES_RR_RAW_RR_TYPE, RAWT));
  set_bin(rr, ARES_RR_RAW_RR_DATA, BL);
#else
#  error "unsupported RTYPE"
#endif
}


/* record with id symbolic, the question (unless NOQ) and the RR; returns the RR through *rrp */
static ares_dns_record_t *c03_build_record(ares_dns_rr_t **rrp)
{
  ares_dns_record_t *rec = NULL;
  ares_dns_rr_t     *rr  = NULL;
  ares_status_t      st;
  unsigned short     id = vp_u16();

  st = ares_dns_record_create(&rec, id, FLAGS, (ares_dns_opcode_t)OPCODE, (ares_dns_rcode_t)RCODE);
  VP_ASSERT(st == ARES_SUCCESS && rec != NULL, "record created");
#ifndef NOQ
  st = ares_dns_record_query_add(rec, QNAME, (ares_dns_rec_type_t)QTYPE, (ares_dns_class_t)QCLASS);
  VP_ASSERT(st == ARES_SUCCESS, "question added");
#endif
#if RTYPE == 41
  /* OPT overloads CLASS and TTL (RFC 6891): the RR's own class/ttl are not carried; built as the library builds it */
  st = ares_dns_record_rr_add(&rr, rec, (ares_dns_section_t)SECT, OWNER, ARES_REC_TYPE_OPT, ARES_CLASS_IN, 0);
#else
  st = ares_dns_record_rr_add(&rr, rec, (ares_dns_section_t)SECT, OWNER, (ares_dns_rec_type_t)RTYPE, (ares_dns_class_t)RCLASS,
                              vp_u32());
#endif
  VP_ASSERT(st == ARES_SUCCESS && rr != NULL, "RR added");
  build_rr(rr);
  if (rrp != NULL)
    *rrp = rr;
  return rec;
}
#endif
