/* C03.6 ares_dnsrec_convert_cb(): the bytes handed to a legacy ares_callback equal ares_dns_write() of the record that
 * was delivered.  The adapter argument is created with the real ares_dnsrec_convert_arg(); the inner callback records
 * what it receives (and copies the buffer: it is only valid during the call).
 *   -DCASE=0  record built through the public API (c03_build.h parameters), status and timeouts SYMBOLIC
 *   -DCASE=1  no record (failure delivery): abuf NULL, alen 0, status passed through
 *   -DCASE=2  record that cannot be serialised (TXT RR without strings): the write error replaces the status, no bytes
 * Always: inner callback called exactly once with the user's arg, the timeouts count, nothing leaked. */
#define MAXSTR 24
#include "c03_build.h"
#include "ares_private.h"

#ifndef CASE
#  define CASE 0
#endif
#define MAXM 128

static int           g_calls, g_status, g_timeouts, g_alen, g_hadbuf;
static void         *g_arg;
static unsigned char g_copy[MAXM];

static void inner_cb(void *arg, int status, int timeouts, unsigned char *abuf, int alen)
{
  int i;
  g_calls++;
  g_arg      = arg;
  g_status   = status;
  g_timeouts = timeouts;
  g_alen     = alen;
  g_hadbuf   = abuf != NULL;
  if (abuf != NULL) {
    VP_BOUND(alen >= 0 && alen <= MAXM, "message fits the recorder");
    for (i = 0; i < alen; i++)
      g_copy[i] = abuf[i];
  }
}

void harness(void)
{
  ares_dns_record_t *rec = NULL;
  ares_dns_rr_t     *rr  = NULL;
  unsigned char     *m   = NULL;
  size_t             ml  = 0;
  static int         cookie;
  void              *carg;
  ares_status_t      st, in_status = (ares_status_t)vp_range(0, 26);
  size_t             timeouts = vp_range(0, 1000);

  vp_alloc_install();
#if CASE == 0
  rec = c03_build_record(&rr);
  st  = ares_dns_write(rec, &m, &ml);
  VP_ASSERT(st == ARES_SUCCESS && m != NULL && ml <= MAXM, "reference serialisation");
#elif CASE == 2
  rec = c03_build_record(&rr);
  st  = ares_dns_record_rr_add(&rr, rec, ARES_SECTION_ADDITIONAL, "z", ARES_REC_TYPE_TXT, ARES_CLASS_IN, 0);
  VP_ASSERT(st == ARES_SUCCESS, "unserialisable RR added");
  st = ares_dns_write(rec, &m, &ml);
  VP_ASSERT(st != ARES_SUCCESS && m == NULL, "reference serialisation fails");
#else
  (void)rr;
  st = ARES_SUCCESS;
#endif
  carg = ares_dnsrec_convert_arg(inner_cb, &cookie);
  VP_ASSUME(carg != NULL);

  ares_dnsrec_convert_cb(carg, in_status, timeouts, rec);

  VP_ASSERT(g_calls == 1, "the legacy callback is invoked exactly once");
  VP_ASSERT(g_arg == &cookie, "with the user's argument");
  VP_ASSERT(g_timeouts == (int)timeouts, "and the timeouts count");
#if CASE == 0
  VP_ASSERT(g_status == (int)in_status, "status passed through when the record serialises");
  VP_ASSERT(g_hadbuf && g_alen == (int)ml, "the callback receives a buffer of the serialised length");
  VP_ASSERT(c03_memeq(g_copy, m, ml), "the bytes handed to the legacy callback equal ares_dns_write() of the delivered record");
  VP_WITNESS("bytes");
#elif CASE == 1
  VP_ASSERT(g_status == (int)in_status && !g_hadbuf && g_alen == 0, "no record: status passed through, no buffer");
  VP_WITNESS("norecord");
#else
  VP_ASSERT(g_status == (int)st && !g_hadbuf && g_alen == 0, "unserialisable record: the write error is reported, no buffer");
  VP_WITNESS("writefail");
#endif
  ares_free_string(m);
  ares_dns_record_destroy(rec);
  VP_WITNESS("end");
}
