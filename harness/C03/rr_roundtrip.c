/* C03.1 record round trip (S2b): a record built through the PUBLIC API only
 *   ares_dns_record_create(id, flags, opcode, rcode: symbolic, valid) + ares_dns_record_query_add(QNAME, qtype symbolic,
 *   qclass symbolic) + ares_dns_record_rr_add(OWNER, type RTYPE, class symbolic, ttl symbolic) + ares_dns_rr_set_*()
 * -> ares_dns_write() -> length <= 65535 -> ares_dns_parse(flags 0) -> every header field, the question and EVERY key of
 * the RR equal through the public getters -> ares_dns_write() of the parsed record -> identical bytes -> everything
 * destroyed (leak check).
 *
 *   -DRTYPE=n        record type (concrete; 65536 = RAW_RR), -DSECT=1|2|3 section
 *   -DQNAME="a.b" -DOWNER="a.b"   question / owner names (concrete; sharing suffixes => compression pointers)
 *   -DN1="..." -DN2="..."         domain names inside RDATA (concrete)
 *   -DS1 -DS2 -DS3                character-strings (concrete text: their length decides the output length)
 *   -DBL=n                        length of the binary field (bytes symbolic)
 *   -DTXTN=n -DTL0 -DTL1 -DTL2    TXT: number of chunks and their lengths (bytes symbolic)
 *   -DNOPT=n -DOL0 -DOL1          OPT/SVCB/HTTPS: number of options/params and value lengths (bytes symbolic; the code
 *                                 is symbolic for NOPT=1, -DOC0 -DOC1 concrete for NOPT=2)
 *   -DRAWT=n                      RAW_RR: the wire type recorded (concrete, an undecoded type)
 *   -DNOQ                         no question (write succeeds, parser insists on one question: must not crash / leak)
 *   -DEXPECT_WRITE_FAIL           the record has a field that cannot be expressed on the wire: the writer must refuse
 *   -DASYM                        a field value the writer lets through but the parser refuses (see below)
 *   -DFLAGS -DOPCODE -DRCODE -DQTYPE -DQCLASS -DRCLASS   header bits, question type/class and RR class: CONCRETE per job
 *                    (the public constructors validate them; a symbolic value would make the constructor's verdict - and
 *                    with it every later allocation and loop bound - symbolic).  hdr_roundtrip.c covers all of them.
 * Values that are not validated and do not influence lengths are symbolic: id, TTL, addresses, all u8/u16/u32 keys,
 * option codes, every payload byte. */
#define MAXSTR 24

#include "c03_build.h"

void harness(void)
{
  ares_dns_record_t *rec = NULL, *rec2 = NULL;
  ares_dns_rr_t     *rr  = NULL;
  unsigned char     *m1 = NULL, *m2 = NULL;
  size_t             l1 = 0, l2 = 0;
  ares_status_t      st;

  vp_alloc_install();
  rec = c03_build_record(&rr);

  st = ares_dns_write(rec, &m1, &l1);
#ifdef EXPECT_WRITE_FAIL
  VP_ASSERT(st != ARES_SUCCESS && m1 == NULL, "a record that cannot be expressed on the wire is refused by the writer");
  VP_WITNESS("write refused");
#else
#  ifdef ASYM
  if (st != ARES_SUCCESS) {
    /* the property is conditional on the serialisation succeeding: a writer that refuses these values is fine */
    VP_ASSERT(m1 == NULL, "a refused record yields no buffer");
    VP_WITNESS("write refused");
    goto out;
  }
#  endif
  VP_ASSERT(st == ARES_SUCCESS && m1 != NULL, "a record built from valid values serialises");
  VP_ASSERT(l1 <= 65535 && l1 >= 12, "serialised message is at most 65535 bytes");

  st = ares_dns_parse(m1, l1, 0, &rec2);
#  ifdef NOQ
  VP_ASSERT(st != ARES_SUCCESS && rec2 == NULL, "a message without question is refused cleanly by the parser");
  VP_WITNESS("noq refused");
#  else
#    ifdef ASYM
  /* shapes where the writer is more permissive than the parser (character-string with a non-printable octet, empty CAA
   * tag, non-printable URI target): serialisation succeeds but the library's own parser refuses the bytes, so
   * ares_dns_record_duplicate() returns NULL for such a record */
#      ifndef KF_write_unparseable_string
  VP_ASSERT(st == ARES_SUCCESS && rec2 != NULL,
            "FINDING write_unparseable_string: what ares_dns_write() accepted and produced parses back");
#      else
  VP_ASSERT(st != ARES_SUCCESS && rec2 == NULL, "known asymmetry: the parser refuses cleanly what the writer let through");
#      endif
  if (st != ARES_SUCCESS) {
    VP_WITNESS("roundtrip");
    goto out;
  }
#    endif
  VP_ASSERT(st == ARES_SUCCESS && rec2 != NULL, "what ares_dns_write() produced parses back");
  c03_cmp_record(rec, rec2);
  VP_ASSERT(ares_dns_record_rr_cnt(rec2, (ares_dns_section_t)SECT) == 1, "exactly the one RR");
#    if RTYPE == 65536
  VP_ASSERT(ares_dns_rr_get_u16(ares_dns_record_rr_get_const(rec2, (ares_dns_section_t)SECT, 0), ARES_RR_RAW_RR_TYPE) == RAWT,
            "raw RR keeps its wire type");
#    endif

  st = ares_dns_write(rec2, &m2, &l2);
#    if RTYPE == 65536 && BL == 0
  /* genuine defect (DESIGN section 6 #11, second half): the parser stores no data pointer for an undecoded RR with
   * RDLENGTH 0 and ares_dns_write_rr_raw_rr() refuses a NULL data pointer, so what was parsed cannot be written again
   * (ares_dns_record_duplicate(), ares_dnsrec_convert_cb() and the legacy callbacks fail on such a response) */
#      ifndef KF_rawrr_empty_rewrite
  VP_ASSERT(st == ARES_SUCCESS && m2 != NULL,
            "FINDING rawrr_empty_rewrite: a parsed undecoded RR with empty RDATA serialises again");
#      endif
  if (st == ARES_SUCCESS)
#    else
  VP_ASSERT(st == ARES_SUCCESS && m2 != NULL, "the parsed record serialises again");
#    endif
  {
    VP_ASSERT(l2 == l1, "second serialisation has the same length");
    VP_ASSERT(m2 != NULL && c03_memeq(m1, m2, l1), "second serialisation is byte-identical");
    VP_WITNESS("rewrite");
  }
  VP_WITNESS("roundtrip");
#  endif
#endif
  goto out;
out:
  ares_free_string(m1);
  ares_free_string(m2);
  ares_dns_record_destroy(rec);
  ares_dns_record_destroy(rec2);
  VP_WITNESS("end");
}
