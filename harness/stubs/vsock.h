/* Virtual socket layer installed through channel->sock_funcs (what ares_set_socket_functions_ex does).
 * Descriptors are never reused; a ledger per descriptor records the call protocol (C10) and every call
 * asserts it is made on an open descriptor. */
#ifndef VSOCK_H
#define VSOCK_H
#include "ares_private.h"
#ifndef VSOCK_MAXFD
#  define VSOCK_MAXFD 6
#endif
typedef struct {
  int state;       /* 0 never opened, 1 open, 2 closed */
  int type;        /* SOCK_STREAM / SOCK_DGRAM */
  int closes;      /* aclose calls */
  int told_watch;  /* application currently told to watch (last sock_state_cb had r||w) */
  int last_r, last_w;
  int watch_calls; /* sock_state_cb calls with r||w */
  int stop_calls;  /* sock_state_cb calls with !r&&!w */
  int redundant;   /* sock_state_cb calls repeating the previous (r,w) */
  int io_calls;    /* send/recv calls */
} vsock_fd_t;
extern vsock_fd_t vsock[VSOCK_MAXFD];
extern int        vsock_next;       /* next descriptor number */
extern int        vsock_open_count; /* currently open */
/* behaviour knobs (0 = that kind of failure never happens) */
extern int vsock_fail_socket, vsock_fail_setsockopt, vsock_fail_connect, vsock_fail_getsockname, vsock_fail_bind;
/* optional scripts; NULL = nondeterministic default */
extern ares_ssize_t (*vsock_recv_script)(ares_socket_t s, void *buf, size_t len, struct sockaddr *from,
                                         ares_socklen_t *fromlen);
extern ares_ssize_t (*vsock_send_script)(ares_socket_t s, const void *buf, size_t len);
void vsock_install(ares_channel_t *channel);
void vsock_state_cb(void *data, ares_socket_t fd, int readable, int writable);
/* mark a descriptor as already open (for pre-built connection states) */
ares_socket_t vsock_preopen(int type);
#endif
