/* Reference implementation of the ares_htable_asvp contract (socket -> void*), capacity VP_ASVP_CAP. */
#include "ares_private.h"
#include "ares_htable_asvp.h"
#include "vp.h"
#ifndef VP_ASVP_CAP
#  define VP_ASVP_CAP 6
#endif
struct ares_htable_asvp {
  ares_htable_asvp_val_free_t free_val;
  ares_socket_t               key[VP_ASVP_CAP];
  void                       *val[VP_ASVP_CAP];
  int                         used[VP_ASVP_CAP];
};
ares_htable_asvp_t *ares_htable_asvp_create(ares_htable_asvp_val_free_t val_free)
{
  ares_htable_asvp_t *h = vp_malloc(sizeof(*h));
  size_t              i;
  if (h == NULL)
    return NULL;
  h->free_val = val_free;
  for (i = 0; i < VP_ASVP_CAP; i++) {
    h->used[i] = 0;
    h->key[i]  = 0;
    h->val[i]  = NULL;
  }
  return h;
}
void ares_htable_asvp_destroy(ares_htable_asvp_t *h)
{
  size_t i;
  if (h == NULL)
    return;
  for (i = 0; i < VP_ASVP_CAP; i++)
    if (h->used[i] && h->free_val != NULL)
      h->free_val(h->val[i]);
  vp_free(h);
}
ares_bool_t ares_htable_asvp_insert(ares_htable_asvp_t *h, ares_socket_t key, void *val)
{
  size_t i;
  if (h == NULL)
    return ARES_FALSE;
  for (i = 0; i < VP_ASVP_CAP; i++) {
    if (h->used[i] && h->key[i] == key) {
      if (h->free_val != NULL)
        h->free_val(h->val[i]);
      h->val[i] = val;
      return ARES_TRUE;
    }
  }
  for (i = 0; i < VP_ASVP_CAP; i++) {
    if (!h->used[i]) {
      h->used[i] = 1;
      h->key[i]  = key;
      h->val[i]  = val;
      return ARES_TRUE;
    }
  }
  VP_BOUND(0, "asvp_ref capacity exceeded");
  return ARES_FALSE;
}
ares_bool_t ares_htable_asvp_get(const ares_htable_asvp_t *h, ares_socket_t key, void **val)
{
  size_t i;
  if (val != NULL)
    *val = NULL;
  if (h == NULL)
    return ARES_FALSE;
  for (i = 0; i < VP_ASVP_CAP; i++) {
    if (h->used[i] && h->key[i] == key) {
      if (val != NULL)
        *val = h->val[i];
      return ARES_TRUE;
    }
  }
  return ARES_FALSE;
}
void *ares_htable_asvp_get_direct(const ares_htable_asvp_t *h, ares_socket_t key)
{
  void *v = NULL;
  ares_htable_asvp_get(h, key, &v);
  return v;
}
ares_bool_t ares_htable_asvp_remove(ares_htable_asvp_t *h, ares_socket_t key)
{
  size_t i;
  if (h == NULL)
    return ARES_FALSE;
  for (i = 0; i < VP_ASVP_CAP; i++) {
    if (h->used[i] && h->key[i] == key) {
      if (h->free_val != NULL)
        h->free_val(h->val[i]);
      h->used[i] = 0;
      h->val[i]  = NULL;
      return ARES_TRUE;
    }
  }
  return ARES_FALSE;
}
size_t ares_htable_asvp_num_keys(const ares_htable_asvp_t *h)
{
  size_t i, n = 0;
  if (h == NULL)
    return 0;
  for (i = 0; i < VP_ASVP_CAP; i++)
    n += h->used[i] ? 1 : 0;
  return n;
}
ares_socket_t *ares_htable_asvp_keys(const ares_htable_asvp_t *h, size_t *num)
{
  ares_socket_t *out;
  size_t         i, n = 0;
  if (h == NULL || num == NULL)
    return NULL;
  *num = 0;
  if (ares_htable_asvp_num_keys(h) == 0)
    return NULL;
  out = ares_malloc_zero(sizeof(*out) * VP_ASVP_CAP);
  if (out == NULL)
    return NULL;
  for (i = 0; i < VP_ASVP_CAP; i++)
    if (h->used[i])
      out[n++] = h->key[i];
  *num = n;
  return out;
}
