/* Reference implementation of the ares_slist contract (sorted doubly linked
 * list; like the real skip list a new node goes BEFORE existing equal keys; find returns the FIRST equal node).
 * Used in protocol harnesses instead of the real skip list (checked against
 * the same contract in C19).  Nodes are individually allocated so that a use
 * of a destroyed node is a CBMC/ASan pointer failure. */
#include "ares_private.h"
#include "vp.h"

struct ares_slist {
  ares_slist_cmp_t        cmp;
  ares_slist_destructor_t destruct;
  ares_slist_node_t      *head;
  ares_slist_node_t      *tail;
  size_t                  cnt;
};
struct ares_slist_node {
  void              *data;
  ares_slist_node_t *prev;
  ares_slist_node_t *next;
  ares_slist_t      *parent;
};

ares_slist_t *ares_slist_create(ares_rand_state *rand_state, ares_slist_cmp_t cmp, ares_slist_destructor_t destruct)
{
  ares_slist_t *l;
  (void)rand_state;
  if (cmp == NULL)
    return NULL;
  l = vp_malloc(sizeof(*l));
  if (l == NULL)
    return NULL;
  l->cmp      = cmp;
  l->destruct = destruct;
  l->head     = NULL;
  l->tail     = NULL;
  l->cnt      = 0;
  return l;
}
void ares_slist_replace_destructor(ares_slist_t *list, ares_slist_destructor_t destruct)
{
  if (list != NULL)
    list->destruct = destruct;
}
static void slist_link(ares_slist_t *l, ares_slist_node_t *n)
{
  ares_slist_node_t *at = l->head; /* first node with key >= n: insert before it (as the real skip list does) */
  while (at != NULL && l->cmp(n->data, at->data) > 0)
    at = at->next;
  n->next = at;
  n->prev = (at != NULL) ? at->prev : l->tail;
  if (n->prev != NULL)
    n->prev->next = n;
  else
    l->head = n;
  if (at != NULL)
    at->prev = n;
  else
    l->tail = n;
}
static void slist_unlink(ares_slist_t *l, ares_slist_node_t *n)
{
  if (n->prev != NULL)
    n->prev->next = n->next;
  else
    l->head = n->next;
  if (n->next != NULL)
    n->next->prev = n->prev;
  else
    l->tail = n->prev;
  n->prev = n->next = NULL;
}
ares_slist_node_t *ares_slist_insert(ares_slist_t *list, void *val)
{
  ares_slist_node_t *n;
  if (list == NULL || val == NULL)
    return NULL;
  n = vp_malloc(sizeof(*n));
  if (n == NULL)
    return NULL;
  n->data   = val;
  n->parent = list;
  slist_link(list, n);
  list->cnt++;
  return n;
}
ares_slist_node_t *ares_slist_node_first(const ares_slist_t *list) { return list ? list->head : NULL; }
ares_slist_node_t *ares_slist_node_last(const ares_slist_t *list) { return list ? list->tail : NULL; }
ares_slist_node_t *ares_slist_node_next(const ares_slist_node_t *node) { return node ? node->next : NULL; }
ares_slist_node_t *ares_slist_node_prev(const ares_slist_node_t *node) { return node ? node->prev : NULL; }
ares_slist_node_t *ares_slist_node_find(const ares_slist_t *list, const void *val)
{
  ares_slist_node_t *n;
  if (list == NULL || val == NULL)
    return NULL;
  for (n = list->head; n != NULL; n = n->next)
    if (list->cmp(val, n->data) == 0)
      return n;
  return NULL;
}
void  *ares_slist_node_val(ares_slist_node_t *node) { return node ? node->data : NULL; }
size_t ares_slist_len(const ares_slist_t *list) { return list ? list->cnt : 0; }
ares_slist_t *ares_slist_node_parent(ares_slist_node_t *node) { return node ? node->parent : NULL; }
void *ares_slist_first_val(const ares_slist_t *list) { return ares_slist_node_val(ares_slist_node_first(list)); }
void *ares_slist_last_val(const ares_slist_t *list) { return ares_slist_node_val(ares_slist_node_last(list)); }
void *ares_slist_node_claim(ares_slist_node_t *node)
{
  void *val;
  if (node == NULL)
    return NULL;
  val = node->data;
  slist_unlink(node->parent, node);
  node->parent->cnt--;
  vp_free(node);
  return val;
}
void ares_slist_node_reinsert(ares_slist_node_t *node)
{
  if (node == NULL)
    return;
  slist_unlink(node->parent, node);
  slist_link(node->parent, node);
}
void ares_slist_node_destroy(ares_slist_node_t *node)
{
  ares_slist_destructor_t destruct;
  void                   *val;
  if (node == NULL)
    return;
  destruct = node->parent->destruct;
  val      = ares_slist_node_claim(node);
  if (val != NULL && destruct != NULL)
    destruct(val);
}
void ares_slist_destroy(ares_slist_t *list)
{
  ares_slist_node_t *n;
  if (list == NULL)
    return;
  while ((n = list->head) != NULL)
    ares_slist_node_destroy(n);
  vp_free(list);
}
