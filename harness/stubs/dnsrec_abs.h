#ifndef DNSREC_ABS_H
#define DNSREC_ABS_H
ares_dns_record_t *vp_absrec_new(unsigned short id);
void vp_absrec_set_question(ares_dns_record_t *r, const char *name, int qtype, int qclass);
void vp_absrec_set_ancount(ares_dns_record_t *r, size_t n);
void vp_absrec_set_opt(ares_dns_record_t *r, int has_opt, size_t options);
int  vp_absrec_has_opt(const ares_dns_record_t *r);
extern int vp_absrec_setname_may_fail, vp_absrec_dup_may_fail;
#endif
