#ifndef DNSREC_ABS_H
#define DNSREC_ABS_H
ares_dns_record_t *vp_absrec_new(unsigned short id);
#endif
