/* Builds a channel directly in a valid state (skipping ares_init): containers, virtual sockets, servers and
 * pre-established connections.  Containers: real ares_llist; slist_ref/szvp_ref/asvp_ref reference containers. */
#ifndef WORLD_H
#define WORLD_H
#include "ares_private.h"
#include "vsock.h"
void           world_init(ares_channel_t *ch);
ares_server_t *world_add_server(ares_channel_t *ch, size_t idx, size_t consec_failures);
ares_conn_t   *world_add_conn(ares_channel_t *ch, ares_server_t *srv, int is_tcp);
int            world_query_timeout_cmp(const void *a, const void *b);
int            world_server_sort_cmp(const void *a, const void *b);
#endif
