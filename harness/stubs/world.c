#include "world.h"
#include "vp.h"

/* transcription of ares_query_timeout_cmp_cb / server_sort_cb (static in ares_init.c);
 * the real server_sort_cb is checked against the same ordering in C09 */
int world_query_timeout_cmp(const void *arg1, const void *arg2)
{
  const ares_query_t *q1 = arg1, *q2 = arg2;
  if (q1->timeout.sec > q2->timeout.sec) return 1;
  if (q1->timeout.sec < q2->timeout.sec) return -1;
  if (q1->timeout.usec > q2->timeout.usec) return 1;
  if (q1->timeout.usec < q2->timeout.usec) return -1;
  return 0;
}
int world_server_sort_cmp(const void *data1, const void *data2)
{
  const ares_server_t *s1 = data1, *s2 = data2;
  if (s1->consec_failures < s2->consec_failures) return -1;
  if (s1->consec_failures > s2->consec_failures) return 1;
  if (s1->idx < s2->idx) return -1;
  if (s1->idx > s2->idx) return 1;
  return 0;
}

void world_init(ares_channel_t *ch)
{
  ch->all_queries        = ares_llist_create(NULL);
  ch->queries_by_qid     = ares_htable_szvp_create(NULL);
  ch->queries_by_timeout = ares_slist_create(NULL, world_query_timeout_cmp, NULL);
  ch->connnode_by_socket = ares_htable_asvp_create(NULL);
  ch->servers            = ares_slist_create(NULL, world_server_sort_cmp, NULL);
  VP_ASSUME(ch->all_queries && ch->queries_by_qid && ch->queries_by_timeout && ch->connnode_by_socket && ch->servers);
  ch->tries   = 2;
  ch->timeout = 2000;
  ch->sys_up  = ARES_TRUE;
  vsock_install(ch);
}

ares_server_t *world_add_server(ares_channel_t *ch, size_t idx, size_t consec_failures)
{
  ares_server_t *s = ares_malloc_zero(sizeof(*s));
  VP_ASSUME(s != NULL);
  s->idx                        = idx;
  s->consec_failures            = consec_failures;
  s->addr.family                = AF_INET;
  s->addr.addr.addr4.s_addr     = (unsigned int)(0x0a000001 + idx);
  s->udp_port                   = 53;
  s->tcp_port                   = 53;
  s->channel                    = ch;
  s->connections                = ares_llist_create(NULL);
  VP_ASSUME(s->connections != NULL);
  VP_ASSUME(ares_slist_insert(ch->servers, s) != NULL);
  return s;
}

/* a connection as ares_open_connection() leaves it (connected, READ interest announced) */
ares_conn_t *world_add_conn(ares_channel_t *ch, ares_server_t *srv, int is_tcp)
{
  ares_conn_t       *c = ares_malloc_zero(sizeof(*c));
  ares_llist_node_t *n;
  VP_ASSUME(c != NULL);
  c->server          = srv;
  c->fd              = vsock_preopen(is_tcp ? SOCK_STREAM : SOCK_DGRAM);
  c->flags           = is_tcp ? ARES_CONN_FLAG_TCP : ARES_CONN_FLAG_NONE;
  c->state_flags     = ARES_CONN_STATE_CONNECTED;
  c->queries_to_conn = ares_llist_create(NULL);
  c->in_buf          = ares_buf_create();
  c->out_buf         = ares_buf_create();
  VP_ASSUME(c->queries_to_conn && c->in_buf && c->out_buf);
  n = is_tcp ? ares_llist_insert_last(srv->connections, c) : ares_llist_insert_first(srv->connections, c);
  VP_ASSUME(n != NULL);
  VP_ASSUME(ares_htable_asvp_insert(ch->connnode_by_socket, c->fd, n));
  if (is_tcp)
    srv->tcp_conn = c;
  /* announce READ like ares_open_connection does */
  ares_conn_sock_state_cb_update(c, ARES_CONN_STATE_READ);
  return c;
}
