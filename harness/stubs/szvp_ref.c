/* Reference implementation of the ares_htable_szvp contract: association list
 * with capacity VP_SZVP_CAP (a BOUND assertion trips when a harness needs more). */
#include "ares_private.h"
#include "ares_htable_szvp.h"
#include "vp.h"
#ifndef VP_SZVP_CAP
#  define VP_SZVP_CAP 4
#endif
struct ares_htable_szvp {
  ares_htable_szvp_val_free_t free_val;
  size_t                      key[VP_SZVP_CAP];
  void                       *val[VP_SZVP_CAP];
  int                         used[VP_SZVP_CAP];
};
ares_htable_szvp_t *ares_htable_szvp_create(ares_htable_szvp_val_free_t val_free)
{
  ares_htable_szvp_t *h = vp_malloc(sizeof(*h));
  size_t              i;
  if (h == NULL)
    return NULL;
  h->free_val = val_free;
  for (i = 0; i < VP_SZVP_CAP; i++) {
    h->used[i] = 0;
    h->key[i]  = 0;
    h->val[i]  = NULL;
  }
  return h;
}
void ares_htable_szvp_destroy(ares_htable_szvp_t *h)
{
  size_t i;
  if (h == NULL)
    return;
  for (i = 0; i < VP_SZVP_CAP; i++)
    if (h->used[i] && h->free_val != NULL)
      h->free_val(h->val[i]);
  vp_free(h);
}
ares_bool_t ares_htable_szvp_insert(ares_htable_szvp_t *h, size_t key, void *val)
{
  size_t i;
  if (h == NULL)
    return ARES_FALSE;
  for (i = 0; i < VP_SZVP_CAP; i++) {
    if (h->used[i] && h->key[i] == key) {
      if (h->free_val != NULL)
        h->free_val(h->val[i]);
      h->val[i] = val;
      return ARES_TRUE;
    }
  }
  for (i = 0; i < VP_SZVP_CAP; i++) {
    if (!h->used[i]) {
      h->used[i] = 1;
      h->key[i]  = key;
      h->val[i]  = val;
      return ARES_TRUE;
    }
  }
  VP_BOUND(0, "szvp_ref capacity exceeded");
  return ARES_FALSE;
}
ares_bool_t ares_htable_szvp_get(const ares_htable_szvp_t *h, size_t key, void **val)
{
  size_t i;
  if (val != NULL)
    *val = NULL;
  if (h == NULL)
    return ARES_FALSE;
  for (i = 0; i < VP_SZVP_CAP; i++) {
    if (h->used[i] && h->key[i] == key) {
      if (val != NULL)
        *val = h->val[i];
      return ARES_TRUE;
    }
  }
  return ARES_FALSE;
}
void *ares_htable_szvp_get_direct(const ares_htable_szvp_t *h, size_t key)
{
  void *v = NULL;
  ares_htable_szvp_get(h, key, &v);
  return v;
}
ares_bool_t ares_htable_szvp_remove(ares_htable_szvp_t *h, size_t key)
{
  size_t i;
  if (h == NULL)
    return ARES_FALSE;
  for (i = 0; i < VP_SZVP_CAP; i++) {
    if (h->used[i] && h->key[i] == key) {
      if (h->free_val != NULL)
        h->free_val(h->val[i]);
      h->used[i] = 0;
      h->val[i]  = NULL;
      return ARES_TRUE;
    }
  }
  return ARES_FALSE;
}
size_t ares_htable_szvp_num_keys(const ares_htable_szvp_t *h)
{
  size_t i, n = 0;
  if (h == NULL)
    return 0;
  for (i = 0; i < VP_SZVP_CAP; i++)
    n += h->used[i] ? 1 : 0;
  return n;
}
