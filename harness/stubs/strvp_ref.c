/* Reference implementation of the ares_htable_strvp contract (string -> void*): association list, keys are private
 * copies compared CASE-INSENSITIVELY (ASCII) like the real table, insert replaces the value of an equal key (calling
 * val_free on the old value when set), remove deletes and frees the value, destroy frees every value.  Singly linked list of
 * individually allocated nodes, insertion order kept (new keys are appended), at most VP_STRVP_CAP keys (a BOUND trips
 * beyond).  The table object and its nodes are TYPED allocations (malloc(sizeof(T)) + the vp_alloc_live ledger) so that the
 * stored val_free pointer stays a constant for the symbolic executor; key copies come from vp_malloc.
 * Harness-side accessors: vp_strvp_peek(), vp_strvp_nth().  (harness/C08/strvp_ref.c is an older property-local variant with
 * call recorders.) */
#include "ares_private.h"
#include "ares_htable_strvp.h"
#include "vp.h"
#include <stdlib.h>
#ifndef VP_STRVP_CAP
#  define VP_STRVP_CAP 8
#endif
typedef struct vp_strvp_node {
  char                 *key;
  void                 *val;
  struct vp_strvp_node *next;
} vp_strvp_node_t;
struct ares_htable_strvp {
  ares_htable_strvp_val_free_t free_val;
  vp_strvp_node_t             *head;
  size_t                       cnt;
};

static size_t ref_len(const char *s)
{
  size_t n = 0;
  while (s[n] != 0)
    n++;
  return n;
}
static int ref_lower(int c) { return (c >= 'A' && c <= 'Z') ? c + ('a' - 'A') : c; }
int vp_strvp_key_eq(const char *a, const char *b)
{
  size_t i;
  for (i = 0;; i++) {
    if (ref_lower((unsigned char)a[i]) != ref_lower((unsigned char)b[i]))
      return 0;
    if (a[i] == 0)
      return 1;
  }
}
ares_htable_strvp_t *ares_htable_strvp_create(ares_htable_strvp_val_free_t val_free)
{
  ares_htable_strvp_t *h;
  vp_alloc_calls++;
  if (vp_alloc_fail_at != 0 && vp_alloc_calls == vp_alloc_fail_at)
    return NULL;
  h = malloc(sizeof(*h));
  VP_ASSUME(h != NULL);
  vp_alloc_live++;
  h->free_val = val_free;
  h->head     = NULL;
  h->cnt      = 0;
  return h;
}
static vp_strvp_node_t *find(const ares_htable_strvp_t *h, const char *key)
{
  vp_strvp_node_t *n;
  for (n = h->head; n != NULL; n = n->next)
    if (vp_strvp_key_eq(n->key, key))
      return n;
  return NULL;
}
static void unlink_node(ares_htable_strvp_t *h, vp_strvp_node_t *d, int free_val)
{
  vp_strvp_node_t **pp;
  for (pp = &h->head; *pp != NULL; pp = &(*pp)->next)
    if (*pp == d) {
      *pp = d->next;
      break;
    }
  if (free_val && h->free_val != NULL)
    h->free_val(d->val);
  vp_free(d->key);
  free(d);
  vp_alloc_live--;
  h->cnt--;
}
void ares_htable_strvp_destroy(ares_htable_strvp_t *h)
{
  if (h == NULL)
    return;
  while (h->head != NULL)
    unlink_node(h, h->head, 1);
  free(h);
  vp_alloc_live--;
}
ares_bool_t ares_htable_strvp_insert(ares_htable_strvp_t *h, const char *key, void *val)
{
  vp_strvp_node_t *n, **pp;
  size_t           j, len;
  if (h == NULL || key == NULL)
    return ARES_FALSE;
  n = find(h, key);
  if (n != NULL) {
    if (h->free_val != NULL)
      h->free_val(n->val);
    n->val = val;
    return ARES_TRUE;
  }
  VP_BOUND(h->cnt < VP_STRVP_CAP, "strvp_ref capacity exceeded");
  vp_alloc_calls++;
  if (vp_alloc_fail_at != 0 && vp_alloc_calls == vp_alloc_fail_at)
    return ARES_FALSE;
  len    = ref_len(key);
  n      = malloc(sizeof(*n));
  VP_ASSUME(n != NULL);
  n->key = vp_malloc(len + 1);
  if (n->key == NULL) {
    free(n);
    return ARES_FALSE;
  }
  vp_alloc_live++;
  for (j = 0; j <= len; j++)
    n->key[j] = key[j];
  n->val  = val;
  n->next = NULL;
  for (pp = &h->head; *pp != NULL; pp = &(*pp)->next)
    ;
  *pp = n;
  h->cnt++;
  return ARES_TRUE;
}
ares_bool_t ares_htable_strvp_get(const ares_htable_strvp_t *h, const char *key, void **val)
{
  vp_strvp_node_t *n;
  if (val != NULL)
    *val = NULL;
  if (h == NULL || key == NULL)
    return ARES_FALSE;
  n = find(h, key);
  if (n == NULL)
    return ARES_FALSE;
  if (val != NULL)
    *val = n->val;
  return ARES_TRUE;
}
void *ares_htable_strvp_get_direct(const ares_htable_strvp_t *h, const char *key)
{
  void *v = NULL;
  ares_htable_strvp_get(h, key, &v);
  return v;
}
ares_bool_t ares_htable_strvp_remove(ares_htable_strvp_t *h, const char *key)
{
  vp_strvp_node_t *n;
  if (h == NULL || key == NULL)
    return ARES_FALSE;
  n = find(h, key);
  if (n == NULL)
    return ARES_FALSE;
  unlink_node(h, n, 1);
  return ARES_TRUE;
}
void *ares_htable_strvp_claim(ares_htable_strvp_t *h, const char *key)
{
  vp_strvp_node_t *n;
  void            *v;
  if (h == NULL || key == NULL)
    return NULL;
  n = find(h, key);
  if (n == NULL)
    return NULL;
  v = n->val;
  unlink_node(h, n, 0);
  return v;
}
size_t ares_htable_strvp_num_keys(const ares_htable_strvp_t *h) { return h ? h->cnt : 0; }
/* harness-side accessors */
void *vp_strvp_peek(const ares_htable_strvp_t *h, const char *key)
{
  vp_strvp_node_t *n = find(h, key);
  return n ? n->val : NULL;
}
/* i-th key in insertion order (NULL beyond the end); *val receives its value */
const char *vp_strvp_nth(const ares_htable_strvp_t *h, size_t i, void **val)
{
  vp_strvp_node_t *n = h ? h->head : NULL;
  while (n != NULL && i > 0) {
    n = n->next;
    i--;
  }
  if (n == NULL)
    return NULL;
  if (val != NULL)
    *val = n->val;
  return n->key;
}
