#include "vsock.h"
#include "vp.h"
#include <errno.h>

vsock_fd_t vsock[VSOCK_MAXFD];
int        vsock_next       = 0;
int        vsock_open_count = 0;
int        vsock_fail_socket = 1, vsock_fail_setsockopt = 1, vsock_fail_connect = 1, vsock_fail_getsockname = 1,
    vsock_fail_bind = 1;
ares_ssize_t (*vsock_recv_script)(ares_socket_t s, void *buf, size_t len, struct sockaddr *from,
                                  ares_socklen_t *fromlen) = NULL;
ares_ssize_t (*vsock_send_script)(ares_socket_t s, const void *buf, size_t len) = NULL;
static int vsock_eintr_budget = 1;

static int some_errno(void)
{
  static const int errs[] = { EWOULDBLOCK, ECONNREFUSED, ECONNRESET, ENETUNREACH, EAFNOSUPPORT, ENOSYS, EBADF };
  return errs[vp_range(0, sizeof(errs) / sizeof(*errs) - 1)];
}
static void must_be_open(ares_socket_t s)
{
  VP_ASSERT(s >= 0 && s < VSOCK_MAXFD, "socket call on a descriptor the library obtained");
  VP_ASSERT(vsock[s].state == 1, "socket call only on an open descriptor (never after close)");
}
ares_socket_t vsock_preopen(int type)
{
  ares_socket_t s = vsock_next++;
  VP_BOUND(s < VSOCK_MAXFD, "more descriptors than VSOCK_MAXFD");
  vsock[s].state = 1;
  vsock[s].type  = type;
  vsock_open_count++;
  return s;
}
static ares_socket_t v_socket(int domain, int type, int protocol, void *ud)
{
  (void)domain; (void)protocol; (void)ud;
  if (vsock_fail_socket && vp_bool()) {
    errno = some_errno();
    return ARES_SOCKET_BAD;
  }
  return vsock_preopen(type);
}
static int v_close(ares_socket_t s, void *ud)
{
  (void)ud;
  VP_ASSERT(s >= 0 && s < VSOCK_MAXFD, "close on a descriptor the library obtained");
  VP_ASSERT(vsock[s].state == 1, "every socket is closed exactly once (close on an open descriptor)");
  vsock[s].state = 2;
  vsock[s].closes++;
  vsock_open_count--;
  return 0;
}
static int v_setsockopt(ares_socket_t s, ares_socket_opt_t opt, const void *val, ares_socklen_t len, void *ud)
{
  (void)opt; (void)val; (void)len; (void)ud;
  must_be_open(s);
  if (vsock_fail_setsockopt && vp_bool()) {
    errno = some_errno();
    return -1;
  }
  return 0;
}
static int v_connect(ares_socket_t s, const struct sockaddr *a, ares_socklen_t alen, unsigned int flags, void *ud)
{
  (void)a; (void)alen; (void)flags; (void)ud;
  must_be_open(s);
  if (vsock_eintr_budget > 0 && vp_bool()) {
    vsock_eintr_budget--;
    errno = EINTR;
    return -1;
  }
  if (vp_bool()) {
    errno = EINPROGRESS;
    return -1;
  }
  if (vsock_fail_connect && vp_bool()) {
    errno = some_errno();
    return -1;
  }
  return 0;
}
static ares_ssize_t v_recvfrom(ares_socket_t s, void *buf, size_t len, int flags, struct sockaddr *from,
                               ares_socklen_t *fromlen, void *ud)
{
  (void)flags; (void)ud;
  must_be_open(s);
  vsock[s].io_calls++;
  if (vsock_recv_script != NULL)
    return vsock_recv_script(s, buf, len, from, fromlen);
  errno = some_errno();
  return -1;
}
static ares_ssize_t v_sendto(ares_socket_t s, const void *buf, size_t len, int flags, const struct sockaddr *to,
                             ares_socklen_t tolen, void *ud)
{
  (void)flags; (void)to; (void)tolen; (void)ud;
  must_be_open(s);
  vsock[s].io_calls++;
  if (vsock_send_script != NULL)
    return vsock_send_script(s, buf, len);
  if (vp_bool()) {
    errno = some_errno();
    return -1;
  }
  return (ares_ssize_t)vp_range(1, len);
}
static int v_getsockname(ares_socket_t s, struct sockaddr *a, ares_socklen_t *alen, void *ud)
{
  struct sockaddr_in *sin = (struct sockaddr_in *)(void *)a;
  (void)ud;
  must_be_open(s);
  if (vsock_fail_getsockname && vp_bool()) {
    errno = some_errno();
    return -1;
  }
  VP_ASSERT(*alen >= (ares_socklen_t)sizeof(*sin), "getsockname buffer large enough");
  sin->sin_family      = AF_INET;
  sin->sin_port        = 0;
  sin->sin_addr.s_addr = vp_u32();
  *alen                = sizeof(*sin);
  return 0;
}
static int v_bind(ares_socket_t s, unsigned int flags, const struct sockaddr *a, socklen_t alen, void *ud)
{
  (void)flags; (void)a; (void)alen; (void)ud;
  must_be_open(s);
  if (vsock_fail_bind && vp_bool()) {
    errno = some_errno();
    return -1;
  }
  return 0;
}
static unsigned int v_if_nametoindex(const char *ifname, void *ud)
{
  (void)ifname; (void)ud;
  return 0;
}
void vsock_state_cb(void *data, ares_socket_t fd, int readable, int writable)
{
  (void)data;
  VP_ASSERT(fd >= 0 && fd < VSOCK_MAXFD, "socket state callback for a descriptor the library obtained");
  VP_ASSERT(vsock[fd].state == 1, "socket state callback only while the descriptor is open");
  if (vsock[fd].watch_calls + vsock[fd].stop_calls > 0 && vsock[fd].last_r == readable && vsock[fd].last_w == writable)
    vsock[fd].redundant++;
  vsock[fd].last_r = readable;
  vsock[fd].last_w = writable;
  if (readable || writable) {
    vsock[fd].watch_calls++;
    vsock[fd].told_watch = 1;
  } else {
    vsock[fd].stop_calls++;
    vsock[fd].told_watch = 0;
  }
}
void vsock_install(ares_channel_t *channel)
{
  channel->sock_funcs.version         = 1;
  channel->sock_funcs.flags           = ARES_SOCKFUNC_FLAG_NONBLOCKING;
  channel->sock_funcs.asocket         = v_socket;
  channel->sock_funcs.aclose          = v_close;
  channel->sock_funcs.asetsockopt     = v_setsockopt;
  channel->sock_funcs.aconnect        = v_connect;
  channel->sock_funcs.arecvfrom       = v_recvfrom;
  channel->sock_funcs.asendto         = v_sendto;
  channel->sock_funcs.agetsockname    = v_getsockname;
  channel->sock_funcs.abind           = v_bind;
  channel->sock_funcs.aif_nametoindex = v_if_nametoindex;
  channel->sock_func_cb_data          = NULL;
  channel->sock_state_cb              = vsock_state_cb;
  channel->sock_state_cb_data         = NULL;
}
