/* Abstract DNS records for protocol harnesses: the real struct is allocated
 * (so frees/double frees/use-after-free are visible) but only its scalar
 * header fields carry meaning; sections are never populated. */
#include "ares_private.h"
#include "vp.h"
#include "dnsrec_abs.h"

/* the abstract record: real header struct first (so the public pointer type works), abstract payload after */
typedef struct {
  ares_dns_record_t rec;
  char             *qname;   /* single question name (owned), NULL = no question */
  int               qtype, qclass;
  size_t            ancount; /* abstract answer count */
  int               has_opt; /* an OPT RR in the additional section (abstract) */
  size_t            opt_options; /* number of EDNS options in it */
  struct { int dummy; } optrr; /* address stands for the OPT RR */
} vp_absrec_t;

void vp_absrec_set_question(ares_dns_record_t *r, const char *name, int qtype, int qclass)
{
  vp_absrec_t *a = (vp_absrec_t *)r;
  size_t       n = 0, i;
  if (a->qname != NULL)
    vp_free(a->qname);
  while (name[n] != 0)
    n++;
  a->qname = vp_malloc(n + 1);
  if (a->qname == NULL) return; /* allocation failure: record left without a question (callers check) */
  for (i = 0; i <= n; i++)
    a->qname[i] = name[i];
  a->qtype  = qtype;
  a->qclass = qclass;
}
void   vp_absrec_set_ancount(ares_dns_record_t *r, size_t n) { ((vp_absrec_t *)r)->ancount = n; }

ares_dns_record_t *vp_absrec_new(unsigned short id)
{
  vp_absrec_t       *a = vp_malloc(sizeof(*a));
  ares_dns_record_t *r;
  if (a == NULL)
    return NULL;
  a->qname   = NULL;
  a->qtype   = 1;
  a->qclass  = 1;
  a->ancount = 0;
  a->has_opt = 0;
  a->opt_options = 0;
  r          = &a->rec;
  r->id            = id;
  r->flags         = 0;
  r->opcode        = ARES_OPCODE_QUERY;
  r->rcode         = ARES_RCODE_NOERROR;
  r->raw_rcode     = 0;
  r->ttl_decrement = 0;
  r->qd = r->an = r->ns = r->ar = NULL;
  return r;
}
void ares_dns_record_destroy(ares_dns_record_t *dnsrec)
{
  if (dnsrec == NULL)
    return;
  if (((vp_absrec_t *)dnsrec)->qname != NULL)
    vp_free(((vp_absrec_t *)dnsrec)->qname);
  vp_free(dnsrec);
}
unsigned short   ares_dns_record_get_id(const ares_dns_record_t *r) { return r ? r->id : 0; }
ares_bool_t      ares_dns_record_set_id(ares_dns_record_t *r, unsigned short id)
{
  if (r == NULL)
    return ARES_FALSE;
  r->id = id;
  return ARES_TRUE;
}
unsigned short   ares_dns_record_get_flags(const ares_dns_record_t *r) { return r ? r->flags : 0; }
ares_dns_rcode_t ares_dns_record_get_rcode(const ares_dns_record_t *r) { return r ? r->rcode : 0; }
ares_dns_opcode_t ares_dns_record_get_opcode(const ares_dns_record_t *r) { return r ? r->opcode : 0; }

size_t ares_dns_record_query_cnt(const ares_dns_record_t *r) { return (r && ((const vp_absrec_t *)r)->qname) ? 1 : 0; }
ares_status_t ares_dns_record_query_get(const ares_dns_record_t *r, size_t idx, const char **name,
                                        ares_dns_rec_type_t *qtype, ares_dns_class_t *qclass)
{
  const vp_absrec_t *a = (const vp_absrec_t *)r;
  if (r == NULL || idx != 0 || a->qname == NULL)
    return ARES_EFORMERR;
  if (name) *name = a->qname;
  if (qtype) *qtype = (ares_dns_rec_type_t)a->qtype;
  if (qclass) *qclass = (ares_dns_class_t)a->qclass;
  return ARES_SUCCESS;
}
/* may fail like the real one (allocation) */
int vp_absrec_setname_may_fail = 0;
ares_status_t ares_dns_record_query_set_name(ares_dns_record_t *r, size_t idx, const char *name)
{
  vp_absrec_t *a = (vp_absrec_t *)r;
  if (r == NULL || idx != 0 || name == NULL || a->qname == NULL)
    return ARES_EFORMERR;
  if (vp_absrec_setname_may_fail && vp_bool())
    return ARES_ENOMEM;
  vp_absrec_set_question(r, name, a->qtype, a->qclass);
  return ARES_SUCCESS;
}
size_t ares_dns_record_rr_cnt(const ares_dns_record_t *r, ares_dns_section_t sect)
{
  if (r == NULL) return 0;
  if (sect == ARES_SECTION_ADDITIONAL) return ((const vp_absrec_t *)r)->has_opt ? 1 : 0;
  return sect == ARES_SECTION_ANSWER ? ((const vp_absrec_t *)r)->ancount : 0;
}
void vp_absrec_set_opt(ares_dns_record_t *r, int has_opt, size_t options)
{
  ((vp_absrec_t *)r)->has_opt     = has_opt;
  ((vp_absrec_t *)r)->opt_options = options;
}
int vp_absrec_has_opt(const ares_dns_record_t *r) { return ((const vp_absrec_t *)r)->has_opt; }
/* the abstract OPT RR is identified by the address of a member of its record */
static const vp_absrec_t *rr_owner(const ares_dns_rr_t *rr)
{
  return (const vp_absrec_t *)(const void *)((const char *)rr - offsetof(vp_absrec_t, optrr));
}
const ares_dns_rr_t *ares_dns_get_opt_rr_const(const ares_dns_record_t *r)
{
  const vp_absrec_t *a = (const vp_absrec_t *)r;
  if (r == NULL || !a->has_opt) return NULL;
  return (const ares_dns_rr_t *)(const void *)&a->optrr;
}
ares_dns_rr_t *ares_dns_get_opt_rr(ares_dns_record_t *r)
{
  return (ares_dns_rr_t *)(void *)ares_dns_get_opt_rr_const(r);
}
const ares_dns_rr_t *ares_dns_record_rr_get_const(const ares_dns_record_t *r, ares_dns_section_t sect, size_t idx)
{
  if (sect != ARES_SECTION_ADDITIONAL || idx != 0) return NULL;
  return ares_dns_get_opt_rr_const(r);
}
ares_dns_rr_t *ares_dns_record_rr_get(ares_dns_record_t *r, ares_dns_section_t sect, size_t idx)
{
  return (ares_dns_rr_t *)(void *)ares_dns_record_rr_get_const(r, sect, idx);
}
ares_dns_rec_type_t ares_dns_rr_get_type(const ares_dns_rr_t *rr) { return rr ? ARES_REC_TYPE_OPT : 0; }
size_t ares_dns_rr_get_opt_cnt(const ares_dns_rr_t *rr, ares_dns_rr_key_t key)
{
  (void)key;
  return rr ? rr_owner(rr)->opt_options : 0;
}
ares_status_t ares_dns_record_rr_del(ares_dns_record_t *r, ares_dns_section_t sect, size_t idx)
{
  vp_absrec_t *a = (vp_absrec_t *)r;
  if (r == NULL || sect != ARES_SECTION_ADDITIONAL || idx != 0 || !a->has_opt) return ARES_EFORMERR;
  a->has_opt = 0;
  return ARES_SUCCESS;
}
int vp_absrec_dup_may_fail = 0;
ares_dns_record_t *ares_dns_record_duplicate(const ares_dns_record_t *r)
{
  const vp_absrec_t *a = (const vp_absrec_t *)r;
  ares_dns_record_t *d;
  if (r == NULL) return NULL;
  if (vp_absrec_dup_may_fail && vp_bool()) return NULL;
  d = vp_absrec_new(r->id);
  if (d == NULL) return NULL;
  d->flags = r->flags; d->opcode = r->opcode; d->rcode = r->rcode;
  if (a->qname) vp_absrec_set_question(d, a->qname, a->qtype, a->qclass);
  vp_absrec_set_ancount(d, a->ancount);
  vp_absrec_set_opt(d, a->has_opt, a->opt_options);
  return d;
}
