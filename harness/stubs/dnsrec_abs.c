/* Abstract DNS records for protocol harnesses: the real struct is allocated
 * (so frees/double frees/use-after-free are visible) but only its scalar
 * header fields carry meaning; sections are never populated. */
#include "ares_private.h"
#include "vp.h"
#include "dnsrec_abs.h"

ares_dns_record_t *vp_absrec_new(unsigned short id)
{
  ares_dns_record_t *r = vp_malloc(sizeof(*r));
  if (r == NULL)
    return NULL;
  r->id            = id;
  r->flags         = 0;
  r->opcode        = ARES_OPCODE_QUERY;
  r->rcode         = ARES_RCODE_NOERROR;
  r->raw_rcode     = 0;
  r->ttl_decrement = 0;
  r->qd = r->an = r->ns = r->ar = NULL;
  return r;
}
void ares_dns_record_destroy(ares_dns_record_t *dnsrec)
{
  if (dnsrec == NULL)
    return;
  vp_free(dnsrec);
}
unsigned short   ares_dns_record_get_id(const ares_dns_record_t *r) { return r ? r->id : 0; }
ares_bool_t      ares_dns_record_set_id(ares_dns_record_t *r, unsigned short id)
{
  if (r == NULL)
    return ARES_FALSE;
  r->id = id;
  return ARES_TRUE;
}
unsigned short   ares_dns_record_get_flags(const ares_dns_record_t *r) { return r ? r->flags : 0; }
ares_dns_rcode_t ares_dns_record_get_rcode(const ares_dns_record_t *r) { return r ? r->rcode : 0; }
ares_dns_opcode_t ares_dns_record_get_opcode(const ares_dns_record_t *r) { return r ? r->opcode : 0; }
