/* Channel lock as ghost state: depth counter (recursive mutex), no blocking. */
#include "ares_private.h"
#include "vp.h"
int vp_lock_depth = 0;
int vp_notify_empty_calls = 0;
void ares_channel_lock(const ares_channel_t *channel) { (void)channel; vp_lock_depth++; }
void ares_channel_unlock(const ares_channel_t *channel)
{
  (void)channel;
  VP_ASSERT(vp_lock_depth > 0, "unlock only while locked");
  vp_lock_depth--;
}
void ares_queue_notify_empty(ares_channel_t *channel) { (void)channel; vp_notify_empty_calls++; }
