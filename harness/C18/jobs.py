OUTSIDE = ("answer sections with more than one alias and two records of the parser's type; records of other classes or foreign "
           "types between them (thorough tier has a foreign-type shape); TTLs >= 2^31 in the min-TTL computation of the address "
           "parsers (legacy TTLs are int); names, text and RDATA sizes beyond the stated shapes")
ASSUMPTIONS = [
    "the oracle is ares_dns_parse() of the same bytes read through the public getters (its own agreement with the wire is C04)",
    "callers offer *naddrttls >= 0 and an array of at least that many elements (documented contract)",
    "header flags, question type/class and RR types/classes are concrete per job (validated by the record constructors)",
]

REC = ["src/lib/record/ares_dns_mapping.c", "src/lib/record/ares_dns_multistring.c", "src/lib/record/ares_dns_name.c",
       "src/lib/record/ares_dns_parse.c", "src/lib/record/ares_dns_record.c", "src/lib/record/ares_dns_write.c"]
BASE = ["src/lib/str/ares_buf.c", "src/lib/str/ares_str.c", "src/lib/dsa/ares_array.c", "src/lib/dsa/ares_llist.c",
        "src/lib/util/ares_math.c", "src/lib/ares_library_init.c", "src/lib/ares_free_string.c"]
LEG = ["src/lib/ares_data.c", "src/lib/ares_free_hostent.c"]
ADDR = ["src/lib/ares_addrinfo2hostent.c", "src/lib/ares_parse_into_addrinfo.c", "src/lib/ares_freeaddrinfo.c",
        "src/lib/ares_addrinfo_localhost.c", "src/lib/ares_getaddrinfo.c"]
SUP = ["vp_rt.c", "valloc.c", "memloops.c", "../C03/c03_mem.c"]

A = "A"
PTRQ = [0xC0, 12]   # a.b (question)
PTRC = [0xC0, 33]   # c.a.b (CNAME target, when the CNAME is the first answer)
PTRD = [0xC0, 49]   # d.a.b (target of a second CNAME c.a.b -> d.a.b directly after the first)


def S(text):
    return [len(text)] + [ord(c) for c in text]


def N(label, ptr):
    return [1, ord(label)] + ptr


# parser -> (id, wire type, TU, [rdata of 1st record, rdata of 2nd record] as functions of the suffix pointer)
def rdatas(p, ptr):
    return {
        "a": [[A] * 4, [A] * 4],
        "aaaa": [[A] * 16, [A] * 16],
        "caa": [[A] + S("issue") + [A, A, A], [A] + S("issue") + [A]],
        "mx": [[A, A] + N("m", ptr), [A, A] + N("n", ptr)],
        "naptr": [[A] * 4 + S("u") + S("sv") + [0] + [1, ord("r"), 0], [A] * 4 + [0] + [0] + S("!x!y!") + [0]],
        "ns": [N("n", ptr), N("o", ptr)],
        "ptr": [[1, ord("p"), 0], [1, ord("q"), 0]],
        "soa": [PTRQ + N("h", PTRQ) + [A] * 20, PTRQ + PTRQ + [A] * 20],
        "srv": [[A] * 6 + [1, ord("s"), 0], [A] * 6 + N("t", ptr)],
        "txt": [[2, A, A, 0, 1, A], [1, A]],
        "txt_ext": [[2, A, A, 0, 1, A], [1, A]],
        "uri": [[A] * 4 + [ord(c) for c in "ftp://x"], [A] * 4 + [ord(c) for c in "a:b"]],
    }[p]


PARSERS = {"a": (1, 1, "ares_parse_a_reply.c"), "aaaa": (2, 28, "ares_parse_aaaa_reply.c"), "caa": (3, 257, "ares_parse_caa_reply.c"),
           "mx": (4, 15, "ares_parse_mx_reply.c"), "naptr": (5, 35, "ares_parse_naptr_reply.c"), "ns": (6, 2, "ares_parse_ns_reply.c"),
           "ptr": (7, 12, "ares_parse_ptr_reply.c"), "soa": (8, 6, "ares_parse_soa_reply.c"), "srv": (9, 33, "ares_parse_srv_reply.c"),
           "txt": (10, 16, "ares_parse_txt_reply.c"), "txt_ext": (11, 16, "ares_parse_txt_reply.c"), "uri": (12, 256, "ares_parse_uri_reply.c")}


def rr(owner, rtype, rdata, rdlen_delta=0, rclass=1):
    L = len(rdata) + rdlen_delta
    return owner + [rtype >> 8, rtype & 0xFF, 0, rclass, A, A, A, A, L >> 8, L & 0xFF] + rdata


def message(p, nans, cname, mal=0, foreign=False):
    """cells of the whole message; mal: 0 none, 1 drop the last byte, 2 last RDLENGTH + 1, 3 last RDLENGTH - 1"""
    pid, wtype, _ = PARSERS[p]
    an = nans + int(cname) + (1 if foreign else 0)   # cname: False/True or the length of the alias chain (0..2)
    m = [A, A, 0x81, 0x80, 0, 1, 0, an, 0, 0, 0, 0]
    m += [1, ord("a"), 1, ord("b"), 0, wtype >> 8, wtype & 0xFF, 0, 1]
    owner = PTRQ
    if cname:
        m += rr(PTRQ, 5, N("c", PTRQ))
        owner = PTRC
    if int(cname) == 2:
        m += rr(PTRC, 5, N("d", PTRQ))
        owner = PTRD
    if foreign:
        m += rr(owner, 99, [A, A])
    rds = rdatas(p, owner)
    for k in range(nans):
        last = (k == nans - 1)
        m += rr(owner, wtype, rds[k], {2: 1, 3: -1}.get(mal, 0) if last else 0)
    if mal == 1:
        m = m[:-1]
    return m


def cells(m):
    return ",".join("{%d,%d}" % ((1, t) if isinstance(t, int) else (0, 0)) for t in m)


def job(p, nans, cname, mal=0, foreign=False, cap=0, extra=None, wit=None, suffix=""):
    pid, wtype, tu = PARSERS[p]
    m = message(p, nans, cname, mal, foreign)
    real = REC + BASE + LEG + ["src/lib/legacy/" + tu] + (ADDR if p in ("a", "aaaa") else [])
    name = "legacy_%s_n%d%s%s%s%s%s" % (p, nans, ("_cname" if cname else "") + ("2" if int(cname) == 2 else ""), "_foreign" if foreign else "",
                                        {0: "", 1: "_trunc", 2: "_rdlen+1", 3: "_rdlen-1"}[mal], "_cap%d" % cap if p in ("a", "aaaa") else "", suffix)
    d = ["-DPARSER=%d" % pid, "-DMSG=" + cells(m), "-DML=%d" % len(m), "-DCAP=%d" % cap] + (extra or [])
    if wit is None:
        wit = ["malformed"] if mal == 1 else (["data"] if (nans > 0 and mal == 0) else ([] if mal else ["nodata"]))
    kf = "legacy_nodata" if (nans == 0 and p not in ("ns", "ptr", "a", "aaaa")) else "legacy_agree"
    return dict(name=name, harness="legacy_agree.c", defines=d, real=real, support=SUP, unwind=140, leak=True,
                witnesses=["end"] + wit, kf_group=kf,
                bound="ares_parse_%s_reply on [id symbolic | Q a.b | %s%s%d x %s record(s), values symbolic]%s%s vs "
                      "ares_dns_parse + getters" % (p, ("CNAME a.b -> c.a.b, " if cname else "") + ("CNAME c.a.b -> d.a.b, " if int(cname) == 2 else ""), "one type-99 RR, " if foreign else "",
                                                    nans, p.upper(), {0: "", 1: " truncated by one byte", 2: " last RDLENGTH + 1",
                                                                      3: " last RDLENGTH - 1"}[mal],
                                                    " caller array of %d" % cap if p in ("a", "aaaa") else ""))


def oom_jobs(tier):
    """Allocation number k of the conversion (after the function's own record parse) fails: ARES_ENOMEM with nothing
    returned, or the complete correct answer."""
    J = []
    for p in PARSERS:
        addr = p in ("a", "aaaa")
        ks = (1, 2, 3, 4, 5, 6, 7, 8) if p in ("ptr", "ns") else ((1, 2, 3, 4) if (tier != "quick" or p in ("a", "mx", "txt")) else (1, 3))
        for k in ks:
            j = job(p, 2, False, cap=2 if addr else 0, extra=(["-DTTL31"] if addr else []) + ["-DM_OOM=%d" % k], suffix="_oom%d" % k)
            j["witnesses"] = ["end"]
            j["bound"] += "; allocation number %d after the function's own record parse fails" % k
            J.append(j)
    return J


def jobs(tier, seed):
    J = []
    for p in PARSERS:
        addr = p in ("a", "aaaa")
        J.append(job(p, 1, False, cap=1 if addr else 0))
        J.append(job(p, 2, True, cap=3 if addr else 0, extra=["-DTTL31"] if addr else None))
        J.append(job(p, 0, True))                      # alias only: no record of the type
        J.append(job(p, 1, False, mal=1, cap=1 if addr else 0))
        J.append(job(p, 1, False, mal=2, cap=1 if addr else 0))
        if tier == "quick" and p in ("a", "mx", "soa"):
            J.append(job(p, 0, False, foreign=True))
        if addr:
            J.append(job(p, 1, 2, cap=1, extra=["-DTTL31"]))     # alias CHAIN of two: every alias reported, in order
            J.append(job(p, 2, True, cap=1, extra=["-DTTL31"], suffix="_capacity"))   # array full AND an alias TTL to apply
        if tier != "quick":
            J.append(job(p, 2, False, cap=2 if addr else 0))
            J.append(job(p, 1, True, cap=1 if addr else 0, extra=["-DTTL31"] if addr else None))
            J.append(job(p, 1, False, mal=3, cap=1 if addr else 0))
            J.append(job(p, 2, True, mal=1, cap=2 if addr else 0))
            J.append(job(p, 1, False, foreign=True, cap=1 if addr else 0))
            J.append(job(p, 0, False, foreign=True))
    # capacity: 2 addresses, caller offers 0..3 elements on an exact-size array
    for p in ("a", "aaaa"):
        for cap in (0, 1, 2, 3):
            J.append(job(p, 2, False, cap=cap, suffix="_capacity"))
        if tier != "quick":
            for cap in (0, 2):
                J.append(job(p, 2, True, cap=cap, extra=["-DTTL31"], suffix="_capacity"))
            J.append(job(p, 0, 2))
    J += oom_jobs(tier)
    J += misc_jobs(tier)
    for j in J:
        j.setdefault("mem_gb", 6)
    return J


def misc_jobs(tier):
    J = []
    # answers: A, AAAA, A (owner = question name)
    m = [A, A, 0x81, 0x80, 0, 1, 0, 3, 0, 0, 0, 0, 1, ord("a"), 1, ord("b"), 0, 0, 1, 0, 1]
    m += rr(PTRQ, 1, [A] * 4) + rr(PTRQ, 28, [A] * 16) + rr(PTRQ, 1, [A] * 4)
    for fam in (4, 6):
        for cap in (0, 1, 2, 3):
            if tier == "quick" and fam == 6 and cap in (2, 3):
                continue
            J.append(dict(name="addrttl_direct_f%d_cap%d" % (fam, cap), harness="addrttl_direct.c",
                          defines=["-DMSG=" + cells(m), "-DML=%d" % len(m), "-DFAM=%d" % fam, "-DCAP=%d" % cap],
                          real=REC + BASE + ADDR + ["src/lib/ares_free_hostent.c"], support=SUP, unwind=140, leak=True,
                          witnesses=["end", "refused" if cap == 0 else "converted"],
                          bound="ares_addrinfo2addrttl(family %d, capacity %d, exact-size array) on the addrinfo built from "
                                "answers A, AAAA, A with symbolic addresses/TTLs" % (fam, cap)))
    for i in range(10):
        J.append(dict(name="data_tags_%d" % i, harness="data_tags.c", defines=["-DONLY=%d" % i],
                      real=["src/lib/ares_data.c", "src/lib/ares_library_init.c"], support=SUP, unwind=20, leak=True,
                      bound="ares_malloc_data/ares_free_data for legal type #%d: tag, zeroed payload, two-element chain with owned "
                            "blocks released by one call; illegal types refused" % i))
    return J
