/* C18 capacity, direct: ares_addrinfo2addrttl() on the ares_addrinfo that the real ares_parse_into_addrinfo() builds from
 * a parsed message with answers A, AAAA, A (addresses and TTLs symbolic).
 *   -DFAM=4|6 family asked for, -DCAP=k: exact-size caller array of k elements, req_naddrttls = k
 * Never writes an element with index >= k (exact-size heap object), returns min(number of addresses of the family, k),
 * entries are the family's addresses in answer order with their TTLs; k == 0 is refused (ARES_EBADQUERY) without a write. */
#include "vp.h"
#include "ares_private.h"
#include <netinet/in.h>

#ifndef MSG
#  error "MSG cells required"
#endif
#ifndef FAM
#  define FAM 4
#endif
#ifndef CAP
#  define CAP 1
#endif

typedef struct {
  unsigned char kind, val;
} cell_t;

static int memeq(const void *a, const void *b, size_t n)
{
  size_t i;
  for (i = 0; i < n; i++)
    if (((const unsigned char *)a)[i] != ((const unsigned char *)b)[i])
      return 0;
  return 1;
}

void harness(void)
{
  static const cell_t   cells[] = { MSG };
  unsigned char        *msg;
  ares_dns_record_t    *rec = NULL;
  struct ares_addrinfo  ai;
  struct ares_addrttl  *t4 = vp_malloc((CAP ? CAP : 1) * sizeof(*t4));
  struct ares_addr6ttl *t6 = vp_malloc((CAP ? CAP : 1) * sizeof(*t6));
  size_t                i, got = 99, want, k = 0;
  ares_status_t         st;

  vp_alloc_install();
  msg = vp_malloc(ML);
  for (i = 0; i < ML; i++)
    msg[i] = cells[i].kind ? cells[i].val : vp_u8();
  VP_ASSUME(ares_dns_parse(msg, ML, 0, &rec) == ARES_SUCCESS);
  for (i = 0; i < 3; i++)
    VP_ASSUME(ares_dns_rr_get_ttl(ares_dns_record_rr_get_const(rec, ARES_SECTION_ANSWER, i)) < 0x80000000u);
  memset(&ai, 0, sizeof(ai));
  st = ares_parse_into_addrinfo(rec, ARES_FALSE, 0, &ai);
  VP_ASSERT(st == ARES_SUCCESS, "address answers are collected");

  st   = ares_addrinfo2addrttl(&ai, FAM == 4 ? AF_INET : AF_INET6, CAP, FAM == 4 ? t4 : NULL, FAM == 6 ? t6 : NULL, &got);
  want = (FAM == 4) ? 2 : 1;
  if (CAP == 0) {
    VP_ASSERT(st == ARES_EBADQUERY, "a zero capacity is refused");
    VP_WITNESS("refused");
  } else {
    VP_ASSERT(st == ARES_SUCCESS, "conversion succeeds");
    VP_ASSERT(got == (want < CAP ? want : CAP), "count = min(addresses of the family, capacity)");
    for (i = 0; i < 3 && k < got; i++) {
      const ares_dns_rr_t *rr = ares_dns_record_rr_get_const(rec, ARES_SECTION_ANSWER, i);
      if (FAM == 4 && ares_dns_rr_get_type(rr) == ARES_REC_TYPE_A) {
        VP_ASSERT(memeq(&t4[k].ipaddr, ares_dns_rr_get_addr(rr, ARES_RR_A_ADDR), 4) && (unsigned)t4[k].ttl == ares_dns_rr_get_ttl(rr),
                  "IPv4 entries: address and TTL, in answer order");
        k++;
      }
      if (FAM == 6 && ares_dns_rr_get_type(rr) == ARES_REC_TYPE_AAAA) {
        VP_ASSERT(memeq(&t6[k].ip6addr, ares_dns_rr_get_addr6(rr, ARES_RR_AAAA_ADDR), 16) && (unsigned)t6[k].ttl == ares_dns_rr_get_ttl(rr),
                  "IPv6 entries: address and TTL, in answer order");
        k++;
      }
    }
    VP_WITNESS("converted");
  }
  ares_freeaddrinfo_cnames(ai.cnames);
  ares_freeaddrinfo_nodes(ai.nodes);
  ares_free(ai.name);
  ares_dns_record_destroy(rec);
  vp_free(t4);
  vp_free(t6);
  vp_free(msg);
  VP_WITNESS("end");
}
