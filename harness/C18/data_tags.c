/* C18 ares_data.c: the type tag written by ares_malloc_data() is the one ares_free_data() switches on, for every type.
 * For each legal ares_datatype: ares_malloc_data() returns a zeroed payload inside a block marked ARES_DATATYPE_MARK with
 * that type; a chain of two elements whose owned pointers (host, txt, uri, flags/service/regexp/replacement,
 * nsname/hostmaster, property/value) are heap blocks is released completely by ONE ares_free_data() call (leak check:
 * every block freed exactly once).  Illegal types (0, UNKNOWN, LAST, 99) yield NULL.  ares_free_data(NULL) is a no-op. */
#include "vp.h"
#include "ares_private.h"
#include "ares_data.h"

static char *blk(void)
{
  char *p = vp_malloc(2);
  p[0]    = 'x';
  p[1]    = 0;
  return p;
}

static void *mk(ares_datatype t, void *next)
{
  void             *d = ares_malloc_data(t);
  struct ares_data *h;
  VP_ASSERT(d != NULL, "ares_malloc_data() serves every legal type");
  h = (struct ares_data *)((char *)d - offsetof(struct ares_data, data));
  VP_ASSERT(h->mark == ARES_DATATYPE_MARK && h->type == t, "block carries the mark and the requested type tag");
  switch (t) {
    case ARES_DATATYPE_MX_REPLY:
      {
        struct ares_mx_reply *p = d;
        VP_ASSERT(p->next == NULL && p->host == NULL && p->priority == 0, "payload zeroed");
        p->host = blk();
        p->next = next;
      }
      break;
    case ARES_DATATYPE_SRV_REPLY:
      {
        struct ares_srv_reply *p = d;
        VP_ASSERT(p->next == NULL && p->host == NULL, "payload zeroed");
        p->host = blk();
        p->next = next;
      }
      break;
    case ARES_DATATYPE_URI_REPLY:
      {
        struct ares_uri_reply *p = d;
        VP_ASSERT(p->next == NULL && p->uri == NULL, "payload zeroed");
        p->uri  = blk();
        p->next = next;
      }
      break;
    case ARES_DATATYPE_TXT_REPLY:
      {
        struct ares_txt_reply *p = d;
        VP_ASSERT(p->next == NULL && p->txt == NULL && p->length == 0, "payload zeroed");
        p->txt  = (unsigned char *)blk();
        p->next = next;
      }
      break;
    case ARES_DATATYPE_TXT_EXT:
      {
        struct ares_txt_ext *p = d;
        VP_ASSERT(p->next == NULL && p->txt == NULL && p->record_start == 0, "payload zeroed");
        p->txt  = (unsigned char *)blk();
        p->next = next;
      }
      break;
    case ARES_DATATYPE_ADDR_NODE:
      {
        struct ares_addr_node *p = d;
        VP_ASSERT(p->next == NULL, "payload zeroed");
        p->next = next;
      }
      break;
    case ARES_DATATYPE_ADDR_PORT_NODE:
      {
        struct ares_addr_port_node *p = d;
        VP_ASSERT(p->next == NULL, "payload zeroed");
        p->next = next;
      }
      break;
    case ARES_DATATYPE_NAPTR_REPLY:
      {
        struct ares_naptr_reply *p = d;
        VP_ASSERT(p->next == NULL && p->flags == NULL && p->service == NULL && p->regexp == NULL && p->replacement == NULL, "payload zeroed");
        p->flags       = (unsigned char *)blk();
        p->service     = (unsigned char *)blk();
        p->regexp      = (unsigned char *)blk();
        p->replacement = blk();
        p->next        = next;
      }
      break;
    case ARES_DATATYPE_SOA_REPLY:
      {
        struct ares_soa_reply *p = d;
        VP_ASSERT(p->nsname == NULL && p->hostmaster == NULL, "payload zeroed");
        p->nsname     = blk();
        p->hostmaster = blk();
        (void)next;
      }
      break;
    case ARES_DATATYPE_CAA_REPLY:
      {
        struct ares_caa_reply *p = d;
        VP_ASSERT(p->next == NULL && p->property == NULL && p->value == NULL, "payload zeroed");
        p->property = (unsigned char *)blk();
        p->value    = (unsigned char *)blk();
        p->next     = next;
      }
      break;
    default:
      VP_ASSERT(0, "unexpected type");
  }
  return d;
}

void harness(void)
{
  static const ares_datatype legal[] = { ARES_DATATYPE_SRV_REPLY,   ARES_DATATYPE_TXT_REPLY, ARES_DATATYPE_TXT_EXT,
                                         ARES_DATATYPE_ADDR_NODE,   ARES_DATATYPE_MX_REPLY,  ARES_DATATYPE_NAPTR_REPLY,
                                         ARES_DATATYPE_SOA_REPLY,   ARES_DATATYPE_URI_REPLY, ARES_DATATYPE_ADDR_PORT_NODE,
                                         ARES_DATATYPE_CAA_REPLY };
  size_t                     i;
  vp_alloc_install();
#ifdef ONLY
  for (i = ONLY; i < ONLY + 1; i++) {
#else
  for (i = 0; i < sizeof(legal) / sizeof(*legal); i++) {
#endif
    void *second = (legal[i] == ARES_DATATYPE_SOA_REPLY) ? NULL : mk(legal[i], NULL);
    void *first  = mk(legal[i], second);
    ares_free_data(first); /* one call releases the whole chain and every owned block */
  }
  VP_ASSERT(ares_malloc_data((ares_datatype)0) == NULL && ares_malloc_data(ARES_DATATYPE_UNKNOWN) == NULL &&
              ares_malloc_data(ARES_DATATYPE_LAST) == NULL && ares_malloc_data((ares_datatype)99) == NULL,
            "illegal types are refused");
  ares_free_data(NULL);
  VP_WITNESS("end");
}
