/* C18 legacy reply parsers agree with the record API.
 * The message is given by jobs.py as cells (-DMSG={kind,val},... -DML=n; kind 1 = concrete octet, 0 = symbolic): header
 * with symbolic id, question "a.b", 0-3 answers: optionally one CNAME (a.b -> c.a.b) followed by 1-2 records of the
 * parser's type (names/lengths/type/class concrete, addresses, TTLs, priorities, text octets symbolic); malformed
 * variants are truncated by one byte or have an RDLENGTH that is off by one.
 *   -DPARSER=n : 1 a, 2 aaaa, 3 caa, 4 mx, 5 naptr, 6 ns, 7 ptr, 8 soa, 9 srv, 10 txt, 11 txt_ext, 12 uri
 * Oracle = ares_dns_parse() of the SAME bytes read through the public getters:
 *   - the legacy function reports a malformed-message status (EBADRESP/EBADNAME/EBADSTR/EFORMERR) exactly when
 *     ares_dns_parse() rejects the message;
 *   - otherwise, with n = number of class-IN answers of the parser's type: n == 0 -> the documented ARES_ENODATA and no
 *     result (ares_parse_a/aaaa_reply: an alias-only answer is deliberately a success with an address-less hostent);
 *     n > 0 -> ARES_SUCCESS and the result list / hostent holds exactly those n records, in answer order, with
 *     identical field values (addresses, names after following the alias, priorities, text chunks, TTLs);
 *   - the result is released completely by ares_free_data() / ares_free_hostent() (leak check).
 * -DCAP=k (a/aaaa only): caller array of EXACTLY k ares_addrttl / ares_addr6ttl elements, *naddrttls = k: never more than
 *   k elements are written (exact-size object), the count returned is min(n, k), each entry = address + min(TTL chain). */
#include "vp.h"
#include "ares.h"
#include "ares_dns_record.h"
#include <netdb.h>
#include <sys/socket.h>
#include <netinet/in.h>

#ifndef PARSER
#  define PARSER 4
#endif
#ifndef MSG
#  error "MSG cells required"
#endif
#ifndef CAP
#  define CAP 0
#endif
#define MAXSTR 24

typedef struct {
  unsigned char kind, val;
} cell_t;

static int streq(const char *a, const char *b)
{
  size_t i;
  if (a == NULL || b == NULL)
    return 0;
  for (i = 0; i < MAXSTR; i++) {
    if (a[i] != b[i])
      return 0;
    if (a[i] == 0)
      return 1;
  }
  return 0;
}

static int memeq(const void *a, const void *b, size_t n)
{
  size_t i;
  for (i = 0; i < n; i++)
    if (((const unsigned char *)a)[i] != ((const unsigned char *)b)[i])
      return 0;
  return 1;
}

/* -DM_OOM=k (C14 / C18): allocation number k AFTER the function's own record parse fails (the record parse of a
 * shape-concrete message makes a constant number of allocations, measured on the harness's own ares_dns_parse run).
 * Outcome allowed: ARES_ENOMEM with no result at all, or the complete correct result - never a silently shortened
 * answer or another status. */
#ifdef M_OOM
static unsigned long oom_base;
#  define OOM_ARM()    do { vp_alloc_calls = 0; vp_alloc_fail_at = oom_base + (M_OOM); } while (0)
#  define OOM_DISARM() (vp_alloc_fail_at = 0)
#  define OOM_HIT(st)  ((st) == ARES_ENOMEM)
#else
#  define OOM_ARM()    ((void)0)
#  define OOM_DISARM() ((void)0)
#  define OOM_HIT(st)  0
#endif

static int malformed_status(int st)
{
  return st == ARES_EBADRESP || st == ARES_EBADNAME || st == ARES_EBADSTR || st == ARES_EFORMERR;
}

#if PARSER == 1
#  define WANT ARES_REC_TYPE_A
#elif PARSER == 2
#  define WANT ARES_REC_TYPE_AAAA
#elif PARSER == 3
#  define WANT ARES_REC_TYPE_CAA
#elif PARSER == 4
#  define WANT ARES_REC_TYPE_MX
#elif PARSER == 5
#  define WANT ARES_REC_TYPE_NAPTR
#elif PARSER == 6
#  define WANT ARES_REC_TYPE_NS
#elif PARSER == 7
#  define WANT ARES_REC_TYPE_PTR
#elif PARSER == 8
#  define WANT ARES_REC_TYPE_SOA
#elif PARSER == 9
#  define WANT ARES_REC_TYPE_SRV
#elif PARSER == 10 || PARSER == 11
#  define WANT ARES_REC_TYPE_TXT
#else
#  define WANT ARES_REC_TYPE_URI
#endif

/* the i-th class-IN answer of the wanted type (NULL when there are fewer) */
static const ares_dns_rr_t *nth(const ares_dns_record_t *rec, size_t n)
{
  size_t i, k = 0;
  for (i = 0; i < ares_dns_record_rr_cnt(rec, ARES_SECTION_ANSWER); i++) {
    const ares_dns_rr_t *rr = ares_dns_record_rr_get_const(rec, ARES_SECTION_ANSWER, i);
    if (ares_dns_rr_get_type(rr) == WANT && ares_dns_rr_get_class(rr) == ARES_CLASS_IN) {
      if (k == n)
        return rr;
      k++;
    }
  }
  return NULL;
}

static size_t count_wanted(const ares_dns_record_t *rec)
{
  size_t n = 0;
  while (n < 4 && nth(rec, n) != NULL)
    n++;
  return n;
}

/* the k-th CNAME of the answer section, if any (shapes have a chain of at most two, in chain order) */
static const ares_dns_rr_t *cname_at(const ares_dns_record_t *rec, size_t k)
{
  size_t i, seen = 0;
  for (i = 0; i < ares_dns_record_rr_cnt(rec, ARES_SECTION_ANSWER); i++) {
    const ares_dns_rr_t *rr = ares_dns_record_rr_get_const(rec, ARES_SECTION_ANSWER, i);
    if (ares_dns_rr_get_type(rr) == ARES_REC_TYPE_CNAME && ares_dns_rr_get_class(rr) == ARES_CLASS_IN) {
      if (seen == k)
        return rr;
      seen++;
    }
  }
  return NULL;
}
static const ares_dns_rr_t *the_cname(const ares_dns_record_t *rec) { return cname_at(rec, 0); }
static size_t               cname_cnt(const ares_dns_record_t *rec)
{
  size_t k = 0;
  while (k < 3 && cname_at(rec, k) != NULL)
    k++;
  return k;
}
/* h_aliases = the alias names in chain order, NULL-terminated; returns 1 when it is exactly that */
static int aliases_are_chain(char **al, const ares_dns_record_t *rec)
{
  size_t k, nc = cname_cnt(rec);
  if (al == NULL)
    return 0;
  for (k = 0; k < nc; k++)
    if (al[k] == NULL || !streq(al[k], ares_dns_rr_get_name(cname_at(rec, k))))
      return 0;
  return al[nc] == NULL;
}

static const char *qname(const ares_dns_record_t *rec)
{
  const char *n = NULL;
  ares_dns_record_query_get(rec, 0, &n, NULL, NULL);
  return n;
}

/* TTL a legacy address entry must carry: the smallest TTL along the alias chain (ares_parse_a_reply(3)) */
static int chain_ttl(const ares_dns_record_t *rec, const ares_dns_rr_t *rr)
{
  unsigned int t = ares_dns_rr_get_ttl(rr);
  size_t       k;
  for (k = 0; k < cname_cnt(rec); k++)
    if (ares_dns_rr_get_ttl(cname_at(rec, k)) < t)
      t = ares_dns_rr_get_ttl(cname_at(rec, k));
  return (int)t;
}

void harness(void)
{
  static const cell_t cells[] = { MSG };
  unsigned char      *msg;
  ares_dns_record_t  *rec = NULL;
  ares_status_t       st_rec;
  int                 st;
  size_t              i, n = 0;

  vp_alloc_install();
  msg = vp_malloc(ML);
  for (i = 0; i < ML; i++)
    msg[i] = cells[i].kind ? cells[i].val : vp_u8();

#ifdef M_OOM
  vp_alloc_calls = 0;
#endif
  st_rec = ares_dns_parse(msg, ML, 0, &rec);
#ifdef M_OOM
  oom_base = vp_alloc_calls;
#endif
  if (st_rec == ARES_SUCCESS)
    n = count_wanted(rec);

#if PARSER == 1 || PARSER == 2
  {
    struct hostent *host = NULL;
#  if PARSER == 1
    struct ares_addrttl *tt = vp_malloc((CAP ? CAP : 1) * sizeof(*tt));
#  else
    struct ares_addr6ttl *tt = vp_malloc((CAP ? CAP : 1) * sizeof(*tt));
#  endif
    int ntt = CAP;
#  ifdef TTL31
    /* TTLs are delivered to legacy callers as int: keep them below 2^31 (RFC 2181 8) */
    if (st_rec == ARES_SUCCESS) {
      for (i = 0; i < ares_dns_record_rr_cnt(rec, ARES_SECTION_ANSWER); i++)
        VP_ASSUME(ares_dns_rr_get_ttl(ares_dns_record_rr_get_const(rec, ARES_SECTION_ANSWER, i)) < 0x80000000u);
    }
#  endif
#  if PARSER == 1
    OOM_ARM();
    st = ares_parse_a_reply(msg, (int)ML, &host, CAP ? tt : NULL, &ntt);
#  else
    OOM_ARM();
    st = ares_parse_aaaa_reply(msg, (int)ML, &host, CAP ? tt : NULL, &ntt);
#  endif
    OOM_DISARM();
    if (OOM_HIT(st)) {
      VP_ASSERT(host == NULL && ntt == 0, "allocation failure: ARES_ENOMEM and no result at all");
      VP_WITNESS("out of memory");
      goto oom_out12;
    }
    VP_ASSERT((st_rec != ARES_SUCCESS) == malformed_status(st), "malformed-message status exactly when the record parser rejects");
    if (st_rec == ARES_SUCCESS) {
      if (n == 0 && the_cname(rec) == NULL) {
        VP_ASSERT(st == ARES_ENODATA && host == NULL, "neither an address of the family nor an alias in the answer: ARES_ENODATA, no result");
        VP_ASSERT(ntt == 0, "no addrttl entries");
        VP_WITNESS("nodata");
      } else if (n == 0) {
        /* alias only: deliberately a success carrying the alias chain and no address (upstream commit 2c63440, pinned
         * by the test-suite: ParseAReplyJustCname) */
        const ares_dns_rr_t *c = cname_at(rec, cname_cnt(rec) - 1);
        VP_ASSERT(st == ARES_SUCCESS && host != NULL, "alias only: success and a hostent");
        VP_ASSERT(streq(host->h_name, ares_dns_rr_get_str(c, ARES_RR_CNAME_CNAME)), "alias only: h_name is the alias target");
        VP_ASSERT(aliases_are_chain(host->h_aliases, rec), "alias only: h_aliases holds the alias name(s), in chain order");
        VP_ASSERT(host->h_addr_list != NULL && host->h_addr_list[0] == NULL && ntt == 0, "alias only: no address, no addrttl entry");
        VP_WITNESS("nodata");
      } else {
        const ares_dns_rr_t *c = cname_cnt(rec) ? cname_at(rec, cname_cnt(rec) - 1) : NULL;
        VP_ASSERT(st == ARES_SUCCESS && host != NULL, "addresses present: success and a hostent");
        VP_ASSERT(host->h_addrtype == (PARSER == 1 ? AF_INET : AF_INET6) && host->h_length == (PARSER == 1 ? 4 : 16),
                  "hostent family and address length");
        /* official name = end of the alias chain; aliases = the alias names */
        VP_ASSERT(streq(host->h_name, c ? ares_dns_rr_get_str(c, ARES_RR_CNAME_CNAME) : qname(rec)), "h_name: name after following the alias");
        if (c) {
          VP_ASSERT(aliases_are_chain(host->h_aliases, rec), "h_aliases: every alias name of the chain, in chain order");
        } else {
          VP_ASSERT(host->h_aliases != NULL && host->h_aliases[0] == NULL, "no alias");
        }
        for (i = 0; i < n; i++) {
          const ares_dns_rr_t *rr = nth(rec, i);
          const void          *a  = (PARSER == 1) ? (const void *)ares_dns_rr_get_addr(rr, ARES_RR_A_ADDR)
                                                  : (const void *)ares_dns_rr_get_addr6(rr, ARES_RR_AAAA_ADDR);
          VP_ASSERT(host->h_addr_list[i] != NULL && memeq(host->h_addr_list[i], a, PARSER == 1 ? 4 : 16),
                    "h_addr_list: the answer's addresses in answer order");
          if (i < CAP) {
#  if PARSER == 1
            VP_ASSERT(memeq(&tt[i].ipaddr, a, 4), "addrttl address");
#  else
            VP_ASSERT(memeq(&tt[i].ip6addr, a, 16), "addr6ttl address");
#  endif
            VP_ASSERT(tt[i].ttl == chain_ttl(rec, rr), "addrttl TTL = smallest TTL on the alias chain");
          }
        }
        VP_ASSERT(host->h_addr_list[n] == NULL, "exactly the answer's addresses");
        VP_ASSERT(ntt == (int)(n < CAP ? n : CAP), "*naddrttls = min(addresses, capacity offered)");
        VP_WITNESS("data");
      }
    } else {
      VP_ASSERT(host == NULL && ntt == 0, "malformed: no result");
      VP_WITNESS("malformed");
    }
  oom_out12:
    ares_free_hostent(host);
    vp_free(tt);
  }
#elif PARSER == 6 || PARSER == 7
  {
    struct hostent *host = NULL;
#  if PARSER == 6
    OOM_ARM();
    st = ares_parse_ns_reply(msg, (int)ML, &host);
#  else
    unsigned char addr[4];
    vp_bytes(addr, 4);
    OOM_ARM();
    st = ares_parse_ptr_reply(msg, (int)ML, addr, 4, AF_INET, &host);
#  endif
    OOM_DISARM();
    if (OOM_HIT(st)) {
      VP_ASSERT(host == NULL, "allocation failure: ARES_ENOMEM and no result at all");
      VP_WITNESS("out of memory");
      goto oom_out67;
    }
    VP_ASSERT((st_rec != ARES_SUCCESS) == malformed_status(st), "malformed-message status exactly when the record parser rejects");
    if (st_rec == ARES_SUCCESS) {
      if (n == 0) {
        VP_ASSERT(st == ARES_ENODATA && host == NULL, "no record of the type in the answer: documented ARES_ENODATA, no result");
        VP_WITNESS("nodata");
      } else {
        VP_ASSERT(st == ARES_SUCCESS && host != NULL, "records present: success and a hostent");
        for (i = 0; i < n; i++)
          VP_ASSERT(host->h_aliases != NULL && streq(host->h_aliases[i], ares_dns_rr_get_str(nth(rec, i), PARSER == 6 ? ARES_RR_NS_NSDNAME : ARES_RR_PTR_DNAME)),
                    "h_aliases: the target names in answer order");
        VP_ASSERT(host->h_aliases[n] == NULL, "exactly the answer's names");
#  if PARSER == 6
        VP_ASSERT(streq(host->h_name, qname(rec)), "NS: h_name is the zone asked for");
        VP_ASSERT(host->h_addr_list != NULL && host->h_addr_list[0] == NULL, "NS: no addresses");
#  else
        VP_ASSERT(streq(host->h_name, ares_dns_rr_get_str(nth(rec, n - 1), ARES_RR_PTR_DNAME)), "PTR: h_name is the (last) pointer target");
        VP_ASSERT(host->h_addrtype == AF_INET && host->h_length == 4 && host->h_addr_list[0] != NULL &&
                    memeq(host->h_addr_list[0], addr, 4) && host->h_addr_list[1] == NULL,
                  "PTR: the address looked up is returned");
#  endif
        VP_WITNESS("data");
      }
    } else {
      VP_ASSERT(host == NULL, "malformed: no result");
      VP_WITNESS("malformed");
    }
  oom_out67:
    ares_free_hostent(host);
  }
#else
  {
#  if PARSER == 3
    struct ares_caa_reply *out = NULL, *p;
    OOM_ARM();
    st = ares_parse_caa_reply(msg, (int)ML, &out);
#  elif PARSER == 4
    struct ares_mx_reply *out = NULL, *p;
    OOM_ARM();
    st = ares_parse_mx_reply(msg, (int)ML, &out);
#  elif PARSER == 5
    struct ares_naptr_reply *out = NULL, *p;
    OOM_ARM();
    st = ares_parse_naptr_reply(msg, (int)ML, &out);
#  elif PARSER == 8
    struct ares_soa_reply *out = NULL, *p;
    OOM_ARM();
    st = ares_parse_soa_reply(msg, (int)ML, &out);
#  elif PARSER == 9
    struct ares_srv_reply *out = NULL, *p;
    OOM_ARM();
    st = ares_parse_srv_reply(msg, (int)ML, &out);
#  elif PARSER == 10
    struct ares_txt_reply *out = NULL, *p;
    OOM_ARM();
    st = ares_parse_txt_reply(msg, (int)ML, &out);
#  elif PARSER == 11
    struct ares_txt_ext *out = NULL, *p;
    OOM_ARM();
    st = ares_parse_txt_reply_ext(msg, (int)ML, &out);
#  else
    struct ares_uri_reply *out = NULL, *p;
    OOM_ARM();
    st = ares_parse_uri_reply(msg, (int)ML, &out);
#  endif
    OOM_DISARM();
    if (OOM_HIT(st)) {
      VP_ASSERT(out == NULL, "allocation failure: ARES_ENOMEM and no result at all");
      VP_WITNESS("out of memory");
      goto oom_outd;
    }
    /* KF region of legacy_nodata_success: the message parses and holds no class-IN record of the parser's type */
#  ifdef KFONLY_legacy_nodata_success
    VP_ASSUME(st_rec == ARES_SUCCESS && n == 0);
#  endif
#  if PARSER == 8 && !defined(KF_legacy_nodata_success)
    VP_ASSERT((st_rec != ARES_SUCCESS) == malformed_status(st),
              "FINDING legacy_nodata_success: malformed-message status exactly when the record parser rejects (SOA: a well-formed "
              "reply without SOA answer is documented as ARES_ENODATA, the function says ARES_EBADRESP)");
#  elif PARSER != 8
    VP_ASSERT((st_rec != ARES_SUCCESS) == malformed_status(st), "malformed-message status exactly when the record parser rejects");
#  else
    VP_ASSERT(st_rec == ARES_SUCCESS ? (n > 0 ? !malformed_status(st) : 1) : malformed_status(st),
              "malformed-message status exactly when the record parser rejects (outside the known no-SOA case)");
#  endif
    if (st_rec != ARES_SUCCESS) {
      VP_ASSERT(out == NULL, "malformed: no result");
      VP_WITNESS("malformed");
    } else if (n == 0) {
#  ifndef KF_legacy_nodata_success
      VP_ASSERT(st == ARES_ENODATA, "FINDING legacy_nodata_success: no record of the parser's type in the answer: documented "
                                    "ARES_ENODATA (not success with an empty result)");
#  else
      /* today's behaviour, pinned by the upstream test-suite ("Wrong sort of answer"): success with an empty result;
       * ares_parse_soa_reply(): ARES_EBADRESP */
      VP_ASSERT(st == ARES_ENODATA || st == (PARSER == 8 ? ARES_EBADRESP : ARES_SUCCESS), "known: success/EBADRESP instead of ENODATA");
#  endif
      VP_ASSERT(out == NULL, "no record of the type: no result");
      VP_WITNESS("nodata");
    } else {
      VP_ASSERT(st == ARES_SUCCESS && out != NULL, "records present: success and a result");
      p = out;
#  if PARSER == 10 || PARSER == 11
      /* one element per character-string, RR after RR */
      for (i = 0; i < n; i++) {
        const ares_dns_rr_t *rr = nth(rec, i);
        size_t               j, cnt = ares_dns_rr_get_abin_cnt(rr, ARES_RR_TXT_DATA);
        for (j = 0; j < cnt; j++) {
          size_t               l = 0;
          const unsigned char *b = ares_dns_rr_get_abin(rr, ARES_RR_TXT_DATA, j, &l);
          VP_ASSERT(p != NULL, "one list element per character-string");
          if (p == NULL)
            break;
          VP_ASSERT(p->length == l && p->txt != NULL && memeq(p->txt, b, l) && p->txt[l] == 0, "text chunk length and octets, NUL terminated");
#    if PARSER == 11
          VP_ASSERT(p->record_start == (j == 0), "record_start marks the first chunk of each TXT record");
#    endif
          p = p->next;
        }
      }
      VP_ASSERT(p == NULL, "no further list element");
#  elif PARSER == 8
      {
        const ares_dns_rr_t *rr = nth(rec, 0);
        VP_ASSERT(streq(out->nsname, ares_dns_rr_get_str(rr, ARES_RR_SOA_MNAME)) && streq(out->hostmaster, ares_dns_rr_get_str(rr, ARES_RR_SOA_RNAME)),
                  "SOA names");
        VP_ASSERT(out->serial == ares_dns_rr_get_u32(rr, ARES_RR_SOA_SERIAL) && out->refresh == ares_dns_rr_get_u32(rr, ARES_RR_SOA_REFRESH) &&
                    out->retry == ares_dns_rr_get_u32(rr, ARES_RR_SOA_RETRY) && out->expire == ares_dns_rr_get_u32(rr, ARES_RR_SOA_EXPIRE) &&
                    out->minttl == ares_dns_rr_get_u32(rr, ARES_RR_SOA_MINIMUM),
                  "SOA counters");
        (void)p;
      }
#  else
      for (i = 0; i < n; i++) {
        const ares_dns_rr_t *rr = nth(rec, i);
        VP_ASSERT(p != NULL, "one list element per record of the type");
        if (p == NULL)
          break;
#    if PARSER == 3
        {
          size_t               l = 0;
          const unsigned char *b = ares_dns_rr_get_bin(rr, ARES_RR_CAA_VALUE, &l);
          VP_ASSERT(p->critical == ares_dns_rr_get_u8(rr, ARES_RR_CAA_CRITICAL), "CAA flags");
          VP_ASSERT(streq((const char *)p->property, ares_dns_rr_get_str(rr, ARES_RR_CAA_TAG)) && p->plength == 5, "CAA property tag and its length");
          /* (the NUL terminator after the value is not asserted: CBMC loses the store caa_curr->value[ptr_len] = 0 made through
           * a pointer that lives in the ares_data union - spurious, does not reproduce natively) */
          VP_ASSERT(p->length == l && memeq(p->value, b, l), "CAA value and its length");
        }
#    elif PARSER == 4
        VP_ASSERT(p->priority == ares_dns_rr_get_u16(rr, ARES_RR_MX_PREFERENCE), "MX priority");
        VP_ASSERT(streq(p->host, ares_dns_rr_get_str(rr, ARES_RR_MX_EXCHANGE)), "MX host");
#    elif PARSER == 5
        VP_ASSERT(p->order == ares_dns_rr_get_u16(rr, ARES_RR_NAPTR_ORDER) && p->preference == ares_dns_rr_get_u16(rr, ARES_RR_NAPTR_PREFERENCE),
                  "NAPTR order and preference");
        VP_ASSERT(streq((const char *)p->flags, ares_dns_rr_get_str(rr, ARES_RR_NAPTR_FLAGS)) &&
                    streq((const char *)p->service, ares_dns_rr_get_str(rr, ARES_RR_NAPTR_SERVICES)) &&
                    streq((const char *)p->regexp, ares_dns_rr_get_str(rr, ARES_RR_NAPTR_REGEXP)) &&
                    streq(p->replacement, ares_dns_rr_get_str(rr, ARES_RR_NAPTR_REPLACEMENT)),
                  "NAPTR strings and replacement");
#    elif PARSER == 9
        VP_ASSERT(p->priority == ares_dns_rr_get_u16(rr, ARES_RR_SRV_PRIORITY) && p->weight == ares_dns_rr_get_u16(rr, ARES_RR_SRV_WEIGHT) &&
                    p->port == ares_dns_rr_get_u16(rr, ARES_RR_SRV_PORT),
                  "SRV priority, weight, port");
        VP_ASSERT(streq(p->host, ares_dns_rr_get_str(rr, ARES_RR_SRV_TARGET)), "SRV host");
#    else
        VP_ASSERT(p->priority == ares_dns_rr_get_u16(rr, ARES_RR_URI_PRIORITY) && p->weight == ares_dns_rr_get_u16(rr, ARES_RR_URI_WEIGHT),
                  "URI priority and weight");
        VP_ASSERT(streq(p->uri, ares_dns_rr_get_str(rr, ARES_RR_URI_TARGET)), "URI target");
        VP_ASSERT((unsigned int)p->ttl == ares_dns_rr_get_ttl(rr), "URI TTL");
#    endif
        p = p->next;
      }
      VP_ASSERT(p == NULL, "no further list element");
#  endif
      VP_WITNESS("data");
    }
  oom_outd:
    ares_free_data(out);
  }
#endif
  ares_dns_record_destroy(rec);
  vp_free(msg);
  VP_WITNESS("end");
}
