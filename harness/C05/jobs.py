import os, sys
sys.path.insert(0, os.path.join(os.path.dirname(os.path.abspath(__file__)), "..", "machine"))
import mjobs
OUTSIDE = ("statistical quality of ids / 0x20 bits (RNG is a stub); kernel socket behaviour; the cookie verdict itself (C17); "
           "message bytes (record layer abstract: the parser stub hands out an abstract response)")
ASSUMPTIONS = mjobs.ASSUMPTIONS

def c17_validate_jobs(tier):
    import importlib.util
    p = os.path.join(os.path.dirname(os.path.abspath(__file__)), "..", "C17", "jobs.py")
    spec = importlib.util.spec_from_file_location("jobs_C17_reuse", p)
    m = importlib.util.module_from_spec(spec); spec.loader.exec_module(m)
    out = []
    for j in m.jobs(tier, 0):
        j = dict(j); j["harness"] = "../C17/" + j["harness"]
        out.append(j)
    return out

def jobs(tier, seed):
    J = mjobs.answer_jobs(tier)
    for i, nm in enumerate(["aB1.c", "x-Y_z.9", "abcdefghi"]):
        J.append(dict(name="qid_0x20_%d" % i, harness="qid_0x20.c", defines=['-DNAME="%s"' % nm],
                      real=["src/lib/ares_library_init.c", "src/lib/str/ares_str.c"],
                      support=["vp_rt.c", "valloc.c", "memloops.c", "szvp_ref.c", "lock_ghost.c", "dnsrec_abs.c"],
                      unwind=12, unwindset=["generate_unique_qid.0:4"], backend="cadical", mem_gb=6,
                      cbmc=["--unwinding-assertions"], witnesses=["end"],
                      bound="generate_unique_qid with 2 live ids (all 16-bit values) and up to 3 draws; ares_apply_dns0x20 on "
                            "the name '%s' for all random bit patterns" % nm))
    J.append(dict(name="addr_eq", harness="addr_eq.c", real=["src/lib/ares_socket.c"], support=["vp_rt.c", "memloops.c"], unwind=18,
                  backend="cadical", mem_gb=6, witnesses=["end", "ipv6 match"],
                  bound="ares_sockaddr_addr_eq for ALL IPv4/IPv6 address pairs and family combinations"))
    # "passes the DNS-cookie checks": the cookie verdict is symbolic in answer_step; the real verdict function is the
    # subject of C17's validate jobs, re-run here so that this check is self-contained
    J += c17_validate_jobs(tier)
    return J
