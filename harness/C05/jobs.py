import os, sys
sys.path.insert(0, os.path.join(os.path.dirname(os.path.abspath(__file__)), "..", "machine"))
import mjobs
OUTSIDE = ("statistical quality of ids / 0x20 bits (RNG is a stub); kernel socket behaviour; the cookie verdict itself (C17); "
           "message bytes (record layer abstract: the parser stub hands out an abstract response)")
ASSUMPTIONS = mjobs.ASSUMPTIONS

def jobs(tier, seed):
    return mjobs.answer_jobs(tier)
