/* C05: the UDP source-address filter.  ares_sockaddr_addr_eq() (used by ares_conn_read to drop datagrams that do not
 * come from the server's address) must compare the WHOLE address of the right family - for all address values.
 * Real: ares_sockaddr_addr_eq (ares_socket.c). */
#include "vp.h"
#include "ares_private.h"
#include <netinet/in.h>

void harness(void)
{
  struct sockaddr_storage ss;
  struct sockaddr_in     *s4 = (struct sockaddr_in *)(void *)&ss;
  struct sockaddr_in6    *s6 = (struct sockaddr_in6 *)(void *)&ss;
  struct ares_addr        a;
  unsigned char           x[16], y[16];
  int                     fam_sa = vp_bool() ? AF_INET : AF_INET6, fam_a = vp_bool() ? AF_INET : AF_INET6, same, i;
  ares_bool_t             r;

  vp_bytes(x, 16);
  vp_bytes(y, 16);
  memset(&ss, 0, sizeof(ss));
  memset(&a, 0, sizeof(a));
  ss.ss_family = (sa_family_t)fam_sa;
  if (fam_sa == AF_INET) memcpy(&s4->sin_addr, x, 4); else memcpy(&s6->sin6_addr, x, 16);
  a.family = fam_a;
  if (fam_a == AF_INET) memcpy(&a.addr.addr4, y, 4); else memcpy(&a.addr.addr6, y, 16);

  r = ares_sockaddr_addr_eq((struct sockaddr *)(void *)&ss, &a);

  same = (fam_sa == fam_a);
  for (i = 0; i < (fam_a == AF_INET ? 4 : 16); i++)
    if (x[i] != y[i]) same = 0;
  VP_ASSERT((r == ARES_TRUE) == (same != 0), "a datagram's source matches the server only if family and EVERY address byte are equal");
  if (r == ARES_TRUE && fam_a == AF_INET6) VP_WITNESS("ipv6 match");
  VP_WITNESS("end");
}
