/* C05 kernels: (a) generate_unique_qid() never returns an id that a live request already uses; (b)
 * ares_apply_dns0x20() changes nothing but the case bit of ASCII letters (length and all other bytes preserved), for
 * ALL random bit patterns.  Real: both statics of ares_send.c (TU included).  RNG: arbitrary values. */
#include "vp.h"
#include "ares_send.c"
#include "dnsrec_abs.h"

static int            ids_drawn;
static unsigned short live_a, live_b;
unsigned short ares_generate_new_id(ares_rand_state *s)
{
  unsigned short r = vp_u16();
  (void)s;
  ids_drawn++;
  /* fairness of the random source: it does not return a colliding id three times in a row */
  if (ids_drawn >= 3) VP_ASSUME(r != live_a && r != live_b);
  return r;
}
void ares_rand_bytes(ares_rand_state *s, unsigned char *buf, size_t len) { (void)s; vp_bytes(buf, len); }
/* unreached neighbours of ares_send.c */
void          ares_tvnow(ares_timeval_t *now) { now->sec = 1; now->usec = 0; }
ares_status_t ares_qcache_fetch(ares_channel_t *c, const ares_timeval_t *n, const ares_dns_record_t *r, const ares_dns_record_t **o)
{ (void)c;(void)n;(void)r;(void)o; return ARES_ENOTFOUND; }

void harness(void)
{
  static ares_channel_t ch;
  static int            q1, q2;
  unsigned short        a = vp_u16(), b = vp_u16(), id;
  ares_dns_record_t    *rec;
  const char           *out = NULL;
  static const char     name[] = NAME;
  size_t                i, n = sizeof(name) - 1;
  ares_status_t         st;

  vp_alloc_install();
  ch.queries_by_qid = ares_htable_szvp_create(NULL);
  VP_ASSUME(ch.queries_by_qid != NULL);
  live_a = a;
  live_b = b;
  ares_htable_szvp_insert(ch.queries_by_qid, a, &q1);
  ares_htable_szvp_insert(ch.queries_by_qid, b, &q2);
  id = generate_unique_qid(&ch);
  VP_ASSERT(id != a && id != b, "a new request never gets the id of a live request");
  if (ids_drawn > 1) VP_WITNESS("an id collision was redrawn");

  rec = vp_absrec_new(1);
  vp_absrec_set_question(rec, name, 1, 1);
  st = ares_apply_dns0x20(&ch, rec);
  VP_ASSERT(st == ARES_SUCCESS, "0x20 randomisation succeeds for a short name");
  ares_dns_record_query_get(rec, 0, &out, NULL, NULL);
  for (i = 0; i < n; i++) {
    int alpha = (name[i] >= 'a' && name[i] <= 'z') || (name[i] >= 'A' && name[i] <= 'Z');
    if (alpha) VP_ASSERT((out[i] | 0x20) == (name[i] | 0x20), "0x20 only flips the case bit of letters");
    else VP_ASSERT(out[i] == name[i], "0x20 leaves non-letters untouched");
  }
  VP_ASSERT(out[n] == 0, "0x20 preserves the length");
  ares_dns_record_destroy(rec);
  VP_WITNESS("end");
}
